import IdModel.Val.KbModel
import IdModel.Props.C02
import IdModel.Props.C07
/-!
# C16 — SD-JWT credentials and key-binding JWTs are accepted only when fully bound

Property theorems only.  The SD-JWT credential path is the C02 model (`IdModel.Val.Model`) with its disclosure flag:
the theorems of C02 apply verbatim and additionally yield `sdOk`.  The key-binding JWT is `IdModel.Val.KbModel`.
Whether a failed KB signature is an error (and not an `unwrap`), and the order of the claim checks, is regenerated
from the source (`IdModel.Gen.C16`).
-/
namespace IdModel.Props.C16
open IdModel.Val IdModel.Doc IdModel.Vc IdModel.Time

/-- **an SD-JWT credential is accepted only under the conditions of a plain JWT credential, and only if the disclosure
decoder accepted every supplied disclosure against the signed claims** -/
theorem sd_accepted_sound (docs : List Doc) (tok : Token) (o : VOpts) (service : Option (List Nat)) (c : Cred)
    (h : validate docs tok o service = .ok c) :
    C02.Verified docs tok o c ∧ C02.UnitsHold docs tok c o service ∧ tok.sdOk = true := by
  obtain ⟨hv, hu⟩ := C02.accepted_sound docs tok o service c h
  obtain ⟨mid, doc, m, cl, v⟩ := hv
  exact ⟨⟨mid, doc, m, cl, v⟩, hu, v.sd⟩

/-- a disclosure the decoder refuses makes the credential unacceptable, whatever else holds -/
theorem sd_rejects_bad_disclosure (docs : List Doc) (tok : Token) (o : VOpts) (service : Option (List Nat))
    (h : tok.sdOk = false) : ∃ e, validate docs tok o service = .error e := by
  cases hr : validate docs tok o service with
  | error e => exact ⟨e, rfl⟩
  | ok c =>
    have := (sd_accepted_sound docs tok o service c hr).2.2
    rw [h] at this; cases this

theorem firstErr_none (digest : Nat) (c : KbClaims) (o : KbOpts) (l : List String) (h : firstErr digest c o l = none) :
    ∀ n ∈ l, kbClaimCheck digest c o n = none := by
  induction l with
  | nil => intro n hn; cases hn
  | cons x t ih =>
    unfold firstErr at h
    cases hx : kbClaimCheck digest c o x with
    | some e => rw [hx] at h; cases h
    | none =>
      rw [hx] at h
      intro n hn
      rcases List.mem_cons.1 hn with hn | hn
      · rw [hn]; exact hx
      · exact ih h n hn

/-- **a key-binding JWT is accepted only when fully bound** -/
theorem kb_accepted_sound (doc : Doc) (digest : Nat) (tok : KbTok) (o : KbOpts) (c : KbClaims)
    (h : validateKb doc digest tok o = .ok c) :
    tok.present = true ∧ tok.hasherOk = true ∧ tok.typ = some true ∧
    (∃ mid m, (o.methodId = some mid ∨ (o.methodId = none ∧ tok.kid = some (some mid))) ∧
      resolveMethod doc (Query.ofId mid) o.scope = some m ∧ m ∈ allMethods doc ∧ m.body ≠ 0 ∧ m.body = tok.sigKey) ∧
    tok.claims = some c ∧
    c.sdHash = digest ∧
    (∀ n, o.nonce = some n → c.nonce = n) ∧
    (∀ a, o.aud = some a → c.aud = a) ∧
    (MIN ≤ c.iat ∧ c.iat ≤ MAX) ∧
    (∀ e, o.earliest = some e → e ≤ c.iat) ∧
    (∀ l, o.latest = some l → c.iat ≤ l) ∧
    (o.latest = none → c.iat ≤ o.now) := by
  unfold validateKb at h
  by_cases h1 : (!tok.present) = true
  · rw [if_pos h1] at h; cases h
  · rw [if_neg h1] at h
    by_cases h2 : (!tok.hasherOk) = true
    · rw [if_pos h2] at h; cases h
    · rw [if_neg h2] at h
      by_cases h3 : tok.typ ≠ some true
      · rw [if_pos h3] at h; cases h
      · rw [if_neg h3] at h
        cases hm : kbMethodId tok o with
        | error e => rw [hm] at h; cases h
        | ok mid =>
          rw [hm] at h
          simp only at h
          have hsrc : o.methodId = some mid ∨ (o.methodId = none ∧ tok.kid = some (some mid)) := by
            unfold kbMethodId at hm
            cases ho : o.methodId with
            | some x => rw [ho] at hm; injection hm with hm; left; rw [hm]
            | none =>
              rw [ho] at hm
              right
              refine ⟨rfl, ?_⟩
              cases hk : tok.kid with
              | none => rw [hk] at hm; cases hm
              | some kk =>
                rw [hk] at hm
                cases kk with
                | none => cases hm
                | some i => injection hm with hm; rw [hm]
          cases hr : resolveMethod doc (Query.ofId mid) o.scope with
          | none => rw [hr] at h; cases h
          | some m =>
            rw [hr] at h
            simp only at h
            by_cases hb : m.body = 0
            · rw [if_pos hb] at h; cases h
            · rw [if_neg hb] at h
              by_cases hs : m.body ≠ tok.sigKey
              · rw [if_pos hs] at h
                split at h <;> cases h
              · rw [if_neg hs] at h
                cases hc : tok.claims with
                | none => rw [hc] at h; cases h
                | some c' =>
                  rw [hc] at h
                  simp only at h
                  cases hf : firstErr digest c' o Gen.C16.kbChecks with
                  | some e => rw [hf] at h; cases h
                  | none =>
                    rw [hf] at h
                    injection h with h
                    subst h
                    have hall := firstErr_none digest c' o _ hf
                    have k1 := hall "digest" (by decide)
                    have k2 := hall "nonce" (by decide)
                    have k3 := hall "aud" (by decide)
                    have k4 := hall "iat" (by decide)
                    have k5 := hall "earliest" (by decide)
                    have k6 := hall "latest" (by decide)
                    simp only [kbClaimCheck] at k1 k2 k3 k4 k5 k6
                    refine ⟨by simpa using h1, by simpa using h2, by simpa using h3,
                      ⟨mid, m, hsrc, hr, C02.resolve_embedded doc _ o.scope m hr, hb, by simpa using hs⟩, rfl, ?_, ?_, ?_,
                      ?_, ?_, ?_, ?_⟩
                    · by_cases hd : c'.sdHash = digest
                      · exact hd
                      · simp [hd] at k1
                    · intro n hn
                      rw [hn] at k2
                      by_cases hd : n = c'.nonce
                      · exact hd.symm
                      · simp [hd] at k2
                    · intro a ha
                      rw [ha] at k3
                      by_cases hd : a = c'.aud
                      · exact hd.symm
                      · simp [hd] at k3
                    · by_cases hr' : C07.InRange c'.iat
                      · exact hr'
                      · rw [(C13.fromUnix_iff_range c'.iat).2 hr'] at k4; cases k4
                    · intro e he
                      rw [he] at k5
                      by_cases hd : c'.iat < e
                      · simp [hd] at k5
                      · omega
                    · intro l hl
                      rw [hl] at k6
                      by_cases hd : l < c'.iat
                      · simp [hd] at k6
                      · omega
                    · intro hl
                      rw [hl] at k6
                      by_cases hd : o.now < c'.iat
                      · simp [hd] at k6
                      · omega

/-- **never a crash**: every failure of the key-binding validation is an error value -/
theorem kb_never_panics (doc : Doc) (digest : Nat) (tok : KbTok) (o : KbOpts) :
    validateKb doc digest tok o ≠ .error .panic := by
  unfold validateKb
  intro h
  by_cases h1 : (!tok.present) = true
  · rw [if_pos h1] at h; cases h
  · rw [if_neg h1] at h
    by_cases h2 : (!tok.hasherOk) = true
    · rw [if_pos h2] at h; cases h
    · rw [if_neg h2] at h
      by_cases h3 : tok.typ ≠ some true
      · rw [if_pos h3] at h; cases h
      · rw [if_neg h3] at h
        cases hm : kbMethodId tok o with
        | error e =>
          rw [hm] at h
          unfold kbMethodId at hm
          cases ho : o.methodId with
          | some x => rw [ho] at hm; cases hm
          | none =>
            rw [ho] at hm
            cases hk : tok.kid with
            | none => rw [hk] at hm; injection hm with hm; subst hm; cases h
            | some kk =>
              rw [hk] at hm
              cases kk with
              | none => injection hm with hm; subst hm; cases h
              | some i => cases hm
        | ok mid =>
          rw [hm] at h
          simp only at h
          cases hr : resolveMethod doc (Query.ofId mid) o.scope with
          | none => rw [hr] at h; cases h
          | some m =>
            rw [hr] at h
            simp only at h
            by_cases hb : m.body = 0
            · rw [if_pos hb] at h; cases h
            · rw [if_neg hb] at h
              by_cases hs : m.body ≠ tok.sigKey
              · rw [if_pos hs] at h
                simp only [Gen.C16.kbSignatureIsError, ↓reduceIte] at h
                cases h
              · rw [if_neg hs] at h
                cases hc : tok.claims with
                | none => rw [hc] at h; cases h
                | some c' =>
                  rw [hc] at h
                  simp only at h
                  cases hf : firstErr digest c' o Gen.C16.kbChecks with
                  | none => rw [hf] at h; cases h
                  | some e =>
                    rw [hf] at h
                    injection h with h
                    subst h
                    -- no claim check produces `panic`
                    have : ∀ l, firstErr digest c' o l ≠ some .panic := by
                      intro l
                      induction l with
                      | nil => intro hh; cases hh
                      | cons x t ih =>
                        unfold firstErr
                        cases hx : kbClaimCheck digest c' o x with
                        | none => exact ih
                        | some e' =>
                          intro hh
                          injection hh with hh
                          subst hh
                          unfold kbClaimCheck at hx
                          split at hx <;> (try split at hx) <;> (try split at hx) <;> simp_all
                    exact this _ hf

/-! ## non-vacuity -/

def holder : Doc := ⟨2, [⟨⟨2, 0, some 1⟩, 21⟩], [], [], [], [], [], []⟩
def kbTok : KbTok := ⟨true, true, some true, some (some ⟨2, 0, some 1⟩), 21, some ⟨1, 7, 4, 100⟩⟩
def kbOpts : KbOpts := ⟨none, none, some 7, some 4, some 50, some 150, 0⟩

deriving instance DecidableEq for Except

example : validateKb holder 1 kbTok kbOpts = .ok ⟨1, 7, 4, 100⟩ := by decide +kernel
example : validateKb holder 2 kbTok kbOpts = .error .digest := by decide +kernel
example : validateKb holder 1 { kbTok with sigKey := 22 } kbOpts = .error .signature := by decide +kernel
example : validateKb holder 1 kbTok { kbOpts with latest := none } = .error .future := by decide +kernel

end IdModel.Props.C16
