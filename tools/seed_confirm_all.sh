#!/bin/bash
# phase A for one property: all seeds of /tmp/seed-$1/out/*
P=$1
for d in /tmp/seed-$P/out/*/; do
  n=$(basename $d); [ -f $d/patch.diff ] || continue
  crate=$(sed -n 1p $d/crate.txt | tr -d '\r' | awk '{print $1}')
  extra=$(sed -n 2p $d/crate.txt | tr -d '\r')
  echo "== $P-$n crate=$crate extra=$extra"
  SEED_PHASE=confirm /verif/tools/seed_confirm.sh $P $n $crate $extra 2>&1 | tail -2
done
