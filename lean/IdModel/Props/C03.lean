import IdModel.Val.PModel
import IdModel.Props.C02
import IdModel.Props.C07
/-!
# C03 — JWT presentation validation binds the token to the holder document

Property theorems only.  `IdModel.Val.PModel` transliterates `CoreDocument::verify_jws` and
`JwtPresentationValidator::validate` over the C04 document model and the C07 claims model.
-/
namespace IdModel.Props.C03
open IdModel.Val IdModel.Doc IdModel.Vc IdModel.Time

/-- everything an accepted presentation token satisfies -/
structure Accepted (doc : Doc) (tok : PTok) (o : PVOpts) (p : Pres) (r : POpts) (q : Query) (m : Method) (cl : PClaims) :
    Prop where
  /-- header nonce = configured nonce -/
  nonce : tok.nonce = o.nonce
  /-- the query: the configured method id, else the `kid` -/
  qSrc : (∃ i, o.methodId = some i ∧ q = Query.ofId i) ∨ (o.methodId = none ∧ tok.kid = some q)
  /-- a verification method embedded in the holder document, found for that query within the configured scope -/
  resolved : resolveMethod doc q o.scope = some m
  methodIn : m ∈ allMethods doc
  /-- it holds a key and the signature verifies under it -/
  hasKey : m.body ≠ 0
  sig : m.body = tok.sigKey
  /-- the claims are the signed ones; the issuer claim is a DID, the holder document's id -/
  clSrc : tok.claims = some cl
  issDid : tok.issIsDid = true
  issEq : cl.iss = doc.id
  /-- expiry not before the bound, issuance not after the bound, both within years 0000–9999 -/
  expiry : ∀ e, cl.exp = some e → r.expiration = some e ∧ o.earliestExpiry ≤ e ∧ C07.InRange e
  noExpiry : cl.exp = none → r.expiration = none
  issuance : ∀ d, r.issuance = some d → d ≤ o.latestIssuance ∧ C07.InRange d ∧
    (cl.nbf = some d ∨ (cl.nbf = none ∧ cl.iat = some d))
  noIssuance : r.issuance = none → cl.nbf = none ∧ cl.iat = none
  /-- holder / id repeated inside `vp` agree with the registered claims; the presentation returned is built from them -/
  vpId : ∀ i, cl.vp.id = some i → cl.jti = some i
  vpHolder : ∀ x, cl.vp.holder = some x → x = cl.iss
  pres : p = ⟨cl.jti, cl.iss, cl.vp.rest⟩
  /-- audience and custom claims are the signed ones -/
  aud : r.audience = cl.aud
  custom : r.custom = cl.custom

theorem fromUnix_ok_range (u v : Int) (h : fromUnix u = .ok v) : v = u ∧ C07.InRange u := by
  by_cases hr : C07.InRange u
  · rw [((C13.fromUnix_iff_range u).1).2 hr] at h
    injection h with h
    exact ⟨h.symm, hr⟩
  · rw [(C13.fromUnix_iff_range u).2 hr] at h
    cases h

theorem parseExp_ok (cl : PClaims) (ex : Option Int) (h : parseExp cl = .ok ex) :
    (∀ e, cl.exp = some e → ex = some e ∧ C07.InRange e) ∧ (cl.exp = none → ex = none) := by
  unfold parseExp at h
  cases he : cl.exp with
  | none => rw [he] at h; injection h with h; exact ⟨fun e h' => (by cases h'), fun _ => h.symm⟩
  | some e =>
    rw [he] at h
    simp only at h
    cases hf : fromUnix e with
    | ok v =>
      rw [hf] at h
      injection h with h
      obtain ⟨e1, r1⟩ := fromUnix_ok_range e v hf
      refine ⟨?_, fun h' => by cases h'⟩
      intro e' he'
      injection he' with he'
      subst he'
      exact ⟨by rw [← h, e1], r1⟩
    | err x => rw [hf] at h; cases h
    | panic x => rw [hf] at h; cases h

theorem parseIssuance_ok (cl : PClaims) (is : Option Int) (h : parseIssuance cl = .ok is) :
    (∀ d, is = some d → C07.InRange d ∧ (cl.nbf = some d ∨ (cl.nbf = none ∧ cl.iat = some d))) ∧
    (is = none → cl.nbf = none ∧ cl.iat = none) := by
  unfold parseIssuance at h
  cases hia : cl.iat with
  | none =>
    cases hnb : cl.nbf with
    | none =>
      rw [hia, hnb] at h
      injection h with h
      subst h
      exact ⟨fun d h' => (by cases h'), fun _ => ⟨rfl, rfl⟩⟩
    | some n =>
      rw [hia, hnb] at h
      simp only at h
      cases ht : toIssuanceDate none (some n) with
      | error x => rw [ht] at h; cases h
      | ok d =>
        rw [ht] at h
        injection h with h
        subst h
        refine ⟨?_, fun h' => by cases h'⟩
        intro d' hd'
        injection hd' with hd'
        subst hd'
        have := C07.toIssuanceDate_ok none (some n) d ht
        simpa using this
  | some i =>
    rw [hia] at h
    simp only at h
    cases ht : toIssuanceDate (some i) cl.nbf with
    | error x => rw [ht] at h; cases h
    | ok d =>
      rw [ht] at h
      injection h with h
      subst h
      refine ⟨?_, fun h' => by cases h'⟩
      intro d' hd'
      injection hd' with hd'
      subst hd'
      exact C07.toIssuanceDate_ok (some i) cl.nbf d ht

/-- **accepted ⇒ bound to the holder document, within the bounds, consistent, and returned as signed** -/
theorem accepted_sound (doc : Doc) (tok : PTok) (o : PVOpts) (p : Pres) (r : POpts)
    (h : validateP doc tok o = .ok (p, r)) : ∃ q m cl, Accepted doc tok o p r q m cl := by
  unfold validateP at h
  cases hv : verifyJws doc tok o with
  | error e => rw [hv] at h; cases h
  | ok u =>
    rw [hv] at h
    simp only at h
    unfold verifyJws at hv
    by_cases hn : tok.nonce ≠ o.nonce
    · rw [if_pos hn] at hv; cases hv
    · rw [if_neg hn] at hv
      have hn' : tok.nonce = o.nonce := by simpa using hn
      cases hq : queryOf tok o with
      | none => rw [hq] at hv; cases hv
      | some q =>
        rw [hq] at hv
        simp only at hv
        have hqsrc : (∃ i, o.methodId = some i ∧ q = Query.ofId i) ∨ (o.methodId = none ∧ tok.kid = some q) := by
          unfold queryOf at hq
          cases hm : o.methodId with
          | some i => rw [hm] at hq; injection hq with hq; exact Or.inl ⟨i, rfl, hq.symm⟩
          | none => rw [hm] at hq; exact Or.inr ⟨rfl, hq⟩
        cases hr : resolveMethod doc q o.scope with
        | none => rw [hr] at hv; cases hv
        | some m =>
          rw [hr] at hv
          simp only at hv
          by_cases hb : m.body = 0
          · rw [if_pos hb] at hv; cases hv
          · rw [if_neg hb] at hv
            by_cases hs : m.body ≠ tok.sigKey
            · rw [if_pos hs] at hv; cases hv
            · have hs' : m.body = tok.sigKey := by simpa using hs
              cases hc : tok.claims with
              | none => rw [hc] at h; cases h
              | some cl =>
                rw [hc] at h
                simp only at h
                by_cases hd : (!tok.issIsDid) = true
                · rw [if_pos hd] at h; cases h
                · rw [if_neg hd] at h
                  by_cases hi : cl.iss ≠ doc.id
                  · rw [if_pos hi] at h; cases h
                  · rw [if_neg hi] at h
                    have hi' : cl.iss = doc.id := by simpa using hi
                    cases hpe : parseExp cl with
                    | error x => rw [hpe] at h; cases h
                    | ok ex =>
                      rw [hpe] at h
                      simp only at h
                      obtain ⟨hex1, hex2⟩ := parseExp_ok cl ex hpe
                      by_cases hee : (!expiryOk o ex) = true
                      · rw [if_pos hee] at h; cases h
                      · rw [if_neg hee] at h
                        cases hpi : parseIssuance cl with
                        | error x => rw [hpi] at h; cases h
                        | ok is =>
                          rw [hpi] at h
                          simp only at h
                          obtain ⟨his1, his2⟩ := parseIssuance_ok cl is hpi
                          by_cases hii : (!issuanceOk o is) = true
                          · rw [if_pos hii] at h; cases h
                          · rw [if_neg hii] at h
                            cases htp : tryIntoPresentation cl with
                            | error x => rw [htp] at h; cases h
                            | ok p' =>
                              rw [htp] at h
                              simp only at h
                              injection h with h
                              injection h with h1 h2
                              subst h1; subst h2
                              obtain ⟨s1, s2, s3, s4, s5⟩ := C07.p_accepted_sound cl p' htp
                              refine ⟨q, m, cl, ⟨hn', hqsrc, hr, C02.resolve_embedded doc q o.scope m hr, hb, hs', hc,
                                by simpa using hd, hi', ?_, hex2, ?_, his2, s1, s2, ?_, rfl, rfl⟩⟩
                              · intro e he
                                obtain ⟨a, b⟩ := hex1 e he
                                refine ⟨a, ?_, b⟩
                                rw [a] at hee
                                simpa [expiryOk] using hee
                              · intro d hd'
                                have hd2 : is = some d := hd'
                                obtain ⟨a, b⟩ := his1 d hd2
                                refine ⟨?_, a, b⟩
                                rw [hd2] at hii
                                simpa [issuanceOk] using hii
                              · cases p'
                                simp_all

/-- **the conditions are exact**: a token that carries the configured nonce, whose query (configured method id, else `kid`)
resolves within the configured scope to a method holding the signing key, whose claims name the holder document as a DID
issuer, whose dates parse and lie within the bounds and whose `vp` is consistent with the registered claims IS accepted,
and what is returned is read from those claims (with `accepted_sound`: accepted iff these hold) -/
theorem accepted_complete (doc : Doc) (tok : PTok) (o : PVOpts) (q : Query) (m : Method) (cl : PClaims)
    (ex is : Option Int) (p : Pres)
    (hn : tok.nonce = o.nonce) (hq : queryOf tok o = some q) (hr : resolveMethod doc q o.scope = some m)
    (hk : m.body ≠ 0) (hs : m.body = tok.sigKey) (hc : tok.claims = some cl) (hd : tok.issIsDid = true)
    (hi : cl.iss = doc.id) (he : parseExp cl = .ok ex) (heo : expiryOk o ex = true)
    (his : parseIssuance cl = .ok is) (hio : issuanceOk o is = true) (hp : tryIntoPresentation cl = .ok p) :
    validateP doc tok o = .ok (p, ⟨ex, is, cl.aud, cl.custom⟩) := by
  have hv : verifyJws doc tok o = .ok () := by
    unfold verifyJws
    have hk' : ¬ tok.sigKey = 0 := hs ▸ hk
    simp only [hn, ne_eq, not_true_eq_false, ↓reduceIte, hq, hr, hs, hk']
  unfold validateP
  simp only [hv, hc, hd, Bool.not_true, Bool.false_eq_true, ↓reduceIte, hi, ne_eq, not_true_eq_false, he, heo, his, hio, hp]


/-- an `iss` that is not the holder document's id is refused, whatever else holds -/
theorem rejects_other_holder (doc : Doc) (tok : PTok) (o : PVOpts) (cl : PClaims) (hc : tok.claims = some cl)
    (hne : cl.iss ≠ doc.id) : ∃ e, validateP doc tok o = .error e := by
  cases h : validateP doc tok o with
  | error e => exact ⟨e, rfl⟩
  | ok pr =>
    obtain ⟨p, r⟩ := pr
    obtain ⟨q, m, cl', a⟩ := accepted_sound doc tok o p r h
    have : cl' = cl := by have := a.clSrc; rw [hc] at this; injection this with this; exact this.symm
    subst this
    exact absurd a.issEq hne

/-- a signature that does not verify under the key of the resolved method is refused -/
theorem rejects_wrong_key (doc : Doc) (tok : PTok) (o : PVOpts) (q : Query) (m : Method)
    (hq : queryOf tok o = some q)
    (hr : resolveMethod doc q o.scope = some m) (hne : m.body ≠ tok.sigKey) : ∃ e, validateP doc tok o = .error e := by
  unfold validateP verifyJws
  by_cases hn : tok.nonce ≠ o.nonce
  · rw [if_pos hn]; exact ⟨_, rfl⟩
  · rw [if_neg hn, hq]
    simp only [hr]
    by_cases hb : m.body = 0
    · rw [if_pos hb]; exact ⟨_, rfl⟩
    · rw [if_neg hb, if_pos hne]; exact ⟨_, rfl⟩

/-! ## non-vacuity -/

def holderDoc : Doc := ⟨2, [⟨⟨2, 0, some 1⟩, 21⟩, ⟨⟨5, 0, some 1⟩, 51⟩], [], [], [], [], [], []⟩
def goodP : PClaims := ⟨some 1000, 2, none, some 100, some 1, some 4, ⟨none, some 2, 0⟩, some 3⟩
def tokP : PTok := ⟨some ⟨none, some 1⟩, none, 21, some goodP, true⟩
def optsP : PVOpts := ⟨none, none, none, 500, 200⟩

deriving instance DecidableEq for Except

example : validateP holderDoc tokP optsP = .ok (⟨some 1, 2, 0⟩, ⟨some 1000, some 100, some 4, some 3⟩) := by decide +kernel
/-- signed with the key of the foreign method listed in the holder document: refused under the bare fragment (the
local method is found first), accepted under that method's full id, and still bound to the holder by `iss` -/
example : validateP holderDoc { tokP with sigKey := 51 } optsP = .error .signature := by decide +kernel
example : (validateP holderDoc { tokP with sigKey := 51, kid := some (Query.ofId ⟨5, 0, some 1⟩) } optsP).isOk = true := by
  decide +kernel
example : validateP holderDoc { tokP with claims := some { goodP with iss := 5 } } optsP = .error .documentMismatch := by
  decide +kernel

end IdModel.Props.C03
