import IdModel.Time.Lemmas
/-!
# C13 — timestamps are total, canonical whole-second UTC instants in years 0000–9999

A timestamp is modelled by its unix second count. The calendar is the proleptic Gregorian
calendar; the year gates and the offset normalisation used by `parse` are regenerated from
timestamp.rs on every run (`IdModel.Gen.C13`).
-/
namespace IdModel.Props.C13
open IdModel IdModel.Time IdModel.Gen.C13

/-! ## the calendar is a bijection between day numbers and valid civil dates -/

theorem calendar_days_civil_days (n : Nat) :
    daysFromCivil (civilFromDays n).1 (civilFromDays n).2.1 (civilFromDays n).2.2 = n ∧
    validDate (civilFromDays n).1 (civilFromDays n).2.1 (civilFromDays n).2.2 = true :=
  ⟨days_civil_days n, civilFromDays_valid n⟩

theorem calendar_civil_days_civil (y m d : Nat) (h : validDate y m d = true) :
    civilFromDays (daysFromCivil y m d) = (y, m, d) := civil_days_civil y m d h

/-- the two constants of the documentation are the calendar's own range ends -/
theorem range_ends : unixOf 0 1 1 0 0 0 0 = MIN ∧ unixOf 9999 12 31 23 59 59 0 = MAX :=
  ⟨MIN_eq, MAX_eq⟩

/-! ## the year gate is exactly the range [MIN, MAX] -/

theorem yearOf_lt_iff (n : Nat) : yearOf n < 10000 ↔ n < 3652425 := by
  obtain ⟨h1, h2⟩ := yearOf_spec n
  constructor
  · intro h
    have := yearStart_mono (show yearOf n + 1 ≤ 10000 by omega)
    rw [yearStart_10000] at this; omega
  · intro h
    rcases Nat.lt_or_ge (yearOf n) 10000 with h3 | h3
    · exact h3
    · have := yearStart_mono h3
      rw [yearStart_10000] at this; omega

theorem yearGate_iff_range (u : Int) : yearGate 0 10000 u = true ↔ (MIN ≤ u ∧ u ≤ MAX) := by
  unfold yearGate yearOfUnix dayOfUnix MIN MAX epochDays
  by_cases hneg : u / 86400 + (719528 : Nat) < 0
  · simp only [hneg, ↓reduceIte, Bool.and_eq_true, decide_eq_true_eq]
    constructor
    · intro h; omega
    · intro h; omega
  · simp only [hneg, ↓reduceIte, Bool.and_eq_true, decide_eq_true_eq]
    have hn : ((u / 86400 + (719528 : Nat)).toNat : Int) = u / 86400 + (719528 : Nat) := by omega
    have key := yearOf_lt_iff (u / 86400 + (719528 : Nat)).toNat
    constructor
    · rintro ⟨_, h2⟩
      have : yearOf (u / 86400 + (719528 : Nat)).toNat < 10000 := by omega
      have := key.1 this
      omega
    · rintro ⟨h1, h2⟩
      have : (u / 86400 + (719528 : Nat)).toNat < 3652425 := by omega
      have := key.2 this
      omega

/-- `from_unix` accepts exactly the unix seconds of years 0000–9999 and returns them unchanged
(unix-seconds round trip is the identity) -/
theorem fromUnix_iff_range (u : Int) :
    (fromUnix u = .ok u ↔ (MIN ≤ u ∧ u ≤ MAX)) ∧ (¬(MIN ≤ u ∧ u ≤ MAX) → fromUnix u = .err .invalid) := by
  unfold fromUnix
  have : yearGate unixYearLo unixYearHi u = yearGate 0 10000 u := rfl
  rw [this]
  cases h : yearGate 0 10000 u
  · have : ¬(MIN ≤ u ∧ u ≤ MAX) := fun hh => by
      have := (yearGate_iff_range u).2 hh; simp [h] at this
    simp [this]
  · have := (yearGate_iff_range u).1 h
    simp [this]

/-! ## parsing -/

/-- `parse` never panics, and what it accepts lies in the range -/
theorem parse_total_in_range (s : List Nat) :
    (parse s).isPanic = false ∧ (∀ u, parse s = .ok u → MIN ≤ u ∧ u ≤ MAX) := by
  unfold parse
  have hc : parseCheckedOffset = true := rfl
  have hg : parseYearGate = some (0, 10000) := rfl
  cases parse3339 s with
  | none => simp [Outcome.isPanic]
  | some u =>
    simp only [hc, hg, ↓reduceIte]
    by_cases h1 : u > MAX
    · simp [h1, Outcome.isPanic]
    · simp only [h1, ↓reduceIte]
      cases h2 : yearGate 0 10000 u
      · simp [Outcome.isPanic]
      · have := (yearGate_iff_range u).1 h2
        refine ⟨rfl, ?_⟩
        intro v hv
        simp at hv
        subst hv; exact this

/-- what an accepted string denotes: the instant of its fields at its offset (a `:60` second
standing for `:59`), truncated to the second -/
theorem parse_denotes (s : List Nat) (u : Int) (h : parse s = .ok u) :
    ∃ f, parseFields s = some f ∧ validDate f.y f.m f.d = true ∧ f.hh ≤ 23 ∧ f.mi ≤ 59 ∧ f.ss ≤ 60 ∧
      u = unixOf f.y f.m f.d f.hh f.mi (if f.ss = 60 then 59 else f.ss) f.off := by
  have h3 : parse3339 s = some u := by
    unfold parse at h
    cases hp : parse3339 s with
    | none => rw [hp] at h; cases h
    | some v =>
      rw [hp] at h
      simp only at h
      split at h
      · split at h <;> cases h
      · split at h
        · split at h
          · injection h with h; rw [h]
          · cases h
        · injection h with h; rw [h]
  unfold parse3339 at h3
  cases hf : parseFields s with
  | none => rw [hf] at h3; cases h3
  | some f =>
    rw [hf] at h3
    simp only at h3
    refine ⟨f, rfl, ?_⟩
    by_cases h60 : f.ss = 60
    · have e60 : (f.ss == 60) = true := by simpa using h60
      simp only [e60, ↓reduceIte] at h3
      split at h3
      · rename_i hv
        simp only [Bool.and_eq_true, decide_eq_true_eq] at hv
        split at h3
        · injection h3 with h3
          exact ⟨hv.1.1, hv.1.2, hv.2, by omega, by simp [h60, h3]⟩
        · cases h3
      · cases h3
    · have e60 : (f.ss == 60) = false := by simpa using h60
      simp only [e60, Bool.false_eq_true, ↓reduceIte] at h3
      split at h3
      · rename_i hv
        simp only [Bool.and_eq_true, decide_eq_true_eq] at hv
        injection h3 with h3
        exact ⟨hv.1.1.1, hv.1.1.2, hv.1.2, by omega, by simp [h60, h3]⟩
      · cases h3

/-! ## formatting -/

theorem format_total (u : Int) (h : MIN ≤ u ∧ u ≤ MAX) : ∃ bs, toRfc3339 u = .ok bs ∧ bs.length = 20 := by
  unfold toRfc3339
  rw [(yearGate_iff_range u).2 h]
  exact ⟨_, rfl, by simp [render, d4, d2]⟩

/-- shape `YYYY-MM-DDTHH:MM:SSZ` -/
theorem format_shape (y m d hh mi ss : Nat) :
    ∃ a b c e f g h i j k l n o p, render y m d hh mi ss =
      [a, b, c, e, 45, f, g, 45, h, i, 84, j, k, 58, l, n, 58, o, p, 90] := by
  simp [render, d4, d2]

theorem num2_d2 (n : Nat) (h : n < 100) : num2 (48 + n / 10 % 10) (48 + n % 10) = some n := by
  unfold num2 isDigit
  have h1 : (decide (48 ≤ 48 + n / 10 % 10) && decide (48 + n / 10 % 10 ≤ 57) &&
      (decide (48 ≤ 48 + n % 10) && decide (48 + n % 10 ≤ 57))) = true := by
    simp only [Bool.and_eq_true, decide_eq_true_eq]; omega
  rw [if_pos h1]
  congr 1; omega

theorem num4_d4 (n : Nat) (h : n < 10000) :
    num4 (48 + n / 1000 % 10) (48 + n / 100 % 10) (48 + n / 10 % 10) (48 + n % 10) = some n := by
  unfold num4 isDigit
  have h1 : (decide (48 ≤ 48 + n / 1000 % 10) && decide (48 + n / 1000 % 10 ≤ 57) &&
      (decide (48 ≤ 48 + n / 100 % 10) && decide (48 + n / 100 % 10 ≤ 57)) &&
      (decide (48 ≤ 48 + n / 10 % 10) && decide (48 + n / 10 % 10 ≤ 57)) &&
      (decide (48 ≤ 48 + n % 10) && decide (48 + n % 10 ≤ 57))) = true := by
    simp only [Bool.and_eq_true, decide_eq_true_eq]; omega
  rw [if_pos h1]
  congr 1; omega

theorem parseFields_render (y m d hh mi ss : Nat) (hy : y < 10000) (hm : m < 100) (hd : d < 100)
    (hh' : hh < 100) (hmi : mi < 100) (hss : ss < 100) :
    parseFields (render y m d hh mi ss) = some { y, m, d, hh, mi, ss, off := 0 } := by
  rw [show render y m d hh mi ss =
    [48 + y / 1000 % 10, 48 + y / 100 % 10, 48 + y / 10 % 10, 48 + y % 10, 45,
     48 + m / 10 % 10, 48 + m % 10, 45, 48 + d / 10 % 10, 48 + d % 10, 84,
     48 + hh / 10 % 10, 48 + hh % 10, 58, 48 + mi / 10 % 10, 48 + mi % 10, 58,
     48 + ss / 10 % 10, 48 + ss % 10, 90] from rfl]
  rw [parseFields]
  rw [num4_d4 y hy, num2_d2 m hm, num2_d2 d hd, num2_d2 hh hh', num2_d2 mi hmi, num2_d2 ss hss]
  rfl

/-- **format-then-parse is the identity** on the whole range -/
theorem parse_format (u : Int) (h : MIN ≤ u ∧ u ≤ MAX) :
    ∃ bs, toRfc3339 u = .ok bs ∧ parse bs = .ok u := by
  have hgate := (yearGate_iff_range u).2 h
  unfold toRfc3339
  rw [hgate]
  refine ⟨_, rfl, ?_⟩
  -- name the pieces
  have hday : 0 ≤ dayOfUnix u := by unfold dayOfUnix epochDays MIN at *; omega
  obtain ⟨n, hn⟩ : ∃ n : Nat, dayOfUnix u = n := ⟨(dayOfUnix u).toNat, by omega⟩
  have hn' : (dayOfUnix u).toNat = n := by omega
  rw [hn']
  have ht : todOfUnix u < 86400 := by unfold todOfUnix; omega
  have hyear : (civilFromDays n).1 < 10000 := by
    have : yearOf n < 10000 := by
      rw [yearOf_lt_iff]
      unfold dayOfUnix epochDays MAX at *; omega
    exact this
  obtain ⟨hdcd, hvalid⟩ := calendar_days_civil_days n
  have hv := hvalid
  unfold validDate at hv
  simp only [Bool.and_eq_true, decide_eq_true_eq] at hv
  have hdim := daysInMonth_le (isLeap (civilFromDays n).1) (civilFromDays n).2.1
  unfold parse parse3339
  rw [parseFields_render _ _ _ _ _ _ hyear (by omega) (by omega) (by omega) (by omega) (by omega)]
  have hss : (todOfUnix u % 60 == 60) = false := by
    have : todOfUnix u % 60 ≠ 60 := by omega
    simpa using this
  simp only [hss, Bool.false_eq_true, ↓reduceIte, hvalid, Bool.true_and]
  have hrange : (decide (todOfUnix u / 3600 ≤ 23) && decide (todOfUnix u / 60 % 60 ≤ 59) &&
      decide (todOfUnix u % 60 ≤ 59)) = true := by
    simp only [Bool.and_eq_true, decide_eq_true_eq]; omega
  rw [if_pos hrange]
  have hu : unixOf (civilFromDays n).1 (civilFromDays n).2.1 (civilFromDays n).2.2
      (todOfUnix u / 3600) (todOfUnix u / 60 % 60) (todOfUnix u % 60) 0 = u := by
    unfold unixOf
    rw [hdcd]
    unfold dayOfUnix at hn
    unfold todOfUnix at *
    omega
  rw [hu]
  have hc : parseCheckedOffset = true := rfl
  have hg : parseYearGate = some (0, 10000) := rfl
  have hmax : ¬ u > MAX := by omega
  simp only [hmax, ↓reduceIte, hg, hgate]

/-! ## checked arithmetic is integer arithmetic on seconds, `none` exactly outside the range -/

theorem checkedAdd_spec (u : Int) (secs : Nat) :
    checkedAdd u secs = if MIN ≤ u + secs ∧ u + secs ≤ MAX then some (u + secs) else none := by
  unfold checkedAdd
  by_cases h : MIN ≤ u + secs ∧ u + secs ≤ MAX
  · rw [((fromUnix_iff_range (u + secs)).1).2 h, if_pos h]
  · rw [(fromUnix_iff_range (u + secs)).2 h, if_neg h]

theorem checkedSub_spec (u : Int) (secs : Nat) :
    checkedSub u secs = if MIN ≤ u - secs ∧ u - secs ≤ MAX then some (u - secs) else none := by
  unfold checkedSub
  by_cases h : MIN ≤ u - secs ∧ u - secs ≤ MAX
  · rw [((fromUnix_iff_range (u - secs)).1).2 h, if_pos h]
  · rw [(fromUnix_iff_range (u - secs)).2 h, if_neg h]

/-! ## durations: every constructor is total, and adding one is integer arithmetic on seconds -/

/-- the duration constructors, as regenerated from the source, are the five units over 32-bit arguments -/
theorem durationCtors_table :
    (∀ r ∈ Gen.C13.durationCtors, (r.1, r.2.1) ∈ [("seconds", 1), ("minutes", 60), ("hours", 3600), ("days", 86400), ("weeks", 604800)]) ∧
    (∀ p ∈ [("seconds", 1), ("minutes", 60), ("hours", 3600), ("days", 86400), ("weeks", 604800)],
      p ∈ Gen.C13.durationCtors.map (fun r => (r.1, r.2.1))) ∧
    ∀ r ∈ Gen.C13.durationCtors, r.2.2 = 32 := by
  refine ⟨?_, ?_, ?_⟩ <;> decide

/-- **no duration constructor panics**: for every argument of its type the product with the unit fits 64 bits, and the
duration is `n` units in seconds -/
theorem duration_total (name : String) (n : Nat) (r : Outcome TErr Nat) (h : durationSecs name n = some r) :
    ∃ k, (name, k, 32) ∈ Gen.C13.durationCtors ∧ n < 2 ^ 32 ∧ r = .ok (n * k) := by
  unfold durationSecs at h
  cases hf : Gen.C13.durationCtors.find? (·.1 == name) with
  | none => simp [hf] at h
  | some e =>
    obtain ⟨nm, k, bits⟩ := e
    simp only [hf] at h
    have hmem := List.mem_of_find?_eq_some hf
    have hname : nm = name := by
      have := List.find?_some hf
      simpa using this
    -- every row has 32 bits and a unit of at most 604800 seconds
    have hrow : bits = 32 ∧ k ≤ 604800 := by
      have : ∀ e ∈ Gen.C13.durationCtors, e.2.2 = 32 ∧ e.2.1 ≤ 604800 := by decide
      exact this _ hmem
    obtain ⟨hb, hk⟩ := hrow
    subst hb
    by_cases hn : n < 2 ^ 32
    · simp only [hn, ↓reduceIte, Option.some.injEq] at h
      have hfit : n * k < 2 ^ 63 := by
        have : n * k ≤ 2 ^ 32 * 604800 := Nat.mul_le_mul (Nat.le_of_lt hn) hk
        omega
      simp only [hfit, ↓reduceIte] at h
      exact ⟨k, hname ▸ hmem, hn, h.symm⟩
    · simp [hn] at h

/-- adding / subtracting a duration built by any constructor equals integer arithmetic on seconds, `none` exactly when the
result leaves the range; it never panics -/
theorem checkedAddDur_spec (u : Int) (name : String) (n : Nat) (r : Outcome TErr (Option Int))
    (h : checkedAddDur u name n = some r) :
    ∃ k, (name, k, 32) ∈ Gen.C13.durationCtors ∧
      r = .ok (if MIN ≤ u + (n * k : Nat) ∧ u + (n * k : Nat) ≤ MAX then some (u + (n * k : Nat)) else none) := by
  unfold checkedAddDur at h
  cases hd : durationSecs name n with
  | none => simp [hd] at h
  | some d =>
    obtain ⟨k, hk, _, hr⟩ := duration_total name n d hd
    subst hr
    simp only [hd, Option.map_some, Option.some.injEq] at h
    exact ⟨k, hk, by rw [← h, checkedAdd_spec]⟩

theorem checkedSubDur_spec (u : Int) (name : String) (n : Nat) (r : Outcome TErr (Option Int))
    (h : checkedSubDur u name n = some r) :
    ∃ k, (name, k, 32) ∈ Gen.C13.durationCtors ∧
      r = .ok (if MIN ≤ u - (n * k : Nat) ∧ u - (n * k : Nat) ≤ MAX then some (u - (n * k : Nat)) else none) := by
  unfold checkedSubDur at h
  cases hd : durationSecs name n with
  | none => simp [hd] at h
  | some d =>
    obtain ⟨k, hk, _, hr⟩ := duration_total name n d hd
    subst hr
    simp only [hd, Option.map_some, Option.some.injEq] at h
    exact ⟨k, hk, by rw [← h, checkedSub_spec]⟩

/-! ## non-vacuity -/

example : durationSecs "weeks" 4294967295 = some (.ok 2597596220016000) ∧
    checkedAddDur MIN "days" 3652424 = some (.ok (some 253402214400)) ∧
    checkedAddDur MIN "days" 3652425 = some (.ok none) := by decide +kernel

example : parse [50, 48, 50, 48, 45, 48, 49, 45, 48, 49, 84, 48, 48, 58, 48, 48, 58, 48, 48, 46, 53, 43, 48, 49, 58, 48, 48]
    = Outcome.ok 1577833200 := by decide +kernel
example : MIN ≤ (0 : Int) ∧ (0 : Int) ≤ MAX := by decide
example : validDate 2024 2 29 = true ∧ validDate 2023 2 29 = false ∧ validDate 1900 2 29 = false := by decide

end IdModel.Props.C13
