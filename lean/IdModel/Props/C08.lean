import IdModel.Jose.JwsLemmas
import IdModel.Jose.Sign
import IdModel.Val.PModel
import IdModel.Props.C11
/-!
# C08 — every JWS the library produces decodes and verifies to what was signed

Encoders and decoder are the models of `IdModel.Jose.Jws`; `S` (header → JSON bytes) and `P`
(JSON bytes → header) are parameters related by the hypothesis `P (S h) = some h` (serde round
trip of headers — validated on every generated header by the correspondence run), and `S`
produces bytes.  The JSON envelope of the flattened / general forms is at member level.
-/
namespace IdModel.Props.C08
open IdModel IdModel.Jose

/-- serde round trip of headers, as an explicit hypothesis -/
structure Codec (S : Hdr → Bytes) (P : Bytes → Option Hdr) : Prop where
  bytes : ∀ h, B64.Bytes (S h)
  roundtrip : ∀ h, P (S h) = some h

/-- **core**: a signature entry assembled by the encoders decodes to what was signed -/
theorem decodeSignature_encoded (S : Hdr → Bytes) (P : Bytes → Option Hdr) (hc : Codec S P)
    (payload sig : Bytes) (p u : Option Hdr)
    (hv : validate p u = .ok ()) (hsome : p.isSome ∨ u.isSome)
    (hpl : B64.Bytes payload) (hsig : B64.Bytes sig) :
    decodeSignature P (maybeEncode payload p) ((signingData S (maybeEncode payload p) p).1) u (B64.enc sig) =
      some { prot := p, unprot := u, signingInput := (signingData S (maybeEncode payload p) p).2,
             signature := sig, claims := payload } := by
  unfold decodeSignature signingData
  simp only
  have hds : B64.dec (B64.enc sig) = some sig := B64.dec_enc sig hsig
  cases p with
  | none =>
    simp only [Option.map_none, hv, hds, Option.bind_none, Option.getD_none]
    have hb : maybeEncode payload none = B64.enc payload := by
      unfold maybeEncode extractB64; rfl
    rw [hb, B64.dec_enc payload hpl]
    have hu : u.isSome = true := by rcases hsome with h | h <;> simp_all
    cases u with
    | none => simp at hu
    | some uu => simp
  | some h =>
    simp only [Option.map_some, B64.dec_enc (S h) (hc.bytes h), hc.roundtrip h, hv, hds,
      Option.bind_some, Option.isNone_some, Bool.false_and, Bool.false_eq_true, ↓reduceIte,
      Option.getD_some]
    unfold maybeEncode extractB64
    simp only [Option.bind_some]
    have hdef : Gen.C11.defaultB64 = true := rfl
    rw [hdef]
    by_cases hb : (h.b64.getD true) = true
    · simp only [hb, ↓reduceIte, B64.dec_enc payload hpl]
    · have e : h.b64.getD true = false := by simpa using hb
      simp only [e, Bool.false_eq_true, ↓reduceIte]

/-- the processed payload of an accepted compact encoder never contains a dot -/
theorem charsetOk_no_dot (cs : CharSet) (d : Bytes) (h : charsetOk cs d = true) : 46 ∉ d := by
  unfold charsetOk at h
  simp only [Bool.and_eq_true, Bool.not_eq_true', List.contains_eq_mem, decide_eq_false_iff_not] at h
  exact h.1

/-- **compact round trip**: the own decoder returns the signing input, signature, protected
header and payload that were signed (payload not empty) -/
theorem compact_roundtrip (S : Hdr → Bytes) (P : Bytes → Option Hdr) (hc : Codec S P)
    (payload sig : Bytes) (h : Hdr) (opts : CompactOpts) (e : CompactEnc)
    (hne : payload ≠ []) (hpl : B64.Bytes payload) (hsig : B64.Bytes sig)
    (he : compactNew S payload h opts = some e) :
    decodeCompact P (compactIntoJws e sig)
        (match opts with | .detached => some (maybeEncode payload (some h)) | .nonDetached _ => none) =
      some { prot := some h, unprot := none, signingInput := e.signingInput, signature := sig,
             claims := payload } := by
  unfold compactNew at he
  cases hval : validateCompact h with
  | error x => simp [hval] at he
  | ok uu =>
    cases uu
    simp only [hval] at he
    have hv : validate (some h) none = .ok () := hval
    have key := decodeSignature_encoded S P hc payload sig (some h) none hv (Or.inl rfl) hpl hsig
    simp only [signingData, Option.map_some, Option.getD_some] at key
    have nd_hdr : 46 ∉ B64.enc (S h) := B64.enc_no_dot _
    have nd_sig : 46 ∉ B64.enc sig := B64.enc_no_dot _
    have me_ne : maybeEncode payload (some h) ≠ [] := by
      unfold maybeEncode
      split
      · intro hh
        have := B64.dec_enc payload hpl
        rw [hh] at this
        simp [B64.dec] at this
        exact hne this
      · exact hne
    cases opts with
    | detached =>
      simp only at he
      injection he with he; subst he
      unfold decodeCompact compactIntoJws
      simp only [Option.getD_none, List.nil_append]
      rw [(splitOn_three _ (B64.enc (S h)) [] (B64.enc sig)).2 ⟨by simp, nd_hdr, by simp, nd_sig⟩]
      simp only [expandPayload, Option.filter, List.isEmpty_nil, Bool.not_true, Bool.false_eq_true,
        ↓reduceIte]
      exact key
    | nonDetached cs =>
      simp only at he
      by_cases hb : extractB64 (some h) = true
      · simp only [hb, ↓reduceIte] at he
        injection he with he; subst he
        have nd_pl : 46 ∉ maybeEncode payload (some h) := by
          unfold maybeEncode; rw [if_pos hb]; exact B64.enc_no_dot _
        unfold decodeCompact compactIntoJws
        simp only [Option.getD_some]
        rw [(splitOn_three _ (B64.enc (S h)) (maybeEncode payload (some h)) (B64.enc sig)).2
          ⟨rfl, nd_hdr, nd_pl, nd_sig⟩]
        have hexp : expandPayload none (some (maybeEncode payload (some h))) =
            some (maybeEncode payload (some h)) := by
          unfold expandPayload
          have : (some (maybeEncode payload (some h))).filter (fun p => !p.isEmpty) =
              some (maybeEncode payload (some h)) := by
            cases hh : maybeEncode payload (some h) with
            | nil => exact absurd hh me_ne
            | cons => rfl
          rw [this]
        simp only [hexp]
        exact key
      · simp only [hb, Bool.false_eq_true, ↓reduceIte] at he
        split at he
        · rename_i hcs
          injection he with he; subst he
          have hme : maybeEncode payload (some h) = payload := by
            unfold maybeEncode; rw [if_neg hb]
          have nd_pl : 46 ∉ payload := charsetOk_no_dot cs payload hcs
          unfold decodeCompact compactIntoJws
          simp only [Option.getD_some]
          rw [(splitOn_three _ (B64.enc (S h)) payload (B64.enc sig)).2 ⟨rfl, nd_hdr, nd_pl, nd_sig⟩]
          have hexp : expandPayload none (some payload) = some payload := by
            unfold expandPayload
            have : (some payload).filter (fun p => !p.isEmpty) = some payload := by
              cases hh : payload with
              | nil => exact absurd hh hne
              | cons => rfl
            rw [this]
          simp only [hexp, hme]
          rw [hme] at key
          exact key
        · cases he

/-- **flattened round trip** (member level) -/
theorem flattened_roundtrip (S : Hdr → Bytes) (P : Bytes → Option Hdr) (hc : Codec S P)
    (utf8 : Bytes → Bool) (payload sig : Bytes) (p u : Option Hdr) (detached : Bool) (e : FlatEnc)
    (hne : payload ≠ []) (hpl : B64.Bytes payload) (hsig : B64.Bytes sig)
    (he : flatNew S utf8 payload p u detached = some e) :
    decodeFlattened P (flatIntoJws e sig).1 (flatIntoJws e sig).2
        (if detached then some (maybeEncode payload p) else none) =
      some { prot := p, unprot := u, signingInput := e.signingInput, signature := sig,
             claims := payload } := by
  unfold flatNew at he
  cases hval : validateRecipient p u with
  | error x => simp [hval] at he
  | ok uu =>
    cases uu
    simp only [hval] at he
    unfold validateRecipient at hval
    split at hval
    · cases hval
    · rename_i hnone
      have hsome : p.isSome ∨ u.isSome := by
        cases p <;> cases u <;> simp_all
      have key := decodeSignature_encoded S P hc payload sig p u hval hsome hpl hsig
      have me_ne : maybeEncode payload p ≠ [] := by
        unfold maybeEncode
        split
        · intro hh
          have := B64.dec_enc payload hpl
          rw [hh] at this
          simp [B64.dec] at this
          exact hne this
        · exact hne
      cases detached with
      | true =>
        simp only [↓reduceIte] at he
        injection he with he; subst he
        unfold decodeFlattened flatIntoJws
        simp only [↓reduceIte, expandPayload, Option.filter_none]
        exact key
      | false =>
        simp only [Bool.false_eq_true, ↓reduceIte] at he
        split at he
        · injection he with he; subst he
          unfold decodeFlattened flatIntoJws
          simp only [Bool.false_eq_true, ↓reduceIte]
          have hexp : expandPayload none (some (maybeEncode payload p)) = some (maybeEncode payload p) := by
            unfold expandPayload
            have : (some (maybeEncode payload p)).filter (fun q => !q.isEmpty) =
                some (maybeEncode payload p) := by
              cases hh : maybeEncode payload p with
              | nil => exact absurd hh me_ne
              | cons => rfl
            rw [this]
          simp only [hexp]
          exact key
        · cases he

/-! ## general serialisation -/

theorem validateRecipient_ok (p u : Option Hdr) (h : validateRecipient p u = .ok ()) :
    validate p u = .ok () ∧ (p.isSome ∨ u.isSome) := by
  unfold validateRecipient at h
  split at h
  · cases h
  · rename_i hn
    refine ⟨h, ?_⟩
    cases p <;> cases u <;> simp_all

theorem maybeEncode_congr (payload : Bytes) (p q : Option Hdr) (h : extractB64 p = extractB64 q) :
    maybeEncode payload p = maybeEncode payload q := by
  unfold maybeEncode; rw [h]

/-- the member-level entry the general encoder writes for one recipient -/
def entry (S : Hdr → Bytes) (pp : Bytes) (r : Option Hdr × Option Hdr × Bytes) : SigMembers :=
  { prot := (signingData S pp r.1).1, header := r.2.1, signature := B64.enc r.2.2 }

theorem sigB64_entry (S : Hdr → Bytes) (P : Bytes → Option Hdr) (hc : Codec S P) (pp : Bytes)
    (r : Option Hdr × Option Hdr × Bytes) : sigB64 P (entry S pp r) = some (extractB64 r.1) := by
  obtain ⟨p, u, sg⟩ := r
  unfold sigB64 entry signingData
  cases p with
  | none => rfl
  | some h =>
    simp only [Option.map_some, B64.dec_enc (S h) (hc.bytes h), hc.roundtrip h]

theorem filterMap_sigB64 (S : Hdr → Bytes) (P : Bytes → Option Hdr) (hc : Codec S P) (pp : Bytes)
    (rs : List (Option Hdr × Option Hdr × Bytes)) :
    (rs.map (entry S pp)).filterMap (sigB64 P) = rs.map fun r => extractB64 r.1 := by
  induction rs with
  | nil => rfl
  | cons r t ih =>
    simp only [List.map_cons, List.filterMap_cons, sigB64_entry S P hc pp r, ih]

/-- **general round trip** (member level): every recipient's entry of a token the general encoder produced decodes to
that recipient's headers, signature, the payload that was signed, and the signing input it signed over -/
theorem general_roundtrip (S : Hdr → Bytes) (P : Bytes → Option Hdr) (hc : Codec S P)
    (payload : Bytes) (detached : Bool) (p0 u0 : Option Hdr) (s0 : Bytes)
    (rest : List (Option Hdr × Option Hdr × Bytes)) (tok : Option Bytes × List SigMembers)
    (hne : payload ≠ []) (hpl : B64.Bytes payload)
    (hsigs : ∀ r ∈ (p0, u0, s0) :: rest, B64.Bytes r.2.2)
    (he : generalEncode S payload detached ((p0, u0, s0) :: rest) = .ok tok) :
    decodeGeneral P tok.1 tok.2 (if detached then some (maybeEncode payload p0) else none) =
      some (((p0, u0, s0) :: rest).map fun r =>
        some { prot := r.1, unprot := r.2.1, signingInput := generalSigningInput S payload p0 r.1,
               signature := r.2.2, claims := payload }) := by
  unfold generalEncode at he
  simp only at he
  cases hg : generalEncoder (((p0, u0, s0) :: rest).map fun r => (r.1, r.2.1)) with
  | some i => rw [hg] at he; cases he
  | none =>
    rw [hg] at he
    simp only at he
    injection he with he
    subst he
    have hall := C11.general_encoder_b64_agree _ hg
    have hrec : ∀ r ∈ (p0, u0, s0) :: rest,
        extractB64 r.1 = extractB64 p0 ∧ validateRecipient r.1 r.2.1 = .ok () := by
      intro r hr
      have h1 : (r.1, r.2.1) ∈ ((p0, u0, s0) :: rest).map fun r => (r.1, r.2.1) :=
        List.mem_map.2 ⟨r, hr, rfl⟩
      have h0 : (p0, u0) ∈ ((p0, u0, s0) :: rest).map fun r => (r.1, r.2.1) :=
        List.mem_map.2 ⟨(p0, u0, s0), List.mem_cons_self .., rfl⟩
      exact hall _ h1 _ h0
    have me_ne : maybeEncode payload p0 ≠ [] := by
      unfold maybeEncode
      split
      · intro hh
        have := B64.dec_enc payload hpl
        rw [hh] at this
        simp [B64.dec] at this
        exact hne this
      · exact hne
    have hexp : expandPayload (if detached then some (maybeEncode payload p0) else none)
        (if detached then none else some (maybeEncode payload p0)) = some (maybeEncode payload p0) := by
      cases detached with
      | true => simp [expandPayload]
      | false =>
        simp only [Bool.false_eq_true, ↓reduceIte]
        unfold expandPayload
        have : (some (maybeEncode payload p0)).filter (fun q => !q.isEmpty) = some (maybeEncode payload p0) := by
          cases hh : maybeEncode payload p0 with
          | nil => exact absurd hh me_ne
          | cons => rfl
        rw [this]
    unfold decodeGeneral
    simp only [hexp]
    have hmap : (((p0, u0, s0) :: rest).map fun r =>
        ({ prot := (signingData S (maybeEncode payload p0) r.1).1, header := r.2.1,
           signature := B64.enc r.2.2 } : SigMembers)) =
        ((p0, u0, s0) :: rest).map (entry S (maybeEncode payload p0)) := rfl
    rw [hmap, filterMap_sigB64 S P hc]
    have hagree : ((rest.map fun r => extractB64 r.1).all fun x => x == extractB64 p0) = true := by
      simp only [List.all_eq_true, beq_iff_eq, List.mem_map]
      rintro x ⟨r, hr, rfl⟩
      exact (hrec r (List.mem_cons_of_mem _ hr)).1
    have hpt : ∀ r ∈ (p0, u0, s0) :: rest,
        decodeSignature P (maybeEncode payload p0) (entry S (maybeEncode payload p0) r).prot
          (entry S (maybeEncode payload p0) r).header (entry S (maybeEncode payload p0) r).signature =
        some { prot := r.1, unprot := r.2.1, signingInput := generalSigningInput S payload p0 r.1,
               signature := r.2.2, claims := payload } := by
      intro r hr
      obtain ⟨hb, hv⟩ := hrec r hr
      obtain ⟨hval, hsome⟩ := validateRecipient_ok _ _ hv
      have hme : maybeEncode payload p0 = maybeEncode payload r.1 := maybeEncode_congr payload _ _ hb.symm
      have key := decodeSignature_encoded S P hc payload r.2.2 r.1 r.2.1 hval hsome hpl (hsigs r hr)
      simp only [entry, generalSigningInput]
      rw [hme]
      exact key
    simp only [List.map_cons, hagree, ↓reduceIte, List.map_map, Option.some.injEq, List.cons.injEq]
    exact ⟨hpt _ (List.mem_cons_self ..), List.map_congr_left (fun r hr => hpt r (List.mem_cons_of_mem _ hr))⟩

/-- the encoders accept exactly the header sets the shared policy accepts (C11) -/
theorem encoder_accepts_iff_validate (S : Hdr → Bytes) (payload : Bytes) (h : Hdr) :
    (compactNew S payload h .detached).isSome = true ↔ validate (some h) none = .ok () := by
  unfold compactNew validateCompact
  cases hv : validate (some h) none with
  | error e => simp
  | ok u => cases u; simp


/-! ## storage-backed signing (`JwkDocumentExt::create_jws`): header assembly, refusals, round trip, binding -/

section Signing
open IdModel.Gen.C08

/-- **what was requested is what the protected header carries**: `alg` of the method's key, `kid` = the option or the
method's id, `typ` = the option or `JWT`, `cty` / `url` / `nonce` / custom parameters exactly as requested, the
attached JWK is the method's own key, `b64` is written (as `false`, with `crit = ["b64"]`) exactly when `false` was
requested.  (Every clause is read off the source on each run: `IdModel.Gen.C08`.) -/
theorem createHeader_spec (alg mid : String) (key : Nat) (o : SigOpts) :
    (createHeader alg mid key o).alg = some alg ∧
    (createHeader alg mid key o).kid = some (o.kid.getD mid) ∧
    (createHeader alg mid key o).typ = some (o.typ.getD "JWT") ∧
    (createHeader alg mid key o).cty = o.cty ∧
    (createHeader alg mid key o).url = o.url ∧
    (createHeader alg mid key o).nonce = o.nonce ∧
    (createHeader alg mid key o).jwk = (if o.attachJwk then some key else none) ∧
    (createHeader alg mid key o).custom = o.custom ∧
    ((createHeader alg mid key o).b64 = some false ↔ o.b64 = some false) ∧
    ((createHeader alg mid key o).b64 = none ↔ o.b64 ≠ some false) ∧
    ((createHeader alg mid key o).crit = (if o.b64 = some false then some ["b64"] else none)) := by
  have h1 : algFromMethodKey = true := by decide
  have h2 : kidDefaultsToMethodId = true := by decide
  have h3 : typFromOptionOrDefault = true := by decide
  have h4 : typDefault = "JWT" := by decide
  have h5 : ctyCopied = true := by decide
  have h6 : urlCopied = true := by decide
  have h7 : nonceCopied = true := by decide
  have h8 : attachJwkAttachesMethodKey = true := by decide
  have h9 : b64FalseSetsCrit = true := by decide
  have h10 : customCopied = true := by decide
  have h11 : noOtherParameter = true := by decide
  unfold createHeader
  simp only [h1, h2, h3, h4, h5, h6, h7, h8, h9, h10, h11, ↓reduceIte, Bool.and_self, true_and]
  by_cases hb : o.b64 = some false <;> simp [hb]

/-- **the assembled header always satisfies the header policy** (C11), whatever the options -/
theorem createHeader_policy_ok (alg mid : String) (key : Nat) (o : SigOpts) :
    validateCompact (createHeader alg mid key o).toHdr = .ok () := by
  obtain ⟨_, _, _, _, _, _, _, _, hb, hn, hc⟩ := createHeader_spec alg mid key o
  unfold validateCompact validate validateDisjoint
  simp only
  by_cases hf : o.b64 = some false
  · have hb' := hb.2 hf
    have hc' : (createHeader alg mid key o).crit = some ["b64"] := by rw [hc, if_pos hf]
    have e1 : validateCrit (some (createHeader alg mid key o).toHdr) none = .ok () := by
      unfold validateCrit
      simp only [Option.map_none, Option.getD_none, Bool.false_eq_true, ↓reduceIte, Option.bind_some, SigHdr.toHdr,
        hc', Option.map_some, List.isEmpty_cons, Option.getD_some]
      have p1 : ¬ ("b64" ∈ Gen.C11.predefined) := by decide
      have p2 : "b64" ∈ Gen.C11.permittedCrits := by decide
      unfold critLoop critExists has
      have q1 : ("b64" == "alg") = false := by decide
      simp [p1, p2, hb', q1, critLoop]
    rw [e1]
    unfold validateB64
    simp [SigHdr.toHdr, hb', hc']
  · have hb' := hn.2 hf
    have hc' : (createHeader alg mid key o).crit = none := by rw [hc, if_neg hf]
    have e1 : validateCrit (some (createHeader alg mid key o).toHdr) none = .ok () := by
      unfold validateCrit
      simp [SigHdr.toHdr, hc', critLoop]
    rw [e1]
    unfold validateB64
    simp [SigHdr.toHdr, hb', hc']

/-- **`create_jws` refuses exactly one thing**: an unencoded (`b64 = false`) attached payload that is outside the
compact form's character set -/
theorem createJws_refuses_iff (S : Hdr → Bytes) (payload : Bytes) (alg mid : String) (key : Nat) (o : SigOpts) :
    createJws S payload alg mid key o = none ↔
      (o.b64 = some false ∧ o.detached = false ∧ charsetOk .default payload = false) := by
  obtain ⟨_, _, _, _, _, _, _, _, hb, hn, _⟩ := createHeader_spec alg mid key o
  have hd : detachedOption = true := by decide
  unfold createJws compactNew sigCompactOpts
  rw [createHeader_policy_ok]
  simp only [hd, ↓reduceIte]
  have hx : extractB64 (some (createHeader alg mid key o).toHdr) = ((createHeader alg mid key o).b64).getD true := by
    unfold extractB64; simp [SigHdr.toHdr]; rfl
  by_cases hdet : o.detached = true
  · simp [hdet]
  · have hdet' : o.detached = false := by simpa using hdet
    simp only [hdet', Bool.false_eq_true, ↓reduceIte, hx]
    by_cases hf : o.b64 = some false
    · rw [hb.2 hf]
      simp only [Option.getD_some, Bool.false_eq_true, ↓reduceIte]
      by_cases hcs : charsetOk .default payload = true
      · simp [hcs, hf]
      · have : charsetOk .default payload = false := by simpa using hcs
        simp [this, hf]
    · rw [hn.2 hf]
      simp [hf]

/-- **the token `create_jws` produces decodes, with the library's own decoder, to the header that was assembled, the
payload and the signing input that were signed** (the detached payload handed to the decoder being the signed
payload bytes) -/
theorem createJws_roundtrip (S : Hdr → Bytes) (P : Bytes → Option Hdr) (hc : Codec S P)
    (payload sig : Bytes) (alg mid : String) (key : Nat) (o : SigOpts) (e : CompactEnc)
    (hne : payload ≠ []) (hpl : B64.Bytes payload) (hsig : B64.Bytes sig)
    (he : createJws S payload alg mid key o = some e) :
    decodeCompact P (compactIntoJws e sig)
        (if o.detached then some (maybeEncode payload (some (createHeader alg mid key o).toHdr)) else none) =
      some { prot := some (createHeader alg mid key o).toHdr, unprot := none, signingInput := e.signingInput,
             signature := sig, claims := payload } := by
  have hd : detachedOption = true := by decide
  unfold createJws at he
  by_cases hdet : o.detached = true
  · have ho : sigCompactOpts o = .detached := by unfold sigCompactOpts; simp [hd, hdet]
    rw [ho] at he
    have key' := compact_roundtrip S P hc payload sig (createHeader alg mid key o).toHdr .detached e hne hpl hsig he
    simp only [hdet, ↓reduceIte]
    exact key'
  · have hdet' : o.detached = false := by simpa using hdet
    have ho : sigCompactOpts o = .nonDetached .default := by unfold sigCompactOpts; simp [hd, hdet']
    rw [ho] at he
    have key' := compact_roundtrip S P hc payload sig (createHeader alg mid key o).toHdr (.nonDetached .default) e hne hpl hsig he
    simp only [hdet', Bool.false_eq_true, ↓reduceIte]
    exact key'

/-- the JWT wrappers refuse a detached payload and `b64 = false`, and otherwise are `create_jws` -/
theorem createJwt_spec (S : Hdr → Bytes) (payload : Bytes) (alg mid : String) (key : Nat) (o : SigOpts) :
    createJwt S payload alg mid key o =
      (if o.detached = true ∨ o.b64 = some false then none else createJws S payload alg mid key o) := by
  have h1 : credentialJwtRefusesDetachedAndUnencoded = true := by decide
  have h2 : presentationJwtRefusesDetachedAndUnencoded = true := by decide
  unfold createJwt
  simp only [h1, h2, Bool.and_self, ↓reduceIte]
  by_cases hdet : o.detached = true
  · simp [hdet]
  · have hdet' : o.detached = false := by simpa using hdet
    cases hb : o.b64 with
    | none => simp [hdet']
    | some b => cases b <;> simp [hdet']

end Signing

section Binding
open IdModel.Doc IdModel.Val

/-- the token `create_jws` yields for method `m`, as `verify_jws` sees it: the `kid` (the option's value, read as a
method query, or the method's id), the nonce, and the key that signed — the key the method's JWK denotes (C15) -/
def signedTok (m : Method) (kid : Option Query) (nonce : Option Nat) : PTok :=
  { kid := some (kid.getD (Query.ofId m.id)), nonce := nonce, sigKey := m.body, claims := none, issIsDid := false }

/-- **a token verifies exactly when** the verifier's nonce is the signed one and the method found — by the configured
method id, else by the token's kid — **within the configured scope** holds the key that signed -/
theorem signed_verifies_iff (doc : Doc) (m : Method) (kid : Option Query) (nonce : Option Nat) (vo : PVOpts) :
    verifyJws doc (signedTok m kid nonce) vo = .ok () ↔
      (nonce = vo.nonce ∧ ∃ m', resolveMethod doc
          ((vo.methodId.map Query.ofId).getD (kid.getD (Query.ofId m.id))) vo.scope = some m' ∧
          m'.body ≠ 0 ∧ m'.body = m.body) := by
  unfold verifyJws queryOf signedTok
  simp only
  by_cases hn : nonce = vo.nonce
  · simp only [hn, ne_eq, not_true_eq_false, ↓reduceIte, true_and]
    cases hm : vo.methodId with
    | none =>
      simp only [Option.map_none, Option.getD_none]
      cases hr : resolveMethod doc (kid.getD (Query.ofId m.id)) vo.scope with
      | none => simp
      | some m' =>
        simp only [Option.some.injEq, exists_eq_left']
        by_cases h0 : m'.body = 0
        · simp [h0]
        · by_cases h1 : m'.body = m.body
          · simp [h1]
          · simp [h0, h1]
    | some mid =>
      simp only [Option.map_some, Option.getD_some]
      cases hr : resolveMethod doc (Query.ofId mid) vo.scope with
      | none => simp
      | some m' =>
        simp only [Option.some.injEq, exists_eq_left']
        by_cases h0 : m'.body = 0
        · simp [h0]
        · by_cases h1 : m'.body = m.body
          · simp [h1]
          · simp [h0, h1]
  · simp [hn]

/-- a different nonce (or a nonce on one side only) is refused -/
theorem signed_other_nonce_refused (doc : Doc) (m : Method) (kid : Option Query) (nonce : Option Nat) (vo : PVOpts)
    (h : nonce ≠ vo.nonce) : verifyJws doc (signedTok m kid nonce) vo = .error .nonce := by
  unfold verifyJws signedTok; simp [h]

/-- a scope in which the addressed method is not found is refused -/
theorem signed_excluding_scope_refused (doc : Doc) (m : Method) (kid : Option Query) (nonce : Option Nat) (vo : PVOpts)
    (h : resolveMethod doc ((vo.methodId.map Query.ofId).getD (kid.getD (Query.ofId m.id))) vo.scope = none) :
    verifyJws doc (signedTok m kid nonce) vo ≠ .ok () := by
  intro hok
  obtain ⟨_, m', hr, _⟩ := (signed_verifies_iff doc m kid nonce vo).1 hok
  rw [h] at hr; cases hr

/-- another method's key is refused: when the method found holds a different key the token does not verify -/
theorem signed_other_key_refused (doc : Doc) (m m' : Method) (kid : Option Query) (nonce : Option Nat) (vo : PVOpts)
    (hr : resolveMethod doc ((vo.methodId.map Query.ofId).getD (kid.getD (Query.ofId m.id))) vo.scope = some m')
    (hk : m'.body ≠ m.body) : verifyJws doc (signedTok m kid nonce) vo ≠ .ok () := by
  intro hok
  obtain ⟨_, m'', hr', _, he⟩ := (signed_verifies_iff doc m kid nonce vo).1 hok
  rw [hr] at hr'; cases hr'; exact hk he

/-- it verifies against the document and key it was produced for: default kid, the signed nonce, and a scope (or none)
in which the method's id resolves to the method -/
theorem signed_verifies_own (doc : Doc) (m : Method) (nonce : Option Nat) (scope : Option Scope) (e x : Int)
    (hk : m.body ≠ 0) (hr : resolveMethod doc (Query.ofId m.id) scope = some m) :
    verifyJws doc (signedTok m none nonce) ⟨nonce, none, scope, e, x⟩ = .ok () := by
  rw [signed_verifies_iff]
  exact ⟨rfl, m, by simpa using hr, hk, rfl⟩

end Binding

/-! ## non-vacuity -/

def Sex (_ : Hdr) : Bytes := [123, 125]
def Pex (b : Bytes) : Option Hdr := if b = [123, 125] then some { alg := some "EdDSA" } else none

example : (compactNew Sex [104, 105] { alg := some "EdDSA" } (.nonDetached .default)).map
    (fun e => decodeCompact Pex (compactIntoJws e [9]) none |>.map (·.claims)) = some (some [104, 105]) := by
  decide +kernel

/-- storage-backed signing: a request with every option set assembles a header that passes the policy, is signed, and
the refusal condition is met by a concrete request -/
example : (createHeader "EdDSA" "did:ex:1#k" 7
    { attachJwk := true, b64 := some false, typ := some "vc+jwt", nonce := some "n 1", kid := some "my kid", custom := ["x"] }).toHdr =
    { alg := some "EdDSA", b64 := some false, crit := some ["b64"], fields := ["jwk", "kid", "typ", "nonce"], custom := ["x"] } := by
  decide

example : (createJws Sex [104, 105] "EdDSA" "m" 7 { b64 := some false }).isSome = true ∧
    createJws Sex [104, 46] "EdDSA" "m" 7 { b64 := some false } = none ∧
    (createJws Sex [104, 46] "EdDSA" "m" 7 { b64 := some false, detached := true }).isSome = true := by
  decide +kernel

open IdModel.Doc IdModel.Val in
/-- a document with one authentication method: its token verifies under the authentication scope and no scope, not
under the assertion scope, not with another nonce -/
example :
    let m : Method := ⟨⟨1, 0, some 2⟩, 9⟩
    let doc : Doc := ⟨1, [], [.embed m], [], [], [], [], []⟩
    verifyJws doc (signedTok m none (some 5)) ⟨some 5, none, some (.rel .auth), 0, 0⟩ = .ok () ∧
    verifyJws doc (signedTok m none (some 5)) ⟨some 5, none, none, 0, 0⟩ = .ok () ∧
    verifyJws doc (signedTok m none (some 5)) ⟨some 5, none, some (.rel .asrt), 0, 0⟩ = .error .methodNotFound ∧
    verifyJws doc (signedTok m none (some 5)) ⟨some 6, none, none, 0, 0⟩ = .error .nonce := by
  decide

end IdModel.Props.C08
