import IdModel.Gen.C15
/-!
Model of the shipped in-memory stores (`JwkMemStore`, `KeyIdMemstore`, property C15) as state machines over
operation histories.  Key ids are numbered in the order they are handed out (the real ones are 32 random
alphanumerics; a collision is not modelled).  A key pair is a number; the signature scheme is a parameter: a
signature is the pair (secret key number, data) and verifies under exactly the public key of that pair.
-/
namespace IdModel.KeyStore

inductive KType | ed25519 | bls | other
  deriving DecidableEq, Repr
inductive Alg | edDSA | other (n : Nat)
  deriving DecidableEq, Repr
/-- what the stores look at in a JWK's type and curve -/
inductive Fam | okpEd25519 | okpOtherEd | okpNonEd | ecBls | ecOther | otherKty
  deriving DecidableEq, Repr

structure Jwk where
  fam : Fam
  isPrivate : Bool
  /-- `alg` member: absent, not a known JWS algorithm, or the algorithm -/
  alg : Option (Option Alg)
  /-- the key pair the `d` member decodes to (`none`: absent or undecodable) -/
  secret : Option Nat
  /-- the key pair of the public part -/
  pub : Nat
  deriving DecidableEq, Repr

structure Store where
  keys : List (Nat × Jwk)
  next : Nat
  deriving DecidableEq, Repr

inductive KErr
  | unsupportedKeyType | keyAlgMismatch | unsupportedAlg | notPrivate | keyNotFound | unspecified
  deriving DecidableEq, Repr

def ktName : KType → String
  | .ed25519 => "Ed25519" | .bls => "BLS12381G2" | .other => "?"
def algName : Alg → String
  | .edDSA => "EdDSA" | .other _ => "?"

def compatible (k : KType) (a : Alg) : Bool := Gen.C15.compatible.contains (ktName k, algName a)

def lookup (s : Store) (id : Nat) : Option Jwk := (s.keys.find? (fun e => e.1 == id)).map (·.2)

/-- what `generate` returns: the key id and the public JWK (facts) -/
structure GenOut where
  id : Nat
  pub : Nat
  isPublic : Bool
  kidIsThumbprint : Bool
  alg : Alg
  deriving DecidableEq, Repr

/-- `JwkMemStore::generate` -/
def generate (s : Store) (kt : KType) (a : Alg) : Store × Except KErr GenOut :=
  if kt = .other then (s, .error .unsupportedKeyType)
  else if !compatible kt a then (s, .error .keyAlgMismatch)
  else if kt ≠ .ed25519 then (s, .error .unsupportedKeyType)
  else
    let id := s.next + 1
    let jwk : Jwk := ⟨.okpEd25519, true, some (some a), some id, id⟩
    (⟨s.keys ++ [(id, jwk)], id⟩,
     .ok ⟨id, id, Gen.C15.generateReturnsPublicWithKidAndAlg, Gen.C15.generateReturnsPublicWithKidAndAlg, a⟩)

def famType : Fam → Option KType
  | .okpEd25519 => some .ed25519
  | .ecBls => some .bls
  | _ => none

/-- `JwkMemStore::insert` -/
def insert (s : Store) (j : Jwk) : Store × Except KErr Nat :=
  match famType j.fam with
  | none => (s, .error .unsupportedKeyType)
  | some kt =>
    if Gen.C15.insertRequiresPrivate && !j.isPrivate then (s, .error .notPrivate)
    else
      let algOk : Except KErr Unit :=
        if !Gen.C15.insertRequiresAlg then .ok () else
        match j.alg with
        | none => .error .unsupportedAlg
        | some none => .error .unsupportedAlg
        | some (some a) => if compatible kt a then .ok () else .error .keyAlgMismatch
      match algOk with
      | .error e => (s, .error e)
      | .ok _ =>
        let id := s.next + 1
        (⟨s.keys ++ [(id, j)], id⟩, .ok id)

/-- a signature: who made it and over what -/
structure Sig where
  secret : Nat
  data : Nat
  deriving DecidableEq, Repr

/-- the scheme: a signature verifies under the public key of the pair that made it, over the data it was made over -/
def verifies (pub : Nat) (data : Nat) (sg : Sig) : Bool := sg.secret == pub && sg.data == data

/-- `JwkMemStore::sign(key_id, data, public_key)` -/
def sign (s : Store) (id : Nat) (data : Nat) (pk : Jwk) : Except KErr Sig :=
  match pk.alg with
  | none => .error .unsupportedAlg
  | some none => .error .unsupportedAlg
  | some (some .edDSA) =>
    if pk.fam = .ecBls || pk.fam = .ecOther || pk.fam = .otherKty then .error .unspecified
    else if pk.fam ≠ .okpEd25519 then .error .unspecified
    else
      match lookup s id with
      | none => .error .keyNotFound
      | some j =>
        match j.secret with
        | none => .error .unspecified
        | some k => .ok ⟨k, data⟩
  | some (some (.other _)) => .error .unsupportedAlg

/-- `JwkMemStore::delete` -/
def delete (s : Store) (id : Nat) : Store × Except KErr Unit :=
  match lookup s id with
  | none => (s, .error .keyNotFound)
  | some _ => (⟨s.keys.filter (fun e => !(e.1 == id)), s.next⟩, .ok ())

/-- `n` simultaneous deletions of one key id: under the store's write lock they are `n` deletions in some order; the store
afterwards and the number of calls that reported success -/
def deleteN (s : Store) (id : Nat) : Nat → Store × Nat
  | 0 => (s, 0)
  | n + 1 =>
    let r := delete s id
    let rest := deleteN r.1 id n
    (rest.1, (match r.2 with | .ok _ => 1 | .error _ => 0) + rest.2)

/-- `JwkMemStore::exists` -/
def «exists» (s : Store) (id : Nat) : Bool := (lookup s id).isSome

/-! ### the Stronghold-backed store (`identity_stronghold::StrongholdStorage`)

The same state machine with its own regenerated flags.  Differences that matter to the contract: `insert` decodes the
secret key before it stores anything, and `delete` goes through the vault's `delete_secret`, which reports success for
ANY record id once the vault exists (i.e. once some key was written) unless existence is tested first. -/

def shCompatible (k : KType) (a : Alg) : Bool := Gen.C15.shCompatible.contains (ktName k, algName a)

/-- `StrongholdStorage::generate` -/
def generateS (s : Store) (kt : KType) (a : Alg) : Store × Except KErr GenOut :=
  if kt = .other then (s, .error .unsupportedKeyType)
  else if !shCompatible kt a then (s, .error .keyAlgMismatch)
  else if kt ≠ .ed25519 then (s, .error .unspecified)
  else
    let id := s.next + 1
    let jwk : Jwk := ⟨.okpEd25519, true, some (some a), some id, id⟩
    (⟨s.keys ++ [(id, jwk)], id⟩,
     .ok ⟨id, id, Gen.C15.shGenerateReturnsPublicWithKidAndAlg, Gen.C15.shGenerateReturnsPublicWithKidAndAlg, a⟩)

/-- `StrongholdStorage::insert` -/
def insertS (s : Store) (j : Jwk) : Store × Except KErr Nat :=
  match famType j.fam with
  | none => (s, .error .unsupportedKeyType)
  | some kt =>
    if Gen.C15.shInsertRequiresPrivate && !j.isPrivate then (s, .error .notPrivate)
    else
      let algOk : Except KErr Unit :=
        if !Gen.C15.shInsertRequiresAlg then .ok () else
        match j.alg with
        | none => .error .unsupportedAlg
        | some none => .error .unsupportedAlg
        | some (some a) => if shCompatible kt a then .ok () else .error .keyAlgMismatch
      match algOk with
      | .error e => (s, .error e)
      | .ok _ =>
        if Gen.C15.shInsertExpandsSecret && j.secret.isNone then (s, .error .unspecified)
        else
          let id := s.next + 1
          (⟨s.keys ++ [(id, j)], id⟩, .ok id)

/-- `StrongholdStorage::delete` -/
def deleteS (s : Store) (id : Nat) : Store × Except KErr Unit :=
  match lookup s id with
  | some _ => (⟨s.keys.filter (fun e => !(e.1 == id)), s.next⟩, .ok ())
  | none =>
    if Gen.C15.shDeleteChecksExistence then (s, .error .keyNotFound)
    else if s.next = 0 then (s, .error (if Gen.C15.shDeleteReportsMissing then .keyNotFound else .unspecified))
    else (s, .ok ())

inductive Op
  | generate (kt : KType) (a : Alg) | insert (j : Jwk) | delete (id : Nat)
  deriving DecidableEq, Repr

def step (s : Store) : Op → Store
  | .generate kt a => (generate s kt a).1
  | .insert j => (insert s j).1
  | .delete id => (delete s id).1

def run (s : Store) (ops : List Op) : Store := ops.foldl step s

/-! ### the key-id store -/

abbrev KidStore := List (Nat × Nat)   -- method digest ↦ key id

def kidLookup (m : KidStore) (d : Nat) : Option Nat := (m.find? (fun e => e.1 == d)).map (·.2)

inductive IErr | alreadyExists | notFound
  deriving DecidableEq, Repr

/-- `KeyIdMemstore::insert_key_id` (check and insertion under one write lock) -/
def insertKid (m : KidStore) (d k : Nat) : KidStore × Except IErr Unit :=
  if Gen.C15.keyIdInsertRefusesExisting && (kidLookup m d).isSome then (m, .error .alreadyExists)
  else (m ++ [(d, k)], .ok ())

def getKid (m : KidStore) (d : Nat) : Except IErr Nat :=
  match kidLookup m d with
  | some k => .ok k
  | none => .error .notFound

def deleteKid (m : KidStore) (d : Nat) : KidStore × Except IErr Unit :=
  match kidLookup m d with
  | some _ => (m.filter (fun e => !(e.1 == d)), .ok ())
  | none => (m, .error .notFound)

/-- several threads inserting: with the lock held across check and insertion every interleaving is a sequence of whole
insertions; `order` is the order in which the threads obtained the lock.  Returns the final store and each
thread's result. -/
def race (m : KidStore) (d : Nat) : List Nat → KidStore × List (Except IErr Unit)
  | [] => (m, [])
  | k :: ks =>
    let r := insertKid m d k
    let rest := race r.1 d ks
    (rest.1, r.2 :: rest.2)

/-- without the lock: two threads may both pass the check before either inserts -/
def raceUnlocked2 (m : KidStore) (d k1 k2 : Nat) : KidStore × List (Except IErr Unit) :=
  let c1 := (kidLookup m d).isSome
  let c2 := (kidLookup m d).isSome
  let m1 := if c1 then m else m ++ [(d, k1)]
  let m2 := if c2 then m1 else m1 ++ [(d, k2)]
  (m2, [if c1 then .error .alreadyExists else .ok (), if c2 then .error .alreadyExists else .ok ()])

end IdModel.KeyStore
