import IdModel.Meta.Lemmas
/-! A DID rewrite that is injective on the DIDs a document mentions keeps the id constraints (C14). -/
namespace IdModel.Meta
open IdModel.Doc IdModel.OSet

def IDoc.relField (d : IDoc) : Rel → List MR
  | .auth => d.auth | .asrt => d.asrt | .keyAgr => d.keyAgr | .capDel => d.capDel | .capInv => d.capInv

theorem getRel_toDoc (d : IDoc) (r : Rel) : d.toDoc.getRel r = (d.relField r).map MR.toMRef := by
  cases r <;> rfl

theorem relField_mapP (h : Nat → Nat) (d : IDoc) (r : Rel) : (d.mapP h).relField r = (d.relField r).map (MR.mapP h) := by
  cases r <;> rfl

theorem relField_mem_rels (d : IDoc) (r : Rel) (e : MR) (he : e ∈ d.relField r) : e ∈ d.rels := by
  rw [mem_rels]
  cases r
  · exact Or.inl he
  · exact Or.inr (Or.inl he)
  · exact Or.inr (Or.inr (Or.inl he))
  · exact Or.inr (Or.inr (Or.inr (Or.inl he)))
  · exact Or.inr (Or.inr (Or.inr (Or.inr he)))

theorem MR.id_did_mem (d : IDoc) (e : MR) (he : e ∈ d.rels) : e.id.did ∈ d.dids := by
  apply mem_dids_rel d e he
  cases e <;> simp [MR.dids, Mth.dids, MR.id]

theorem MR.mapP_toMRef_id (h : Nat → Nat) (e : MR) : (e.mapP h).toMRef.id = mapIdP h e.toMRef.id := by
  cases e <;> rfl

theorem MR.mapP_toMRef_isEmbed (h : Nat → Nat) (e : MR) : (e.mapP h).toMRef.isEmbed = e.toMRef.isEmbed := by
  cases e <;> rfl

theorem uniq_toMethod (l : List Mth) (h : Uniq Mth.id l) : Uniq Method.id (l.map Mth.toMethod) := by
  unfold Uniq at *
  simpa [List.map_map, Function.comp_def, Mth.toMethod] using h

theorem uniq_toMRef (l : List MR) (h : Uniq MR.id l) : Uniq MRef.id (l.map MR.toMRef) := by
  unfold Uniq at *
  simpa [List.map_map, Function.comp_def, MR.toMRef_id] using h

theorem uniq_relField (d : IDoc) (hw : WFI d) (r : Rel) : Uniq MR.id (d.relField r) := by
  obtain ⟨a, b, c, e, f⟩ := uniq_rels d hw
  cases r <;> assumption

/-- membership in a relationship of the mapped document -/
theorem mem_getRel_mapP (h : Nat → Nat) (d : IDoc) (r : Rel) (e' : MRef) (he : e' ∈ (d.mapP h).toDoc.getRel r) :
    ∃ e ∈ d.relField r, e' = (e.mapP h).toMRef := by
  rw [getRel_toDoc, relField_mapP, List.map_map] at he
  obtain ⟨e, hmem, heq⟩ := List.mem_map.1 he
  exact ⟨e, hmem, heq.symm⟩

theorem mem_vm_mapP (h : Nat → Nat) (d : IDoc) (v' : Method) (hv : v' ∈ (d.mapP h).toDoc.vm) :
    ∃ m ∈ d.vm, v' = (m.mapP h).toMethod := by
  simp only [IDoc.toDoc, IDoc.mapP, List.map_map] at hv
  obtain ⟨m, hmem, heq⟩ := List.mem_map.1 hv
  exact ⟨m, hmem, heq.symm⟩

theorem mem_svc_mapP (h : Nat → Nat) (d : IDoc) (s' : Service) (hs : s' ∈ (d.mapP h).toDoc.service) :
    ∃ s ∈ d.service, s' = svcMapP h s := by
  simp only [IDoc.toDoc, IDoc.mapP] at hs
  obtain ⟨s, hmem, heq⟩ := List.mem_map.1 hs
  exact ⟨s, hmem, heq.symm⟩

theorem inv_mapP (h : Nat → Nat) (d : IDoc) (hw : WFI d) (hi : InjOn h d.dids) : Inv (d.mapP h).toDoc := by
  have inj := mapIdP_inj h d.dids hi
  have relDid : ∀ r, ∀ e ∈ d.relField r, e.toMRef.id.did ∈ d.dids := by
    intro r e he
    rw [MR.toMRef_id]
    exact MR.id_did_mem d e (relField_mem_rels d r e he)
  have memRel : ∀ r, ∀ e ∈ d.relField r, e.toMRef ∈ d.toDoc.getRel r := by
    intro r e he
    rw [getRel_toDoc]
    exact List.mem_map.2 ⟨e, he, rfl⟩
  have memVm : ∀ m ∈ d.vm, m.toMethod ∈ d.toDoc.vm := fun m hm => List.mem_map.2 ⟨m, hm, rfl⟩
  refine ⟨?_, ?_, ?_, ?_, ?_, ?_, ?_⟩
  · -- general-purpose methods stay distinct
    have : Uniq Mth.id ((d.mapP h).vm) :=
      uniq_map Mth.id (Mth.mapP h) h d.dids d.vm (uniq_vm d hw) (fun _ _ => rfl) (fun m hm => (mem_dids_vm d m hm).1) hi
    exact uniq_toMethod _ this
  · intro r
    rw [getRel_toDoc, relField_mapP]
    apply uniq_toMRef
    exact uniq_map MR.id (MR.mapP h) h d.dids (d.relField r) (uniq_relField d hw r) (fun e _ => MR.mapP_id h e)
      (fun e he => MR.id_did_mem d e (relField_mem_rels d r e he)) hi
  · have : Uniq Service.id (d.service.map (svcMapP h)) :=
      uniq_map Service.id (svcMapP h) h d.dids d.service hw.inv.uSvc (fun _ _ => rfl) (fun s hs => mem_dids_svc d s hs) hi
    exact this
  · intro r r' hne e1' h1 e2' h2
    obtain ⟨e1, m1, rfl⟩ := mem_getRel_mapP h d r e1' h1
    obtain ⟨e2, m2, rfl⟩ := mem_getRel_mapP h d r' e2' h2
    intro hid
    rw [MR.mapP_toMRef_id, MR.mapP_toMRef_id] at hid
    have := inj _ _ (relDid r e1 m1) (relDid r' e2 m2) hid
    have rr := hw.inv.cross r r' hne _ (memRel r e1 m1) _ (memRel r' e2 m2) this
    rw [MR.mapP_toMRef_isEmbed, MR.mapP_toMRef_isEmbed]
    exact rr
  · intro v' hv r e' he hemb hid
    obtain ⟨m, hm, rfl⟩ := mem_vm_mapP h d v' hv
    obtain ⟨e, me, rfl⟩ := mem_getRel_mapP h d r e' he
    rw [MR.mapP_toMRef_isEmbed] at hemb
    rw [MR.mapP_toMRef_id] at hid
    have : e.toMRef.id = m.toMethod.id :=
      inj _ _ (relDid r e me) (mem_dids_vm d m hm).1 hid
    exact hw.inv.vmEmb _ (memVm m hm) r _ (memRel r e me) hemb this
  · intro s' hs r e' he hid
    obtain ⟨s, ms, rfl⟩ := mem_svc_mapP h d s' hs
    obtain ⟨e, me, rfl⟩ := mem_getRel_mapP h d r e' he
    rw [MR.mapP_toMRef_id] at hid
    have : e.toMRef.id = s.id := inj _ _ (relDid r e me) (mem_dids_svc d s ms) hid
    exact hw.inv.svcRel s ms r _ (memRel r e me) this
  · intro s' hs v' hv hid
    obtain ⟨s, ms, rfl⟩ := mem_svc_mapP h d s' hs
    obtain ⟨m, hm, rfl⟩ := mem_vm_mapP h d v' hv
    have : m.toMethod.id = s.id := inj _ _ (mem_dids_vm d m hm).1 (mem_dids_svc d s ms) hid
    exact hw.inv.svcVm s ms _ (memVm m hm) this

theorem wfi_mapP (h : Nat → Nat) (d : IDoc) (hw : WFI d) (hi : InjOn h d.dids) : WFI (d.mapP h) := by
  refine ⟨inv_mapP h d hw hi, ?_⟩
  intro c hc
  simp only [IDoc.mapP] at hc
  cases hd : d.controller with
  | none => rw [hd] at hc; cases hc
  | some c0 =>
    rw [hd] at hc
    simp only [Option.map_some, Option.some.injEq] at hc
    subst hc
    have w0 := hw.ctl c0 hd
    cases c0 with
    | one x => trivial
    | set xs =>
      refine ⟨nodup_map_inj h xs w0.1 ?_, by simpa using w0.2⟩
      intro x hx y hy
      exact hi x (mem_dids_ctl d x (by rw [hd]; simpa [ctlDids, OneOrSet.toList] using hx)) y
        (mem_dids_ctl d y (by rw [hd]; simpa [ctlDids, OneOrSet.toList] using hy))

theorem wfi_addrs (d : IDoc) (b : Bool) (hw : WFI d) : WFI { d with addrs := b } := ⟨hw.inv, hw.ctl⟩

end IdModel.Meta
