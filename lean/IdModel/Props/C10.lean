import IdModel.Did.Lemmas
/-!
# C10 — accepted DIDs and DID URLs are canonical, decomposable, free of stray parts

The model transliterates the third-party parser (with its defects) and the `identity_did` wrappers;
character classes are regenerated from both sources on every run.  Theorem-backed here:
the plain DID type (verbatim, recomposition, W3C character syntax, no URL parts, no panic), the
component syntax of every DID URL value produced by `parse`/`join`/setters, totality of
`DIDUrl::parse`/`join`, agreement of `Eq`/`Ord`/`Hash`.  The re-parse of joined/edited values is
tied to the code by the correspondence check (two residual classes caused by the third-party
parser are recorded as known findings).
-/
namespace IdModel.Props.C10
open IdModel IdModel.Did IdModel.Gen.C10

/-! ## W3C DID syntax, written independently of the code -/

def IsIdChar (c : Nat) : Prop :=
  (48 ≤ c ∧ c ≤ 57) ∨ (65 ≤ c ∧ c ≤ 90) ∨ (97 ≤ c ∧ c ≤ 122) ∨ c = 46 ∨ c = 45 ∨ c = 95
def IsHexDig (c : Nat) : Prop := (48 ≤ c ∧ c ≤ 57) ∨ (65 ≤ c ∧ c ≤ 70) ∨ (97 ≤ c ∧ c ≤ 102)
/-- `pchar` of RFC 3986 minus `%` (unreserved / sub-delims / ":" / "@") -/
def IsPChar (c : Nat) : Prop :=
  IsIdChar c ∨ c = 126 ∨ c = 33 ∨ c = 36 ∨ c = 38 ∨ c = 39 ∨ c = 40 ∨ c = 41 ∨ c = 42 ∨ c = 43 ∨
    c = 44 ∨ c = 59 ∨ c = 61 ∨ c = 58 ∨ c = 64

/-- a string of `cls` characters and `%` HEXDIG HEXDIG triples -/
inductive Syntax (cls : Nat → Prop) : Str → Prop
  | nil : Syntax cls []
  | char (c : Nat) (r : Str) : cls c → c ≠ 37 → Syntax cls r → Syntax cls (c :: r)
  | pct (a b : Nat) (r : Str) : IsHexDig a → IsHexDig b → Syntax cls r → Syntax cls (37 :: a :: b :: r)

theorem isHex_iff (c : Nat) : isHex c = true ↔ IsHexDig c := by
  unfold isHex IsHexDig; simp only [Bool.or_eq_true, Bool.and_eq_true, decide_eq_true_eq]
  constructor
  · rintro ((h | h) | h) <;> simp [h]
  · rintro (h | h | h) <;> simp [h]

theorem isCharMethodName_iff (c : Nat) :
    isCharMethodName c = true ↔ ((48 ≤ c ∧ c ≤ 57) ∨ (97 ≤ c ∧ c ≤ 122)) := by
  unfold isCharMethodName; simp

theorem isCharMethodId_iff (c : Nat) : isCharMethodId c = true ↔ (IsIdChar c ∨ c = 58) := by
  unfold isCharMethodId IsIdChar
  simp only [Bool.or_eq_true, Bool.and_eq_true, decide_eq_true_eq, beq_iff_eq]
  constructor
  · rintro ((((((h | h) | h) | h) | h) | h) | h) <;> simp [h]
  · rintro ((h | h | h | h | h | h) | h) <;> simp [h]

theorem isCharPath_iff (c : Nat) : isCharPath c = true ↔ (IsPChar c ∨ c = 47) := by
  unfold isCharPath IsPChar
  rw [Bool.or_eq_true, isCharMethodId_iff]
  simp only [Bool.or_eq_true, beq_iff_eq]
  constructor
  · rintro ((h | h) | h)
    · exact Or.inl (Or.inl h)
    · subst h; simp
    · rcases h with (((((((((((((h | h) | h) | h) | h) | h) | h) | h) | h) | h) | h) | h) | h) | h) <;> simp [h]
  · rintro ((h | h) | h)
    · exact Or.inl (Or.inl h)
    · rcases h with h | h | h | h | h | h | h | h | h | h | h | h | h | h <;> simp [h]
    · simp [h]

theorem isCharQuery_iff (c : Nat) : isCharQuery c = true ↔ (IsPChar c ∨ c = 47 ∨ c = 63) := by
  unfold isCharQuery
  rw [Bool.or_eq_true, isCharPath_iff]; simp [or_assoc]

theorem isCharFragment_iff (c : Nat) : isCharFragment c = true ↔ (IsPChar c ∨ c = 47 ∨ c = 63) := by
  unfold isCharFragment
  rw [Bool.or_eq_true, isCharPath_iff]; simp [or_assoc]

/-- `is_valid_url_segment` accepts exactly the strings of class characters and well-formed
percent triples, provided `%` itself is not in the class -/
theorem validSegment_iff (cls : Nat → Bool) (P : Nat → Prop) (hcls : ∀ c, cls c = true ↔ P c)
    (h37 : ¬ P 37) (s : Str) : validSegment cls s = true ↔ Syntax P s := by
  induction hn : s.length using Nat.strongRecOn generalizing s with
  | _ n ih =>
    match s, hn with
    | [], _ => simp [validSegment]; exact Syntax.nil
    | c :: r, hn =>
      by_cases hc : c = 37
      · subst hc
        match r, hn with
        | [], _ =>
          simp only [validSegment, Bool.false_eq_true, false_iff]
          intro h; cases h with
          | char c r hc hne _ => exact absurd rfl hne
        | [a], _ =>
          simp only [validSegment, Bool.false_eq_true, false_iff]
          intro h; cases h with
          | char c r hc hne _ => exact absurd rfl hne
        | a :: b :: r', hn =>
          have ihr := ih r'.length (by simp at hn; omega) r' rfl
          simp only [validSegment, Bool.and_eq_true, isHex_iff, ihr]
          constructor
          · rintro ⟨⟨ha, hb⟩, hr⟩; exact Syntax.pct a b r' ha hb hr
          · intro h
            cases h with
            | char c r hc hne _ => exact absurd rfl hne
            | pct a b r ha hb hr => exact ⟨⟨ha, hb⟩, hr⟩
      · have ihr := ih r.length (by simp at hn; omega) r rfl
        have e : validSegment cls (c :: r) = (cls c && validSegment cls r) := by
          rw [validSegment]
          all_goals simp_all
        rw [e]
        simp only [Bool.and_eq_true, hcls, ihr]
        constructor
        · rintro ⟨h1, h2⟩; exact Syntax.char c r h1 hc h2
        · intro h
          cases h with
          | char c r h1 _ h2 => exact ⟨h1, h2⟩
          | pct a b r ha hb hr => exact absurd rfl hc

theorem validMethodIdAux_eq (s : Str) : validMethodIdAux s = validSegment isCharMethodId s := by
  induction hn : s.length using Nat.strongRecOn generalizing s with
  | _ n ih =>
    match s, hn with
    | [], _ => rfl
    | c :: r, hn =>
      by_cases hc : c = 37
      · subst hc
        match r, hn with
        | [], _ => rfl
        | [a], _ => rfl
        | a :: b :: r', hn =>
          have ihr := ih r'.length (by simp at hn; omega) r' rfl
          simp only [validMethodIdAux, validSegment, ihr]
      · have ihr := ih r.length (by simp at hn; omega) r rfl
        have e1 : validSegment isCharMethodId (c :: r) = (isCharMethodId c && validSegment isCharMethodId r) := by
          rw [validSegment]
          all_goals simp_all
        have e2 : validMethodIdAux (c :: r) = (isCharMethodId c && validMethodIdAux r) := by
          rw [validMethodIdAux]
          all_goals simp_all
        rw [e1, e2, ihr]

theorem validMethodIdAux_iff (s : Str) :
    validMethodIdAux s = true ↔ Syntax (fun c => IsIdChar c ∨ c = 58) s := by
  rw [validMethodIdAux_eq]
  exact validSegment_iff isCharMethodId _ isCharMethodId_iff (by simp [IsIdChar]) s

/-! ## the plain DID type -/

/-- **no panic** on any input, for the DID and the DID URL parser and for `join` -/
theorem parse_never_panics (s : Str) :
    (parseDid s).isPanic = false ∧ (parseUrl s).isPanic = false := by
  have hb := parseBase_no_panic s
  unfold parseDid parseUrl
  cases h : parseBase s with
  | panic m => rw [h] at hb; cases hb
  | err e => exact ⟨rfl, rfl⟩
  | ok c =>
    simp only
    refine ⟨by split <;> rfl, by split <;> rfl⟩

theorem join_never_panics (u : DidUrl) (seg : Str) : (join u seg).isPanic = false := by
  unfold join
  split
  · rfl
  · have hb := parseBase_no_panic u.toStr
    simp only
    cases h : parseBase u.toStr with
    | panic m => rw [h] at hb; cases hb
    | err e => rfl
    | ok c =>
      simp only
      split
      · rfl
      · split <;> rfl

/-- **every accepted DID is reproduced verbatim, recomposes from its components, satisfies the
W3C character syntax component-wise, and carries no path, query or fragment** -/
theorem parseDid_spec (s : Str) (d : CoreDid) (h : parseDid s = .ok d) :
    d.str = s ∧
    s = [100, 105, 100, 58] ++ d.method ++ [58] ++ d.methodId ∧
    (d.method ≠ [] ∧ ∀ c ∈ d.method, (48 ≤ c ∧ c ≤ 57) ∨ (97 ≤ c ∧ c ≤ 122)) ∧
    (d.methodId ≠ [] ∧ Syntax (fun c => IsIdChar c ∨ c = 58) d.methodId) ∧
    (∀ c ∈ s, c ≠ 47 ∧ c ≠ 63 ∧ c ≠ 35) := by
  unfold parseDid at h
  cases hb : parseBase s with
  | panic m => rw [hb] at h; cases h
  | err e => rw [hb] at h; cases h
  | ok c =>
    rw [hb] at h
    simp only at h
    split at h
    · rename_i hv
      injection h with h
      subst h
      -- unpack the guarded parse
      unfold parseBase at hb
      split at hb
      · cases hb
      · rename_i ht
        have ht' : trim s = s := by simpa using ht
        split at hb
        · cases hb
        · obtain ⟨i, p, q, f, hc, h3, h58, hi58, hge, hle, hip, hpl, hm, hmid, _, _⟩ := upParse_ok s c hb
          rw [ht'] at h3 h58 hi58
          subst hc
          unfold checkValidity at hv
          simp only [Bool.and_eq_true] at hv
          obtain ⟨⟨⟨⟨hvn, hvi⟩, hpe⟩, hfr⟩, hqu⟩ := hv
          -- no query / fragment / path
          have hq : q = none := by
            cases q with
            | none => rfl
            | some qq => cases f <;> simp [Core.queryOf] at hqu
          have hf : f = none := by
            cases f with
            | none => rfl
            | some ff => simp [Core.fragmentOf] at hfr
          subst hq; subst hf
          have hpath : s.drop p = [] := by simpa [Core.pathOf] using hpe
          have hp : p = s.length := by
            have := List.drop_eq_nil_iff.1 hpath; omega
          subst hp
          have hlt := getElem?_lt s i 58 hi58
          have hmeth : ({ str := s, core := ⟨3, i, s.length, none, none⟩ } : CoreDid).method = sl s 4 i := rfl
          have hmidv : ({ str := s, core := ⟨3, i, s.length, none, none⟩ } : CoreDid).methodId = s.drop (i + 1) := by
            show sl s (i + 1) s.length = s.drop (i + 1)
            unfold sl; rw [List.take_of_length_le (by simp)]
          -- recomposition
          have hrec : s = [100, 105, 100, 58] ++ sl s 4 i ++ [58] ++ s.drop (i + 1) := by
            have h4 : s.take 4 = [100, 105, 100, 58] := by
              have e1 : s.take 4 = s.take 3 ++ (s.drop 3).take 1 := by
                rw [← List.take_add]
              rw [e1, h3]
              have : (s.drop 3).take 1 = [58] := by
                have hl3 := getElem?_lt s 3 58 h58
                rw [List.drop_eq_getElem_cons hl3]
                have := (List.getElem?_eq_some_iff.1 h58).2
                simp [this]
              rw [this]; rfl
            have e2 : s = s.take 4 ++ s.drop 4 := (List.take_append_drop 4 s).symm
            have e3 : s.drop 4 = (s.drop 4).take (i - 4) ++ (s.drop 4).drop (i - 4) :=
              (List.take_append_drop (i - 4) (s.drop 4)).symm
            have e4 : (s.drop 4).drop (i - 4) = s.drop i := by
              rw [List.drop_drop]; congr 1; omega
            have e5 : s.drop i = 58 :: s.drop (i + 1) := by
              rw [List.drop_eq_getElem_cons hlt]
              have := (List.getElem?_eq_some_iff.1 hi58).2
              simp [this]
            conv => lhs; rw [e2, h4, e3, e4, e5]
            simp [sl]
          refine ⟨rfl, ?_, ?_, ?_, ?_⟩
          · rw [hmeth, hmidv]; exact hrec
          · rw [hmeth]
            unfold validMethodName at hvn
            simp only [Bool.and_eq_true, Bool.not_eq_true', List.all_eq_true] at hvn
            refine ⟨hm, ?_⟩
            intro c hc
            exact (isCharMethodName_iff c).1 (hvn.2 c hc)
          · rw [hmidv]
            unfold validMethodId at hvi
            simp only [Bool.and_eq_true, Bool.not_eq_true'] at hvi
            have hmid' : s.drop (i + 1) ≠ [] := by
              intro he; apply hmid; unfold sl; rw [he]; simp
            refine ⟨hmid', (validMethodIdAux_iff _).1 ?_⟩
            have : Core.methodIdOf ⟨3, i, s.length, none, none⟩ s = s.drop (i + 1) := by
              show sl s (i + 1) s.length = _
              unfold sl; rw [List.take_of_length_le (by simp)]
            rw [this] at hvi
            exact hvi.2
          · -- no delimiter anywhere: every byte is `d`,`i`,`:`, a method or a method-id byte
            have hsyn : Syntax (fun c => IsIdChar c ∨ c = 58) (s.drop (i + 1)) := by
              unfold validMethodId at hvi
              simp only [Bool.and_eq_true] at hvi
              have : Core.methodIdOf ⟨3, i, s.length, none, none⟩ s = s.drop (i + 1) := by
                show sl s (i + 1) s.length = _
                unfold sl; rw [List.take_of_length_le (by simp)]
              rw [this] at hvi
              exact (validMethodIdAux_iff _).1 hvi.2
            have hsynmem : ∀ t, Syntax (fun c => IsIdChar c ∨ c = 58) t →
                ∀ c ∈ t, c ≠ 47 ∧ c ≠ 63 ∧ c ≠ 35 := by
              intro t ht
              induction ht with
              | nil => intro c hc; cases hc
              | char c r hcl _ _ ih =>
                intro x hx
                rcases List.mem_cons.1 hx with hx | hx
                · subst hx
                  unfold IsIdChar at hcl; omega
                · exact ih x hx
              | pct a b r ha hb _ ih =>
                intro x hx
                simp only [List.mem_cons] at hx
                rcases hx with hx | hx | hx | hx
                · omega
                · subst hx; unfold IsHexDig at ha; omega
                · subst hx; unfold IsHexDig at hb; omega
                · exact ih x hx
            unfold validMethodName at hvn
            simp only [Bool.and_eq_true, List.all_eq_true] at hvn
            intro c hc
            rw [hrec] at hc
            simp only [List.mem_append, List.mem_cons, List.not_mem_nil, or_false] at hc
            rcases hc with ((hc | hc) | hc) | hc
            · omega
            · have := (isCharMethodName_iff c).1 (hvn.2 c hc); omega
            · omega
            · exact hsynmem _ hsyn c hc
    · cases h

/-! ## component syntax of DID URL values -/

/-- what every stored component looks like -/
structure UrlWF (u : DidUrl) : Prop where
  path : ∀ p, u.path = some p → p.head? = some 47 ∧ Syntax (fun c => IsPChar c ∨ c = 47) p
  query : ∀ q, u.query = some q → ∃ t, q = 63 :: t ∧ t ≠ [] ∧ Syntax (fun c => IsPChar c ∨ c = 47 ∨ c = 63) t
  fragment : ∀ f, u.fragment = some f → ∃ t, f = 35 :: t ∧ t ≠ [] ∧ Syntax (fun c => IsPChar c ∨ c = 47 ∨ c = 63) t

theorem setPath_wf (v : Option Str) (p : Str) (h : setPath v = some (some p)) :
    p.head? = some 47 ∧ Syntax (fun c => IsPChar c ∨ c = 47) p := by
  unfold setPath at h
  split at h
  · cases h
  · cases h
  · split at h
    · rename_i hv
      injection h with h; injection h with h; subst h
      simp only [Bool.and_eq_true, beq_iff_eq] at hv
      exact ⟨hv.1, (validSegment_iff isCharPath _ isCharPath_iff (by simp [IsPChar, IsIdChar]) _).1 hv.2⟩
    · cases h

theorem setQuery_wf (v : Option Str) (q : Str) (h : setQuery v = some (some q)) :
    ∃ t, q = 63 :: t ∧ t ≠ [] ∧ Syntax (fun c => IsPChar c ∨ c = 47 ∨ c = 63) t := by
  unfold setQuery at h
  split at h
  · cases h
  · cases h
  · simp only at h
    split at h
    · cases h
    · rename_i hv
      injection h with h; injection h with h; subst h
      simp only [Bool.or_eq_true, Bool.not_eq_true', not_or, Bool.not_eq_true] at hv
      refine ⟨_, rfl, ?_, ?_⟩
      · intro he; rw [he] at hv; simp at hv
      · exact (validSegment_iff isCharQuery _ isCharQuery_iff (by simp [IsPChar, IsIdChar]) _).1
          (by simpa using hv.2)

theorem setFragment_wf (v : Option Str) (q : Str) (h : setFragment v = some (some q)) :
    ∃ t, q = 35 :: t ∧ t ≠ [] ∧ Syntax (fun c => IsPChar c ∨ c = 47 ∨ c = 63) t := by
  unfold setFragment at h
  split at h
  · cases h
  · cases h
  · simp only at h
    split at h
    · cases h
    · rename_i hv
      injection h with h; injection h with h; subst h
      simp only [Bool.or_eq_true, Bool.not_eq_true', not_or, Bool.not_eq_true] at hv
      refine ⟨_, rfl, ?_, ?_⟩
      · intro he; rw [he] at hv; simp at hv
      · exact (validSegment_iff isCharFragment _ isCharFragment_iff (by simp [IsPChar, IsIdChar]) _).1
          (by simpa using hv.2)

/-- every value built by `from_base_did_url` (hence by `parse` and `join`) has well-formed
components and a DID part that passes `check_validity` -/
theorem fromBase_wf (s : Str) (c : Core) (u : DidUrl) (h : fromBase s c = some u) :
    UrlWF u ∧ checkValidity u.did { c with query := none, fragment := none } = true := by
  unfold fromBase at h
  split at h
  · rename_i p q f hp hq hf
    simp only at h
    split at h
    · rename_i hv
      injection h with h; subst h
      refine ⟨⟨?_, ?_, ?_⟩, hv⟩
      · intro p' hp'; simp only at hp'; subst hp'; exact setPath_wf _ _ hp
      · intro q' hq'; simp only at hq'; subst hq'; exact setQuery_wf _ _ hq
      · intro f' hf'; simp only at hf'; subst hf'; exact setFragment_wf _ _ hf
    · cases h
  · cases h

theorem parseUrl_wf (s : Str) (u : DidUrl) (h : parseUrl s = .ok u) : UrlWF u := by
  unfold parseUrl at h
  split at h
  · cases h
  · cases h
  · split at h
    · rename_i hu
      injection h with h; subst h
      exact (fromBase_wf _ _ _ hu).1
    · cases h

theorem join_wf (u : DidUrl) (seg : Str) (v : DidUrl) (h : join u seg = .ok v) : UrlWF v := by
  unfold join at h
  split at h
  · cases h
  · simp only at h
    split at h
    · cases h
    · cases h
    · split at h
      · cases h
      · split at h
        · rename_i hv
          injection h with h; subst h
          exact (fromBase_wf _ _ _ hv).1
        · cases h

/-- the public setters: a rejected value leaves the field as it was (the model's setters return
the new field value only on success), an accepted one is well formed -/
theorem setters_wf (u : DidUrl) (hu : UrlWF u) :
    (∀ v p, setPath v = some p → UrlWF { u with path := p }) ∧
    (∀ v q, setQuery v = some q → UrlWF { u with query := q }) ∧
    (∀ v f, setFragment v = some f → UrlWF { u with fragment := f }) := by
  refine ⟨?_, ?_, ?_⟩
  · intro v p h
    refine ⟨?_, hu.query, hu.fragment⟩
    intro p' hp'; simp only at hp'; subst hp'; exact setPath_wf v _ h
  · intro v q h
    refine ⟨hu.path, ?_, hu.fragment⟩
    intro q' hq'; simp only at hq'; subst hq'; exact setQuery_wf v _ h
  · intro v f h
    refine ⟨hu.path, hu.query, ?_⟩
    intro f' hf'; simp only at hf'; subst hf'; exact setFragment_wf v _ h

/-! ## `Eq`, `Ord` and `Hash` agree -/

theorem cmpStr_eq_iff (a b : Str) : cmpStr a b = .eq ↔ a = b := by
  induction a generalizing b with
  | nil => cases b <;> simp [cmpStr]
  | cons x xs ih =>
    cases b with
    | nil => simp [cmpStr]
    | cons y ys =>
      unfold cmpStr
      by_cases h1 : x < y
      · simp [h1]; omega
      · by_cases h2 : x > y
        · simp [h1, h2]; omega
        · have : x = y := by omega
          subst this
          simp [ih]

theorem eq_iff_cmp_eq (a b : DidUrl) : DidUrl.eq a b = true ↔ DidUrl.cmp a b = .eq := by
  unfold DidUrl.eq DidUrl.cmp
  simp only [Bool.and_eq_true, beq_iff_eq]
  constructor
  · rintro ⟨⟨⟨h1, h2⟩, h3⟩, h4⟩
    rw [(cmpStr_eq_iff _ _).2 h1, (cmpStr_eq_iff _ _).2 h2, (cmpStr_eq_iff _ _).2 h3]
    exact (cmpStr_eq_iff _ _).2 h4
  · intro h
    cases h1 : cmpStr a.did b.did <;> rw [h1] at h <;> try cases h
    cases h2 : cmpStr (a.path.getD []) (b.path.getD []) <;> rw [h2] at h <;> try cases h
    cases h3 : cmpStr (a.query.getD []) (b.query.getD []) <;> rw [h3] at h <;> try cases h
    exact ⟨⟨⟨(cmpStr_eq_iff _ _).1 h1, (cmpStr_eq_iff _ _).1 h2⟩, (cmpStr_eq_iff _ _).1 h3⟩,
      (cmpStr_eq_iff _ _).1 h⟩

theorem eq_imp_hash_input_eq (a b : DidUrl) (h : DidUrl.eq a b = true) :
    a.hashInput = b.hashInput := by
  unfold DidUrl.eq at h
  simp only [Bool.and_eq_true, beq_iff_eq] at h
  obtain ⟨⟨⟨h1, h2⟩, h3⟩, h4⟩ := h
  unfold DidUrl.hashInput DidUrl.toStr
  rw [h1, h2, h3, h4]

/-! ## non-vacuity -/

example : (match parseDid [100, 105, 100, 58, 109, 58, 97, 37, 52, 49, 98] with
    | .ok d => d.methodId | _ => []) = [97, 37, 52, 49, 98] := by decide +kernel
/-- the former panic input is now an error -/
example : parseDid [100, 105, 100, 58, 109, 58, 37, 52, 49] = .err .invalid := by decide +kernel

end IdModel.Props.C10
