import IdModel.IotaDid.Model
import Driver.Util
namespace Driver.C17
open IdModel IdModel.Did IdModel.IotaDid

def showD (d : CoreDid) : String :=
  s!"ok:{hex d.str}:{hex (network d)}:{hex (tag d)}:{if isPlaceholder d then "P" else "N"}"

def handle : List String → String
  | ["parse", _orig, lower] =>
    match unhex lower with
    | some l => match parseLower l with
      | .ok d => showD d
      | .err _ => "err"
      | .panic _ => "panic"
    | none => "bad-request"
  | ["fromcore", h] =>
    match unhex h with
    | some s => match parseDid s with
      | .ok d => match tryFromCore d with
        | .ok d' => showD d'
        | .err _ => "err"
        | .panic _ => "panic"
      | _ => "core-err"
    | none => "bad-request"
  | ["new", bytes, net] =>
    match unhex bytes, unhex net with
    | some b, some n =>
      if b.length != 32 then "bad-request"
      else if !validNetwork n then "bad-network"
      else match new b n with
        | .ok d => showD d
        | .err _ => "err"
        | .panic _ => "panic"
    | _, _ => "bad-request"
  | ["net", n] =>
    match unhex n with
    | some n => if validNetwork n then "ok" else "err"
    | none => "bad-request"
  | ["eq", _oa, la, _ob, lb] =>
    match unhex la, unhex lb with
    | some a, some b =>
      match parseLower a, parseLower b with
      | .ok x, .ok y => if x.str == y.str then "E" else "N"
      | _, _ => "bad-request"
    | _, _ => "bad-request"
  | _ => "bad-request"

end Driver.C17
