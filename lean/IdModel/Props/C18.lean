import IdModel.Jwk.Model
import IdModel.Jwk.ThumbLemmas
/-!
# C18 — JWK public projection, thumbprint and key-type coherence never leak keys

Everything is stated over the member lists regenerated from key_params.rs / key.rs; the table
facts below are closed and checked by evaluation, so dropping a member from `to_public`,
`is_public` or the thumbprint breaks a theorem here.
-/
namespace IdModel.Props.C18
open IdModel.Jwk IdModel.Gen.C18

/-- the private members of each family, written independently of the code (RFC 7518 §6) -/
def PrivateSpec : Family → List String
  | .ec => ["d"]
  | .rsa => ["d", "p", "q", "dp", "dq", "qi", "oth"]
  | .oct => ["k"]
  | .okp => ["d"]

/-- the required public members of each family (RFC 7638 §3.2, RFC 8037 §2) -/
def PublicSpec : Family → List String
  | .ec => ["crv", "x", "y"]
  | .rsa => ["n", "e"]
  | .oct => []
  | .okp => ["crv", "x"]

/-- table facts about the regenerated lists -/
theorem tables (f : Family) :
    (∀ n ∈ kept f, n ∉ PrivateSpec f) ∧
    (∀ n ∈ PublicSpec f, n ∈ kept f ∨ f = .oct) ∧
    (f ≠ .oct → (∀ n ∈ publicTest f, n ∈ PrivateSpec f) ∧ (∀ n ∈ PrivateSpec f, n ∈ publicTest f)) ∧
    (f ≠ .oct → (∀ n ∈ optional f, n ∈ PrivateSpec f) ∧ (∀ n ∈ PrivateSpec f, n ∈ optional f)) ∧
    (∀ n ∈ (thumbprintMembers.lookup f.tag).getD [],
        n = "kty" ∨ n ∈ PublicSpec f ∨ (f = .oct ∧ n = "k")) := by
  cases f <;> decide

/-- RFC 7638 §3.2 (EC, RSA, oct) and RFC 8037 §2 (OKP): the required members, in lexicographic order -/
def Rfc7638Members : Family → List String
  | .ec => ["crv", "kty", "x", "y"]
  | .rsa => ["e", "kty", "n"]
  | .oct => ["k", "kty"]
  | .okp => ["crv", "kty", "x"]

/-- **the thumbprint input lists exactly the RFC 7638 members, in RFC 7638 order** (the list is regenerated
from `thumbprint_hash_input` on every run) -/
theorem thumbprint_members_rfc7638 (f : Family) :
    thumbprintMembers.lookup f.tag = some (Rfc7638Members f) := by
  cases f <;> decide

def hasPrivate (j : Jwk) : Prop := ∃ n ∈ PrivateSpec j.family, j.has n = true

/-- well-formed: the members present are members of the family's struct; an `oct` key always has `k` -/
structure WF (j : Jwk) : Prop where
  names : ∀ m ∈ j.members, m.1 ∈ required j.family ∨ m.1 ∈ optional j.family
  oct_k : j.family = .oct → j.has "k" = true

theorem mem_has (j : Jwk) (n : String) : j.has n = true ↔ n ∈ j.members.map (·.1) := by
  unfold Jwk.has; simp

/-- **a key reports itself public exactly when it has no private member** -/
theorem isPublic_iff (j : Jwk) (hw : WF j) : isPublic j = true ↔ ¬ hasPrivate j := by
  unfold isPublic hasPrivate
  by_cases ho : j.family = .oct
  · simp only [ho, bne_self_eq_false, Bool.false_and, Bool.false_eq_true, false_iff]
    intro h
    apply h
    refine ⟨"k", by simp [PrivateSpec], ?_⟩
    have := hw.oct_k ho
    exact this
  · have hne : (j.family != Family.oct) = true := by simpa using ho
    simp only [hne, Bool.true_and, List.all_eq_true, Bool.not_eq_true', not_exists, not_and,
      Bool.not_eq_true]
    have ht := (tables j.family).2.2.1 ho
    constructor
    · intro h n hn; exact h n (ht.2 n hn)
    · intro h n hn; exact h n (ht.1 n hn)

theorem lookup_filter (p : String → Bool) (l : List (String × String)) (n : String) (hp : p n = true) :
    (l.filter fun m => p m.1).lookup n = l.lookup n := by
  induction l with
  | nil => rfl
  | cons m r ih =>
    obtain ⟨k, v⟩ := m
    by_cases hm : k = n
    · have hpm : p k = true := by rw [hm]; exact hp
      have e : (n == k) = true := by simp [hm]
      simp only [List.filter_cons, hpm, ↓reduceIte, List.lookup_cons, e]
    · have e : (n == k) = false := by simpa using fun h' => hm h'.symm
      by_cases hpm : p k = true
      · simp only [List.filter_cons, hpm, ↓reduceIte, List.lookup_cons, e, ih]
      · simp only [List.filter_cons, hpm, Bool.false_eq_true, ↓reduceIte, List.lookup_cons, e, ih]

/-- **the public projection contains no private member** -/
theorem toPublic_no_private (j p : Jwk) (h : toPublic j = some p) : ¬ hasPrivate p := by
  unfold toPublic at h
  split at h
  · cases h
  · rename_i ho
    injection h with h; subst h
    rintro ⟨n, hn, hh⟩
    simp only [Jwk.has, List.contains_iff_mem, List.mem_map, List.mem_filter] at hh
    obtain ⟨m, ⟨_, hk⟩, hm⟩ := hh
    exact (tables j.family).1 n (hm ▸ hk) hn

/-- **it keeps the public key parameters and the key type** -/
theorem toPublic_keeps (j p : Jwk) (h : toPublic j = some p) :
    p.kty = j.family ∧ p.family = j.family ∧
    ∀ n ∈ PublicSpec j.family, p.members.lookup n = j.members.lookup n := by
  unfold toPublic at h
  split at h
  · cases h
  · rename_i ho
    injection h with h; subst h
    refine ⟨rfl, rfl, ?_⟩
    intro n hn
    have hk : n ∈ kept j.family := by
      rcases (tables j.family).2.1 n hn with h1 | h1
      · exact h1
      · simp [h1] at ho
    exact lookup_filter (fun x => (kept j.family).contains x) j.members n (by simpa using hk)

theorem toPublic_isPublic (j p : Jwk) (h : toPublic j = some p) : isPublic p = true := by
  have hnp := toPublic_no_private j p h
  unfold toPublic at h
  split at h
  · cases h
  · rename_i ho
    injection h with h
    have hfam : p.family = j.family := by rw [← h]
    unfold isPublic
    have hne : (p.family != Family.oct) = true := by rw [hfam]; simpa using ho
    simp only [hne, Bool.true_and, List.all_eq_true, Bool.not_eq_true']
    intro n hn
    have ho' : p.family ≠ .oct := by simpa using hne
    have : n ∈ PrivateSpec p.family := ((tables p.family).2.2.1 ho').1 n hn
    cases hh : p.has n with
    | false => rfl
    | true => exact absurd ⟨n, this, hh⟩ hnp

theorem isPublic_eq (j j' : Jwk) (hf : j.family = j'.family) (hm : j.members = j'.members) :
    isPublic j = isPublic j' := by
  unfold isPublic Jwk.has; rw [hf, hm]

/-- **the projection is idempotent** -/
theorem toPublic_idempotent (j p : Jwk) (h : toPublic j = some p) : toPublic p = some p := by
  have hpub := toPublic_isPublic j p h
  have hio : invertOnlyIfPrivate = true := rfl
  have hc1 : toPublicCopies.contains "use_" = true := by decide
  have hc2 : toPublicCopies.contains "key_ops" = true := by decide
  have hc3 : toPublicCopies.contains "alg" = true := by decide
  have hc4 : toPublicCopies.contains "kid" = true := by decide
  unfold toPublic at h
  split at h
  · cases h
  · rename_i ho
    injection h with h
    subst h
    unfold toPublic
    simp only [ho, Bool.false_eq_true, ↓reduceIte, hc1, hc2, hc3, hc4, hio, hpub, Bool.and_self,
      List.filter_filter, Bool.and_self]
    congr 2
    cases hko : j.keyOps with
    | none => rfl
    | some ops =>
      simp only [Option.map_some]
      have hp2 : ∀ ko, isPublic (Jwk.mk j.family j.family
          (List.filter (fun m => (kept j.family).contains m.fst) j.members) j.use_ ko j.alg j.kid) = true := by
        intro ko
        rw [← hpub]
        exact isPublic_eq _ _ rfl rfl
      simp only [hp2, Bool.and_self, ↓reduceIte]

/-- **the thumbprint input is a function of the declared type and the required public members
only** — equal on keys that differ in optional members, in the private part or in member order -/
theorem thumbprint_depends_only (j1 j2 : Jwk) (hk : j1.kty = j2.kty) (hf : j1.family = j2.family)
    (hreq : ∀ n ∈ required j1.family, j1.members.lookup n = j2.members.lookup n) :
    thumbprintInput j1 = thumbprintInput j2 := by
  unfold thumbprintInput
  rw [← hf, ← hk]
  apply List.map_congr_left
  intro n hn
  by_cases hkty : n = "kty"
  · simp [hkty]
  · have e : (n == "kty") = false := by simpa using hkty
    simp only [e, Bool.false_eq_true, ↓reduceIte, Prod.mk.injEq, true_and]
    have hreqn : n ∈ required j1.family := by
      have := (tables j1.family).2.2.2.2 n hn
      rcases this with h | h | ⟨h1, h2⟩
      · exact absurd h hkty
      · have key : ∀ f : Family, ∀ x ∈ PublicSpec f, x ∈ required f := by
          intro f; cases f <;> decide
        exact key j1.family n h
      · rw [h1, h2]; decide
    rw [hreq n hreqn]

/-- **declared type = parameter family**, however the key was obtained -/
theorem kty_matches_params :
    (∀ k, (new k).kty = (new k).family) ∧
    (∀ f ms, (fromParams f ms).kty = (fromParams f ms).family) ∧
    (∀ j k, (setKty j k).kty = (setKty j k).family) ∧
    (∀ j f ms, (setParamsFull j f ms).2 = false → (setParamsFull j f ms).1 = j) ∧
    (∀ j f ms, (setParamsFull j f ms).2 = true ↔ j.kty = f) ∧
    (∀ j f ms j', j.kty = j.family → setParams j f ms = some j' → j'.kty = j'.family) ∧
    (∀ j p, toPublic j = some p → p.kty = p.family) ∧
    (∀ k obj j, fromJson k obj = some j → j.kty = j.family) := by
  have arms : ∀ a b : Family, setParamsArms.contains (a.tag, b.tag) = true ↔ a = b := by
    intro a b; cases a <;> cases b <;> decide
  have hfull : ∀ (j : Jwk) (f : Family) (ms : List (String × String)), (setParamsFull j f ms).2 = true ↔ j.kty = f := by
    intro j f ms
    unfold setParamsFull
    by_cases hc : setParamsArms.contains (j.kty.tag, f.tag) = true
    · rw [if_pos hc]; exact ⟨fun _ => (arms _ _).1 hc, fun _ => rfl⟩
    · rw [if_neg hc]; exact ⟨fun h => Bool.noConfusion h, fun e => absurd ((arms _ _).2 e) hc⟩
  refine ⟨fun _ => rfl, fun _ _ => rfl, ?_, ?_, hfull, ?_, ?_, ?_⟩
  · intro j k
    have : setKtyResetsToNewType = true := rfl
    unfold setKty; simp [this]
  · intro j f ms h
    unfold setParamsFull at h ⊢
    by_cases hc : setParamsArms.contains (j.kty.tag, f.tag) = true
    · rw [if_pos hc] at h; cases h
    · rw [if_neg hc]
  · intro j f ms j' _ h
    unfold setParams at h
    by_cases hs : (setParamsFull j f ms).2 = true
    · simp only [hs, ↓reduceIte, Option.some.injEq] at h
      have hk := (hfull j f ms).1 hs
      subst h
      unfold setParamsFull
      rw [if_pos ((arms j.kty f).2 hk)]
      exact hk
    · simp only [hs, Bool.false_eq_true, ↓reduceIte] at h
      cases h
  · intro j p h
    obtain ⟨h1, h2, _⟩ := toPublic_keeps j p h
    rw [h1, h2]
  · intro k obj j h
    unfold fromJson at h
    split at h
    · rename_i k' f _ _
      have hd : deserializeChecksKty = true := rfl
      simp only [hd, Bool.true_and] at h
      split at h
      · cases h
      · rename_i hne
        injection h with h; subst h
        simpa using hne
    · cases h

/-- the verification-method constructor refuses private material -/
theorem builder_rejects_private (j : Jwk) (hw : WF j) (hp : hasPrivate j) : methodFromJwk j = none := by
  unfold methodFromJwk
  have : isPublic j = false := by
    cases h : isPublic j with
    | false => rfl
    | true => exact absurd hp ((isPublic_iff j hw).1 h)
  simp [this]

/-! ## non-vacuity -/

def exKey : Jwk := { kty := .okp, family := .okp, members := [("crv", "Ed25519"), ("x", "AA"), ("d", "SECRET")],
                     keyOps := some ["Sign"], kid := some "k" }

example : (toPublic exKey).map (fun p => (p.members, p.keyOps)) =
    some ([("crv", "Ed25519"), ("x", "AA")], some ["Verify"]) := by decide
example : ((toPublic exKey).bind toPublic) = toPublic exKey := by decide
example : fromJson (some .rsa) [("crv", "Ed25519"), ("x", "abc")] = none := by decide
example : (fromJson (some .okp) [("crv", "Ed25519"), ("x", "abc")]).map (·.family) = some .okp := by decide


/-! ## the thumbprint TEXT (`thumbprint_hash_input` as the string it is) -/

section ThumbprintText
open Thumb

theorem mapInj {α β : Type} (f : α → β) (hf : Function.Injective f) : ∀ (l1 l2 : List α), l1.map f = l2.map f → l1 = l2
  | [], [], _ => rfl
  | [], _ :: _, h => by simp at h
  | _ :: _, [], h => by simp at h
  | a :: t, b :: u, h => by
    simp only [List.map_cons, List.cons.injEq] at h
    rw [hf h.1, mapInj f hf t u h.2]

theorem thumbprintInput_names (j : Jwk) :
    (thumbprintInput j).map (·.1) = (thumbprintMembers.lookup j.family.tag).getD [] := by
  unfold thumbprintInput
  rw [List.map_map]
  conv => rhs; rw [← List.map_id ((thumbprintMembers.lookup j.family.tag).getD [])]
  apply List.map_congr_left
  intro n _
  simp only [Function.comp]
  split <;> rfl

/-- **the hash input TEXT determines the key**: two keys of one parameter family whose thumbprint members hold no quote
character (base64url text and the registered `kty` / `crv` names never do) and whose hash-input texts are equal have the same
declared type and the same required public members — so `kid = thumbprint` names at most one public key.  (The values are
pasted without JSON escaping: with a quote inside a value the text is ambiguous, see the `example` in `Jwk/ThumbLemmas`.) -/
theorem thumbprint_text_injective (j1 j2 : Jwk) (hf : j1.family = j2.family)
    (h1 : ∀ m ∈ thumbprintInput j1, Thumb.q ∉ m.2.toList) (h2 : ∀ m ∈ thumbprintInput j2, Thumb.q ∉ m.2.toList)
    (h : thumbprintText j1 = thumbprintText j2) : thumbprintInput j1 = thumbprintInput j2 := by
  unfold thumbprintText at h
  have hn : ((thumbprintInput j1).map fun m => (m.1.toList, m.2.toList)).map (·.1) =
      ((thumbprintInput j2).map fun m => (m.1.toList, m.2.toList)).map (·.1) := by
    rw [List.map_map, List.map_map]
    have e1 := thumbprintInput_names j1
    have e2 := thumbprintInput_names j2
    rw [hf] at e1
    have : (thumbprintInput j1).map (·.1) = (thumbprintInput j2).map (·.1) := e1.trans e2.symm
    have := congrArg (List.map String.toList) this
    rw [List.map_map, List.map_map] at this
    exact this
  have key := text_inj _ _ hn
    (by intro p hp; obtain ⟨m, hm, rfl⟩ := List.mem_map.1 hp; exact h1 m hm)
    (by intro p hp; obtain ⟨m, hm, rfl⟩ := List.mem_map.1 hp; exact h2 m hm) h
  -- back from characters to strings
  have inj : Function.Injective (fun m : String × String => (m.1.toList, m.2.toList)) := by
    intro a b hab
    simp only [Prod.mk.injEq] at hab
    exact Prod.ext (String.toList_inj.1 hab.1) (String.toList_inj.1 hab.2)
  exact mapInj _ inj _ _ key

example : thumbprintText (fromParams .okp [("crv", "Ed25519"), ("x", "AQAB")]) =
    "{\"crv\":\"Ed25519\",\"kty\":\"OKP\",\"x\":\"AQAB\"}".toList := by decide

end ThumbprintText

end IdModel.Props.C18
