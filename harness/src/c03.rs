//! C03 — JWT presentation validation binds the token to the holder document.
//!
//! Request: `C03 val <doc> T=<token> O=<opts>`     JwtPresentationValidator::validate against the holder document
//!   doc   = as in c02.rs
//!   token = `kid:<~|E|F<did.pq.frag>|H<n>|B<n>|D<did>>;hn:<~|n>;sig:<k>;cl:<claims|J>`
//!           kid forms: absent, empty string, full DID URL, `#k<n>`, `k<n>`, a DID without fragment
//!           claims as in `C07 pdec` with `,` for `;`; `iss=w<n>` = an https URL (not a DID); `J` = not a claims set
//!   opts  = `n:<~|n>;mid:<~|did.pq.frag>;sc:<~|vm|0..4>;ee:<unix>;li:<unix>`
//! Reply: `ok:id=..;holder=..|exp=..;nbf=..;aud=..;cust=..` or `err:<kind>`.
use crate::c02::{build_doc, kvc, oi, scope_of};
use crate::c04::{id_str, parse_id, KIND};
use crate::jwtu::*;
use crate::rng::Rng;
use identity_core::common::Object;
use identity_core::common::Timestamp;
use identity_core::convert::ToJson;
use identity_credential::credential::Jwt;
use identity_credential::validator::JwtPresentationValidationOptions;
use identity_credential::validator::JwtPresentationValidator;
use identity_did::DIDUrl;
use identity_document::document::CoreDocument;
use identity_document::verifiable::JwsVerificationOptions;
use serde_json::json;
use serde_json::Map;
use serde_json::Value;
use std::io::Write;

fn build_token(t: &str) -> Option<String> {
  let m = kvc(t, ';', ':');
  let mut hdr = Map::new();
  hdr.insert("alg".into(), json!("EdDSA"));
  let kid = m.get("kid")?.as_str();
  match kid.chars().next()? {
    '~' => {}
    'E' => {
      hdr.insert("kid".into(), json!(""));
    }
    'F' => {
      hdr.insert("kid".into(), json!(id_str(parse_id(&kid[1..])?)));
    }
    'H' => {
      hdr.insert("kid".into(), json!(format!("#k{}", &kid[1..])));
    }
    'B' => {
      hdr.insert("kid".into(), json!(format!("k{}", &kid[1..])));
    }
    'D' => {
      hdr.insert("kid".into(), json!(format!("did:ex:i{}", &kid[1..])));
    }
    _ => return None,
  }
  if let Some(n) = oi(&m, "hn")? {
    hdr.insert("nonce".into(), json!(format!("n{}", n)));
  }
  let sig: u64 = m.get("sig")?.parse().ok()?;
  let cl_s = m.get("cl")?;
  let claims_json = if cl_s == "J" {
    "{\"iss\":\"did:ex:i1\",\"vp\":5}".to_string()
  } else {
    let c = kvc(cl_s, ',', '=');
    let g = |k: &str| oi(&c, k);
    let mut vp = Map::new();
    vp.insert("@context".into(), json!("https://www.w3.org/2018/credentials/v1"));
    vp.insert("type".into(), json!("VerifiablePresentation"));
    vp.insert("verifiableCredential".into(), json!(["aaa.bbb.ccc"]));
    if let Some(n) = g("vid")? {
      vp.insert("id".into(), json!(format!("https://e.x/c/{}", n)));
    }
    if let Some(n) = g("vholder")? {
      vp.insert("holder".into(), json!(holder_did(n)));
    }
    let mut cl = Map::new();
    if let Some(e) = g("exp")? {
      cl.insert("exp".into(), json!(e));
    }
    let iss = c.get("iss")?;
    cl.insert(
      "iss".into(),
      if let Some(w) = iss.strip_prefix('w') {
        json!(format!("https://e.x/holder/{}", w))
      } else if let Some(n) = iss.strip_prefix('f') {
        // a DID URL of the holder's DID (fragment / query / path): not a DID
        json!(format!("{}#key-1", holder_did(n.parse::<i64>().ok()?)))
      } else if let Some(n) = iss.strip_prefix('q') {
        json!(format!("{}?versionId=1", holder_did(n.parse::<i64>().ok()?)))
      } else if let Some(n) = iss.strip_prefix('p') {
        json!(format!("{}/path", holder_did(n.parse::<i64>().ok()?)))
      } else {
        json!(holder_did(iss.parse::<i64>().ok()?))
      },
    );
    if let Some(e) = g("iat")? {
      cl.insert("iat".into(), json!(e));
    }
    if let Some(e) = g("nbf")? {
      cl.insert("nbf".into(), json!(e));
    }
    if let Some(n) = g("jti")? {
      cl.insert("jti".into(), json!(format!("https://e.x/c/{}", n)));
    }
    if let Some(n) = g("aud")? {
      cl.insert("aud".into(), json!(format!("https://e.x/a/{}", n)));
    }
    cl.insert("vp".into(), Value::Object(vp));
    if let Some(n) = g("cust")? {
      cl.insert(format!("c{}", n), json!(n));
    }
    Value::Object(cl).to_string()
  };
  Some(sign_compact(&Value::Object(hdr).to_string(), &claims_json, sig))
}

fn build_opts(t: &str) -> Option<JwtPresentationValidationOptions> {
  let m = kvc(t, ';', ':');
  let mut v = JwsVerificationOptions::default();
  if let Some(n) = oi(&m, "n")? {
    v = v.nonce(format!("n{}", n));
  }
  if let Some(x) = m.get("mid").filter(|x| x.as_str() != "~") {
    v = v.method_id(DIDUrl::parse(id_str(parse_id(x)?)).ok()?);
  }
  if let Some(sc) = scope_of(m.get("sc")?)? {
    v = v.method_scope(sc);
  }
  Some(
    JwtPresentationValidationOptions::default()
      .presentation_verifier_options(v)
      .earliest_expiry_date(Timestamp::from_unix(oi(&m, "ee")??).ok()?)
      .latest_issuance_date(Timestamp::from_unix(oi(&m, "li")??).ok()?),
  )
}

/// DID numbers 60.. are the DIDs 0.. spelt with an upper-case letter in the method-specific id (`did:ex:I2` for `did:ex:i2`):
/// valid, DIFFERENT DIDs
fn holder_did(n: i64) -> String {
  if n >= 60 {
    format!("did:ex:I{}", n - 60)
  } else {
    format!("did:ex:i{}", n)
  }
}
fn holder_num(s: &str) -> String {
  if let Some(r) = s.strip_prefix("did:ex:I") {
    r.parse::<i64>().map(|n| (n + 60).to_string()).unwrap_or("?".into())
  } else {
    s.strip_prefix("did:ex:i").unwrap_or("?").to_string()
  }
}

pub fn run(args: &[&str]) -> String {
  KIND.with(|k| k.set('J'));
  let r = run_inner(args);
  KIND.with(|k| k.set('C'));
  r
}

fn run_inner(args: &[&str]) -> String {
  if args.len() != 4 || args[0] != "val" {
    return "bad-request".into();
  }
  let doc: CoreDocument = match build_doc(args[1]) {
    Some(d) => d,
    None => return "bad-request".into(),
  };
  let tok = match args[2].strip_prefix("T=").and_then(build_token) {
    Some(t) => t,
    None => return "bad-request".into(),
  };
  let opts = match args[3].strip_prefix("O=").and_then(build_opts) {
    Some(o) => o,
    None => return "bad-request".into(),
  };
  let v = JwtPresentationValidator::with_signature_verifier(ToyVerifier);
  match v.validate::<CoreDocument, Jwt, Object>(&Jwt::new(tok), &doc, &opts) {
    Ok(d) => {
      let pj: Value = serde_json::from_str(&d.presentation.to_json().unwrap_or_default()).unwrap_or(Value::Null);
      let url = |x: Option<&Value>, p: &str| x.and_then(|s| s.as_str()).map(|s| s.strip_prefix(p).unwrap_or("?").to_string()).unwrap_or("~".into());
      let cust = d.custom_claims.as_ref().map(|m| m.keys().map(|k| k.trim_start_matches('c').to_string()).collect::<Vec<_>>().join("+")).filter(|s| !s.is_empty()).unwrap_or("~".into());
      format!(
        "ok:id={};holder={}|exp={};nbf={};aud={};cust={}",
        url(pj.get("id"), "https://e.x/c/"),
        pj.get("holder").and_then(|s| s.as_str()).map(holder_num).unwrap_or("~".into()),
        d.expiration_date.map(|t| t.to_unix().to_string()).unwrap_or("~".into()),
        d.issuance_date.map(|t| t.to_unix().to_string()).unwrap_or("~".into()),
        d.aud.as_ref().map(|u| u.as_str().trim_start_matches("https://e.x/a/").to_string()).unwrap_or("~".into()),
        cust
      )
    }
    Err(e) => {
      let s = e.presentation_validation_errors.first().map(|x| format!("{:?}", x)).unwrap_or_default();
      let k = if s.contains("invalid nonce value") {
        "nonce"
      } else if s.contains("missing kid value") {
        "kidMissing"
      } else if s.contains("MethodNotFound") {
        "methodNotFound"
      } else if s.contains("InvalidKeyMaterial") {
        "keyMaterial"
      } else if s.starts_with("PresentationJwsError") {
        "signature"
      } else if s.contains("InvalidTimestamp") || s.contains("TimestampConversionError") {
        "timestamp"
      } else if s.contains("JwtClaimsSetDeserializationError") {
        "claimsJson"
      } else if s.starts_with("SignerUrl") {
        "signerUrl"
      } else if s.starts_with("DocumentMismatch") {
        "documentMismatch"
      } else if s.starts_with("ExpirationDate") {
        "expirationDate"
      } else if s.starts_with("IssuanceDate") {
        "issuanceDate"
      } else if s.contains("inconsistent presentation id") {
        "claims:id"
      } else if s.contains("inconsistent presentation holder") {
        "claims:holder"
      } else {
        return format!("err:?{}", s.chars().take(80).collect::<String>());
      };
      format!("err:{}", k)
    }
  }
}

// ---------------------------------------------------------------------------------------------------------
struct Sc {
  doc: String,
  kid: String,
  hn: String,
  sig: u32,
  cl: String,
  n: String,
  mid: String,
  sc: String,
  ee: i64,
  li: i64,
}
impl Sc {
  fn base() -> Sc {
    Sc {
      // holder 2: general method #1 (key 21), #2 embedded under authentication (key 22), #3 without JWK, a key of
      // DID 5 listed as a general method with the same fragment as the holder's own
      doc: "D2;vm=2.0.1.21,2.0.3.0,5.0.1.51;a0=E2.0.2.22,R2.0.1;a1=;a2=;a3=;a4=;sv=".into(),
      kid: "F2.0.1".into(),
      hn: "~".into(),
      sig: 21,
      cl: "exp=1000,iss=2,iat=~,nbf=100,jti=1,aud=4,vid=~,vholder=~,cust=3".into(),
      n: "~".into(),
      mid: "~".into(),
      sc: "~".into(),
      ee: 500,
      li: 200,
    }
  }
  fn line(&self) -> String {
    format!(
      "C03 val {} T=kid:{};hn:{};sig:{};cl:{} O=n:{};mid:{};sc:{};ee:{};li:{}",
      self.doc, self.kid, self.hn, self.sig, self.cl, self.n, self.mid, self.sc, self.ee, self.li
    )
  }
}

pub fn gen(thorough: bool, seed: u64, out: &mut impl Write) {
  let mut r = Rng::new(seed ^ 0xC03);
  // (a) every combination of eleven conditions broken
  for bits in 0..(1u32 << 11) {
    let b = |k: u32| bits >> k & 1 == 1;
    let mut s = Sc::base();
    if b(0) {
      s.n = "4".into();
    }
    if b(1) {
      s.kid = ["~", "E", "D2", "F2.0.9", "H9"][(bits as usize / 7) % 5].into();
    }
    if b(2) && !b(1) {
      s.kid = "F2.0.3".into(); // a method without JWK
    }
    if b(3) {
      s.sig = 77;
    }
    if b(4) {
      s.cl = s.cl.replace("iss=2", "iss=w2");
    }
    if b(5) && !b(4) {
      s.cl = s.cl.replace("iss=2", "iss=5");
    }
    if b(6) {
      s.ee = 1001;
    }
    if b(7) {
      s.li = 99;
    }
    if b(8) {
      s.cl = s.cl.replace("vid=~", "vid=9");
    }
    if b(9) {
      s.cl = s.cl.replace("vholder=~", "vholder=5");
    }
    if b(10) {
      s.cl = s.cl.replace("exp=1000", "exp=253402300800");
    }
    writeln!(out, "{}", s.line()).unwrap();
  }
  // (b) kid forms x scopes x placement of the signing method; foreign-DID keys listed in the holder document
  let placements = [
    "vm=2.0.1.21;a0=;a1=;a2=;a3=;a4=",
    "vm=;a0=E2.0.1.21;a1=;a2=;a3=;a4=",
    "vm=;a0=;a1=;a2=;a3=;a4=E2.0.1.21",
    "vm=2.0.1.21;a0=R2.0.1;a1=;a2=;a3=R2.0.1;a4=",
    "vm=5.0.1.51,2.0.1.21;a0=;a1=;a2=;a3=;a4=",
    "vm=2.0.1.21;a0=E5.0.1.51;a1=;a2=;a3=;a4=",
    "vm=2.0.1.21;a0=R5.0.1;a1=;a2=;a3=;a4=",
    // a key of another DID *method* with the same method-specific id and fragment, found before the holder's own
    "vm=2.0.1.21;a0=E52.0.1.51;a1=;a2=;a3=;a4=",
    "vm=52.0.1.51,2.0.1.21;a0=;a1=;a2=;a3=;a4=",
  ];
  for pl in placements {
    for sc in ["~", "vm", "0", "3", "4"] {
      for kid in ["F2.0.1", "H1", "B1", "F5.0.1", "F52.0.1", "F2.1.1", "D2", "E", "~"] {
        for sig in [21u32, 51] {
          for mid in ["~", "2.0.1", "5.0.1"] {
            if mid != "~" && kid != "F2.0.1" && kid != "~" {
              continue;
            }
            let mut s = Sc::base();
            s.doc = format!("D2;{};sv=", pl);
            s.sc = sc.into();
            s.kid = kid.into();
            s.sig = sig;
            s.mid = mid.into();
            writeln!(out, "{}", s.line()).unwrap();
          }
        }
      }
    }
  }
  // (b'') an issuer that is a DID URL of the holder's DID (fragment, query, path): a URL, not the holder's DID
  for iss in ["f2", "q2", "p2", "f5"] {
    for vh in ["~", "2"] {
      let mut s = Sc::base();
      s.cl = s.cl.replace("iss=2", &format!("iss={}", iss)).replace("vholder=~", &format!("vholder={}", vh));
      writeln!(out, "{}", s.line()).unwrap();
    }
  }
  // (b') an issuer / vp.holder that is the holder document's DID in another letter case (a different DID)
  for (iss, vh) in [("62", "~"), ("62", "62"), ("2", "62"), ("62", "2")] {
    for kid in ["F2.0.1", "H1"] {
      let mut s = Sc::base();
      s.kid = kid.into();
      s.cl = s.cl.replace("iss=2", &format!("iss={}", iss)).replace("vholder=~", &format!("vholder={}", vh));
      writeln!(out, "{}", s.line()).unwrap();
    }
  }
  // (c) nonce on either side
  for hn in ["~", "4", "5"] {
    for n in ["~", "4", "5"] {
      let mut s = Sc::base();
      s.hn = hn.into();
      s.n = n.into();
      writeln!(out, "{}", s.line()).unwrap();
    }
  }
  // (d) exp / nbf / iat absent, at the bound, +-1 s, at and beyond the representable range
  let big = [253402300799i64, 253402300800, -62167219200, -62167219201];
  for exp in ["~", "999", "1000", "1001", "253402300799", "253402300800", "-62167219201"] {
    for nbf in ["~", "99", "100", "101", "253402300800"] {
      for iat in ["~", "100", "101", "-62167219201"] {
        for (ee, li) in [(1000i64, 100i64), (500, 200)] {
          let mut s = Sc::base();
          s.cl = format!("exp={},iss=2,iat={},nbf={},jti=1,aud=~,vid=1,vholder=2,cust=~", exp, iat, nbf);
          s.ee = ee;
          s.li = li;
          writeln!(out, "{}", s.line()).unwrap();
        }
      }
    }
  }
  for e in big {
    let mut s = Sc::base();
    s.ee = e.clamp(-62167219200, 253402300799);
    s.li = e.clamp(-62167219200, 253402300799);
    s.cl = format!("exp={},iss=2,iat=~,nbf={},jti=~,aud=~,vid=~,vholder=~,cust=~", e, e);
    writeln!(out, "{}", s.line()).unwrap();
  }
  let mut s = Sc::base();
  s.cl = "J".into();
  writeln!(out, "{}", s.line()).unwrap();
  // (e) random mixtures
  for _ in 0..(if thorough { 20000 } else { 1500 }) {
    let mut s = Sc::base();
    s.doc = format!("D{};{};sv=", r.pick(&[2, 2, 2, 5]), r.pick(&placements));
    s.kid = r.pick(&["F2.0.1", "F2.0.1", "H1", "B1", "F5.0.1", "~", "E", "H2"]).to_string();
    s.mid = r.pick(&["~", "~", "~", "2.0.1", "5.0.1"]).to_string();
    s.sc = r.pick(&["~", "~", "vm", "0", "3"]).to_string();
    s.hn = r.pick(&["~", "~", "4"]).to_string();
    s.n = r.pick(&["~", "~", "4", "5"]).to_string();
    s.sig = *r.pick(&[21, 21, 21, 51, 77]);
    s.cl = format!(
      "exp={},iss={},iat={},nbf={},jti={},aud={},vid={},vholder={},cust={}",
      r.pick(&["1000", "999", "~", "253402300800"]),
      r.pick(&["2", "2", "2", "5", "w2"]),
      r.pick(&["~", "~", "50", "-62167219201"]),
      r.pick(&["100", "100", "101", "~"]),
      r.pick(&["1", "~"]),
      r.pick(&["4", "~"]),
      r.pick(&["~", "~", "1", "9"]),
      r.pick(&["~", "~", "2", "5"]),
      r.pick(&["~", "3"])
    );
    s.ee = *r.pick(&[500, 1000, 1001]);
    s.li = *r.pick(&[200, 100, 99]);
    writeln!(out, "{}", s.line()).unwrap();
  }
}
