import Driver.Main
