import IdModel.Vc.Model
import IdModel.Props.C13
/-!
# C07 — credential / presentation ↔ JWT claims conversion is lossless and consistent

Property theorems only.  The model (`IdModel.Vc.Model`) transliterates `CredentialJwtClaims::{new,
check_consistency, try_into_credential}`, `IssuanceDateClaims::to_issuance_date` and the presentation
counterparts; which members are left out of `vc`/`vp` and which consistency checks exist is regenerated from the
source (`IdModel.Gen.C07`); numeric dates go through `Timestamp::from_unix` of the C13 model, whose range theorem is
reused here.
-/
namespace IdModel.Props.C07
open IdModel IdModel.Vc IdModel.Time

deriving instance DecidableEq for Except

/-- the unix seconds of years 0000–9999 -/
def InRange (u : Int) : Prop := MIN ≤ u ∧ u ≤ MAX

theorem ts_ok (u : Int) (h : InRange u) : ts u = .ok u := by
  unfold ts
  rw [((C13.fromUnix_iff_range u).1).2 h]

theorem ts_err (u : Int) (h : ¬ InRange u) : ts u = .error .timestamp := by
  unfold ts
  rw [(C13.fromUnix_iff_range u).2 h]

theorem ts_some (u v : Int) (h : ts u = .ok v) : v = u ∧ InRange u := by
  by_cases hr : InRange u
  · rw [ts_ok u hr] at h; injection h with h; exact ⟨h.symm, hr⟩
  · rw [ts_err u hr] at h; cases h

/-- a credential as the library holds it: its timestamps are `Timestamp`s -/
structure ValidCred (c : Cred) : Prop where
  issuance : InRange c.issuance
  expiration : ∀ e, c.expiration = some e → InRange e

/-- **each value is carried once**: issuer, subject id, credential id, issuance and expiration travel in
iss / sub / jti / nbf / exp and are absent from `vc` -/
theorem carried_once (c : Cred) (custom : Option Nat) :
    (toClaims c custom).iss = c.issuer ∧ (toClaims c custom).sub = c.subjectId ∧ (toClaims c custom).jti = c.id ∧
    (toClaims c custom).nbf = some c.issuance ∧ (toClaims c custom).iat = none ∧ (toClaims c custom).exp = c.expiration ∧
    (toClaims c custom).vc.id = none ∧ (toClaims c custom).vc.issuer = none ∧ (toClaims c custom).vc.issuanceDate = none ∧
    (toClaims c custom).vc.expirationDate = none ∧ (toClaims c custom).vc.subjectId = none ∧
    (toClaims c custom).vc.rest = c.rest ∧ (toClaims c custom).custom = custom := by
  refine ⟨rfl, rfl, rfl, rfl, rfl, rfl, rfl, rfl, rfl, rfl, rfl, rfl, rfl⟩

/-- **lossless**: to claims and back gives an equal credential, for every credential and every custom claims -/
theorem roundtrip (c : Cred) (custom : Option Nat) (hv : ValidCred c) :
    tryIntoCredential (toClaims c custom) = .ok c := by
  have h1 : toIssuanceDate (toClaims c custom).iat (toClaims c custom).nbf = .ok c.issuance := by
    show toIssuanceDate none (some c.issuance) = _
    unfold toIssuanceDate
    simp only [Gen.C07.issuancePrefersNbf, ↓reduceIte]
    exact ts_ok _ hv.issuance
  have h2 : checkConsistency (toClaims c custom) = .ok () := by
    unfold checkConsistency
    rw [h1]
    simp [firstFailure, okIssuer, okIssuance, okExpiration, okId, subjectCheck, toClaims, omitIf,
      Gen.C07.vcOmitted, Gen.C07.vcSubjectIdOmitted]
  unfold tryIntoCredential
  rw [h2, h1]
  simp only
  cases he : c.expiration with
  | none =>
    have : (toClaims c custom).exp = none := he
    rw [this]
    cases c
    simp_all [toClaims]
  | some e =>
    have : (toClaims c custom).exp = some e := he
    rw [this]
    simp only [ts_ok e (hv.expiration e he), Except.map]
    cases c
    simp_all [toClaims]

/-- the issuance date read from the claims: `nbf` if present, else `iat`; in range -/
theorem toIssuanceDate_ok (iat nbf : Option Int) (d : Int) (h : toIssuanceDate iat nbf = .ok d) :
    InRange d ∧ ((nbf = some d) ∨ (nbf = none ∧ iat = some d)) := by
  unfold toIssuanceDate at h
  simp only [Gen.C07.issuancePrefersNbf, ↓reduceIte] at h
  cases hn : nbf with
  | some n =>
    rw [hn] at h
    obtain ⟨e, r⟩ := ts_some n d h
    subst e
    exact ⟨r, Or.inl rfl⟩
  | none =>
    rw [hn] at h
    cases hi : iat with
    | some i =>
      rw [hi] at h
      obtain ⟨e, r⟩ := ts_some i d h
      subst e
      exact ⟨r, Or.inr ⟨rfl, rfl⟩⟩
    | none => rw [hi] at h; cases h

theorem firstFailure_ok {ε : Type} (l : List (Bool × ε)) (h : firstFailure l = .ok ()) : ∀ p ∈ l, p.1 = true := by
  induction l with
  | nil => intro p hp; cases hp
  | cons x t ih =>
    obtain ⟨b, e⟩ := x
    unfold firstFailure at h
    cases b with
    | false => simp at h
    | true =>
      simp only [↓reduceIte] at h
      intro p hp
      rcases List.mem_cons.1 hp with hp | hp
      · rw [hp]
      · exact ih h p hp

theorem has_all : has "issuer" = true ∧ has "issuanceDate" = true ∧ has "expirationDate" = true ∧ has "id" = true ∧
    has "credentialSubject" = true := by decide

/-- what a passed `check_consistency` means -/
theorem checkConsistency_ok (cl : Claims) (h : checkConsistency cl = .ok ()) :
    ∃ d, toIssuanceDate cl.iat cl.nbf = .ok d ∧ okIssuer cl = true ∧ okIssuance cl d = true ∧
      okExpiration cl = true ∧ okId cl = true ∧ subjectCheck cl = .ok () := by
  obtain ⟨a1, a2, a3, a4, a5⟩ := has_all
  unfold checkConsistency at h
  rw [a1, a2, a3, a4, a5] at h
  simp only [Bool.not_true, Bool.false_or, ↓reduceIte] at h
  cases h1 : firstFailure [(okIssuer cl, CErr.issuer)] with
  | error e => rw [h1] at h; cases h
  | ok u1 =>
    rw [h1] at h
    simp only at h
    cases hd : toIssuanceDate cl.iat cl.nbf with
    | error e => rw [hd] at h; cases h
    | ok d =>
      rw [hd] at h
      simp only at h
      cases h2 : firstFailure [(okIssuance cl d, CErr.issuanceDate), (okExpiration cl, CErr.expirationDate), (okId cl, CErr.id)] with
      | error e => rw [h2] at h; cases h
      | ok u2 =>
        rw [h2] at h
        simp only at h
        have f1 := firstFailure_ok _ h1
        have f2 := firstFailure_ok _ h2
        exact ⟨d, rfl, f1 (okIssuer cl, CErr.issuer) List.mem_cons_self,
          f2 (okIssuance cl d, CErr.issuanceDate) List.mem_cons_self,
          f2 (okExpiration cl, CErr.expirationDate) (List.mem_cons_of_mem _ List.mem_cons_self),
          f2 (okId cl, CErr.id) (List.mem_cons_of_mem _ (List.mem_cons_of_mem _ List.mem_cons_self)), h⟩

/-- **consistent**: whatever is accepted has every value repeated inside `vc` equal to its registered claim, takes
issuer / id / subject / dates from the registered claims, and has both dates within years 0000–9999 -/
theorem accepted_sound (cl : Claims) (c : Cred) (h : tryIntoCredential cl = .ok c) :
    (∀ i, cl.vc.issuer = some i → i = cl.iss) ∧
    (∀ d, cl.vc.issuanceDate = some d → d = c.issuance) ∧
    (∀ e, cl.vc.expirationDate = some e → cl.exp = some e) ∧
    (∀ i, cl.vc.id = some i → cl.jti = some i) ∧
    (∀ s, cl.vc.subjectId = some s → cl.sub = some s) ∧
    c.issuer = cl.iss ∧ c.id = cl.jti ∧ c.subjectId = cl.sub ∧ c.rest = cl.vc.rest ∧
    InRange c.issuance ∧ (cl.nbf = some c.issuance ∨ (cl.nbf = none ∧ cl.iat = some c.issuance)) ∧
    c.expiration = cl.exp ∧ (∀ e, c.expiration = some e → InRange e) := by
  unfold tryIntoCredential at h
  cases hc : checkConsistency cl with
  | error e => rw [hc] at h; cases h
  | ok u =>
    rw [hc] at h
    simp only at h
    obtain ⟨d, hd, k1, k2, k3, k4, k5⟩ := checkConsistency_ok cl hc
    rw [hd] at h
    simp only at h
    obtain ⟨hdr, hdsrc⟩ := toIssuanceDate_ok _ _ _ hd
    -- the expiration date
    have hexp : ∃ ex, c = ⟨cl.jti, cl.iss, d, ex, cl.sub, cl.vc.rest⟩ ∧ ex = cl.exp ∧ ∀ e, ex = some e → InRange e := by
      cases hce : cl.exp with
      | none =>
        rw [hce] at h
        simp only at h
        injection h with h
        exact ⟨none, h.symm, rfl, fun e he => by cases he⟩
      | some e0 =>
        rw [hce] at h
        simp only [Except.map] at h
        cases hts : ts e0 with
        | error x => rw [hts] at h; cases h
        | ok v =>
          rw [hts] at h
          simp only at h
          injection h with h
          obtain ⟨e1, r⟩ := ts_some e0 v hts
          rw [e1] at h
          exact ⟨some e0, h.symm, rfl, fun e he => by injection he with he; rw [← he]; exact r⟩
    obtain ⟨ex, hceq, hex1, hex2⟩ := hexp
    subst hceq
    refine ⟨?_, ?_, ?_, ?_, ?_, rfl, rfl, rfl, rfl, hdr, hdsrc, hex1, hex2⟩
    · intro i hi
      unfold okIssuer at k1
      rw [hi] at k1
      simpa using k1
    · intro x hx
      unfold okIssuance at k2
      rw [hx] at k2
      simpa using k2
    · intro e he
      unfold okExpiration at k3
      rw [he] at k3
      cases hce : cl.exp with
      | none => rw [hce] at k3; cases k3
      | some e0 => rw [hce] at k3; simp only [beq_iff_eq] at k3; rw [k3]
    · intro i hi
      unfold okId at k4
      rw [hi] at k4
      cases hj : cl.jti with
      | none => rw [hj] at k4; cases k4
      | some j => rw [hj] at k4; simp only [beq_iff_eq] at k4; rw [k4]
    · intro s hs
      unfold subjectCheck at k5
      rw [hs] at k5
      cases hsub : cl.sub with
      | none => rw [hsub] at k5; cases k5
      | some x =>
        rw [hsub] at k5
        simp only at k5
        by_cases heq : x = s
        · rw [heq]
        · have : (x == s) = false := by simpa using heq
          rw [this] at k5; cases k5

/-- **a repeated value that disagrees is rejected** (one corollary per duplicated member) -/
theorem rejects_issuer (cl : Claims) (i : Issuer) (h : cl.vc.issuer = some i) (hne : i ≠ cl.iss) :
    ∃ e, tryIntoCredential cl = .error e := by
  cases hr : tryIntoCredential cl with
  | error e => exact ⟨e, rfl⟩
  | ok c => exact absurd ((accepted_sound cl c hr).1 i h) hne

theorem rejects_issuanceDate (cl : Claims) (d n : Int) (h : cl.vc.issuanceDate = some d) (hn : cl.nbf = some n)
    (hne : d ≠ n) : ∃ e, tryIntoCredential cl = .error e := by
  cases hr : tryIntoCredential cl with
  | error e => exact ⟨e, rfl⟩
  | ok c =>
    obtain ⟨_, h2, _, _, _, _, _, _, _, _, hsrc, _⟩ := accepted_sound cl c hr
    have := h2 d h
    rcases hsrc with hs | ⟨hs, _⟩
    · rw [hn] at hs; injection hs with hs; exact absurd (this.trans hs.symm) hne
    · rw [hn] at hs; cases hs

theorem rejects_expirationDate (cl : Claims) (e : Int) (h : cl.vc.expirationDate = some e) (hne : cl.exp ≠ some e) :
    ∃ x, tryIntoCredential cl = .error x := by
  cases hr : tryIntoCredential cl with
  | error x => exact ⟨x, rfl⟩
  | ok c => exact absurd ((accepted_sound cl c hr).2.2.1 e h) hne

theorem rejects_id (cl : Claims) (i : Nat) (h : cl.vc.id = some i) (hne : cl.jti ≠ some i) :
    ∃ x, tryIntoCredential cl = .error x := by
  cases hr : tryIntoCredential cl with
  | error x => exact ⟨x, rfl⟩
  | ok c => exact absurd ((accepted_sound cl c hr).2.2.2.1 i h) hne

theorem rejects_subject (cl : Claims) (s : Nat) (h : cl.vc.subjectId = some s) (hne : cl.sub ≠ some s) :
    ∃ x, tryIntoCredential cl = .error x := by
  cases hr : tryIntoCredential cl with
  | error x => exact ⟨x, rfl⟩
  | ok c => exact absurd ((accepted_sound cl c hr).2.2.2.2.1 s h) hne

/-- **numeric dates outside years 0000–9999 are rejected** -/
theorem rejects_nbf_out_of_range (cl : Claims) (n : Int) (h : cl.nbf = some n) (hr : ¬ InRange n) :
    ∃ x, tryIntoCredential cl = .error x := by
  cases hres : tryIntoCredential cl with
  | error x => exact ⟨x, rfl⟩
  | ok c =>
    obtain ⟨_, _, _, _, _, _, _, _, _, hin, hsrc, _⟩ := accepted_sound cl c hres
    rcases hsrc with hs | ⟨hs, _⟩
    · rw [h] at hs; injection hs with hs; rw [hs] at hr; exact absurd hin hr
    · rw [h] at hs; cases hs

theorem rejects_iat_out_of_range (cl : Claims) (i : Int) (hn : cl.nbf = none) (h : cl.iat = some i) (hr : ¬ InRange i) :
    ∃ x, tryIntoCredential cl = .error x := by
  cases hres : tryIntoCredential cl with
  | error x => exact ⟨x, rfl⟩
  | ok c =>
    obtain ⟨_, _, _, _, _, _, _, _, _, hin, hsrc, _⟩ := accepted_sound cl c hres
    rcases hsrc with hs | ⟨_, hs⟩
    · rw [hn] at hs; cases hs
    · rw [h] at hs; injection hs with hs; rw [hs] at hr; exact absurd hin hr

theorem rejects_exp_out_of_range (cl : Claims) (e : Int) (h : cl.exp = some e) (hr : ¬ InRange e) :
    ∃ x, tryIntoCredential cl = .error x := by
  cases hres : tryIntoCredential cl with
  | error x => exact ⟨x, rfl⟩
  | ok c =>
    obtain ⟨_, _, _, _, _, _, _, _, _, _, _, hex, hexr⟩ := accepted_sound cl c hres
    exact absurd (hexr e (hex.trans h)) hr

theorem rejects_missing_issuance (cl : Claims) (h1 : cl.nbf = none) (h2 : cl.iat = none) :
    ∃ x, tryIntoCredential cl = .error x := by
  cases hres : tryIntoCredential cl with
  | error x => exact ⟨x, rfl⟩
  | ok c =>
    obtain ⟨_, _, _, _, _, _, _, _, _, _, hsrc, _⟩ := accepted_sound cl c hres
    rcases hsrc with hs | ⟨_, hs⟩
    · rw [h1] at hs; cases hs
    · rw [h2] at hs; cases hs

/-! ## presentations -/

/-- holder and id travel once, in iss / jti; expiry, issuance, audience and custom claims in exp / nbf / aud -/
theorem p_carried_once (p : Pres) (o : POpts) :
    (toPClaims p o).iss = p.holder ∧ (toPClaims p o).jti = p.id ∧ (toPClaims p o).exp = o.expiration ∧
    (toPClaims p o).nbf = o.issuance ∧ (toPClaims p o).iat = none ∧ (toPClaims p o).aud = o.audience ∧
    (toPClaims p o).vp.id = none ∧ (toPClaims p o).vp.holder = none ∧ (toPClaims p o).vp.rest = p.rest ∧
    (toPClaims p o).custom = o.custom :=
  ⟨rfl, rfl, rfl, rfl, rfl, rfl, rfl, rfl, rfl, rfl⟩

/-- **lossless** -/
theorem p_roundtrip (p : Pres) (o : POpts) : tryIntoPresentation (toPClaims p o) = .ok p := by
  cases p
  simp [tryIntoPresentation, pCheck, firstFailure, okPId, okPHolder, toPClaims, omitIf, Gen.C07.vpOmitted]

/-- … and the options are read back unchanged when they are `Timestamp`s -/
theorem p_roundtrip_opts (p : Pres) (o : POpts) (h1 : ∀ e, o.expiration = some e → InRange e)
    (h2 : ∀ i, o.issuance = some i → InRange i) : decodePOpts (toPClaims p o) = .ok o := by
  cases o with
  | mk ex is au cu =>
    simp only at h1 h2
    show decodePOpts ⟨ex, p.holder, none, is, p.id, au, _, cu⟩ = _
    unfold decodePOpts
    simp only
    cases ex with
    | none =>
      cases is with
      | none => rfl
      | some i => simp only [toIssuanceDate, Gen.C07.issuancePrefersNbf, ↓reduceIte, ts_ok i (h2 i rfl)]
    | some e =>
      have he := ((C13.fromUnix_iff_range e).1).2 (h1 e rfl)
      cases is with
      | none => simp only [he]
      | some i => simp only [he, toIssuanceDate, Gen.C07.issuancePrefersNbf, ↓reduceIte, ts_ok i (h2 i rfl)]

/-- **consistent** -/
theorem p_accepted_sound (cl : PClaims) (p : Pres) (h : tryIntoPresentation cl = .ok p) :
    (∀ i, cl.vp.id = some i → cl.jti = some i) ∧ (∀ x, cl.vp.holder = some x → x = cl.iss) ∧
    p.id = cl.jti ∧ p.holder = cl.iss ∧ p.rest = cl.vp.rest := by
  unfold tryIntoPresentation at h
  cases hc : pCheck cl with
  | error e => rw [hc] at h; cases h
  | ok u =>
    rw [hc] at h
    injection h with h
    subst h
    unfold pCheck at hc
    have g1 : pHas "id" = true := by decide
    have g2 : pHas "holder" = true := by decide
    rw [g1, g2] at hc
    simp only [Bool.not_true, Bool.false_or] at hc
    have f := firstFailure_ok _ hc
    have k1 : okPId cl = true := f (okPId cl, PErr.id) List.mem_cons_self
    have k2 : okPHolder cl = true := f (okPHolder cl, PErr.holder) (List.mem_cons_of_mem _ List.mem_cons_self)
    refine ⟨?_, ?_, rfl, rfl, rfl⟩
    · intro i hi
      unfold okPId at k1
      rw [hi] at k1
      cases hj : cl.jti with
      | none => rw [hj] at k1; cases k1
      | some j => rw [hj] at k1; simp only [beq_iff_eq] at k1; rw [k1]
    · intro x hx
      unfold okPHolder at k2
      rw [hx] at k2
      simp only [beq_iff_eq] at k2
      exact k2.symm

theorem p_rejects_id (cl : PClaims) (i : Nat) (h : cl.vp.id = some i) (hne : cl.jti ≠ some i) :
    ∃ x, tryIntoPresentation cl = .error x := by
  cases hr : tryIntoPresentation cl with
  | error x => exact ⟨x, rfl⟩
  | ok p => exact absurd ((p_accepted_sound cl p hr).1 i h) hne

theorem p_rejects_holder (cl : PClaims) (x : Nat) (h : cl.vp.holder = some x) (hne : x ≠ cl.iss) :
    ∃ e, tryIntoPresentation cl = .error e := by
  cases hr : tryIntoPresentation cl with
  | error e => exact ⟨e, rfl⟩
  | ok p => exact absurd ((p_accepted_sound cl p hr).2.1 x h) hne

/-- numeric dates of a presentation outside years 0000–9999 are rejected when they are read back -/
theorem p_rejects_exp_out_of_range (cl : PClaims) (e : Int) (h : cl.exp = some e) (hr : ¬ InRange e) :
    decodePOpts cl = .error .timestamp := by
  unfold decodePOpts
  rw [h]
  simp only [(C13.fromUnix_iff_range e).2 hr]

/-! ## non-vacuity -/

def demo : Cred := ⟨some 5, .obj 7 3, 1262304000, some 1893456000, some 9, 42⟩

example : ValidCred demo := ⟨by unfold InRange MIN MAX demo; decide, fun e he => by
  simp only [demo, Option.some.injEq] at he; subst he; unfold InRange MIN MAX; decide⟩

example : tryIntoCredential { toClaims demo none with vc := { (toClaims demo none).vc with id := some 6 } }
    = .error .id := by decide +kernel

example : tryIntoCredential { toClaims demo none with nbf := some 253402300800 } = .error .timestamp := by
  decide +kernel

end IdModel.Props.C07
