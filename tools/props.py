"""Per-property configuration of ./check (what is compared, what is trusted, how cases are counted)."""

TRUSTED_BASE = [
    "Lean 4.33.0 kernel + elaborator; axioms allowed: propext, Classical.choice, Quot.sound (audited with #print axioms on every property theorem, every run); no native_decide / bv_decide / sorry / user axioms",
    "correspondence check: Rust harness (hx) canonicalisation + Lean driver request parsing + generator quality; validates the hand-written model only on the inputs it runs",
    "tools/translate.py for the regenerated fragments (IdModel/Gen/*.lean)",
    "rustc / std / serde / serde_json (not modelled)",
]


def reply_class(pid, req, obs):
    """coarse class of a request/reply for the coverage histogram"""
    t = req.split(" ")
    sub = t[1] if len(t) > 1 else ""
    if obs in ("err", "bad-request", "PANIC"):
        return sub + ":" + obs
    head = obs.split(" ")[0]
    import re
    head = re.sub(r"[0-9a-f]{6,}", "#", head)
    head = re.sub(r"[0-9]+", "n", head)
    return sub + ":" + head[:24]


PROPS = {
    "C19": {
        "translate": False,
        "diff_is_violation": True,
        "rule": "streams: (1) corpus; (2) exhaustive operation sequences (append/prepend/update/replace/remove) of bounded length over 3 keys x 2 values from every duplicate-free start of size <= 2, and deeper over 2 keys; (3) random histories of length <= 50 over 2..6 keys; (4) every list of length <= 4 over 6 elements through from_iter / try_from / OneOrSet / OneOrMany (+ append, map, push); (5) every JSON array of length <= 4 over {string a,b,c, number, nested array, empty array} and bare values, for OrderedSet/OneOrSet/OneOrMany<String>. A request is non-trivial when the implementation's reply is not `err`/`bad-request`; distinct = distinct request lines.",
        "trusted_base": ["serde attribute glue (untagged, try_from, deserialize_with) is tied by correspondence only (JSON stream), not proved"],
        "assumptions": ["element type deserialises exactly from a JSON string (harness uses String) for the JSON theorems"],
    },
    "C12": {
        "translate": True,
        "diff_is_violation": ["ops", "big", "new", "cred", "check"],
        "trivial": ["bad-request", "size"],
        "rule": "streams: (1) corpus; (2) EXHAUSTIVE per-byte table: every (byte value 0..255, bit offset 0..7, written value) through the public set/get on a list whose other bytes are random, all 24 entries read back; boundary indices incl. len, len+1, usize::MAX; (3) random write/read sequences (length <= 40 quick / 200 thorough) on 1..6-byte lists obtained through the public decoder; new() around the minimum and around multiples of 8; histories on full-size lists (131072.. entries); encode/decode round trips; credential-level set_entry/set_credential_status/entry histories for both purposes; the full check_status_with_status_list_2021 decision table (3 modes x 3 status kinds x id match x 2x2 purposes x 7 indices). Non-trivial = reply is not bad-request/size; distinct request lines.",
        "trusted_base": ["gzip (flate2) + base64 codec: abstract in the model (hypothesis dec(enc l)=l), exercised on every run by the roundtrip stream", "serde/Url glue of StatusList2021Entry/Credential (correspondence only)"],
        "assumptions": ["byte vectors are well formed (every element < 256), which holds for every Box<[u8]>"],
    },
    "C11": {
        "translate": True,
        "diff_is_violation": False,
        "trivial": ["bad-request"],
        "rule": "streams: (1) corpus; (2) the FULL decision table {protected, unprotected} x alg{absent,present} x b64{absent,true,false} x crit{absent,[],[b64],[b64,b64],[alg],[exp],[x-unknown],[x5t#S256],[kid],[b64,exp],[nonce]} x shared registered/custom names, presented to CompactJwsEncoder::new, FlattenedJwsEncoder::new and (as hand-assembled tokens) to decode_compact/decode_flattened followed by verify with an accept-all verifier; custom names shadowing the other header's declared parameters (via set_custom); general serialization with 2 (thorough 3) recipients over 9 recipient shapes through GeneralJwsEncoder::new/add_recipient and decode_general_serialization; (3) random header pairs over all 11 registered fields + custom names. Observable: accept/reject (+ verify gate). Non-trivial = not bad-request; distinct request lines.",
        "trusted_base": ["serde (de)serialisation of JwsHeader (flatten/custom map) — correspondence only", "WF domain of validate_iff: custom map does not name `alg`/`b64` (those two shadowings are outside the theorem and outside the oracle)"],
        "assumptions": [],
    },
    "C13": {
        "translate": True,
        "diff_is_violation": ["parse", "unix", "add", "sub", "cmp"],
        "trivial": ["bad-request", "err"],
        "rule": "streams: (1) corpus; (2) both range ends +- {0,1,59,60,3599,3600,86399,86400,86401} s expressed at every UTC offset -23..+23 h x minutes {0,1,30,59} (thorough: every minute); fraction forms x separator bytes x offset spellings (valid and malformed); month/day limits for 12 years incl. century years x months 0..13 x days 0..32; field-range violations and leap-second candidates (month ends, mid-month, at offsets); truncations and single-byte edits of a valid string; (3) 10^4 (thorough 2*10^5) uniformly random instants with random offset+fraction; unix seconds at/around both ends, year/century/era boundaries, time-crate limits, random i64; checked_add/sub with every Duration constructor at 0,1,2,59,60,u32::MAX-1,u32::MAX and values landing within +-2 s of both ends, random; Ord on random pairs. Non-trivial = reply not err/bad-request; distinct request lines.",
        "trusted_base": ["the `time` crate (RFC 3339 parser transliterated into the model; calendar replaced by a proved proleptic Gregorian model) — tied by correspondence", "serde glue of Timestamp (JSON round trip exercised by the oracle on every accepted value)", "a Timestamp is modelled as its unix second count, so Ord = order of unix seconds holds by construction in the model and is tied to the code by the cmp stream only"],
        "assumptions": [],
    },
    "C10": {
        "translate": True,
        "diff_is_violation": False,
        "trivial": ["bad-request", "err"],
        "rule": "streams: (1) corpus; (2) EXHAUSTIVE strings of length <= 3 (thorough 4) over a 24-symbol adversarial alphabet (% : / ? # . - _ ~ + 0 9 a f z A F space tab newline DEL e-acute emoji NUL) after `did:m:` offered to CoreDID::parse and DIDUrl::parse, length <= 2 (3) after `did:m:a/`, `did:m:a?`, `did:m:a#`, `did:m:%41`, `did:`, `did:m`, `` and as prefix (surrounding whitespace); join / set_path / set_query / set_fragment over 12 base values x ~2400 segments (sampled in quick), set_method_name / set_method_id over all strings of length <= 2 + special values; (3) grammar-based random DID URLs with percent triples and typed corruptions; Eq/Ord/Hash on random and hand-picked pairs. Implementation-side oracle: verbatim string form, recomposition, W3C character syntax per component, no URL parts in a plain DID, re-parse equality, serde round trip, Eq/Ord/Hash agreement. Non-trivial = reply not err/bad-request; distinct request lines.",
        "trusted_base": ["did_url_parser 0.3.0 is third-party: transliterated into the model (with its defects) and tied by correspondence; its buffer-editing setters are modelled at component level", "re-parse of joined/edited DID URL values is correspondence-only (two residual classes are known findings)", "serde glue (String round trip)"],
        "assumptions": [],
    },
    "C17": {
        "translate": True,
        "gens": ["C10", "C17"],
        "diff_is_violation": False,
        "trivial": ["bad-request", "err", "bad-network"],
        "rule": "streams: (1) corpus; (2) did:<method>:<segments> over 10 method spellings (case variants, near misses, dotless/dotted i) x 17 network names (valid, upper case, too long, non-alphanumeric, Kelvin sign, with colon) x 17 tag shapes (valid, upper case, 0X, no prefix, lengths 62..68, non-hex, trailing colon, percent triple, empty) x 11 trailing parts (path/query/fragment/whitespace/delimiters), prefix variants; EXHAUSTIVE network names of length <= 3 over a 9-symbol alphabet through NetworkName::try_from and inside a DID; (3) IotaDID::new over random / all-zero / all-ff tags x 12 network names; random valid DIDs with random letter case; Eq on random pairs and the default-network spellings. Oracle: method, network rule, tag shape, lowercase, normal form (default network omitted), no URL parts, re-parse, JSON round trip, TryFrom<CoreDID>, new exposes bytes and name, Eq iff network and tag bytes. Non-trivial = reply not err/bad-request/bad-network; distinct request lines.",
        "trusted_base": ["str::to_lowercase (Unicode) is computed by the harness and checked against the implementation; the model starts from the lower-cased bytes", "prefix-hex / hex crates (modelled concretely, tied by correspondence)", "builds on the C10 DID model (third-party parser transliterated)"],
        "assumptions": ["tag_eq_iff_bytes assumes the model input has no upper-case ASCII letter (true of every to_lowercase output)"],
    },
    "C01": {
        "translate": True,
        "gens": ["C11"],
        "diff_is_violation": ["compact", "flat", "general"],
        "trivial": ["bad-request", "err", "err err"],
        "rule": "streams: (1) corpus; (2) decision table: 7 protected-header shapes (b64 absent/true/false with and without crit, no alg, extras, empty crit) x 6 payloads (text, JSON, with '.', empty, binary, base64-looking) x placement {attached, detached, both, neither} x signature {good toy-MAC, bad MAC, non-base64, non-canonical base64 trailing bits, other key} x key.alg {absent, equal, different}, as compact tokens and — at member level — as flattened tokens with 4 unprotected-header shapes incl. alg only in the unprotected header; general tokens with 2 signatures over 7 header pairs; (3)+(4) 12 (thorough 120) verifying compact tokens with random payloads: EVERY single-bit flip, 3 byte substitutions and the deletion at EVERY position; a small real-Ed25519 stream (implementation-only oracle, labelled as a test of the crypto crates). The harness hands the decoder a recording verifier and compares the bytes it receives (alg, signing input, decoded signature) and the claims with the model and with an independent strict base64url decoder. Non-trivial = decoded (not err/bad-request); distinct request lines.",
        "trusted_base": ["header JSON -> header is a parameter P of the theorems; in the run it is a table computed by the library's own serde layer (JwsHeader::from_slice + accessors)", "signature scheme V is a parameter (toy MAC in the run; real Ed25519 only in the implementation-only stream); unforgeability is not proved", "JSON envelope of flattened/general serializations handled at member level (serde layer by correspondence)"],
        "assumptions": [],
    },
    "C06": {
        "translate": True,
        "diff_is_violation": ["hist", "status"],
        "trivial": ["bad-request", "err"],
        "rule": "streams: (1) corpus; (2) bitmaps over ~75 (thorough ~340) index sets: empty, singletons, the repository's test vectors, u32::MAX, container boundaries (65535/65536/131071/131072), dense ranges, strided runs, sets spanning 5 containers, sparse random over spans 100 / 7*10^4 / 2^20 / 2^32 with 1..2000 members (thorough: 10^5 members) — each encoded by the library (to_service), decoded through TryFrom<&Service>, also in the legacy double-encoded form Base64(Base64Url(zlib)), in 5 malformed variants, with wrong / additional service types and a non-URL endpoint; the compressed bytes and the set they stand for are passed to the model as a codec fact table (computed with the real flate2 + roaring), the model does detection / base64 / prefix / type logic itself; (3) 300 (3000) random revoke/unrevoke batch histories through CoreDocument with membership queries, a second untouched bitmap service as frame; (4) the check_status decision table: 3 modes x status {absent, bitmap, other type} x index property {absent, not a string, NaN, 0, 7, u32::MAX, 2^32} x index query {none, equal, different, duplicated, mixed, NaN} x status id is/ is not a DID URL x issuer document matches or not x service {missing, empty, containing, not containing}. Non-trivial = reply not err/bad-request; distinct request lines.",
        "trusted_base": ["roaring serialisation and zlib (flate2) are an abstract codec in the theorems: hypotheses unpack(pack s)=s and 'compressed stream starts with 78 9C' — both observed on every generated bitmap (the fact table is computed from the real bytes)", "url::Url data-URL handling, serde of Service/Status (correspondence only)", "document-level frame (other services untouched) is checked by the implementation-side oracle; the Lean model covers the addressed endpoint"],
        "assumptions": [],
    },
    "C08": {
        "translate": True,
        "gens": ["C11"],
        "diff_is_violation": False,
        "trivial": ["bad-request", "err", "err@0", "err@1", "err@2", "err-into-jws"],
        "rule": "streams: (1) corpus; (2) CompactJwsEncoder over 10 protected-header shapes x ~27 payloads (text, JSON with quotes, with '.', empty, binary, backslash, control characters, non-ASCII, url-safe, single space, single dot, random binary and random printable) x {NonDetached Default, NonDetached UrlSafe, Detached} x 3 signatures; FlattenedJwsEncoder over the same headers x 6 unprotected-header shapes x attached/detached (+ unprotected-only recipients); GeneralJwsEncoder with 1..2 (thorough 3) recipients over 8 recipient shapes, attached/detached; every produced token is decoded by the library's own decoder and compared with the model (token bytes / JSON members, signing inputs, decoded signature, claims) — the header serialisation S is a table computed by the library's serde layer; (3) storage-backed signing: 300 (thorough 4000) random JwsSignatureOptions combinations (attach_jwk, b64, typ, cty, url, nonce, kid, detached, custom parameters) x 3 methods in 3 scopes x 5 payload classes through JwkDocumentExt::create_jws + CoreDocument::verify_jws with real Ed25519 — implementation-side oracle only: verifies to what was signed under the own document/method/scope/nonce; rejected under an excluding scope, a wrong or one-sided nonce, another method's key, another document. Non-trivial = encoder accepted; distinct request lines.",
        "trusted_base": ["header (de)serialisation S/P: parameters with hypothesis P(S h)=h; in the run S is a table computed by serde", "JSON envelope (member level in the model; serde by correspondence)", "storage-backed signing stream is implementation-only until the document model (C04) is connected", "Ed25519 (parameter)"],
        "assumptions": [],
    },
    "C04": {
        "translate": True,
        "diff_is_violation": True,
        "trivial": ["bad-request", "start:reject"],
        "rule": "streams: (1) corpus; (2) the gate alone: 14 fixed documents (empty, built, dangling / foreign references, ids with path and query, the same reference in several relationships, and 9 that must be refused: duplicate general methods, general = embedded id, embedded = reference id in either order, two embedded with one id, service = method id, service = reference id, duplicate reference in one set, duplicate services) through JSON and through DocumentBuilder, plus 1500 (20000) random collections over 2 DIDs x 3 path/query forms x 3 fragments (references without fragment included), each followed by the state and a resolution battery (every id of the universe as full id and as bare fragment x no scope / VerificationMethod / 5 relationships, services, methods(scope)); (3) 600 (12000) random histories of 1..12 (every tenth: ..40) operations (insert_method in all 6 scopes, attach/detach in 4 query forms, remove_method, insert/remove_service) from fixed and random start documents, state + battery after EVERY step; (4) exhaustive histories of depth 2 (3) over 68 operations on 4 ids chosen for collisions (same DID+fragment with/without path, foreign DID with the same fragment) from 4 (2) start documents, state after every step and battery at the end. Implementation-side oracle after every mutation: the three id clauses of the statement computed from the accessors, from_json(to_json(doc)) == doc, refused => unchanged, the four query forms agree pairwise. Non-trivial = start document accepted; distinct request lines.",
        "trusted_base": ["ids are abstract (DID, path/query form, fragment); DIDUrl parsing/printing is C10's model", "the HashMap of check_id_constraints is a function Id -> Option Bool", "method and service contents other than the id are an opaque body", "serde_json and the serde derive glue of CoreDocumentData (tied by the round-trip oracle and by the gate stream)", "IotaDocument delegates to CoreDocument for every operation here and is exercised by the C09/C14 streams, not this one"],
        "assumptions": ["inserted methods and services carry a non-empty fragment (enforced by their constructors and deserialisers: Op.WF)", "remove_method returning None after removing dangling references to the id is documented behaviour, not a refused operation"],
    },
    "C09": {
        "translate": True,
        "gens": ["C04", "C09"],
        "diff_is_violation": False,
        "trivial": ["bad-request", "start:reject"],
        "rule": "streams, each for CoreDocument and IotaDocument with fault-injecting wrappers around JwkMemStore / KeyIdMemstore (a fault = the call returns an error without effect; faults are given per operation as a subset of {JwkStorage::generate, JwkStorage::delete, KeyIdStorage::insert_key_id, get_key_id, delete_key_id}): (1) corpus; (2) generate_method: EVERY subset of the three calls it makes x 6 scopes x 5 fragment kinds (fresh, from the JWK kid, not DID-URL syntax, clashing with a method, clashing with a service) x 2 start documents (empty; one holding methods, a service and references that do not resolve, one of them to the fragment being generated), followed by a fault-free generate and the state; (3) purge_method: target in each scope, general-purpose targets with 0/1/3 relationship references, EVERY subset of the four calls it makes, state before and after, then a fault-free purge; (4) purge of methods without key, with undecodable key material, unknown ids; (5) 400 (6000) random histories of generate / attach / detach / purge with random fault subsets, state after every step. Implementation-side oracle after every generate/purge: success => complete (method resolves by full id, key exists, key id recorded, signing works / method, references, key and key id gone); error other than UndoOperationFailed => document (==), key store and key-id store unchanged. Non-trivial = start document accepted; distinct request lines.",
        "trusted_base": ["stores follow JwkMemStore / KeyIdMemstore (insert refuses an existing digest, get/delete refuse a missing one); a fault is a call that fails WITHOUT effect (a call that takes effect and then reports failure is outside the model)", "MethodDigest is the pair (fragment, key material): the 64-bit SeaHash and its collisions are not modelled", "futures::join! of the two deletions is modelled as both calls being made (memstore futures complete at the first poll)", "the document part is the C04 model"],
        "assumptions": ["UndoOperationFailed is the explicit report the statement exempts", "after a successful generate the method is looked up by its full id: a bare fragment is documented to misbehave when another DID's id carries the same fragment (C04)"],
    },
    "C14": {
        "translate": True,
        "gens": ["C04", "C14"],
        "diff_is_violation": ["unframe", "frame"],
        "trivial": ["bad-request", "start:reject"],
        "rule": "streams: (1) corpus; (2) rebase: a fixed document and 500 (8000) random IOTA documents (self / other IOTA DIDs / a DID of another method in method ids, method controllers, references, service ids, one-or-set controllers; ids with path; half of the documents also draw the placeholder DID, non-IOTA controllers and duplicate ids) packed and unpacked for EACH of five IOTA DIDs (own DID, DIDs the document mentions, DIDs it does not mention): result document or error kind; (3) framing: the packed bytes with every header byte set to 10 values, every truncation length 0..11 and len-1/len-2, trailing bytes, 7 length prefixes (0, 1, 2, len-1, len+1, len+2, 65535) with and without padding, 300 (3000) random short frames biased to valid headers, the JSON decoder's verdict on the candidate payloads passed as facts; (4) the 16-bit bound: documents whose JSON is exactly n bytes for n in {1500, 1501, 4096, 65533..65537, 70000, 131071, 131072, 200000}: header and length or refusal. Implementation-side oracle on (2), for every target and every document not mentioning the placeholder: a successful unpack equals the original JSON with exactly id, controllers, method ids and controllers, reference ids and service ids rewritten (alsoKnownAs and custom properties spelling the own DID must stay), ledger addresses removed; for the own DID the unpacked IotaDocument == the packed one. Non-trivial = not bad-request / start:reject; distinct request lines.",
        "trusted_base": ["JSON (serde_json + the serde derives of CoreDocument / IotaDocumentMetadata) is a parameter: any codec with dec (enc x) = some x; tied by the round-trip oracle and by passing the decoder's verdict as facts", "DIDs are abstract numbers, isIota is a parameter (IotaDID::check_validity is C17's model)", "the document part is the C04 model plus controllers"],
        "assumptions": ["documents that themselves mention the reserved placeholder identifier are excluded by the statement (modelled and compared, but outside the theorems and the oracle)"],
    },
    "C07": {
        "translate": True,
        "gens": ["C13", "C07"],
        "diff_is_violation": ["dec", "pdec"],
        "trivial": ["bad-request"],
        "rule": "streams: (1) corpus; (2) enc: credentials over 8 optional-member combinations (status, schema, evidence, terms of use, refresh service, proof, nonTransferable true/false, extra properties, subject properties, multiple types/contexts) x 4 issuer forms (URL, object with properties) x presence of id / expiration / subject id / custom claims, timestamps drawn from the boundary set {0000-01-01, +1s, -1, 0, 1, 2010, 2030, 9999-12-31 -1s, 9999-12-31}, and all 81 issuance x expiration boundary pairs: the claims set printed member by member, then signed (toy scheme behind JwsVerifier), passed through JwtCredentialValidator::verify_signature and compared with the original; (3) dec: every combination of {vc.id, vc.issuer, vc.issuanceDate, vc.expirationDate, vc.credentialSubject.id} absent / equal / different x {jti, sub, exp} absent / present (1944 claims sets); iat x nbf over the boundary set and six out-of-range values incl. i64::MIN/MAX, each alone and together, with and without vc.issuanceDate; exp over the same set x vc.expirationDate; 1500 (20000) random claims sets; (4) penc / pdec: the same for presentations (4 optional-member combinations x presence of id / expiry / issuance / audience / custom claims; vp.id and vp.holder absent / equal / different x out-of-range exp / nbf / iat). Implementation-side oracle on enc / penc: the credential (presentation, expiry, issuance, audience, custom claims) returned by the validator == the one encoded. Non-trivial = not bad-request; distinct request lines.",
        "trusted_base": ["URLs are abstract numbers; everything the conversion copies verbatim is an opaque value (its preservation is checked by the implementation-side oracle on the JSON, not proved)", "serde glue of CredentialJwtClaims / InnerCredential (flatten, skip_serializing_if, Cow) by correspondence", "Timestamp::from_unix is the C13 model (regenerated year bounds)", "the signature scheme is a parameter (toy MAC behind the JwsVerifier hook)"],
        "assumptions": ["credentials whose extra properties or subject properties reuse a reserved member name (id, issuer, issuanceDate, expirationDate) are outside the statement: such a credential has no unambiguous JSON form of its own", "an absent custom-claims object reads back as an empty object: not counted as a difference"],
    },
    "C02": {
        "translate": True,
        "gens": ["C04", "C06", "C13", "C07", "C02"],
        "diff_is_violation": True,
        "trivial": ["bad-request"],
        "rule": "streams (toy signature scheme behind the JwsVerifier hook; issuer documents built from the C04 document specs with toy JWKs and an optional RevocationBitmap2022 service): (1) corpus; (2) EVERY combination of thirteen conditions broken independently (header nonce, kid absent / not a DID URL, issuer document of another DID, method without JWK, signature under another key, vc.id disagreeing with jti, issuer not a DID, issuer DID != method DID, issuance after the bound, expiration before the bound, missing base type, subject != holder, index set in the bitmap) in both error-reporting modes (quick: fail-fast for a third), 8192..16384 requests; (3) every combination of the five validation units failing with a passing signature x 3 status modes x 2 status kinds x fail-fast / all-errors; (4) the signing method placed in each of the six scopes and as a referenced general method x every configured scope x kid / method-id override / conflicting kid / kid with path / kid of another DID; (5) nonce absent / equal / different on either side; (6) issuance and expiration at the bound and +-1 s, expiration absent; (7) status modes x {none, other type, bitmap index member / non-member} x service {with members, empty, absent}; subject-holder modes x subject id x nonTransferable x subject properties; (8) structure facts x issuer forms (URL, object, https URL, other DID), a payload that is not a claims set; (9) verify_signature over 1..3 trusted issuers in both orders, incl. two documents with one id and a foreign-DID method inside another issuer's document; (10) 1500 (20000) random mixtures. Every reply (credential or the list of error kinds, in order) must equal the model's. Non-trivial = not bad-request; distinct request lines.",
        "trusted_base": ["the signature scheme is a parameter: a token verifies under exactly the key that signed it (toy MAC behind the JwsVerifier hook; EdDSA/ES256 verifiers are third-party and C01's concern)", "JWS decoding is C08/C11's model; tokens here are well-formed compact JWS", "method resolution is the C04 model, the claims conversion the C07 model, the status decision the C06 model, timestamps the C13 model (each regenerated and checked by its own property)", "what the conversion copies verbatim is represented by the facts validation looks at (base context first, base type present, subject properties empty, nonTransferable, status entry)"],
        "assumptions": ["JwtCredentialValidator::validate takes one issuer document; the several-issuers behaviour is observed through verify_signature (validate_decoded_credential is crate-private)"],
    },
    "C03": {
        "translate": True,
        "gens": ["C04", "C13", "C07"],
        "diff_is_violation": True,
        "trivial": ["bad-request"],
        "rule": "streams (toy signature scheme behind the JwsVerifier hook; holder documents from the C04 document specs with toy JWKs, incl. keys of another DID listed as general, embedded and referenced methods, sharing the fragment of the holder's own key): (1) corpus; (2) EVERY combination of eleven conditions broken (nonce, kid absent / empty / DID without fragment / unknown fragment, method without JWK, signature under another key, iss not a DID, iss another DID, expiry before the bound, issuance after the bound, vp.id != jti, vp.holder != iss, exp beyond year 9999), 2048 requests; (3) 7 placements of the signing method x 5 configured scopes x 8 kid forms (full id, #fragment, bare fragment, foreign full id, id with path, DID only, empty, absent) x 2 signing keys x method-id override; (4) nonce absent / equal / different on either side; (5) exp x nbf x iat over {absent, bound -1, bound, bound +1, beyond the representable range} under two option sets; (6) a payload that is not a claims set; (7) 1500 (20000) random mixtures. Every reply (presentation id and holder, expiry, issuance, audience, custom claims, or the error kind) must equal the model's. Non-trivial = not bad-request; distinct request lines.",
        "trusted_base": ["the signature scheme is a parameter (as in C02)", "JWS decoding is C08/C11's model; tokens are well-formed compact JWS", "method resolution is the C04 model (query = DID part + fragment of the kid string; the string-level extraction of DIDUrlQuery is exercised through the kid forms, not modelled)", "claims conversion and dates are the C07 / C13 models"],
        "assumptions": ["a method of another DID embedded in the holder document is a verification method of that document (the statement's wording); the binding to the holder is the iss = document id condition"],
    },
    "C16": {
        "translate": True,
        "gens": ["C04", "C06", "C13", "C07", "C02", "C16"],
        "diff_is_violation": True,
        "trivial": ["bad-request"],
        "rule": "streams (toy signature scheme; SD-JWTs built with the sd-jwt-payload encoder from the C02 claims sets, three concealed subject properties with fixed salts): (1) corpus; (2) cred: 13 disclosure variants (every subset of the three disclosures presented; all + a forged disclosure; a duplicate; reversed order; one with an altered value; all + a string that is no disclosure) x subject id present / absent x 7 signature-stage situations (good, other key, method without JWK, kid absent, header nonce, issuer of another DID, issuer not a DID) x 4 unit situations (good, expired, issued too late + missing base type, revoked) x fail-fast / all-errors; inconsistent claims, a payload that is no claims set and three configured scopes under each variant; (3) kb: key-binding JWT attached / absent x hash algorithm supported / not x typ (library constant, literal kb+jwt, another value, absent) x 8 kid / key situations (good, other key, embedded method, method without JWK, key of another DID listed in the holder document, kid absent, kid not a DID URL, unknown fragment) x sd_hash (over the presented token, over the token with other disclosures, garbage) x nonce / audience right / wrong; iat at 49..151 around the window [50,150], at and beyond years 0000 / 9999, with each of earliest / latest / nonce / audience configured or not (incl. the wall-clock branch); scopes x kid / method-id override; undeserialisable KB claims; 400 (5000) random mixtures. Implementation-side oracles: an accepted credential has every presented disclosure's SHA-256 digest in the signed claims or in another presented disclosure; an accepted KB-JWT is typed exactly \"kb+jwt\"; a panic is a failure. Every reply must equal the model's. Non-trivial = not bad-request; distinct request lines.",
        "trusted_base": ["the disclosure decoder (sd-jwt-payload 0.2.1, third party) is a parameter: its verdict on (signed claims, disclosures) and the emptiness of the reconstructed subject are passed as facts and checked against the digest-presence oracle", "SHA-256 / base64url of digests (third party)", "signature scheme, JWS decoding, document resolution, claims conversion, status, dates: as in C02"],
        "assumptions": ["the wall clock is passed in the request; iat values within seconds of it are not generated"],
    },
    "C18": {
        "translate": True,
        "diff_is_violation": False,
        "trivial": ["bad-request", "err"],
        "rule": "streams: (1) corpus; (2) JWK JSON over the four key types x EVERY subset of private members (RSA: all 128 incl. partial sets and oth) x every declared kty (matching, each mismatching, unknown, absent) x 7 optional-member sets (use/alg/kid/key_ops incl. empty and multi-op lists), each with a pseudo-random member order; one required member dropped at a time; 11 mixed / mismatching member sets (OKP members under kty RSA, OKP + stray y, RSA + k, all families at once, ...) x 6 declared types x permutations; 300 (3000) random complete keys with random order; constructors: Jwk::new, from_params + set_kty to every type, set_params with matching and mismatching families; VerificationMethod::new_from_jwk over every private-member subset; generated key output and generated documents scanned for private members. Oracle: kty = parameter family, is_public iff no private member, projection has no private member (also in its JSON), keeps public members and type, is public, is idempotent, thumbprint unchanged by member order / optional members / private part, JSON round trip. Non-trivial = reply not err/bad-request; distinct request lines.",
        "trusted_base": ["serde attribute glue (untagged resolution, flatten, skip rules, member order) is modelled (first variant whose required members are present) and tied by correspondence", "SHA-256 / base64 of the thumbprint are not modelled: the theorem is about the hash INPUT"],
        "assumptions": ["set_params_unchecked and params_mut are documented escape hatches and are outside the coherence theorem and the oracle"],
    },
}
