import IdModel.Did.Model
/-! Helper lemmas for C10. -/
namespace IdModel.Did
open IdModel IdModel.Gen.C10

theorem slice_ok (s : Str) (a b : Nat) (h : a ≤ b ∧ b ≤ s.length) : slice s a b = .ok (sl s a b) := by
  unfold slice sl; simp [h.1, h.2]

theorem slice_panic (s : Str) (a b : Nat) (h : ¬(a ≤ b ∧ b ≤ s.length)) :
    slice s a b = .panic "did_url_parser:core.rs:slice" := by
  unfold slice
  have : (decide (a ≤ b) && decide (b ≤ s.length)) = false := by
    by_cases h1 : a ≤ b
    · by_cases h2 : b ≤ s.length
      · exact absurd ⟨h1, h2⟩ h
      · simp [h2]
    · simp [h1]
  simp [this]

/-- what a successful run of the third-party parser establishes -/
theorem upParse_ok (s : Str) (c : Core) (h : upParse s = .ok c) :
    ∃ i p q f, c = ⟨3, i, p, q, f⟩ ∧ (trim s).take 3 = [100, 105, 100] ∧ (trim s)[3]? = some 58 ∧
      (trim s)[i]? = some 58 ∧ 4 ≤ i ∧ i ≤ s.length ∧ i + 1 ≤ p ∧ p ≤ s.length ∧
      sl s 4 i ≠ [] ∧ sl s (i + 1) p ≠ [] ∧
      scan false stopColon upCharMethod (trim s) ((trim s).length + 1) 4 = some i ∧
      (∃ j, scan true stopId upCharMethodId (trim s) ((trim s).length + 1) (i + 1) = some j ∧
        parseTail (trim s) j = some (p, q, f)) := by
  unfold upParse at h
  simp only at h
  split at h
  · cases h
  · rename_i h1
    split at h
    · cases h
    · rename_i h2
      split at h
      · cases h
      · rename_i i hi
        split at h
        · cases h
        · rename_i h3
          split at h
          · cases h
          · rename_i j hj
            split at h
            · cases h
            · rename_i p q f hpt
              by_cases hA : 4 ≤ i ∧ i ≤ s.length
              · rw [slice_ok s 4 i hA] at h
                simp only at h
                split at h
                · cases h
                · rename_i hm
                  by_cases hB : i + 1 ≤ p ∧ p ≤ s.length
                  · rw [slice_ok s (i + 1) p hB] at h
                    simp only at h
                    split at h
                    · cases h
                    · rename_i hmid
                      injection h with h
                      refine ⟨i, p, q, f, h.symm, ?_, ?_, ?_, hA.1, hA.2, hB.1, hB.2, ?_, ?_, hi, j, hj, hpt⟩
                      · simpa using h1
                      · simpa using h2
                      · simpa using h3
                      · intro he; apply hm; rw [he]; rfl
                      · intro he; apply hmid; rw [he]; rfl
                  · rw [slice_panic s (i + 1) p hB] at h
                    cases h
              · rw [slice_panic s 4 i hA] at h
                cases h

/-! ### the scanning loops -/

theorem scan_ge (pct : Bool) (stop cls : Nat → Bool) (d : Str) (fuel i j : Nat)
    (h : scan pct stop cls d fuel i = some j) : i ≤ j := by
  induction fuel generalizing i with
  | zero => simp [scan] at h; omega
  | succ n ih =>
    unfold scan at h
    split at h
    · injection h with h; omega
    · split at h
      · injection h with h; omega
      · split at h
        · split at h
          · split at h
            · have := ih _ h; omega
            · cases h
          · cases h
        · split at h
          · have := ih _ h; omega
          · cases h

theorem scan_nopct_le (stop cls : Nat → Bool) (d : Str) (fuel i j : Nat)
    (h : scan false stop cls d fuel i = some j) (hi : i ≤ d.length) : j ≤ d.length := by
  induction fuel generalizing i with
  | zero => simp [scan] at h; omega
  | succ n ih =>
    unfold scan at h
    split at h
    · injection h with h; omega
    · rename_i c hc
      have hlt : i < d.length := by
        rcases Nat.lt_or_ge i d.length with h1 | h1
        · exact h1
        · rw [List.getElem?_eq_none h1] at hc; cases hc
      split at h
      · injection h with h; omega
      · simp only [Bool.false_and, Bool.false_eq_true, ↓reduceIte] at h
        split at h
        · exact ih _ h (by omega)
        · cases h

/-- between the start and the stop position of the method scan there is no colon -/
theorem scan_colon_none_before (cls : Nat → Bool) (d : Str) (fuel i j : Nat)
    (h : scan false stopColon cls d fuel i = some j) :
    ∀ m, i ≤ m → m < j → d[m]? ≠ some 58 := by
  induction fuel generalizing i with
  | zero => simp [scan] at h; intro m h1 h2; omega
  | succ n ih =>
    unfold scan at h
    split at h
    · injection h with h; intro m h1 h2; omega
    · rename_i c hc
      split at h
      · injection h with h; intro m h1 h2; omega
      · rename_i hstop
        simp only [Bool.false_and, Bool.false_eq_true, ↓reduceIte] at h
        split at h
        · intro m h1 h2
          rcases Nat.eq_or_lt_of_le h1 with he | hl
          · subst he
            rw [hc]
            intro hh
            injection hh with hh
            apply hstop; simp [stopColon, hh]
          · exact ih _ h m (by omega) h2
        · cases h

/-- the guard's scan visits the same indices as the parser's method-id scan -/
theorem scan_guard (d : Str) (fuel i j : Nat)
    (h : scan true stopId upCharMethodId d fuel i = some j) :
    guardScan d fuel i = some j ∨ (guardScan d fuel i = none ∧ j < d.length) := by
  induction fuel generalizing i with
  | zero => simp [scan] at h; subst h; left; rfl
  | succ n ih =>
    unfold scan at h
    unfold guardScan
    cases hc : d[i]? with
    | none =>
      rw [hc] at h
      simp only at h ⊢
      left; exact h
    | some c =>
      rw [hc] at h
      simp only at h ⊢
      have hlt : i < d.length := by
        rcases Nat.lt_or_ge i d.length with h1 | h1
        · exact h1
        · rw [List.getElem?_eq_none h1] at hc; cases hc
      by_cases hs : stopId c = true
      · simp only [hs, ↓reduceIte] at h
        injection h with h; subst h
        right
        have : (c == 47 || c == 63 || c == 35) = true := by simpa [stopId] using hs
        simp [this, hlt]
      · have hs' : (c == 47 || c == 63 || c == 35) = false := by
          simpa [stopId] using hs
        simp only [hs, Bool.false_eq_true, ↓reduceIte, Bool.true_and] at h
        simp only [hs', Bool.false_eq_true, ↓reduceIte]
        by_cases hp : (c == 37) = true
        · simp only [hp, ↓reduceIte] at h ⊢
          split at h
          · split at h
            · exact ih _ h
            · cases h
          · cases h
        · simp only [hp, Bool.false_eq_true, ↓reduceIte] at h ⊢
          split at h
          · exact ih _ h
          · cases h

theorem parseTail_fst (d : Str) (j p : Nat) (q f : Option Nat) (h : parseTail d j = some (p, q, f)) :
    p = j := by
  unfold parseTail at h
  simp only at h
  repeat' split at h
  all_goals first | (cases h; rfl) | cases h

theorem getElem?_lt {α : Type} (l : List α) (i : Nat) (a : α) (h : l[i]? = some a) : i < l.length := by
  rcases Nat.lt_or_ge i l.length with h1 | h1
  · exact h1
  · rw [List.getElem?_eq_none h1] at h; cases h

/-- the guard starts its scan where the parser's method-id scan starts -/
theorem colonFrom4_eq (cls : Nat → Bool) (d : Str) (fuel i : Nat)
    (h : scan false stopColon cls d fuel 4 = some i) (hi : d[i]? = some 58) :
    colonFrom4 d = some i := by
  have hge := scan_ge _ _ _ _ _ _ _ h
  have hnone := scan_colon_none_before cls d fuel 4 i h
  have hlt := getElem?_lt d i 58 hi
  unfold colonFrom4
  have key : (d.drop 4).findIdx? (· == 58) = some (i - 4) := by
    rw [List.findIdx?_eq_some_iff_getElem]
    refine ⟨by simp; omega, ?_, ?_⟩
    · have e : 4 + (i - 4) = i := by omega
      simp only [List.getElem_drop, e]
      have := (List.getElem?_eq_some_iff.1 hi).2
      simp [this]
    · intro m hm
      simp only [List.getElem_drop]
      have h1 := hnone (4 + m) (by omega) (by omega)
      have hm' : 4 + m < d.length := by omega
      rw [List.getElem?_eq_getElem hm'] at h1
      intro hh
      apply h1
      have : d[4 + m] = 58 := by simpa using hh
      rw [this]
  rw [key]
  simp; omega

/-- **the guarded call of the third-party parser never panics** -/
theorem parseBase_no_panic (s : Str) : (parseBase s).isPanic = false := by
  unfold parseBase
  by_cases ht : (trim s != s) = true
  · simp [ht, Outcome.isPanic]
  · simp only [ht, Bool.false_eq_true, ↓reduceIte]
    have ht' : trim s = s := by simpa using ht
    by_cases ho : overruns s = true
    · simp [ho, Outcome.isPanic]
    · simp only [ho, Bool.false_eq_true, ↓reduceIte]
      unfold upParse
      simp only [ht']
      split
      · rfl
      · split
        · rfl
        · split
          · rfl
          · rename_i i hi
            split
            · rfl
            · rename_i h3
              have h3' : s[i]? = some 58 := by simpa using h3
              split
              · rfl
              · rename_i j hj
                split
                · rfl
                · rename_i p q f hpt
                  have hp := parseTail_fst s j p q f hpt
                  subst hp
                  have hge := scan_ge _ _ _ _ _ _ _ hi
                  have hlt := getElem?_lt s i 58 h3'
                  have hge2 := scan_ge _ _ _ _ _ _ _ hj
                  have hcol := colonFrom4_eq upCharMethod s _ i hi h3'
                  have hple : p ≤ s.length := by
                    have hov : overruns s = false := by simpa using ho
                    unfold overruns at hov
                    rw [hcol] at hov
                    simp only at hov
                    rcases scan_guard s _ _ _ hj with hg | ⟨_, hg⟩
                    · rw [hg] at hov
                      simp only [decide_eq_false_iff_not, Nat.not_lt] at hov
                      exact hov
                    · omega
                  rw [slice_ok s 4 i ⟨hge, by omega⟩]
                  simp only
                  split
                  · rfl
                  · rw [slice_ok s (i + 1) p ⟨hge2, hple⟩]
                    simp only
                    split <;> rfl

/-! ### completeness: strings of plain class characters are scanned to the end -/

theorem scan_run (pct : Bool) (stop cls : Nat → Bool) (d : Str) (fuel i j : Nat)
    (h : ∀ k, i ≤ k → k < j → ∃ c, d[k]? = some c ∧ stop c = false ∧ c ≠ 37 ∧ cls c = true)
    (hend : d[j]? = none ∨ ∃ c, d[j]? = some c ∧ stop c = true)
    (hij : i ≤ j) (hf : j - i + 1 ≤ fuel) : scan pct stop cls d fuel i = some j := by
  induction fuel generalizing i with
  | zero => omega
  | succ n ih =>
    unfold scan
    rcases Nat.eq_or_lt_of_le hij with he | hl
    · subst he
      rcases hend with he | ⟨c, hc, hs⟩
      · rw [he]
      · rw [hc]; simp [hs]
    · obtain ⟨c, hc, hs, h37, hcl⟩ := h i (Nat.le_refl _) hl
      rw [hc]
      have h37' : (c == 37) = false := by simpa using h37
      simp only [hs, Bool.false_eq_true, ↓reduceIte, h37', Bool.and_false, hcl]
      exact ih (i + 1) (fun k hk1 hk2 => h k (by omega) hk2) (by omega) (by omega)

theorem guardScan_run (d : Str) (fuel i j : Nat)
    (h : ∀ k, i ≤ k → k < j → ∃ c, d[k]? = some c ∧ stopId c = false ∧ c ≠ 37)
    (hend : d[j]? = none) (hij : i ≤ j) (hf : j - i + 1 ≤ fuel) : guardScan d fuel i = some j := by
  induction fuel generalizing i with
  | zero => omega
  | succ n ih =>
    unfold guardScan
    rcases Nat.eq_or_lt_of_le hij with he | hl
    · subst he; rw [hend]
    · obtain ⟨c, hc, hs, h37⟩ := h i (Nat.le_refl _) hl
      rw [hc]
      have h37' : (c == 37) = false := by simpa using h37
      have hs' : (c == 47 || c == 63 || c == 35) = false := by simpa [stopId] using hs
      simp only [hs', Bool.false_eq_true, ↓reduceIte, h37']
      exact ih (i + 1) (fun k hk1 hk2 => h k (by omega) hk2) (by omega) (by omega)

theorem trim_id (s : Str) (c0 cl : Nat) (r : Str) (hs : s = c0 :: r) (hlast : s.getLast? = some cl)
    (h0 : ctrlOrSpace c0 = false) (hl : ctrlOrSpace cl = false) : trim s = s := by
  unfold trim
  subst hs
  have e1 : (c0 :: r).dropWhile ctrlOrSpace = c0 :: r := by simp [List.dropWhile, h0]
  rw [e1]
  have hrev : (c0 :: r).reverse = cl :: ((c0 :: r).reverse).tail := by
    have : (c0 :: r).reverse.head? = some cl := by rw [List.head?_reverse]; exact hlast
    cases hr : (c0 :: r).reverse with
    | nil => simp at hr
    | cons x xs => rw [hr] at this; simp at this; subst this; rfl
  rw [hrev]
  simp only [List.dropWhile, hl]
  rw [← hrev, List.reverse_reverse]

theorem isCharMethodName_ne (c : Nat) (h : isCharMethodName c = true) : c ≠ 58 ∧ c ≠ 37 := by
  unfold isCharMethodName at h
  simp only [Bool.or_eq_true, Bool.and_eq_true, decide_eq_true_eq] at h
  omega

theorem isCharMethodId_ne (c : Nat) (h : isCharMethodId c = true) : c ≠ 37 ∧ stopId c = false := by
  unfold isCharMethodId at h
  simp only [Bool.or_eq_true, Bool.and_eq_true, decide_eq_true_eq, beq_iff_eq] at h
  have : c ≠ 37 ∧ c ≠ 47 ∧ c ≠ 63 ∧ c ≠ 35 := by omega
  refine ⟨this.1, ?_⟩
  simp [stopId, this.2.1, this.2.2.1, this.2.2.2]

theorem validMethodIdAux_plain (v : Str) (h : ∀ c ∈ v, isCharMethodId c = true) :
    validMethodIdAux v = true := by
  induction v with
  | nil => rfl
  | cons c r ih =>
    have hc := h c List.mem_cons_self
    have hne := (isCharMethodId_ne c hc).1
    have e : validMethodIdAux (c :: r) = (isCharMethodId c && validMethodIdAux r) := by
      rw [validMethodIdAux]
      all_goals simp_all
    rw [e, hc, ih (fun x hx => h x (List.mem_cons_of_mem _ hx))]
    rfl

/-- **acceptance direction**: `did:<method>:<id>` with a non-empty method over `[a-z0-9]` and a
non-empty id over the id characters (no percent-encoding) is accepted, verbatim, with exactly
these components -/
theorem parseDid_complete (m id : Str)
    (hm : m ≠ []) (hmc : ∀ c ∈ m, isCharMethodName c = true ∧ upCharMethod c = true)
    (hid : id ≠ []) (hidc : ∀ c ∈ id, isCharMethodId c = true ∧ upCharMethodId c = true) :
    parseDid ([100, 105, 100, 58] ++ m ++ [58] ++ id) =
      .ok { str := [100, 105, 100, 58] ++ m ++ [58] ++ id,
            core := ⟨3, 4 + m.length, 5 + m.length + id.length, none, none⟩ } := by
  have hL : ([100, 105, 100, 58] ++ m ++ [58] ++ id).length = 5 + m.length + id.length := by
    simp; omega
  -- element access
  have hget_m : ∀ k, 4 ≤ k → k < 4 + m.length →
      ([100, 105, 100, 58] ++ m ++ [58] ++ id)[k]? = m[k - 4]? := by
    intro k h1 h2
    rw [List.append_assoc, List.append_assoc, List.getElem?_append_right (by simp; omega)]
    simp only [List.length_cons, List.length_nil]
    rw [List.getElem?_append_left (by omega)]
  have hget_colon : ([100, 105, 100, 58] ++ m ++ [58] ++ id)[4 + m.length]? = some 58 := by
    rw [List.append_assoc, List.append_assoc, List.getElem?_append_right (by simp)]
    simp only [List.length_cons, List.length_nil]
    rw [List.getElem?_append_right (by omega)]
    have : 4 + m.length - (0 + 1 + 1 + 1 + 1) - m.length = 0 := by omega
    rw [this]; rfl
  have hget_id : ∀ k, 5 + m.length ≤ k → k < 5 + m.length + id.length →
      ([100, 105, 100, 58] ++ m ++ [58] ++ id)[k]? = id[k - (5 + m.length)]? := by
    intro k h1 h2
    rw [List.getElem?_append_right (by simp; omega)]
    congr 1
    simp; omega
  have hget_end : ([100, 105, 100, 58] ++ m ++ [58] ++ id)[5 + m.length + id.length]? = none := by
    rw [List.getElem?_eq_none]; rw [hL]; exact Nat.le_refl _
  generalize hs : [100, 105, 100, 58] ++ m ++ [58] ++ id = s at *
  -- trimming changes nothing
  have hlast : s.getLast? = id.getLast? := by
    rw [← hs, List.getLast?_append]
    cases hgl : id.getLast? with
    | none => rw [List.getLast?_eq_none_iff] at hgl; exact absurd hgl hid
    | some x => simp
  obtain ⟨cl, hcl⟩ : ∃ cl, id.getLast? = some cl := by
    cases hgl : id.getLast? with
    | none => rw [List.getLast?_eq_none_iff] at hgl; exact absurd hgl hid
    | some x => exact ⟨x, rfl⟩
  have hclmem : cl ∈ id := List.mem_of_getLast? hcl
  have hclcls := (hidc cl hclmem).1
  have hctl : ctrlOrSpace cl = false := by
    unfold isCharMethodId at hclcls
    simp only [Bool.or_eq_true, Bool.and_eq_true, decide_eq_true_eq, beq_iff_eq] at hclcls
    unfold ctrlOrSpace
    have : ¬ cl ≤ 32 ∧ cl ≠ 127 := by omega
    simp [this.1, this.2]
  have htrim : trim s = s := by
    apply trim_id s 100 cl (s.tail) (by rw [← hs]; rfl) (by rw [hlast, hcl]) (by decide) hctl
  -- the scans
  have hscan1 : scan false stopColon upCharMethod s (s.length + 1) 4 = some (4 + m.length) := by
    apply scan_run
    · intro k h1 h2
      rw [hget_m k h1 h2]
      have hk : k - 4 < m.length := by omega
      refine ⟨m[k - 4], List.getElem?_eq_getElem hk, ?_, ?_, ?_⟩
      · have := (isCharMethodName_ne _ (hmc _ (List.getElem_mem hk)).1).1
        simp [stopColon, this]
      · exact (isCharMethodName_ne _ (hmc _ (List.getElem_mem hk)).1).2
      · exact (hmc _ (List.getElem_mem hk)).2
    · right; exact ⟨58, hget_colon, by decide⟩
    · omega
    · rw [hL]; omega
  have hscan2 : scan true stopId upCharMethodId s (s.length + 1) (4 + m.length + 1) =
      some (5 + m.length + id.length) := by
    apply scan_run
    · intro k h1 h2
      rw [hget_id k (by omega) h2]
      have hk : k - (5 + m.length) < id.length := by omega
      refine ⟨id[k - (5 + m.length)], List.getElem?_eq_getElem hk, ?_, ?_, ?_⟩
      · exact (isCharMethodId_ne _ (hidc _ (List.getElem_mem hk)).1).2
      · exact (isCharMethodId_ne _ (hidc _ (List.getElem_mem hk)).1).1
      · exact (hidc _ (List.getElem_mem hk)).2
    · left; exact hget_end
    · omega
    · rw [hL]; omega
  have htail : parseTail s (5 + m.length + id.length) = some (5 + m.length + id.length, none, none) := by
    unfold parseTail
    simp only
    have : scan true stopPath upCharPath s (s.length + 1) (5 + m.length + id.length) =
        some (5 + m.length + id.length) := by
      unfold scan; rw [hget_end]
    rw [this]
    simp only [hget_end]
  -- slices
  have hsl1 : sl s 4 (4 + m.length) = m := by
    rw [← hs]; simp [sl]
  have hsl2 : sl s (4 + m.length + 1) (5 + m.length + id.length) = id := by
    rw [← hs]
    unfold sl
    have e : 5 + m.length + id.length - (4 + m.length + 1) = id.length := by omega
    rw [e]
    have : List.drop (4 + m.length + 1) ([100, 105, 100, 58] ++ m ++ [58] ++ id) = id := by
      rw [List.append_assoc, List.append_assoc, List.drop_append]
      simp only [List.length_cons, List.length_nil]
      have e1 : 4 + m.length + 1 - (0 + 1 + 1 + 1 + 1) = m.length + 1 := by omega
      rw [e1]
      have e0 : List.drop (4 + m.length + 1) [100, 105, 100, 58] = [] := by
        apply List.drop_eq_nil_of_le; simp; omega
      rw [e0, List.nil_append, List.drop_append]
      have e2 : List.drop (m.length + 1) m = [] := List.drop_eq_nil_of_le (by omega)
      rw [e2, List.nil_append]
      have e3 : m.length + 1 - m.length = 1 := by omega
      rw [e3]; rfl
    rw [this, List.take_length]
  have hup : upParse s = .ok ⟨3, 4 + m.length, 5 + m.length + id.length, none, none⟩ := by
    unfold upParse
    simp only [htrim]
    have h3 : (s.take 3 != [100, 105, 100]) = false := by rw [← hs]; rfl
    have h58 : (s[3]? != some 58) = false := by rw [← hs]; rfl
    have hc58 : (s[4 + m.length]? != some 58) = false := by rw [hget_colon]; rfl
    simp only [h3, Bool.false_eq_true, ↓reduceIte, h58, hscan1, hc58, hscan2, htail]
    rw [slice_ok s 4 (4 + m.length) ⟨by omega, by rw [hL]; omega⟩, hsl1]
    simp only
    have hme : m.isEmpty = false := by cases m <;> simp_all
    simp only [hme, Bool.false_eq_true, ↓reduceIte]
    rw [slice_ok s (4 + m.length + 1) (5 + m.length + id.length) ⟨by omega, by rw [hL]; omega⟩, hsl2]
    simp only
    have hie : id.isEmpty = false := by cases id <;> simp_all
    simp only [hie, Bool.false_eq_true, ↓reduceIte]
  -- the guard
  have hover : overruns s = false := by
    unfold overruns
    rw [colonFrom4_eq upCharMethod s _ _ hscan1 hget_colon]
    simp only
    have : guardScan s (s.length + 1) (4 + m.length + 1) = some (5 + m.length + id.length) := by
      apply guardScan_run
      · intro k h1 h2
        rw [hget_id k (by omega) h2]
        have hk : k - (5 + m.length) < id.length := by omega
        exact ⟨id[k - (5 + m.length)], List.getElem?_eq_getElem hk,
          (isCharMethodId_ne _ (hidc _ (List.getElem_mem hk)).1).2,
          (isCharMethodId_ne _ (hidc _ (List.getElem_mem hk)).1).1⟩
      · exact hget_end
      · omega
      · rw [hL]; omega
    rw [this]
    simp [hL]
  unfold parseDid parseBase
  have ht : (trim s != s) = false := by simp [htrim]
  simp only [ht, Bool.false_eq_true, ↓reduceIte, hover, hup]
  have hcv : checkValidity s ⟨3, 4 + m.length, 5 + m.length + id.length, none, none⟩ = true := by
    unfold checkValidity Core.methodOf Core.methodIdOf Core.pathOf Core.fragmentOf Core.queryOf
    simp only [hsl1, hsl2, Option.map_none, Option.isNone_none, Bool.and_true]
    have hp : (s.drop (5 + m.length + id.length)).isEmpty = true := by
      rw [List.drop_eq_nil_of_le (by rw [hL]; exact Nat.le_refl _)]; rfl
    have hvn : validMethodName m = true := by
      unfold validMethodName
      have hme : m.isEmpty = false := by cases m <;> simp_all
      simp only [hme, Bool.not_false, Bool.true_and, List.all_eq_true]
      exact fun c hc => (hmc c hc).1
    have hvi : validMethodId id = true := by
      unfold validMethodId
      have hie : id.isEmpty = false := by cases id <;> simp_all
      simp only [hie, Bool.not_false, Bool.true_and]
      exact validMethodIdAux_plain id (fun c hc => (hidc c hc).1)
    simp [hvn, hvi, hp]
  simp only [hcv, ↓reduceIte]

/-- the shape of every accepted plain DID, in terms of indices -/
theorem parseDid_ok_core (s : Str) (d : CoreDid) (h : parseDid s = .ok d) :
    d.str = s ∧ ∃ i, d.core = ⟨3, i, s.length, none, none⟩ ∧ 4 ≤ i ∧ i < s.length ∧
      s.take 4 = [100, 105, 100, 58] ∧ s[i]? = some 58 ∧
      validMethodName (sl s 4 i) = true ∧ validMethodId (s.drop (i + 1)) = true ∧
      s = [100, 105, 100, 58] ++ sl s 4 i ++ [58] ++ s.drop (i + 1) := by
  unfold parseDid at h
  cases hb : parseBase s with
  | panic m => rw [hb] at h; cases h
  | err e => rw [hb] at h; cases h
  | ok c =>
    rw [hb] at h
    simp only at h
    split at h
    · rename_i hv
      injection h with h
      subst h
      unfold parseBase at hb
      split at hb
      · cases hb
      · rename_i ht
        have ht' : trim s = s := by simpa using ht
        split at hb
        · cases hb
        · obtain ⟨i, p, q, f, hc, h3, h58, hi58, hge, hle, hip, hpl, hm, hmid, _, _⟩ := upParse_ok s c hb
          rw [ht'] at h3 h58 hi58
          subst hc
          unfold checkValidity at hv
          simp only [Bool.and_eq_true] at hv
          obtain ⟨⟨⟨⟨hvn, hvi⟩, hpe⟩, hfr⟩, hqu⟩ := hv
          have hq : q = none := by
            cases q with
            | none => rfl
            | some qq => cases f <;> simp [Core.queryOf] at hqu
          have hf : f = none := by
            cases f with
            | none => rfl
            | some ff => simp [Core.fragmentOf] at hfr
          subst hq; subst hf
          have hpath : s.drop p = [] := by simpa [Core.pathOf] using hpe
          have hp : p = s.length := by
            have := List.drop_eq_nil_iff.1 hpath; omega
          subst hp
          have hlt := getElem?_lt s i 58 hi58
          have h4 : s.take 4 = [100, 105, 100, 58] := by
            have e1 : s.take 4 = s.take 3 ++ (s.drop 3).take 1 := by
              rw [← List.take_add]
            rw [e1, h3]
            have : (s.drop 3).take 1 = [58] := by
              have hl3 := getElem?_lt s 3 58 h58
              rw [List.drop_eq_getElem_cons hl3]
              have := (List.getElem?_eq_some_iff.1 h58).2
              simp [this]
            rw [this]; rfl
          have hmidv : Core.methodIdOf ⟨3, i, s.length, none, none⟩ s = s.drop (i + 1) := by
            show sl s (i + 1) s.length = _
            unfold sl; rw [List.take_of_length_le (by simp)]
          rw [hmidv] at hvi
          have hrec : s = [100, 105, 100, 58] ++ sl s 4 i ++ [58] ++ s.drop (i + 1) := by
            have e2 : s = s.take 4 ++ s.drop 4 := (List.take_append_drop 4 s).symm
            have e3 : s.drop 4 = (s.drop 4).take (i - 4) ++ (s.drop 4).drop (i - 4) :=
              (List.take_append_drop (i - 4) (s.drop 4)).symm
            have e4 : (s.drop 4).drop (i - 4) = s.drop i := by
              rw [List.drop_drop]; congr 1; omega
            have e5 : s.drop i = 58 :: s.drop (i + 1) := by
              rw [List.drop_eq_getElem_cons hlt]
              have := (List.getElem?_eq_some_iff.1 hi58).2
              simp [this]
            conv => lhs; rw [e2, h4, e3, e4, e5]
            simp [sl]
          exact ⟨rfl, i, rfl, hge, hlt, h4, hi58, hvn, hvi, hrec⟩
    · cases h

theorem sl_method (m id : Str) : sl ([100, 105, 100, 58] ++ m ++ [58] ++ id) 4 (4 + m.length) = m := by
  simp [sl]

theorem sl_id (m id : Str) :
    sl ([100, 105, 100, 58] ++ m ++ [58] ++ id) (4 + m.length + 1) (5 + m.length + id.length) = id := by
  unfold sl
  have e : 5 + m.length + id.length - (4 + m.length + 1) = id.length := by omega
  rw [e]
  have : List.drop (4 + m.length + 1) ([100, 105, 100, 58] ++ m ++ [58] ++ id) = id := by
    rw [List.append_assoc, List.append_assoc, List.drop_append]
    simp only [List.length_cons, List.length_nil]
    have e1 : 4 + m.length + 1 - (0 + 1 + 1 + 1 + 1) = m.length + 1 := by omega
    rw [e1]
    have e0 : List.drop (4 + m.length + 1) [100, 105, 100, 58] = [] := by
      apply List.drop_eq_nil_of_le; simp; omega
    rw [e0, List.nil_append, List.drop_append]
    have e2 : List.drop (m.length + 1) m = [] := List.drop_eq_nil_of_le (by omega)
    rw [e2, List.nil_append]
    have e3 : m.length + 1 - m.length = 1 := by omega
    rw [e3]; rfl
  rw [this, List.take_length]

end IdModel.Did
