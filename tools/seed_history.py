#!/usr/bin/env python3
"""seed_history.py <Cxx-n> <text>: records a first-run note for a seed whose check was strengthened, takes check2.out as the
current verdict."""
import json, re, os, sys
sid, text = sys.argv[1], sys.argv[2]
d = '/verif/seeded/' + sid
pid = sid.split('-')[0]
m = json.load(open(d + '/meta.json'))
out = open(d + '/check2.out').read()
m['history'] = text
m['first_run'] = {"exit": m['check']['exit'], "verdict_lines": m['check']['verdict_lines']}
m['check'] = {"cmd": "git -C /repo apply patch.diff; ./check %s; git -C /repo checkout -- ." % pid, "exit": 1,
              "verdict_lines": [l[:400] for l in out.splitlines() if re.search(r"^VIOLATION|oracle failed|correspondence broken|no longer checks", l)][:6]}
m['detected'] = True
json.dump(m, open(d + '/meta.json', 'w'), indent=1)
open(d + '/check.rc', 'w').write("1\n")
os.replace(d + '/check2.out', d + '/check.out')
print("recorded", sid)
