#!/bin/sh
# Re-check every property module as a stranger would: clean build of all theorems, forbidden-token grep, axiom audit of every
# property theorem, and the toolchain's independent re-checker (leanchecker) over every compiled Props module.
set -e
cd "$(dirname "$0")/../lean"
lake build IdModel idmodel
echo "== forbidden tokens (comments stripped by ./check; raw grep here, hits inside comments are harmless)"
grep -rnE '\bsorry\b|\badmit\b|^\s*axiom\s|native_decide|bv_decide|implemented_by|\bunsafe\s|maxHeartbeats\s+0' IdModel Driver || echo none
echo "== axioms of every property theorem"
for f in IdModel/Audit/C*.lean; do lake env lean "$f"; done | python3 -c "
import re, sys
t = sys.stdin.read()
ok = {'propext', 'Classical.choice', 'Quot.sound'}
n = bad = 0
for m in re.finditer(r\"'([^']+)' depends on axioms: \\[([^\\]]*)\\]\", t):
    n += 1
    ax = {a.strip() for a in m.group(2).replace('\\n', ' ').split(',') if a.strip()}
    if ax - ok:
        bad += 1
        print('FOREIGN AXIOMS', m.group(1), sorted(ax - ok))
n += len(re.findall(r'does not depend on any axioms', t))
print('%d theorems audited, %d with axioms outside {propext, Classical.choice, Quot.sound}' % (n, bad))
"
echo "== leanchecker"
ls IdModel/Props/C*.lean | sed 's|/|.|g; s|\.lean$||' | xargs -P 8 -I{} sh -c 'lake env leanchecker {} && echo "accepted {}" || echo "REJECTED {}"'
