import Driver.Util
import Driver.C19
import Driver.C12
import Driver.C13
import Driver.C11
import Driver.C01
import Driver.C08
import Driver.C05
import Driver.C06
import Driver.C18
import Driver.C02
import Driver.C03
import Driver.C04
import Driver.C07
import Driver.C09
import Driver.C14
import Driver.C15
import Driver.C20
import Driver.C16
import Driver.C10
import Driver.C17

def dispatch (line : String) : String :=
  match Driver.toks line with
  | "C19" :: r => Driver.C19.handle r
  | "C12" :: r => Driver.C12.handle r
  | "C13" :: r => Driver.C13.handle r
  | "C11" :: r => Driver.C11.handle r
  | "C01" :: r => Driver.C01.handle r
  | "C08" :: r => Driver.C08.handle r
  | "C05" :: r => Driver.C05.handle r
  | "C06" :: r => Driver.C06.handle r
  | "C18" :: r => Driver.C18.handle r
  | "C02" :: r => Driver.C02.handle r
  | "C03" :: r => Driver.C03.handle r
  | "C04" :: r => Driver.C04.handle r
  | "C07" :: r => Driver.C07.handle r
  | "C09" :: r => Driver.C09.handle r
  | "C14" :: r => Driver.C14.handle r
  | "C15" :: r => Driver.C15.handle r
  | "C20" :: r => Driver.C20.handle r
  | "C16" :: r => Driver.C16.handle r
  | "C10" :: r => Driver.C10.handle r
  | "C17" :: r => Driver.C17.handle r
  | _ => "bad-request"

partial def loop (h : IO.FS.Stream) (out : IO.FS.Stream) : IO Unit := do
  let line ← h.getLine
  if line.isEmpty then return ()
  out.putStrLn (dispatch line)
  loop h out

def main : IO Unit := do
  let out ← IO.getStdout
  loop (← IO.getStdin) out
  out.flush
