import IdModel.Meta.Model
import Driver.C04
/-! Line-protocol handler for C14 (state-metadata packing). See harness/src/c14.rs for the request grammar. -/
namespace Driver.C14
open IdModel.Doc IdModel.Meta IdModel.OSet

/-- DIDs 0..4 are IOTA DIDs, 9 is the placeholder `did:0:0`, everything else is a DID of another method -/
-- DIDs 0..4 are IOTA DIDs; 20..24 are IOTA DIDs with the SAME tags on another network (so: other DIDs)
-- 30..34: the tag of DID n-30 with the default network spelled out (valid, non-normal form, another string)
def isIota (x : Nat) : Bool := x < 5 || (20 ≤ x && x < 25) || (30 ≤ x && x < 35)
def placeholder : Nat := 9

def parseMth (t : String) : Option Mth :=
  match t.splitOn "." with
  | [d, p, f, b, c] => do pure ⟨⟨← d.toNat?, ← p.toNat?, ← C04.parseFrag f⟩, ← c.toNat?, ← b.toNat?⟩
  | _ => none

def parseMR (t : String) : Option MR :=
  if t.startsWith "E" then (parseMth (t.drop 1).toString).map .embed
  else if t.startsWith "R" then (C04.parseId (t.drop 1).toString).map .refer
  else none

def parseCtl (t : String) : Option (Option (OneOrSet Nat)) :=
  if t == "~" then some none
  else if t.startsWith "o" then (t.drop 1).toString.toNat?.map (fun x => some (.one x))
  else if t.startsWith "s" then ((t.drop 1).toString.splitOn ",").mapM String.toNat? |>.map (fun xs => some (.set xs))
  else none

def parseIDoc (t : String) : Option IDoc :=
  match t.splitOn ";" with
  | idp :: rest => do
    let i ← (idp.drop 1).toString.toNat?
    let ct ← parseCtl (← C04.field "ct" rest)
    let vm ← C04.parseList parseMth (← C04.field "vm" rest)
    let a0 ← C04.parseList parseMR (← C04.field "a0" rest)
    let a1 ← C04.parseList parseMR (← C04.field "a1" rest)
    let a2 ← C04.parseList parseMR (← C04.field "a2" rest)
    let a3 ← C04.parseList parseMR (← C04.field "a3" rest)
    let a4 ← C04.parseList parseMR (← C04.field "a4" rest)
    let sv ← C04.parseList C04.parseService (← C04.field "sv" rest)
    let ad ← C04.field "ad" rest
    -- `ad`: bit 0 = ledger addresses present; the higher bits select a metadata variant the model does not look at
    pure ⟨i, ct, vm, a0, a1, a2, a3, a4, sv, (ad.toNat?.getD 0) % 2 == 1, 0⟩
  | [] => none

def showMth (m : Mth) : String := s!"{C04.showId m.id}.{m.body}.{m.controller}"
def showMR : MR → String
  | .embed m => "E" ++ showMth m
  | .refer i => "R" ++ C04.showId i
def showCtl : Option (OneOrSet Nat) → String
  | none => "~"
  | some (.one x) => s!"o{x}"
  | some (.set xs) => "s" ++ ",".intercalate (xs.map toString)

def showIDoc (d : IDoc) : String :=
  let l (xs : List MR) := ",".intercalate (xs.map showMR)
  s!"D{d.id};ct={showCtl d.controller};vm={",".intercalate (d.vm.map showMth)};a0={l d.auth};a1={l d.asrt};a2={l d.keyAgr};a3={l d.capDel};a4={l d.capInv};sv={",".intercalate (d.service.map C04.showService)};ad={if d.addrs then 1 else 0}"

/-- what `IotaDocument::from_json` accepts: unique keys per collection, a non-empty controller set without
duplicates, the id-constraint gate, IOTA DIDs as id and controllers -/
def startOk (d : IDoc) : Bool :=
  (tryFromVec Mth.id d.vm).isSome && (tryFromVec MR.id d.auth).isSome && (tryFromVec MR.id d.asrt).isSome &&
  (tryFromVec MR.id d.keyAgr).isSome && (tryFromVec MR.id d.capDel).isSome && (tryFromVec MR.id d.capInv).isSome &&
  (tryFromVec Service.id d.service).isSome &&
  (match d.controller with
   | none => true
   | some (.one _) => true
   | some (.set xs) => (tryFromVec id xs).isSome && xs.length ≥ 2) &&
  checkIdConstraints d.toDoc && isIota d.id &&
  (match d.controller with
   | none => true
   | some c => c.toList.all isIota)

def rebaseReq (spec : String) (t : String) : String :=
  match parseIDoc spec, t.toNat? with
  | some d, some t =>
    if !startOk d then "start:reject"
    else match toPlaceholder placeholder d with
      | none => "pack:err"
      | some x =>
        -- deserialising the packed JSON applies the CoreDocument gate again
        match gate x with
        | none => "err:json"
        | some x' =>
          match intoIota isIota placeholder t x' with
          | .ok r => "ok:" ++ showIDoc r
          | .error .notIota => "err:notIota"
          | .error .gate => "err:gate"
  | _, _ => "bad-request"

def showFErr : FErr → String
  | .noMarker => "noMarker" | .marker => "marker" | .noVersion => "noVersion" | .version => "version"
  | .noEncoding => "noEncoding" | .encoding => "encoding" | .noLength => "noLength" | .short => "short"

/-- `P=<payload hex>=<ok|bad>` facts about the JSON decoder -/
def parseFacts (ts : List String) : List (String × String) :=
  ts.filterMap fun t =>
    if t.startsWith "P=" then
      match (t.drop 2).toString.splitOn "=" with
      | [p, v] => some (p, v)
      | _ => none
    else none

def unframeReq (bytes : String) (facts : List String) : String :=
  match unhex bytes with
  | none => "bad-request"
  | some bs =>
    match unframe bs with
    | .error e => "err:" ++ showFErr e
    | .ok p =>
      match (parseFacts facts).find? (fun f => f.1 == hex p) with
      | some (_, "ok") => "ok"
      | some (_, _) => "err:json"
      | none => "payload:" ++ hex p

def frameReq (n : String) : String :=
  match n.toNat? with
  | none => "bad-request"
  | some n =>
    -- the header only depends on the length
    match frame (List.replicate n 0) with
    | none => "err:toolarge"
    | some bs => s!"ok:{hex (bs.take 7)}:{bs.length - 7}"

def handle (args : List String) : String :=
  match args with
  | ["rebase", spec, t] => rebaseReq spec t
  | "unframe" :: bytes :: facts => unframeReq bytes facts
  | ["frame", n] => frameReq n
  | _ => "bad-request"

end Driver.C14
