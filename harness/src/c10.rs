//! C10 — CoreDID / DIDUrl against the Lean model `IdModel.Did`.
use crate::rng::{hex, unhex, Rng};
use identity_core::convert::{FromJson, ToJson};
use identity_did::{CoreDID, DIDUrl, DID};
use std::collections::hash_map::DefaultHasher;
use std::hash::{Hash, Hasher};
use std::io::Write;

fn arg(h: &str) -> Option<String> {
  String::from_utf8(unhex(h)?).ok()
}
fn ho(o: Option<&str>) -> String {
  match o {
    None => "~".into(),
    Some(s) => hex(s.as_bytes()),
  }
}

fn is_idchar(c: char) -> bool {
  c.is_ascii_alphanumeric() || c == '.' || c == '-' || c == '_'
}
/// characters of `s` are `class` characters or well-formed `%` HEXDIG HEXDIG triples
fn w3c_chars(s: &str, class: impl Fn(char) -> bool) -> bool {
  let b: Vec<char> = s.chars().collect();
  let mut i = 0;
  while i < b.len() {
    if b[i] == '%' {
      if i + 2 >= b.len() || !b[i + 1].is_ascii_hexdigit() || !b[i + 2].is_ascii_hexdigit() {
        return false;
      }
      i += 3;
    } else if class(b[i]) {
      i += 1;
    } else {
      return false;
    }
  }
  true
}
fn is_pchar(c: char) -> bool {
  is_idchar(c) || "~!$&'()*+,;=:@".contains(c)
}

fn did_oracle(input: &str, d: &CoreDID) -> Option<String> {
  if d.as_str() != input || d.to_string() != input {
    return Some(format!("did-not-verbatim:as_str {:?}", d.as_str()));
  }
  if format!("did:{}:{}", d.method(), d.method_id()) != input {
    return Some(format!("did-components-do-not-recompose:method {:?} id {:?}", d.method(), d.method_id()));
  }
  if d.method().is_empty() || !d.method().chars().all(|c| c.is_ascii_lowercase() || c.is_ascii_digit()) {
    return Some(format!("did-method-syntax:{:?}", d.method()));
  }
  if d.method_id().is_empty() || !w3c_chars(d.method_id(), |c| is_idchar(c) || c == ':') {
    return Some(format!("did-method-id-syntax:{:?}", d.method_id()));
  }
  if input.contains('/') || input.contains('?') || input.contains('#') {
    return Some("did-carries-url-parts:".into());
  }
  match CoreDID::parse(d.as_str()) {
    Ok(d2) if &d2 == d => {}
    _ => return Some("did-reparse:".into()),
  }
  // every other view of the value is the same string / the same components
  {
    let views: [(&str, String); 8] = [
      ("Debug", format!("{:?}", d)),
      ("AsRef<str>", AsRef::<str>::as_ref(d).to_string()),
      ("into_string", d.clone().into_string()),
      ("Into<String>", String::from(d.clone())),
      ("to_url", d.to_url().to_string()),
      ("into_url", d.clone().into_url().to_string()),
      ("DIDUrl::from", DIDUrl::from(d.clone()).to_string()),
      ("scheme:authority", format!("{}:{}", d.scheme(), d.authority())),
    ];
    for (n, v) in views {
      if v != input {
        return Some(format!("did-not-verbatim:{} gives {:?}", n, v));
      }
    }
    if d != input || *d != *input || identity_core::common::KeyComparable::key(d) != d {
      return Some("did-not-verbatim:PartialEq<str> / key".into());
    }
    let u = d.to_url();
    if u.did() != d || u.path().is_some() || u.query().is_some() || u.fragment().is_some() || !u.url().is_empty() {
      return Some("did-carries-url-parts:to_url".into());
    }
    if CoreDID::valid_method_name(d.method()).is_err() || CoreDID::valid_method_id(d.method_id()).is_err() {
      return Some("did-method-syntax:the library's own validators refuse a component of an accepted DID".into());
    }
  }
  match d.to_json().ok().and_then(|j| CoreDID::from_json(&j).ok()) {
    Some(d2) if &d2 == d => None,
    _ => Some("did-json-roundtrip:".into()),
  }
}

fn hash_of<T: Hash>(t: &T) -> u64 {
  let mut h = DefaultHasher::new();
  t.hash(&mut h);
  h.finish()
}

/// component syntax + string form re-parses to an equal value
fn url_oracle(u: &DIDUrl, what: &str) -> Option<String> {
  let s = u.to_string();
  let want = format!(
    "{}{}{}{}",
    u.did().as_str(),
    u.path().unwrap_or(""),
    u.query().map(|q| format!("?{}", q)).unwrap_or_default(),
    u.fragment().map(|f| format!("#{}", f)).unwrap_or_default()
  );
  if s != want {
    return Some(format!("url-components-do-not-recompose:{} {:?} vs {:?}", what, s, want));
  }
  if let Some(e) = did_oracle(u.did().as_str(), u.did()) {
    return Some(format!("url-{}", e));
  }
  if let Some(p) = u.path() {
    if !p.starts_with('/') || !w3c_chars(p, |c| is_pchar(c) || c == '/') {
      return Some(format!("url-path-syntax:{:?}", p));
    }
  }
  if let Some(q) = u.query() {
    if !w3c_chars(q, |c| is_pchar(c) || c == '/' || c == '?') {
      return Some(format!("url-query-syntax:{:?}", q));
    }
  }
  if let Some(f) = u.fragment() {
    if !w3c_chars(f, |c| is_pchar(c) || c == '/' || c == '?') {
      return Some(format!("url-fragment-syntax:{:?}", f));
    }
  }
  {
    // the relative part, and rebuilding / mapping the value from its parts
    let r = u.url();
    if r.path() != u.path() || r.query() != u.query() || r.fragment() != u.fragment() {
      return Some(format!("url-components-do-not-recompose:{} url() components differ", what));
    }
    if format!("{}{}", u.did(), r) != s || format!("{:?}", u) != s || String::from(u.clone()) != s {
      return Some(format!("url-components-do-not-recompose:{} did + url() / Debug / Into<String> differ from {:?}", what, s));
    }
    if r.is_empty() != (u.path().is_none() && u.query().is_none() && u.fragment().is_none()) {
      return Some(format!("url-components-do-not-recompose:{} is_empty", what));
    }
    let rebuilt = DIDUrl::new(u.did().clone(), Some(r.clone()));
    let mut reset = DIDUrl::new(u.did().clone(), None);
    reset.set_url(r.clone());
    let mapped = u.clone().map(|d| d);
    let tmapped = u.clone().try_map(Ok::<CoreDID, ()>);
    if &rebuilt != u || &reset != u || &mapped != u || tmapped.as_ref() != Ok(u) || rebuilt.to_string() != s || mapped.to_string() != s {
      return Some(format!("url-components-do-not-recompose:{} new / set_url / map / try_map of the parts differ from the value", what));
    }
    if u.clone().try_map(|_| Err::<CoreDID, ()>(())).is_ok() {
      return Some(format!("url-components-do-not-recompose:{} try_map ignores the error", what));
    }
    if AsRef::<CoreDID>::as_ref(u) != u.did() || identity_core::common::KeyComparable::key(u) != u {
      return Some(format!("url-components-do-not-recompose:{} as_ref / key", what));
    }
    let n1 = u.query_pairs().count();
    let n2 = r.query_pairs().count();
    if n1 != n2 || (u.query().is_none() && n1 != 0) {
      return Some(format!("url-components-do-not-recompose:{} query_pairs", what));
    }
  }
  let s2 = s.clone();
  match std::panic::catch_unwind(move || DIDUrl::parse(&s2)) {
    Err(_) => Some(format!("panic:{} re-parse of own string form {:?} panicked", what, s)),
    Ok(Ok(u2)) if &u2 == u => {
      if hash_of(&u2) != hash_of(u) || u2.cmp(u) != std::cmp::Ordering::Equal {
        Some("eq-ord-hash-disagree:".into())
      } else {
        None
      }
    }
    Ok(Ok(u2)) => Some(format!("url-reparse-differs@{}:{:?} re-parses to {:?}", what, s, u2.to_string())),
    Ok(Err(_)) => {
      // residual of the third-party parser's skipped byte after a percent triple
      let key = if pct_before_delim_or_end(&s) { "url-reparse-rejected-pct-triple" } else { "url-reparse-rejected" };
      Some(format!("{}@{}:{:?} does not re-parse", key, what, s))
    }
  }
}

/// a `%HH` triple directly followed by `/`, `?`, `#`, or ending the method-specific id at the end of the string
fn pct_before_delim_or_end(s: &str) -> bool {
  let b = s.as_bytes();
  for i in 0..b.len() {
    if b[i] == b'%' && i + 2 < b.len() {
      let after = b.get(i + 3);
      if matches!(after, Some(b'/') | Some(b'?') | Some(b'#')) {
        return true;
      }
      if after.is_none() && !s.contains('/') && !s.contains('?') && !s.contains('#') {
        return true;
      }
    }
  }
  false
}

fn show_url(u: &DIDUrl) -> String {
  let q = u.query().map(|q| format!("?{}", q));
  let f = u.fragment().map(|f| format!("#{}", f));
  format!("ok:{}:{}:{}:{}", hex(u.did().as_str().as_bytes()), ho(u.path()), ho(q.as_deref()), ho(f.as_deref()))
}

fn with(obs: String, f: Option<String>) -> String {
  match f {
    Some(f) => format!("{}\t#FAIL:{}", obs, f),
    None => obs,
  }
}

pub fn run(args: &[&str]) -> String {
  match args {
    ["did", h] => {
      let Some(s) = arg(h) else { return "bad-request".into() };
      let s2 = s.clone();
      // every way of constructing a CoreDID from this string is held to the property too
      let paths = |parsed: Option<&CoreDID>| -> Option<String> {
        let js = serde_json::to_string(&s).unwrap_or_default();
        let (sa, sb, sc) = (s.clone(), s.clone(), s.clone());
        let rs: [(&str, std::thread::Result<Option<CoreDID>>); 4] = [
          ("FromStr", std::panic::catch_unwind(move || sa.parse::<CoreDID>().ok())),
          ("TryFrom<&str>", std::panic::catch_unwind(move || CoreDID::try_from(sb.as_str()).ok())),
          ("TryFrom<String>", std::panic::catch_unwind(move || CoreDID::try_from(sc).ok())),
          ("Deserialize", std::panic::catch_unwind(move || serde_json::from_str::<CoreDID>(&js).ok())),
        ];
        for (name, r) in rs {
          match r {
            Err(_) => return Some(format!("construction-paths-differ:{} panics on {:?}", name, s)),
            // what another construction path accepts must itself satisfy the property (verbatim string form, W3C
            // syntax, no path / query / fragment) and be the value `parse` yields when both accept; whether a path
            // accepts at all is not constrained by the property
            Ok(Some(v)) => {
              if let Some(f) = did_oracle(&s, &v) {
                return Some(format!("{} (value accepted by {})", f, name));
              }
              if let Some(p) = parsed {
                if *p != v || p.to_string() != v.to_string() {
                  return Some(format!("construction-paths-differ:{} gives {:?} for {:?}, parse gives {:?}", name, v.to_string(), s, p.to_string()));
                }
              }
            }
            Ok(None) => {}
          }
        }
        None
      };
      match std::panic::catch_unwind(move || CoreDID::parse(&s2)) {
        Err(_) => "panic\t#FAIL:panic:CoreDID::parse panicked".into(),
        Ok(Err(_)) => with("err".into(), paths(None)),
        Ok(Ok(d)) => {
          let o = std::panic::catch_unwind(|| (d.method().to_string(), d.method_id().to_string()));
          match o {
            Err(_) => "ok:panic\t#FAIL:panic:accessor panicked on an accepted CoreDID".into(),
            Ok((m, i)) => with(format!("ok:{}:{}", hex(m.as_bytes()), hex(i.as_bytes())), did_oracle(&s, &d).or_else(|| paths(Some(&d)))),
          }
        }
      }
    }
    ["url", h] => {
      let Some(s) = arg(h) else { return "bad-request".into() };
      let s2 = s.clone();
      let upaths = |parsed: Option<&DIDUrl>| -> Option<String> {
        let js = serde_json::to_string(&s).unwrap_or_default();
        let (sa, sc) = (s.clone(), s.clone());
        let rs: [(&str, std::thread::Result<Option<DIDUrl>>); 3] = [
          ("FromStr", std::panic::catch_unwind(move || sa.parse::<DIDUrl>().ok())),
          ("TryFrom<String>", std::panic::catch_unwind(move || DIDUrl::try_from(sc).ok())),
          ("Deserialize", std::panic::catch_unwind(move || serde_json::from_str::<DIDUrl>(&js).ok())),
        ];
        for (name, r) in rs {
          match r {
            Err(_) => return Some(format!("construction-paths-differ:{} panics on {:?}", name, s)),
            // what another construction path accepts must itself satisfy the property (verbatim string form, W3C
            // syntax, no path / query / fragment) and be the value `parse` yields when both accept; whether a path
            // accepts at all is not constrained by the property
            Ok(Some(v)) => {
              if let Some(f) = url_oracle(&v, name) {
                return Some(format!("{} (value accepted by {})", f, name));
              }
              if let Some(p) = parsed {
                if *p != v || p.to_string() != v.to_string() {
                  return Some(format!("construction-paths-differ:{} gives {:?} for {:?}, parse gives {:?}", name, v.to_string(), s, p.to_string()));
                }
              }
            }
            Ok(None) => {}
          }
        }
        None
      };
      match std::panic::catch_unwind(move || DIDUrl::parse(&s2)) {
        Err(_) => "panic\t#FAIL:panic:DIDUrl::parse panicked".into(),
        Ok(Err(_)) => with("err".into(), upaths(None)),
        Ok(Ok(u)) => {
          let f = url_oracle(&u, "parse").or_else(|| {
            if u.to_string() != s {
              // explainable by dropped empty query / fragment components?
              let mut n = s.clone();
              if n.ends_with('#') {
                n.pop();
              }
              if let Some(i) = n.find('#') {
                if n[..i].ends_with('?') && !n[..i - 1].contains('?') {
                  n.remove(i - 1);
                }
              } else if n.ends_with('?') && !n[..n.len() - 1].contains('?') {
                n.pop();
              }
              let key = if n == u.to_string() {
                "url-not-verbatim-empty-query-or-fragment"
              } else if s.contains("??") {
                "url-not-verbatim-doubled-question-mark"
              } else {
                "url-not-verbatim"
              };
              Some(format!("{}:{:?} has string form {:?}", key, s, u.to_string()))
            } else {
              None
            }
          });
          let f = f.or_else(|| upaths(Some(&u)));
          with(show_url(&u), f)
        }
      }
    }
    ["join", b, g] => {
      let (Some(b), Some(g)) = (arg(b), arg(g)) else { return "bad-request".into() };
      let Ok(u) = DIDUrl::parse(&b) else { return "bad-request".into() };
      let u0 = u.clone();
      match std::panic::catch_unwind(move || u.join(&g)) {
        Err(_) => "panic\t#FAIL:panic:DIDUrl::join panicked".into(),
        Ok(Err(_)) => "err".into(),
        Ok(Ok(v)) => {
          let f = url_oracle(&v, "join").or(if v.did() != u0.did() { Some("join-changed-did:".into()) } else { None });
          // `DID::join` on a bare DID is `DIDUrl::join` on its URL
          let f = f.or_else(|| {
            if u0.url().is_empty() {
              let g2 = arg(args[2]).unwrap_or_default();
              match u0.did().clone().join(&g2) {
                Ok(w) if w == v && w.to_string() == v.to_string() => None,
                _ => Some("join-changed-did:DID::join differs from DIDUrl::join".into()),
              }
            } else {
              None
            }
          });
          with(show_url(&v), f)
        }
      }
    }
    ["set", b, k, v] => {
      let Some(b) = arg(b) else { return "bad-request".into() };
      let v: Option<String> = if *v == "~" { None } else { match arg(v) { Some(x) => Some(x), None => return "bad-request".into() } };
      let Ok(mut u) = DIDUrl::parse(&b) else { return "bad-request".into() };
      let before = u.clone();
      let r = match *k {
        "p" => u.set_path(v.as_deref()),
        "q" => u.set_query(v.as_deref()),
        "f" => u.set_fragment(v.as_deref()),
        _ => return "bad-request".into(),
      };
      match r {
        Err(_) => with("err".into(), if u != before || u.to_string() != before.to_string() { Some("setter-error-changed-value:".into()) } else { None }),
        Ok(()) => with(show_url(&u), url_oracle(&u, "set")),
      }
    }
    ["setdid", b, k, v] => {
      let (Some(b), Some(v)) = (arg(b), arg(v)) else { return "bad-request".into() };
      let Ok(mut d) = CoreDID::parse(&b) else { return "bad-request".into() };
      let before = d.clone();
      let r = match *k {
        "n" => d.set_method_name(&v),
        "i" => d.set_method_id(&v),
        _ => return "bad-request".into(),
      };
      match r {
        Err(_) => with("err".into(), if d != before { Some("setter-error-changed-value:".into()) } else { None }),
        Ok(()) => {
          let s = d.as_str().to_string();
          let s2 = s.clone();
          let f = match std::panic::catch_unwind(move || CoreDID::parse(&s2)) {
            Err(_) => Some("panic:re-parse after setter panicked".to_string()),
            Ok(Ok(d2)) if d2 == d => did_oracle(&s, &d),
            Ok(Ok(_)) => Some("did-reparse:after setter".into()),
            Ok(Err(_)) => Some(format!(
              "{}:{:?} does not re-parse",
              if pct_before_delim_or_end(&s) { "did-setter-reparse-rejected-pct-triple" } else { "did-setter-reparse-rejected" },
              s
            )),
          };
          with(format!("ok:{}", hex(s.as_bytes())), f)
        }
      }
    }
    ["cmp", a, b] => {
      let (Some(a), Some(b)) = (arg(a), arg(b)) else { return "bad-request".into() };
      let (Ok(x), Ok(y)) = (DIDUrl::parse(&a), DIDUrl::parse(&b)) else { return "bad-request".into() };
      let o = match x.cmp(&y) {
        std::cmp::Ordering::Less => "lt",
        std::cmp::Ordering::Equal => "eq",
        std::cmp::Ordering::Greater => "gt",
      };
      let e = x == y;
      let f = if e != (o == "eq") {
        Some("eq-ord-hash-disagree:Eq and Ord disagree".to_string())
      } else if e && hash_of(&x) != hash_of(&y) {
        Some("eq-ord-hash-disagree:equal values hash differently".to_string())
      } else if y.cmp(&x) != x.cmp(&y).reverse() {
        Some("eq-ord-hash-disagree:Ord not antisymmetric".to_string())
      } else if x.partial_cmp(&y) != Some(x.cmp(&y)) || (x < y) != (o == "lt") || (x > y) != (o == "gt") || (x <= y) != (o != "gt") {
        Some(format!("eq-ord-hash-disagree:PartialOrd ({:?}) and Ord ({:?}) disagree", x.partial_cmp(&y), x.cmp(&y)))
      } else if (x.did() == y.did()) != (x.did().cmp(y.did()) == std::cmp::Ordering::Equal) || x.did().partial_cmp(y.did()) != Some(x.did().cmp(y.did())) {
        Some("eq-ord-hash-disagree:Eq / PartialOrd / Ord of the DID parts disagree".to_string())
      } else {
        None
      };
      with(format!("{}:{}", o, if e { "E" } else { "N" }), f)
    }
    // DIDJwk (did_jwk.rs): whether the JWK inside is acceptable is the third-party JSON layer's business (reply `u:…`, not
    // compared); what is accepted must be reproduced verbatim, be a plain DID of method jwk, and carry the decoded key
    ["jwk", h] => {
      let Some(s) = arg(h) else { return "bad-request".into() };
      let s2 = s.clone();
      match std::panic::catch_unwind(move || identity_did::DIDJwk::parse(&s2)) {
        Err(_) => "panic\t#FAIL:panic:DIDJwk::parse panicked".into(),
        Ok(Err(_)) => "u:err".into(),
        Ok(Ok(d)) => {
          let f = if d.to_string() != s {
            Some(format!("did-not-verbatim:DIDJwk accepted {:?} and prints {:?}", s, d.to_string()))
          } else if d.method() != "jwk" {
            Some(format!("did-jwk-method:{}", d.method()))
          } else if CoreDID::parse(&s).map(|c| c.to_string() != s).unwrap_or(true) {
            Some(format!("did-jwk-not-a-plain-did:{:?} is accepted as a did:jwk but is not a plain DID", s))
          } else {
            let core: &CoreDID = d.as_ref();
            did_oracle(&s, core)
          };
          with("u:ok".into(), f)
        }
      }
    }
    _ => "bad-request".into(),
  }
}

const ALPHA: &[&str] = &[
  "%", ":", "/", "?", "#", ".", "-", "_", "~", "+", "0", "9", "a", "f", "z", "A", "F", " ", "\t", "\n", "\x7f", "é", "😀", "\0", "[", "^", "`", "{",
  "\"", "@", "=", "&",
];

fn all_strings(len: usize, f: &mut impl FnMut(&str)) {
  let n = ALPHA.len();
  let total = n.pow(len as u32);
  for mut k in 0..total {
    let mut s = String::new();
    for _ in 0..len {
      s.push_str(ALPHA[k % n]);
      k /= n;
    }
    f(&s);
  }
}

pub fn gen(thorough: bool, seed: u64, out: &mut impl Write) {
  // (2) exhaustive short strings over the adversarial alphabet after fixed prefixes
  let maxlen = if thorough { 4 } else { 3 };
  for len in 0..=maxlen {
    all_strings(len, &mut |t| {
      let s = format!("did:m:{}", t);
      writeln!(out, "C10 did {}", hex(s.as_bytes())).unwrap();
      writeln!(out, "C10 url {}", hex(s.as_bytes())).unwrap();
    });
  }
  for len in 0..=(maxlen - 1) {
    all_strings(len, &mut |t| {
      for pre in ["did:m:a/", "did:m:a?", "did:m:a#", "did:m:%41", "did:", "did:m", ""] {
        let s = format!("{}{}", pre, t);
        writeln!(out, "C10 url {}", hex(s.as_bytes())).unwrap();
        if pre.len() < 8 || pre.contains('%') {
          writeln!(out, "C10 did {}", hex(s.as_bytes())).unwrap();
        }
      }
      // surrounding whitespace/control
      let s = format!("{}did:m:a", t);
      writeln!(out, "C10 did {}", hex(s.as_bytes())).unwrap();
    });
  }
  // padding: control characters and white space of every kind, 1..4 of them, in front of / behind DIDs and DID URLs
  // with and without path, query and fragment (the third-party parser trims them but keeps the untrimmed string)
  {
    let pads = ["\0", "\u{1}", "\u{8}", "\u{e}", "\u{1f}", "\u{7f}", " ", "\t", "\n", "\u{b}", "\u{c}", "\r", "\u{85}", "\u{a0}"];
    let bodies = ["did:m:a", "did:m:a?x", "did:m:a#f", "did:m:a/p", "did:m:a/p?q#f", "did:m:ab?x=1#f", "did:example:123?x"];
    let mut padstrs: Vec<String> = vec![];
    for a in pads {
      padstrs.push(a.to_string());
      for b in pads {
        padstrs.push(format!("{}{}", a, b));
      }
      padstrs.push(a.repeat(3));
      padstrs.push(a.repeat(4));
      padstrs.push(format!("{}\0{}", a, a));
    }
    for b in bodies {
      for p in &padstrs {
        for s in [format!("{}{}", p, b), format!("{}{}", b, p), format!("{}{}{}", p, b, p)] {
          writeln!(out, "C10 url {}", hex(s.as_bytes())).unwrap();
          writeln!(out, "C10 did {}", hex(s.as_bytes())).unwrap();
        }
      }
    }
  }
  // join / setters: base values x segments
  let bases = [
    "did:m:a", "did:m:a/p", "did:m:a/p/q", "did:m:a/p/", "did:m:a?x=1", "did:m:a#f", "did:m:a/p?x#f", "did:m:a/%41", "did:m:%41a",
    "did:m:a/p/../q", "did:m:a:b:c", "did:m:a/p?x?y",
  ];
  let mut segs: Vec<String> = vec![];
  for len in 0..=2 {
    all_strings(len, &mut |t| {
      for lead in ["/", "?", "#", ""] {
        segs.push(format!("{}{}", lead, t));
      }
    });
  }
  for s in ["/..", "/../", "/./x", "/a/../../b", "/a/./b/..", "/x?y#z", "?y#z", "#z", "/%41", "/%4", "/%41?q", "?%41#f", "#%41", "/a b", "x", "/é", "//", "/..x", "/.x/.."] {
    segs.push(s.to_string());
  }
  let step = if thorough { 1 } else { 7 };
  for (bi, b) in bases.iter().enumerate() {
    for (si, s) in segs.iter().enumerate() {
      if si < 200 || (si + bi) % step == 0 {
        writeln!(out, "C10 join {} {}", hex(b.as_bytes()), hex(s.as_bytes())).unwrap();
        for k in ["p", "q", "f"] {
          writeln!(out, "C10 set {} {} {}", hex(b.as_bytes()), k, hex(s.as_bytes())).unwrap();
        }
      }
    }
    for k in ["p", "q", "f"] {
      writeln!(out, "C10 set {} {} ~", hex(b.as_bytes()), k).unwrap();
    }
  }
  for b in ["did:m:a", "did:iota:main:0x12", "did:m:%41a"] {
    for len in 0..=2 {
      all_strings(len, &mut |t| {
        writeln!(out, "C10 setdid {} n {}", hex(b.as_bytes()), hex(t.as_bytes())).unwrap();
        writeln!(out, "C10 setdid {} i {}", hex(b.as_bytes()), hex(t.as_bytes())).unwrap();
      });
    }
    for v in ["abc", "x%41", "%41", "%4", "%", "a%41b", "A", "a:b", "%+1", "%é"] {
      writeln!(out, "C10 setdid {} n {}", hex(b.as_bytes()), hex(v.as_bytes())).unwrap();
      writeln!(out, "C10 setdid {} i {}", hex(b.as_bytes()), hex(v.as_bytes())).unwrap();
    }
  }
  // (3) grammar-based random DID URLs with typed corruptions
  let mut r = Rng::new(seed ^ 0xC10);
  let idch = "abcxyzABCXYZ0189.-_:";
  let pch = "abcXYZ019.-_:~!$&'()*+,;=@/";
  let pick_str = |r: &mut Rng, set: &str, n: u64, pct: bool| -> String {
    let cs: Vec<char> = set.chars().collect();
    let mut s = String::new();
    for _ in 0..n {
      if pct && r.chance(1, 8) {
        s.push_str(&format!("%{:02X}", r.below(256)));
      } else {
        s.push(cs[r.below(cs.len() as u64) as usize]);
      }
    }
    s
  };
  let mut valid: Vec<String> = vec![];
  let n = if thorough { 60_000 } else { 6_000 };
  for _ in 0..n {
    let (n1, n2, n3, n4, n5) = (1 + r.below(6), 1 + r.below(12), r.below(8), r.below(8), r.below(8));
    let mut s = format!("did:{}:{}", pick_str(&mut r, "abcz019", n1, false), pick_str(&mut r, idch, n2, true));
    if r.chance(1, 2) {
      s.push('/');
      s.push_str(&pick_str(&mut r, pch, n3, true));
    }
    if r.chance(1, 2) {
      s.push('?');
      s.push_str(&pick_str(&mut r, &format!("{}?", pch), n4, true));
    }
    if r.chance(1, 2) {
      s.push('#');
      s.push_str(&pick_str(&mut r, &format!("{}?", pch), n5, true));
    }
    // typed corruption
    if r.chance(1, 4) {
      let mut b: Vec<char> = s.chars().collect();
      let i = r.below(b.len() as u64) as usize;
      match r.below(4) {
        0 => b[i] = *r.pick(&['%', ' ', '{', 'é', '#', '?', '/', ':', '\n']),
        1 => {
          b.remove(i);
        }
        2 => b.insert(i, *r.pick(&['%', ' ', '#', '?', '/', 'G'])),
        _ => b.truncate(i),
      }
      s = b.into_iter().collect();
    }
    writeln!(out, "C10 url {}", hex(s.as_bytes())).unwrap();
    writeln!(out, "C10 did {}", hex(s.as_bytes())).unwrap();
    if valid.len() < 400 {
      valid.push(s);
    }
  }
  // every ASCII character (and two non-ASCII) in every component position, through parse and setters
  let mut chars: Vec<String> = (0u8..128).map(|b| (b as char).to_string()).collect();
  chars.push("é".into());
  chars.push("\u{212A}".into());
  for c in &chars {
    for tpl in ["did:m:a{}", "did:m:{}a", "did:m{}:a", "did:{}:a", "did:m:a/{}", "did:m:a/x{}y", "did:m:a?{}", "did:m:a?x{}y", "did:m:a#{}", "did:m:a#x{}y", "did:m:%41{}", "did:m:a/%41{}", "did:m:a?%41{}", "did:m:a#%41{}", "did:m:a%4{}", "did:m:a%{}1"] {
      let s = tpl.replace("{}", c);
      writeln!(out, "C10 url {}", hex(s.as_bytes())).unwrap();
      writeln!(out, "C10 did {}", hex(s.as_bytes())).unwrap();
    }
    for (k, v) in [("p", format!("/a{}b", c)), ("q", format!("a{}b", c)), ("f", format!("a{}b", c)), ("p", format!("/%41{}", c)), ("q", format!("%4{}", c))] {
      writeln!(out, "C10 set {} {} {}", hex(b"did:m:a/p?q#f"), k, hex(v.as_bytes())).unwrap();
    }
    writeln!(out, "C10 join {} {}", hex(b"did:m:a"), hex(format!("/a{}b?c{}d#e{}f", c, c, c).as_bytes())).unwrap();
    writeln!(out, "C10 setdid {} n {}", hex(b"did:m:a"), hex(format!("a{}b", c).as_bytes())).unwrap();
    writeln!(out, "C10 setdid {} i {}", hex(b"did:m:a"), hex(format!("a{}b", c).as_bytes())).unwrap();
    writeln!(out, "C10 setdid {} i {}", hex(b"did:m:a"), hex(format!("a{}b/x?y#z", c).as_bytes())).unwrap();
  }
  // Eq / Ord / Hash on near pairs: values that differ in exactly one component, by percent-encoding,
  // by hex-digit case, by form-urlencoded spelling, or by where a string sits (path vs query vs fragment)
  let near_base = ["did:m:a", "did:m:a/files", "did:m:a?service=files", "did:m:a#files", "did:m:a/p?k=v&x=y#f", "did:m:a?k", "did:m:a/a+b?a+b#a+b"];
  let mut near: Vec<String> = vec![];
  for b in near_base {
    near.push(b.to_string());
    near.push(b.replace("files", "%66iles"));
    near.push(b.replace("files", "%46iles"));
    near.push(b.replace("files", "Files"));
    near.push(b.replace('+', "%20"));
    near.push(b.replace('+', "%2B"));
    near.push(b.replace("?k", "?k="));
    near.push(format!("{}&", b));
    near.push(b.replace("k=v&x=y", "x=y&k=v"));
    near.push(b.replace("did:m:a", "did:m:A"));
    near.push(b.replace("did:m:a", "did:m:%61"));
    near.push(b.replace('?', "#"));
    near.push(b.replace('/', "?"));
  }
  near.sort();
  near.dedup();
  for a in &near {
    for b in &near {
      writeln!(out, "C10 cmp {} {}", hex(a.as_bytes()), hex(b.as_bytes())).unwrap();
    }
  }
  // Eq / Ord / Hash on pairs
  for i in 0..valid.len() {
    let j = r.below(valid.len() as u64) as usize;
    writeln!(out, "C10 cmp {} {}", hex(valid[i].as_bytes()), hex(valid[j].as_bytes())).unwrap();
    writeln!(out, "C10 cmp {} {}", hex(valid[i].as_bytes()), hex(valid[i].as_bytes())).unwrap();
  }
  for (a, b) in [("did:m:a/x", "did:m:a?x"), ("did:m:a#x", "did:m:a?x"), ("did:m:a", "did:m:a/"), ("did:m:a?", "did:m:a"), ("did:m:a/p?q", "did:m:a/p#q")] {
    writeln!(out, "C10 cmp {} {}", hex(a.as_bytes()), hex(b.as_bytes())).unwrap();
  }
  // one DID a proper prefix of the other, the shorter one carrying a path / query / fragment, the longer one continuing
  // with every character that sorts around the delimiters
  for tail in ["/path", "?x=1", "#f", "/p?q#f"] {
    for c in ["-", ".", "%41", "_", "0", "9", ":", "a", "A", "z", "~"] {
      let (a, b) = (format!("did:example:abc{}", tail), format!("did:example:abc{}def", c));
      writeln!(out, "C10 cmp {} {}", hex(a.as_bytes()), hex(b.as_bytes())).unwrap();
      writeln!(out, "C10 cmp {} {}", hex(b.as_bytes()), hex(a.as_bytes())).unwrap();
      let (a2, b2) = (format!("did:example:abc{}", tail), format!("did:example:abc{}def{}", c, tail));
      writeln!(out, "C10 cmp {} {}", hex(a2.as_bytes()), hex(b2.as_bytes())).unwrap();
    }
  }
  // did:jwk: valid keys with and without trailing parts, other methods, malformed payloads
  let jwk_ok = "eyJrdHkiOiJPS1AiLCJjcnYiOiJYMjU1MTkiLCJ1c2UiOiJlbmMiLCJ4IjoiM3A3YmZYdDl3YlRUVzJIQzdPUTFOei1EUThoYmVHZE5yZngtRkctSUswOCJ9";
  for pre in ["did:jwk:", "did:JWK:", "did:jwk2:", "did:key:", "DID:jwk:", "did:jwk::", " did:jwk:"] {
    for tail in ["", "#0", "#", "/path", "?versionId=1", "?", "/", ":x", " ", "\n", "%41", "=", "=="] {
      writeln!(out, "C10 jwk {}", hex(format!("{}{}{}", pre, jwk_ok, tail).as_bytes())).unwrap();
    }
  }
  for body in ["", "e30", "bm90IGpzb24", "eyJrdHkiOiJvY3QiLCJrIjoiQUEifQ", "!!!", "é"] {
    writeln!(out, "C10 jwk {}", hex(format!("did:jwk:{}", body).as_bytes())).unwrap();
  }
}
