#!/bin/sh
# Build the framework from files on disk only (offline): Lean model/theorems/driver and the Rust harness.
set -e
cd "$(dirname "$0")/.."
export CARGO_NET_OFFLINE=true
mkdir -p .work evidence replays
# the regenerated model fragments come from /repo's working tree, never from what happens to be committed
python3 tools/translate.py all > .work/translate.log 2>&1 || true
(cd lean && lake build IdModel idmodel)
(cd harness && cargo build --offline --quiet)
(cd harness-sh && CARGO_TARGET_DIR="$PWD/target" cargo build --offline --quiet)
echo setup-ok
