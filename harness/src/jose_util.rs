//! Shared helpers for the JOSE properties (C01, C08, C11): header specs <-> JwsHeader / JSON.
use identity_core::common::Url;
use identity_jose::jwk::{Jwk, JwkParamsOkp};
use identity_jose::jws::{JwsAlgorithm, JwsHeader};
use std::collections::BTreeMap;
use std::str::FromStr;

#[derive(Clone, Debug, Default)]
pub struct HSpec {
  pub alg: Option<String>,
  pub b64: Option<bool>,
  pub crit: Option<Vec<String>>,
  pub fields: Vec<String>,
  pub custom: Vec<String>,
}

pub fn csv(s: &str) -> Vec<String> {
  if s == "-" {
    vec![]
  } else {
    s.split(',').map(|x| x.to_string()).collect()
  }
}

/// `H:<alg>:<b64>:<crit>:<fields>:<custom>` or `_`
pub fn parse_hspec(t: &str) -> Option<Option<HSpec>> {
  if t == "_" {
    return Some(None);
  }
  let p: Vec<&str> = t.split(':').collect();
  if p.len() != 6 || p[0] != "H" {
    return None;
  }
  let b64 = match p[2] {
    "-" => None,
    "t" => Some(true),
    "f" => Some(false),
    _ => return None,
  };
  Some(Some(HSpec {
    alg: if p[1] == "-" { None } else { Some(p[1].to_string()) },
    b64,
    crit: match p[3] {
      "-" => None,
      "=" => Some(vec![]),
      c => Some(c.split(',').map(|x| x.to_string()).collect()),
    },
    fields: csv(p[4]),
    custom: csv(p[5]),
  }))
}

pub fn sample_jwk() -> Jwk {
  let mut params = JwkParamsOkp::new();
  params.crv = "Ed25519".to_string();
  params.x = "11qYAYKxCrfVS_7TyWQHOg7hcvPapiMlrwIaaPcHURo".to_string();
  Jwk::from_params(params)
}

/// Build the header through the library's public setters.
pub fn build_header(h: &HSpec) -> Option<JwsHeader> {
  let mut hd = JwsHeader::new();
  if let Some(a) = &h.alg {
    hd.set_alg(JwsAlgorithm::from_str(a).ok()?);
  }
  if let Some(b) = h.b64 {
    hd.set_b64(b);
  }
  if let Some(c) = &h.crit {
    hd.set_crit(c.clone());
  }
  for f in &h.fields {
    match f.as_str() {
      "jku" => hd.set_jku(Url::parse("https://example.com/jku").unwrap()),
      "jwk" => hd.set_jwk(sample_jwk()),
      "kid" => hd.set_kid("kid-1"),
      "x5u" => hd.set_x5u(Url::parse("https://example.com/x5u").unwrap()),
      "x5c" => hd.set_x5c(vec!["AAAA"]),
      "x5t" => hd.set_x5t("dGh1bWI"),
      "x5t_s256" => hd.set_x5t_s256("dGh1bWIy"),
      "typ" => hd.set_typ("JWT"),
      "cty" => hd.set_cty("json"),
      "url" => hd.set_url(Url::parse("https://example.com/url").unwrap()),
      "nonce" => hd.set_nonce("nonce-1"),
      _ => return None,
    }
  }
  if !h.custom.is_empty() {
    let m: BTreeMap<String, serde_json::Value> = h.custom.iter().map(|k| (k.clone(), serde_json::json!(1))).collect();
    hd.set_custom(m);
  }
  Some(hd)
}

pub fn json_name(field: &str) -> &str {
  if field == "x5t_s256" {
    "x5t#S256"
  } else {
    field
  }
}

/// Hand-assembled JSON object for a header spec (for tokens offered to the decoder).
pub fn header_json(h: &HSpec) -> serde_json::Value {
  let mut m = serde_json::Map::new();
  if let Some(a) = &h.alg {
    m.insert("alg".into(), serde_json::json!(a));
  }
  if let Some(b) = h.b64 {
    m.insert("b64".into(), serde_json::json!(b));
  }
  if let Some(c) = &h.crit {
    m.insert("crit".into(), serde_json::json!(c));
  }
  for f in &h.fields {
    let v = match f.as_str() {
      "jku" => serde_json::json!("https://example.com/jku"),
      "jwk" => serde_json::to_value(sample_jwk()).unwrap(),
      "kid" => serde_json::json!("kid-1"),
      "x5u" => serde_json::json!("https://example.com/x5u"),
      "x5c" => serde_json::json!(["AAAA"]),
      "x5t" => serde_json::json!("dGh1bWI"),
      "x5t_s256" => serde_json::json!("dGh1bWIy"),
      "typ" => serde_json::json!("JWT"),
      "cty" => serde_json::json!("json"),
      "url" => serde_json::json!("https://example.com/url"),
      "nonce" => serde_json::json!("nonce-1"),
      _ => serde_json::json!(null),
    };
    m.insert(json_name(f).to_string(), v);
  }
  for k in &h.custom {
    m.entry(k.clone()).or_insert(serde_json::json!(1));
  }
  serde_json::Value::Object(m)
}

/// the set of parameter names the header's JSON object has
pub fn names(h: &HSpec) -> Vec<String> {
  let mut v = vec![];
  if h.alg.is_some() {
    v.push("alg".to_string());
  }
  if h.b64.is_some() {
    v.push("b64".to_string());
  }
  if h.crit.is_some() {
    v.push("crit".to_string());
  }
  for f in &h.fields {
    v.push(json_name(f).to_string());
  }
  for c in &h.custom {
    v.push(c.clone());
  }
  v
}

pub const REGISTERED: &[&str] = &[
  "alg", "jku", "jwk", "kid", "x5u", "x5c", "x5t", "x5t#S256", "typ", "cty", "crit", "enc", "zip", "epk", "apu", "apv", "iv",
  "tag", "p2s", "p2c",
];

/// The C11 policy stated on parameter names (independent of the library's implementation).
/// Returns None when the spec is outside the well-formedness domain (custom shadows alg/b64 or a
/// member of the same header).
pub fn policy_ok(p: &Option<HSpec>, u: &Option<HSpec>) -> Option<bool> {
  for h in [p, u].into_iter().flatten() {
    let n = names(h);
    let mut s = n.clone();
    s.sort();
    s.dedup();
    if s.len() != n.len() || h.custom.iter().any(|c| c == "alg" || c == "b64") {
      return None;
    }
  }
  let has = |h: &Option<HSpec>, n: &str| h.as_ref().map(|h| names(h).iter().any(|x| x == n)).unwrap_or(false);
  if has(u, "crit") || has(u, "b64") {
    return Some(false);
  }
  if let Some(ph) = p {
    if let Some(c) = &ph.crit {
      if c.is_empty() {
        return Some(false);
      }
      for v in c {
        if REGISTERED.contains(&v.as_str()) || v != "b64" || !(has(p, v) || has(u, v)) {
          return Some(false);
        }
      }
    }
    if ph.b64.is_some() && !ph.crit.as_ref().map(|c| c.iter().any(|v| v == "b64")).unwrap_or(false) {
      return Some(false);
    }
  }
  if let (Some(ph), Some(uh)) = (p, u) {
    let un = names(uh);
    if names(ph).iter().any(|n| un.contains(n)) {
      return Some(false);
    }
  }
  Some(true)
}

pub fn eff_b64(p: &Option<HSpec>) -> bool {
  p.as_ref().and_then(|h| h.b64).unwrap_or(true)
}

pub fn b64url(b: &[u8]) -> String {
  identity_jose::jwu::encode_b64(b)
}
