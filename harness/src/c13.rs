//! C13 — Timestamp against the Lean model `IdModel.Time`.
use crate::rng::{hex, unhex, Rng};
use identity_core::common::{Duration, Timestamp};
use identity_core::convert::{FromJson, ToJson};
use std::io::Write;

const MIN: i64 = -62167219200;
const MAX: i64 = 253402300799;

fn fmt_obs(t: &Timestamp) -> (String, Option<String>) {
  let t2 = *t;
  match std::panic::catch_unwind(move || t2.to_rfc3339()) {
    Ok(s) => (hex(s.as_bytes()), None),
    Err(_) => ("panic".into(), Some("format-panics:to_rfc3339 panicked on an accepted timestamp".into())),
  }
}

/// implementation-side oracle for an accepted timestamp
fn oracle(t: &Timestamp) -> Option<String> {
  let u = t.to_unix();
  if u < MIN || u > MAX {
    return Some(format!("out-of-range-accepted:unix {}", u));
  }
  let (f, e) = fmt_obs(t);
  if e.is_some() {
    return e;
  }
  let s = String::from_utf8(unhex(&f).unwrap()).unwrap();
  let b = s.as_bytes();
  let shape = b.len() == 20
    && b[4] == b'-'
    && b[7] == b'-'
    && b[10] == b'T'
    && b[13] == b':'
    && b[16] == b':'
    && b[19] == b'Z'
    && b.iter().enumerate().all(|(i, c)| [4, 7, 10, 13, 16, 19].contains(&i) || c.is_ascii_digit());
  if !shape {
    return Some(format!("format-shape:{}", s));
  }
  match Timestamp::parse(&s) {
    Ok(t2) if t2 == *t => {}
    _ => return Some(format!("format-parse-roundtrip:{}", s)),
  }
  match Timestamp::from_unix(u) {
    Ok(t2) if t2 == *t && t2.to_unix() == u => {}
    _ => return Some(format!("unix-roundtrip:{}", u)),
  }
  let j = match std::panic::catch_unwind(|| t.to_json()) {
    Ok(Ok(j)) => j,
    _ => return Some("json-roundtrip:to_json failed".into()),
  };
  match Timestamp::from_json(&j) {
    Ok(t2) if t2 == *t => None,
    _ => Some(format!("json-roundtrip:{}", j)),
  }
}

fn dur(k: &str, n: u32) -> Option<Duration> {
  Some(match k {
    "s" => Duration::seconds(n),
    "m" => Duration::minutes(n),
    "h" => Duration::hours(n),
    "d" => Duration::days(n),
    "w" => Duration::weeks(n),
    _ => return None,
  })
}

fn mult(k: &str) -> i128 {
  match k {
    "s" => 1,
    "m" => 60,
    "h" => 3600,
    "d" => 86400,
    _ => 604800,
  }
}

pub fn run(args: &[&str]) -> String {
  let with = |obs: String, f: Option<String>| match f {
    Some(f) => format!("{}\t#FAIL:{}", obs, f),
    None => obs,
  };
  match args {
    ["parse", h] => {
      let Some(b) = unhex(h) else { return "bad-request".into() };
      let Ok(s) = String::from_utf8(b) else { return "bad-request".into() };
      let s2 = s.clone();
      // the same string through serde (a JSON string) and through FromStr must be treated exactly as by `parse`
      let js = serde_json::to_string(&s).unwrap_or_default();
      let via_serde = std::panic::catch_unwind(move || serde_json::from_str::<Timestamp>(&js).ok());
      let s3 = s.clone();
      let via_fromstr = std::panic::catch_unwind(move || s3.parse::<Timestamp>().ok());
      let other_paths = |parsed: Option<&Timestamp>| -> Option<String> {
        for (name, r) in [("serde", &via_serde), ("FromStr", &via_fromstr)] {
          match r {
            Err(_) => return Some(format!("parse-paths-differ:{} panics on {:?}", name, s)),
            // what another parsing entry point accepts must itself satisfy the property, and be the same instant as
            // `parse` yields when both accept
            Ok(Some(a)) => {
              if let Some(f) = oracle(a) {
                return Some(format!("{} (value accepted by {})", f, name));
              }
              if let Some(b) = parsed {
                if !(a == b && a.to_unix() == b.to_unix() && a.to_rfc3339() == b.to_rfc3339() && a.cmp(b) == std::cmp::Ordering::Equal) {
                  return Some(format!("parse-paths-differ:{} gives {:?} for {:?}, parse gives {:?}", name, a.to_rfc3339(), s, b.to_rfc3339()));
                }
              }
            }
            Ok(None) => {}
          }
        }
        None
      };
      match std::panic::catch_unwind(move || Timestamp::parse(&s2)) {
        Err(_) => "panic\t#FAIL:parse-panics:Timestamp::parse panicked".into(),
        Ok(Err(_)) => with("err".into(), other_paths(None)),
        Ok(Ok(t)) => {
          let (f, _) = fmt_obs(&t);
          with(format!("ok:{}:{}", t.to_unix(), f), oracle(&t).or_else(|| other_paths(Some(&t))))
        }
      }
    }
    ["unix", n] => {
      let Ok(u) = n.parse::<i64>() else { return "bad-request".into() };
      match std::panic::catch_unwind(move || Timestamp::from_unix(u)) {
        Err(_) => "panic\t#FAIL:from-unix-panics:".into(),
        Ok(Err(_)) => with("err".into(), if (MIN..=MAX).contains(&u) { Some(format!("in-range-rejected:from_unix({})", u)) } else { None }),
        Ok(Ok(t)) => {
          let (f, _) = fmt_obs(&t);
          with(format!("ok:{}:{}", t.to_unix(), f), oracle(&t))
        }
      }
    }
    [op, t, k, n] if *op == "add" || *op == "sub" => {
      let (Ok(u), Ok(n)) = (t.parse::<i64>(), n.parse::<u32>()) else { return "bad-request".into() };
      let Ok(ts) = Timestamp::from_unix(u) else { return "bad-request".into() };
      let Some(d) = dur(k, n) else { return "bad-request".into() };
      let add = *op == "add";
      let r = std::panic::catch_unwind(move || if add { ts.checked_add(d) } else { ts.checked_sub(d) });
      let want = if add { u as i128 + n as i128 * mult(k) } else { u as i128 - n as i128 * mult(k) };
      let want = if want >= MIN as i128 && want <= MAX as i128 { Some(want as i64) } else { None };
      match r {
        Err(_) => "panic\t#FAIL:arith-panics:".into(),
        Ok(None) => with("none".into(), want.map(|w| format!("arith-wrong:expected {} got None", w))),
        Ok(Some(t2)) => with(
          format!("some:{}", t2.to_unix()),
          if Some(t2.to_unix()) != want { Some(format!("arith-wrong:expected {:?} got {}", want, t2.to_unix())) } else { oracle(&t2) },
        ),
      }
    }
    [op, t, j] if *op == "addj" || *op == "subj" => {
      // a Duration that came in through serde (the type derives Deserialize: sub-second and negative spans are constructible
      // that way only): whatever the arithmetic returns must be a canonical whole-second timestamp in range
      let (Ok(u), Some(j)) = (t.parse::<i64>(), unhex(j).and_then(|b| String::from_utf8(b).ok())) else { return "bad-request".into() };
      let Ok(ts) = Timestamp::from_unix(u) else { return "bad-request".into() };
      let Ok(d) = serde_json::from_str::<Duration>(&j) else { return "u:refused".into() };
      let add = *op == "addj";
      match std::panic::catch_unwind(move || if add { ts.checked_add(d) } else { ts.checked_sub(d) }) {
        Err(_) => "panic\t#FAIL:arith-panics:".into(),
        Ok(None) => "u:none".into(),
        Ok(Some(t2)) => with(
          "u:some".into(),
          oracle(&t2).or_else(|| if Timestamp::from_unix(t2.to_unix()).ok() != Some(t2) { Some(format!("arith-wrong:{} {} {} is not the whole-second timestamp of its own unix seconds", u, op, j)) } else { None }),
        ),
      }
    }
    ["cmp", a, b] => {
      let (Ok(a), Ok(b)) = (a.parse::<i64>(), b.parse::<i64>()) else { return "bad-request".into() };
      let (Ok(ta), Ok(tb)) = (Timestamp::from_unix(a), Timestamp::from_unix(b)) else { return "bad-request".into() };
      let o = match ta.cmp(&tb) {
        std::cmp::Ordering::Less => "lt",
        std::cmp::Ordering::Equal => "eq",
        std::cmp::Ordering::Greater => "gt",
      };
      with(o.into(), if ta.cmp(&tb) != a.cmp(&b) || (ta == tb) != (a == b) { Some("order-not-unix-order:".into()) } else { None })
    }
    _ => "bad-request".into(),
  }
}

fn civil(days: i64) -> (i64, u32, u32) {
  // independent days -> civil (Hinnant), used only to generate strings
  let z = days + 719468;
  let era = if z >= 0 { z } else { z - 146096 } / 146097;
  let doe = z - era * 146097;
  let yoe = (doe - doe / 1460 + doe / 36524 - doe / 146096) / 365;
  let y = yoe + era * 400;
  let doy = doe - (365 * yoe + yoe / 4 - yoe / 100);
  let mp = (5 * doy + 2) / 153;
  let d = (doy - (153 * mp + 2) / 5 + 1) as u32;
  let m = if mp < 10 { mp + 3 } else { mp - 9 } as u32;
  (if m <= 2 { y + 1 } else { y }, m, d)
}

fn emit_dt(out: &mut impl Write, y: i64, mo: u32, d: u32, h: u32, mi: u32, s: u32, frac: &str, off: &str, sep: char) {
  let st = format!("{:04}-{:02}-{:02}{}{:02}:{:02}:{:02}{}{}", y, mo, d, sep, h, mi, s, frac, off);
  writeln!(out, "C13 parse {}", hex(st.as_bytes())).unwrap();
}

pub fn gen(thorough: bool, seed: u64, out: &mut impl Write) {
  let mut r = Rng::new(seed ^ 0xC13);
  let offs_h: Vec<i32> = (-23..=23).collect();
  let offs_m: Vec<i32> = if thorough { (0..60).collect() } else { vec![0, 1, 30, 59] };
  let deltas: [i64; 9] = [0, 1, 59, 60, 3599, 3600, 86399, 86400, 86401];
  // both range ends +- deltas, at every offset: the local date-time chosen so that the instant is MIN/MAX +- delta
  for &end in &[MIN, MAX] {
    for &dl in &deltas {
      for sgn in [-1i64, 1] {
        let inst = end + sgn * dl;
        for &oh in &offs_h {
          for &om in &offs_m {
            let off = (oh as i64) * 3600 + (if oh < 0 { -(om as i64) } else { om as i64 }) * 60;
            let local = inst + off;
            let days = local.div_euclid(86400);
            let tod = local.rem_euclid(86400);
            let (y, mo, d) = civil(days);
            if !(0..=9999).contains(&y) {
              continue;
            }
            let offs = format!("{}{:02}:{:02}", if off < 0 || (oh < 0) { '-' } else { '+' }, oh.abs(), om);
            emit_dt(out, y, mo, d, (tod / 3600) as u32, (tod / 60 % 60) as u32, (tod % 60) as u32, "", &offs, 'T');
          }
        }
      }
    }
  }
  // fraction lengths, separators, zulu forms
  for frac in ["", ".0", ".5", ".999999999", ".123456789012", ".", ".a", ".1a"] {
    for sep in ['T', 't', ' ', '_', '5'] {
      for off in ["Z", "z", "+00:00", "-00:00", "+23:59", "-23:59", "+24:00", "+00:60", "", "Z ", "+0000", "+1:00", "−01:00"] {
        emit_dt(out, 2021, 3, 4, 5, 6, 7, frac, off, sep);
      }
    }
  }
  // month/day limits incl. 29 Feb of century years, field range violations
  for y in [0i64, 1, 4, 100, 400, 1900, 2000, 2023, 2024, 2100, 9996, 9999] {
    for mo in [0u32, 1, 2, 3, 4, 6, 9, 11, 12, 13] {
      for d in [0u32, 1, 28, 29, 30, 31, 32] {
        emit_dt(out, y, mo, d, 12, 0, 0, "", "Z", 'T');
      }
    }
  }
  for (h, mi, s) in [(24, 0, 0), (23, 60, 0), (23, 59, 60), (23, 59, 61), (0, 0, 60), (12, 30, 60), (99, 99, 99)] {
    for off in ["Z", "+01:00", "-01:00", "+00:30", "-12:15"] {
      // leap-second candidates on month ends and mid-month
      for (y, mo, d) in [(2016, 12, 31), (2016, 12, 30), (2017, 1, 1), (2015, 6, 30), (2015, 6, 29), (2020, 2, 29), (2021, 2, 28), (0, 1, 1), (9999, 12, 31)] {
        emit_dt(out, y, mo, d, h, mi, s, "", off, 'T');
        emit_dt(out, y, mo, d, h, mi, s, ".5", off, 'T');
      }
    }
  }
  // leap-second stand-ins expressed at an offset (local time such that UTC is 23:59:60 of a month end)
  for (oh, om) in [(1, 0), (-1, 0), (5, 30), (-9, 45), (23, 59), (-23, 59)] {
    let off = (oh as i64) * 3600 + (if oh < 0 { -(om as i64) } else { om as i64 }) * 60;
    for (y, mo, d) in [(2016i64, 12u32, 31u32), (2017, 1, 31), (2016, 2, 29), (2016, 2, 28), (2016, 12, 30)] {
      // utc day number
      let dn = days_from_civil(y, mo, d);
      let local = dn * 86400 + 86399 + off;
      let (ly, lmo, ld) = civil(local.div_euclid(86400));
      let tod = local.rem_euclid(86400);
      let offs = format!("{}{:02}:{:02}", if off < 0 { '-' } else { '+' }, (oh as i32).abs(), om);
      emit_dt(out, ly, lmo, ld, (tod / 3600) as u32, (tod / 60 % 60) as u32, 60, "", &offs, 'T');
    }
  }
  // malformed: truncations and single-byte edits of a valid string
  let base = "2021-03-04T05:06:07.89+01:30";
  for i in 0..base.len() {
    writeln!(out, "C13 parse {}", hex(base[..i].as_bytes())).unwrap();
    for c in ["0", "9", ":", "-", "+", "Z", " ", "a", "é", "."] {
      let mut s = String::new();
      s.push_str(&base[..i]);
      s.push_str(c);
      s.push_str(&base[i + 1..]);
      writeln!(out, "C13 parse {}", hex(s.as_bytes())).unwrap();
    }
  }
  writeln!(out, "C13 parse -").unwrap();
  // random instants with random offsets and fractions
  let n = if thorough { 200_000 } else { 10_000 };
  for _ in 0..n {
    let inst = MIN + r.below((MAX - MIN + 1) as u64) as i64;
    let oh = r.range(-23, 23);
    let om = r.range(0, 59);
    let off = oh * 3600 + if oh < 0 { -om } else { om } * 60;
    let local = inst + off;
    let (y, mo, d) = civil(local.div_euclid(86400));
    if !(0..=9999).contains(&y) {
      continue;
    }
    let tod = local.rem_euclid(86400);
    let frac = match r.below(4) {
      0 => "".to_string(),
      1 => format!(".{}", r.below(10)),
      2 => format!(".{:09}", r.below(1_000_000_000)),
      _ => format!(".{:03}", r.below(1000)),
    };
    let offs = if off == 0 && r.chance(1, 2) { "Z".to_string() } else { format!("{}{:02}:{:02}", if oh < 0 { '-' } else { '+' }, oh.abs(), om) };
    emit_dt(out, y, mo, d, (tod / 3600) as u32, (tod / 60 % 60) as u32, (tod % 60) as u32, &frac, &offs, 'T');
  }
  // unix seconds at and around both ends, era/century/year boundaries, random i64
  for e in [MIN, MAX, 0, -1, 951782400, 4107542400, -2208988800] {
    for dl in -3..=3 {
      writeln!(out, "C13 unix {}", e + dl).unwrap();
    }
  }
  for u in [i64::MIN, i64::MAX, i64::MIN + 1, -377705116800, -377705116801, 253402300800, 377705116799] {
    writeln!(out, "C13 unix {}", u).unwrap();
  }
  for y in [0i64, 1, 3, 4, 5, 99, 100, 101, 399, 400, 401, 1899, 1900, 1999, 2000, 2001, 2100, 9999] {
    let a = days_from_civil(y, 1, 1) * 86400;
    for dl in [-1, 0, 1] {
      writeln!(out, "C13 unix {}", a + dl).unwrap();
    }
    let b = days_from_civil(y, 3, 1) * 86400;
    for dl in [-1, 0] {
      writeln!(out, "C13 unix {}", b + dl).unwrap();
    }
  }
  for _ in 0..(if thorough { 200_000 } else { 10_000 }) {
    let u = if r.chance(9, 10) { MIN - 1000 + r.below((MAX - MIN + 2000) as u64) as i64 } else { r.next() as i64 };
    writeln!(out, "C13 unix {}", u).unwrap();
  }
  // checked_add / checked_sub
  for t in [MIN, MIN + 1, MIN + 86400, 0, MAX - 604800, MAX - 86400, MAX - 1, MAX] {
    for k in ["s", "m", "h", "d", "w"] {
      for n in [0u32, 1, 2, 59, 60, u32::MAX - 1, u32::MAX] {
        writeln!(out, "C13 add {} {} {}", t, k, n).unwrap();
        writeln!(out, "C13 sub {} {} {}", t, k, n).unwrap();
      }
      // values landing within +-2s of both ends
      let m = match k { "s" => 1, "m" => 60, "h" => 3600, "d" => 86400, _ => 604800 };
      for target in [MIN, MAX] {
        for dl in -2i64..=2 {
          let diff = target + dl - t;
          if diff % m == 0 && diff / m >= 0 && diff / m <= u32::MAX as i64 {
            writeln!(out, "C13 add {} {} {}", t, k, diff / m).unwrap();
          }
          if (-diff) % m == 0 && (-diff) / m >= 0 && (-diff) / m <= u32::MAX as i64 {
            writeln!(out, "C13 sub {} {} {}", t, k, (-diff) / m).unwrap();
          }
        }
      }
    }
  }
  // deserialised durations: [seconds, nanoseconds] of every sign and size
  for t in [MIN, MIN + 1, 0, 1577836800, MAX - 1, MAX] {
    for j in ["[0,0]", "[1,0]", "[1,500000000]", "[0,1]", "[0,999999999]", "[0,-1]", "[-1,0]", "[-1,-500000000]", "[86400,1]", "[9223372036854775807,999999999]", "[-9223372036854775808,-999999999]", "[1,1000000000]", "[1,-1]", "1", "{}", "[1]", "[1.5,0]"] {
      writeln!(out, "C13 addj {} {}", t, hex(j.as_bytes())).unwrap();
      writeln!(out, "C13 subj {} {}", t, hex(j.as_bytes())).unwrap();
    }
  }
  for _ in 0..(if thorough { 50_000 } else { 3_000 }) {
    let t = MIN + r.below((MAX - MIN + 1) as u64) as i64;
    let k = *r.pick(&["s", "m", "h", "d", "w"]);
    let n = if r.chance(1, 2) { r.below(100_000) as u32 } else { r.next() as u32 };
    writeln!(out, "C13 {} {} {} {}", if r.chance(1, 2) { "add" } else { "sub" }, t, k, n).unwrap();
    let t2 = MIN + r.below((MAX - MIN + 1) as u64) as i64;
    writeln!(out, "C13 cmp {} {}", t, if r.chance(1, 5) { t } else { t2 }).unwrap();
  }
}

fn days_from_civil(y: i64, m: u32, d: u32) -> i64 {
  let y = if m <= 2 { y - 1 } else { y };
  let era = if y >= 0 { y } else { y - 399 } / 400;
  let yoe = y - era * 400;
  let mp = (m as i64 + 9) % 12;
  let doy = (153 * mp + 2) / 5 + d as i64 - 1;
  let doe = yoe * 365 + yoe / 4 - yoe / 100 + doy;
  era * 146097 + doe - 719468
}
