import IdModel.Gen.C01
/-!
The library's own signature verifiers (`identity_eddsa_verifier`, `identity_ecdsa_verifier`): which algorithm names each
`JwsVerifier` dispatches on, and the guard clauses of `Ed25519Verifier::verify`, `Secp256R1Verifier::verify`,
`Secp256K1Verifier::verify`, transliterated as chains of `if guard { return Err(..) }`.  The dispatch tables, the curve the
Ed25519 verifier insists on and the length tests are regenerated (`Gen.C01`).  A public JWK is reduced to what the guards
read; the third-party cryptography (is this a point of the curve, does the scheme accept) is a parameter.
Import-free apart from the regenerated constants; executable.
-/

namespace IdModel.Jose.Verifier
/-- what the library's verifiers read of a public JWK: the key type family, the `crv` string, and what `x` / `y` decode to
(`none`: the member is not base64url; EC only: `y`) -/
inductive Kty | okp | ec | rsa | oct
  deriving Repr, DecidableEq

structure KeyMat where
  kty : Kty
  crv : String
  xLen : Option Nat
  yLen : Option Nat
  deriving Repr, DecidableEq

inductive Disp | ed | ec
  deriving Repr, DecidableEq

inductive Err | unsupportedAlg | unsupportedKeyType | unsupportedKeyParams | keyDecoding | invalidSignature | panic
  deriving Repr, DecidableEq

/-- the third-party cryptography, a parameter: `point cv` = the decoded coordinates are a valid public key of curve `cv`;
`sigOk cv` = the signature scheme of curve `cv` accepts (message, signature) under that key -/
structure Crypto where
  point : String → Bool
  sigOk : String → Bool

/-- a chain of `if guard { return Err(e) }` statements: the first guard that holds decides -/
def firstFail : List (Bool × Err) → Except Err Unit
  | [] => .ok ()
  | (g, e) :: r => if g then .error e else firstFail r

/-- `Ed25519Verifier::verify` -/
def ed25519 (k : KeyMat) (sigLen : Nat) (c : Crypto) : Except Err Unit :=
  firstFail [
    (k.kty != .okp, .unsupportedKeyType),
    ((match Gen.C01.edCurveMustEqual with | some cv => k.crv != cv | none => false), .unsupportedKeyParams),
    (k.xLen != some Gen.C01.edKeyLen, .keyDecoding),
    (!c.point "Ed25519", .keyDecoding),
    (sigLen != Gen.C01.edSigLen, .invalidSignature),
    (!c.sigOk "Ed25519", .invalidSignature)]

/-- `Secp256R1Verifier::verify` / `Secp256K1Verifier::verify` (they differ in the curve only).  Without a test of the
coordinate lengths (`ecCoordLen = none`) the coordinates are collected into a 64-byte array, which panics for any other total. -/
def ecdsa (curve : String) (k : KeyMat) (sigLen : Nat) (c : Crypto) : Except Err Unit :=
  firstFail [
    (k.kty != .ec, .unsupportedKeyType),
    (Gen.C01.ecChecksCrv && k.crv != curve, .unsupportedKeyParams),
    (k.xLen.isNone || k.yLen.isNone, .keyDecoding),
    ((match Gen.C01.ecCoordLen with
      | some l => k.xLen != some l || k.yLen != some l
      | none => false), .keyDecoding),
    ((match Gen.C01.ecCoordLen with
      | some _ => false
      | none => k.xLen.getD 0 + k.yLen.getD 0 != 64), .panic),
    (!c.point curve, .keyDecoding),
    (sigLen != Gen.C01.ecSigLen, .invalidSignature),
    (!c.sigOk curve, .invalidSignature)]

/-- the two `JwsVerifier` implementations: dispatch on the algorithm handed in by `JwsValidationItem::verify` (the one named
in the protected header) -/
def dispatch (d : Disp) (alg : String) (k : KeyMat) (sigLen : Nat) (c : Crypto) : Except Err Unit :=
  match d with
  | .ed => if Gen.C01.edAlgs.contains alg then ed25519 k sigLen c else .error .unsupportedAlg
  | .ec =>
    match Gen.C01.ecAlgs.lookup alg with
    | some curve => ecdsa curve k sigLen c
    | none => .error .unsupportedAlg

def accepts (d : Disp) (alg : String) (k : KeyMat) (n : Nat) (c : Crypto) : Bool :=
  match dispatch d alg k n c with
  | .ok _ => true
  | .error _ => false


end IdModel.Jose.Verifier
