import IdModel.Core.Outcome
import IdModel.Gen.C13
/-!
Model of `identity_core::common::Timestamp` (property C13).

* the calendar is the proleptic Gregorian calendar written as transparently as possible
  (`yearStart`, `monthOffset`, `daysFromCivil`) with an explicit inverse (`yearOf`, `monthDay`);
* `parse3339` is a transliteration of `time-0.3.55`'s `Rfc3339::parse_offset_date_time`
  (fixed-width digit fields, any one-byte separator, `.` + ≥ 1 digits, `Z`/`z` or `±hh:mm` with
  `hh ≤ 23`, `mm ≤ 59`, no trailing bytes, the leap-second stand-in rule);
* a `Timestamp` is its unix second count (`Int`); year gates and the offset normalisation of
  `Timestamp::parse` come from `IdModel.Gen.C13` (regenerated from the Rust source).
-/
namespace IdModel.Time
open IdModel IdModel.Gen.C13

/-! ### calendar -/

def isLeap (y : Nat) : Bool := y % 4 == 0 && (y % 100 != 0 || y % 400 == 0)

/-- days from 0000-01-01 to `y`-01-01: 365 per year plus one per leap year before `y`
(year 0 is a leap year) -/
def yearStart (y : Nat) : Nat := 365 * y + (y + 3) / 4 - (y + 99) / 100 + (y + 399) / 400

def daysInMonth (leap : Bool) : Nat → Nat
  | 1 => 31 | 2 => if leap then 29 else 28 | 3 => 31 | 4 => 30 | 5 => 31 | 6 => 30
  | 7 => 31 | 8 => 31 | 9 => 30 | 10 => 31 | 11 => 30 | 12 => 31 | _ => 0

/-- days of the year before month `m` -/
def monthOffset (leap : Bool) : Nat → Nat
  | 1 => 0 | 2 => 31
  | 3 => if leap then 60 else 59 | 4 => if leap then 91 else 90 | 5 => if leap then 121 else 120
  | 6 => if leap then 152 else 151 | 7 => if leap then 182 else 181 | 8 => if leap then 213 else 212
  | 9 => if leap then 244 else 243 | 10 => if leap then 274 else 273 | 11 => if leap then 305 else 304
  | 12 => if leap then 335 else 334 | _ => 0

def yearLen (leap : Bool) : Nat := if leap then 366 else 365

/-- days from 0000-01-01 to `y-m-d` -/
def daysFromCivil (y m d : Nat) : Nat := yearStart y + monthOffset (isLeap y) m + (d - 1)

def validDate (y m d : Nat) : Bool := 1 ≤ m && m ≤ 12 && 1 ≤ d && d ≤ daysInMonth (isLeap y) m

/-- the year containing day number `n`: estimate from the mean year length, corrected by one -/
def yearOf (n : Nat) : Nat :=
  let y1 := 400 * (n + 1) / 146097
  if yearStart (y1 + 1) ≤ n then y1 + 1 else if yearStart y1 ≤ n then y1 else y1 - 1

def monthDayAux (leap : Bool) : List Nat → Nat → Nat × Nat
  | [], r => (12, r + 1)
  | [m], r => (m, r + 1)
  | m :: ms, r =>
    if r < daysInMonth leap m then (m, r + 1) else monthDayAux leap ms (r - daysInMonth leap m)

/-- (month, day) of the `doy`-th day (0-based) of a year -/
def monthDay (leap : Bool) (doy : Nat) : Nat × Nat :=
  monthDayAux leap [1, 2, 3, 4, 5, 6, 7, 8, 9, 10, 11, 12] doy

/-- (year, month, day) of day number `n` -/
def civilFromDays (n : Nat) : Nat × Nat × Nat :=
  let y := yearOf n
  let md := monthDay (isLeap y) (n - yearStart y)
  (y, md.1, md.2)

/-- days from 0000-01-01 to 1970-01-01 -/
def epochDays : Nat := 719528

/-- 0000-01-01T00:00:00Z and 9999-12-31T23:59:59Z as unix seconds -/
def MIN : Int := -62167219200
def MAX : Int := 253402300799

/-- unix seconds of a civil date-time at a UTC offset of `off` seconds -/
def unixOf (y m d hh mi ss : Nat) (off : Int) : Int :=
  ((daysFromCivil y m d : Int) - epochDays) * 86400 + hh * 3600 + mi * 60 + ss - off

/-- day number (from 0000-01-01, may be negative) and second of day of a unix instant -/
def dayOfUnix (u : Int) : Int := u / 86400 + epochDays
def todOfUnix (u : Int) : Nat := (u % 86400).toNat

/-- the UTC year of an instant; every instant before 0000-01-01 is reported as year −1 -/
def yearOfUnix (u : Int) : Int := if dayOfUnix u < 0 then -1 else (yearOf (dayOfUnix u).toNat : Int)

def yearGate (lo hi : Int) (u : Int) : Bool := lo ≤ yearOfUnix u && yearOfUnix u < hi

/-! ### RFC 3339 parsing (bytes) -/

def isDigit (b : Nat) : Bool := 48 ≤ b && b ≤ 57

def num2 (a b : Nat) : Option Nat :=
  if isDigit a && isDigit b then some ((a - 48) * 10 + (b - 48)) else none

def num4 (a b c d : Nat) : Option Nat :=
  if isDigit a && isDigit b && isDigit c && isDigit d then
    some ((a - 48) * 1000 + (b - 48) * 100 + (c - 48) * 10 + (d - 48)) else none

def skipDigits : List Nat → List Nat
  | [] => []
  | b :: r => if isDigit b then skipDigits r else b :: r

/-- optional fraction: `.` followed by at least one digit; further digits are consumed -/
def parseFrac : List Nat → Option (List Nat)
  | 46 :: d :: r => if isDigit d then some (skipDigits r) else none
  | [46] => none
  | r => some r

/-- `Z`/`z`, or sign, two digits ≤ 23, `:`, two digits ≤ 59; nothing may follow -/
def parseOffset : List Nat → Option Int
  | [90] => some 0
  | [122] => some 0
  | [sg, h1, h2, 58, m1, m2] =>
    match num2 h1 h2, num2 m1 m2 with
    | some h, some m =>
      if h ≤ 23 && m ≤ 59 then
        if sg == 43 then some ((h * 3600 + m * 60 : Nat) : Int)
        else if sg == 45 then some (-((h * 3600 + m * 60 : Nat) : Int))
        else none
      else none
    | _, _ => none
  | _ => none

structure Fields where
  y : Nat
  m : Nat
  d : Nat
  hh : Nat
  mi : Nat
  ss : Nat
  off : Int
  deriving Repr, DecidableEq

/-- syntactic layer: the fixed-width fields -/
def parseFields : List Nat → Option Fields
  | y1 :: y2 :: y3 :: y4 :: 45 :: m1 :: m2 :: 45 :: d1 :: d2 :: _sep :: h1 :: h2 :: 58 ::
      i1 :: i2 :: 58 :: s1 :: s2 :: rest =>
    match num4 y1 y2 y3 y4, num2 m1 m2, num2 d1 d2, num2 h1 h2, num2 i1 i2, num2 s1 s2 with
    | some y, some m, some d, some hh, some mi, some ss =>
      match parseFrac rest with
      | some rest' =>
        match parseOffset rest' with
        | some off => some { y, m, d, hh, mi, ss, off }
        | none => none
      | none => none
    | _, _, _, _, _, _ => none
  | _ => none

/-- a leap-second input `:60` stands for `:59`; it is accepted only as the last second of a
month in UTC -/
def leapStandInOk (u : Int) : Bool :=
  if dayOfUnix u < 0 then false else
  let c := civilFromDays (dayOfUnix u).toNat
  todOfUnix u == 86399 && c.2.2 == daysInMonth (isLeap c.1) c.2.1

/-- `OffsetDateTime::parse(_, &Rfc3339)`: the instant, truncated to the second.  A `:60` second
is replaced by `:59` and must pass the leap-second stand-in rule. -/
def parse3339 (s : List Nat) : Option Int :=
  match parseFields s with
  | none => none
  | some f =>
    if f.ss == 60 then
      if validDate f.y f.m f.d && f.hh ≤ 23 && f.mi ≤ 59 then
        if leapStandInOk (unixOf f.y f.m f.d f.hh f.mi 59 f.off) then
          some (unixOf f.y f.m f.d f.hh f.mi 59 f.off)
        else none
      else none
    else if validDate f.y f.m f.d && f.hh ≤ 23 && f.mi ≤ 59 && f.ss ≤ 59 then
      some (unixOf f.y f.m f.d f.hh f.mi f.ss f.off)
    else none

inductive TErr | invalid
  deriving Repr, DecidableEq

/-- `Timestamp::parse`: normalise to UTC (panics above year 9999 unless the checked conversion
is used), apply the year gate if the code has one, truncate. -/
def parse (s : List Nat) : Outcome TErr Int :=
  match parse3339 s with
  | none => .err .invalid
  | some u =>
    if u > MAX then (if parseCheckedOffset then .err .invalid else .panic "timestamp.rs:parse:to_offset")
    else match parseYearGate with
      | some (lo, hi) => if yearGate lo hi u then .ok u else .err .invalid
      | none => .ok u

/-- `Timestamp::from_unix` -/
def fromUnix (u : Int) : Outcome TErr Int :=
  if yearGate unixYearLo unixYearHi u then .ok u else .err .invalid

/-! ### formatting -/

def d2 (n : Nat) : List Nat := [48 + n / 10 % 10, 48 + n % 10]
def d4 (n : Nat) : List Nat := [48 + n / 1000 % 10, 48 + n / 100 % 10, 48 + n / 10 % 10, 48 + n % 10]

def render (y m d hh mi ss : Nat) : List Nat :=
  d4 y ++ [45] ++ d2 m ++ [45] ++ d2 d ++ [84] ++ d2 hh ++ [58] ++ d2 mi ++ [58] ++ d2 ss ++ [90]

/-- `Timestamp::to_rfc3339`: `format(&Rfc3339).expect(..)` panics for years outside 0000–9999 -/
def toRfc3339 (u : Int) : Outcome TErr (List Nat) :=
  if yearGate 0 10000 u then
    let c := civilFromDays (dayOfUnix u).toNat
    let t := todOfUnix u
    .ok (render c.1 c.2.1 c.2.2 (t / 3600) (t / 60 % 60) (t % 60))
  else .panic "timestamp.rs:to_rfc3339:expect"

/-- `checked_add` / `checked_sub` with a duration of `secs` seconds -/
def checkedAdd (u : Int) (secs : Nat) : Option Int :=
  match fromUnix (u + secs) with | .ok v => some v | _ => none

def checkedSub (u : Int) (secs : Nat) : Option Int :=
  match fromUnix (u - secs) with | .ok v => some v | _ => none

/-- `Duration::<name>(n)` as seconds: the argument (already widened to `i64`) is multiplied by the unit inside the
`time` crate, which panics (`expect("overflow constructing …")`) when the product leaves `i64`.  `none` for a name the
source does not define. -/
def durationSecs (name : String) (n : Nat) : Option (Outcome TErr Nat) :=
  match Gen.C13.durationCtors.find? (·.1 == name) with
  | none => none
  | some (_, k, bits) =>
    if n < 2 ^ bits then
      some (if n * k < 2 ^ 63 then .ok (n * k) else .panic "time::Duration: overflow constructing the duration")
    else none

/-- `ts.checked_add(Duration::<name>(n))` -/
def checkedAddDur (u : Int) (name : String) (n : Nat) : Option (Outcome TErr (Option Int)) :=
  (durationSecs name n).map fun
    | .ok s => .ok (checkedAdd u s)
    | .err e => .err e
    | .panic p => .panic p

def checkedSubDur (u : Int) (name : String) (n : Nat) : Option (Outcome TErr (Option Int)) :=
  (durationSecs name n).map fun
    | .ok s => .ok (checkedSub u s)
    | .err e => .err e
    | .panic p => .panic p

end IdModel.Time
