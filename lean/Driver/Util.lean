/-! Shared helpers of the line-protocol driver (no model content). -/
namespace Driver

def toks (line : String) : List String :=
  (line.trimAscii.toString.splitOn " ").filter (fun t => t != "")

/-- split a token list at the first occurrence of `sep` -/
def splitAt (sep : String) : List String → List String × List String
  | [] => ([], [])
  | t :: ts => if t == sep then ([], ts) else let (a, b) := splitAt sep ts; (t :: a, b)

def hexVal (c : Char) : Option Nat :=
  if '0' ≤ c ∧ c ≤ '9' then some (c.toNat - '0'.toNat)
  else if 'a' ≤ c ∧ c ≤ 'f' then some (c.toNat - 'a'.toNat + 10)
  else if 'A' ≤ c ∧ c ≤ 'F' then some (c.toNat - 'A'.toNat + 10)
  else none

/-- hex string → bytes (as `Nat` < 256); `-` denotes the empty string -/
def unhex (s : String) : Option (List Nat) :=
  if s == "-" then some [] else
  let rec go : List Char → Option (List Nat)
    | [] => some []
    | [_] => none
    | a :: b :: r => do
      let x ← hexVal a; let y ← hexVal b; let t ← go r
      pure ((x * 16 + y) :: t)
  go s.toList

def hexDigit (n : Nat) : Char :=
  if n < 10 then Char.ofNat (n + '0'.toNat) else Char.ofNat (n - 10 + 'a'.toNat)

def hex (bs : List Nat) : String :=
  if bs.isEmpty then "-" else
  String.ofList (bs.foldr (fun b acc => hexDigit (b / 16) :: hexDigit (b % 16) :: acc) [])

def natList? (ts : List String) : Option (List Nat) := ts.mapM String.toNat?

def intOf? (s : String) : Option Int := s.toInt?

end Driver
