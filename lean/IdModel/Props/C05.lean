import IdModel.Panic.Model
import IdModel.Panic.Sites
import IdModel.Panic.Linked
import IdModel.Meta.Model
import IdModel.Props.C10
import IdModel.Props.C12
import IdModel.Props.C13
import IdModel.Props.C16
import IdModel.Props.C17
/-!
# C05 — no parser, decoder or validator panics on externally supplied data

Property theorems only.  `∀ input, (f input).isPanic = false` for the entry points that are this repository's own logic:
the byte-level decoders modelled here (`MethodDigest::unpack`, the framing of `StateMetadataDocument::unpack`,
`IntegrityMetadata` with the accessors that `unwrap`) and, by re-export, the entry points modelled for C10, C12, C13,
C16 and C17.  Every panic-capable site of the anchored files (regenerated inventory) carries a disposition.
Entry points that are third-party parsers behind serde are NOT covered by a theorem (see DESIGN.md §7.5).
-/
namespace IdModel.Props.C05
open IdModel IdModel.Panic

/-! ## `MethodDigest::unpack` -/

theorem digest_never_panics (bs : List Nat) : (unpackDigest bs).isPanic = false := by
  unfold unpackDigest
  have h1 : Gen.C05.digestLenChecked = true := rfl
  have h2 : Gen.C05.digestValueLo = 1 := rfl
  have h3 : Gen.C05.digestValueHi = 9 := rfl
  rw [h1, h2, h3]
  by_cases hl : bs.length = 9
  · have : (true && bs.length != 9) = false := by simp [hl]
    rw [this]
    simp only [Bool.false_eq_true, ↓reduceIte]
    cases hb : bs[0]? with
    | none =>
      have := List.getElem?_eq_none_iff.1 hb
      omega
    | some v =>
      simp only
      split
      · rfl
      · have hs : slice bs 1 9 "method_digest.rs:unpack:bytes[1..9]" = .ok ((bs.drop 1).take 8) := by
          unfold slice; rw [if_pos (by omega)]
        rw [hs]
        simp only
        split <;> rfl
  · have : (true && bs.length != 9) = true := by simp [hl]
    rw [this]; rfl

/-- what is accepted: exactly nine bytes starting with the version byte 0; the value is the little-endian reading of
the other eight -/
theorem digest_ok_iff (bs : List Nat) (v x : Nat) :
    unpackDigest bs = .ok (v, x) ↔ (bs.length = 9 ∧ bs[0]? = some 0 ∧ v = 0 ∧ x = leValue (bs.drop 1)) := by
  unfold unpackDigest
  have h1 : Gen.C05.digestLenChecked = true := rfl
  have h2 : Gen.C05.digestValueLo = 1 := rfl
  have h3 : Gen.C05.digestValueHi = 9 := rfl
  have h4 : Gen.C05.digestVersion = some 0 := rfl
  have h5 : Gen.C05.digestLittleEndian = true := rfl
  rw [h1, h2, h3, h4, h5]
  by_cases hl : bs.length = 9
  · have : (true && bs.length != 9) = false := by simp [hl]
    rw [this]
    simp only [Bool.false_eq_true, ↓reduceIte]
    cases hb : bs[0]? with
    | none =>
      have := List.getElem?_eq_none_iff.1 hb
      omega
    | some w =>
      simp only
      have ht : (bs.drop 1).take 8 = bs.drop 1 := by
        apply List.take_of_length_le; simp; omega
      have hs : slice bs 1 9 "method_digest.rs:unpack:bytes[1..9]" = .ok (bs.drop 1) := by
        unfold slice; rw [if_pos (by omega)]; rw [show 9 - 1 = 8 from rfl, ht]
      have hlen : ((bs.drop 1).length != 8) = false := by simp; omega
      by_cases hw : w = 0
      · subst hw
        simp only [Option.isSome_some, bne_self_eq_false, Bool.and_false, Bool.false_eq_true, ↓reduceIte]
        rw [hs]
        simp only [hlen, Bool.false_eq_true, ↓reduceIte]
        constructor
        · intro h; injection h with h; injection h with ha hb'; exact ⟨hl, trivial, ha.symm, hb'.symm⟩
        · rintro ⟨_, _, hv, hx⟩; rw [hv, hx]
      · have : (Option.isSome (some 0) && (some 0 != some w)) = true := by
          simp; exact fun h => hw h.symm
        rw [this]
        simp only [↓reduceIte]
        constructor
        · intro h; cases h
        · rintro ⟨_, h0, _, _⟩; injection h0 with h0; exact absurd h0 hw
  · have : (true && bs.length != 9) = true := by simp [hl]
    rw [this]
    simp only [↓reduceIte]
    constructor
    · intro h; cases h
    · rintro ⟨h, _⟩; exact absurd h hl

theorem leBytes_length (n v : Nat) : (leBytes n v).length = n := by
  induction n generalizing v with
  | zero => rfl
  | succ n ih => simp [leBytes, ih]

theorem leValue_leBytes (n v : Nat) (h : v < 256 ^ n) : leValue (leBytes n v) = v := by
  induction n generalizing v with
  | zero => simp at h; subst h; rfl
  | succ n ih =>
    simp only [leBytes, leValue]
    have : v / 256 < 256 ^ n := by
      rw [Nat.pow_succ] at h
      exact Nat.div_lt_of_lt_mul (by rw [Nat.mul_comm]; exact h)
    rw [ih _ this]
    omega

/-- **round trip** of `pack` / `unpack` for every 64-bit value -/
theorem digest_pack_unpack (x : Nat) (h : x < 256 ^ 8) : unpackDigest (packDigest 0 x) = .ok (0, x) := by
  rw [digest_ok_iff]
  refine ⟨by simp [packDigest, leBytes_length], rfl, rfl, ?_⟩
  simp [packDigest, leValue_leBytes 8 x h]

/-! ## framing of `StateMetadataDocument::unpack` -/

def lift {α : Type} : Except Meta.FErr α → Outcome Meta.FErr α
  | .ok a => .ok a
  | .error e => .err e

theorem oob_checked (i : Nat) (h : i < 5) (e : Meta.FErr) (site : String) : oob i e site = .err e := by
  have : i = 0 ∨ i = 1 ∨ i = 2 ∨ i = 3 ∨ i = 4 := by omega
  rcases this with rfl | rfl | rfl | rfl | rfl <;> rfl

/-- the panic-aware framing is the C14 model of `unpack`: same verdict, same payload, same error, and no panic -/
theorem unframe_agrees_with_C14 (bs : List Nat) : unframeP bs = lift (Meta.unframe bs) := by
  unfold unframeP Meta.unframe
  simp only [oob_checked 0 (by omega), oob_checked 1 (by omega), oob_checked 2 (by omega), oob_checked 3 (by omega),
    oob_checked 4 (by omega)]
  by_cases h1 : bs.length < 3
  · rw [if_pos h1, if_pos h1]; rfl
  · rw [if_neg h1, if_neg h1]
    by_cases h2 : bs.take 3 ≠ Gen.C14.marker
    · rw [if_pos h2, if_pos h2]; rfl
    · rw [if_neg h2, if_neg h2]
      cases bs[3]? with
      | none => rfl
      | some v =>
        simp only
        by_cases h3 : (!Gen.C14.versions.contains v) = true
        · rw [if_pos h3, if_pos h3]; rfl
        · rw [if_neg h3, if_neg h3]
          by_cases h4 : v ≠ Gen.C14.acceptedVersion
          · rw [if_pos h4, if_pos h4]; rfl
          · rw [if_neg h4, if_neg h4]
            cases bs[4]? with
            | none => rfl
            | some e =>
              simp only
              by_cases h5 : (!Gen.C14.encodings.contains e) = true
              · rw [if_pos h5, if_pos h5]; rfl
              · rw [if_neg h5, if_neg h5]
                cases bs[5]? with
                | none => rfl
                | some lo =>
                  cases bs[6]? with
                  | none => rfl
                  | some hi =>
                    simp only
                    by_cases h6 : 7 + (lo + 256 * hi) ≤ bs.length
                    · rw [if_pos h6, if_pos h6]; rfl
                    · rw [if_neg h6, if_neg h6]; rfl

/-- **no input makes the framing of `unpack` panic**: every read is bounds-checked -/
theorem unframe_never_panics (bs : List Nat) : (unframeP bs).isPanic = false := by
  rw [unframe_agrees_with_C14]
  cases Meta.unframe bs <;> rfl

/-! ## `IntegrityMetadata` -/

theorem splitDash_cut (s : List Nat) :
    splitDash s = (cut s).1 :: (match (cut s).2 with | none => [] | some r => splitDash r) := by
  induction s with
  | nil => rfl
  | cons c r ih =>
    by_cases hc : c = 45
    · subst hc; rfl
    · have e2 : cut (c :: r) = (c :: (cut r).1, (cut r).2) := by simp [cut, hc]
      have h0 : splitDash (c :: r) = (if c = 45 then [] :: splitDash r
          else match splitDash r with | h :: t => (c :: h) :: t | [] => [[c]]) := rfl
      rw [h0, if_neg hc, ih, e2]

theorem digest_eq (s : List Nat) :
    (splitDash s)[1]? = (match (cut s).2 with | none => none | some r => some (cut r).1) := by
  rw [splitDash_cut]
  cases h : (cut s).2 with
  | none => rfl
  | some r => simp only [List.getElem?_cons_succ]; rw [splitDash_cut]; rfl

/-- **an accepted integrity string has every accessor total**: `alg`, `digest`, `digest_bytes` do not panic, and
`digest` is the part `parse` validated -/
theorem splitn3Rest_shape (a r : List Nat) : ∃ t, splitn3Rest a r = a :: (cut r).1 :: t := by
  unfold splitn3Rest; cases (cut r).2 <;> exact ⟨_, rfl⟩

theorem integrity_accessors_total (s s' : List Nat) (h : parseIntegrity s = .ok s') :
    s' = s ∧ (∃ a, alg s = .ok a) ∧ (∃ d, digest s = .ok d ∧ (splitn3 s)[1]? = some d) ∧ (∃ b, digestBytes s = .ok b) := by
  unfold parseIntegrity at h
  have h1 : Gen.C05.integritySplitsN3 = true := rfl
  have h3 : Gen.C05.integrityDigestBytesBase = "Base64" := rfl
  rw [h1] at h
  simp only [↓reduceIte] at h
  cases hc : (cut s).2 with
  | none =>
    have : splitn3 s = [(cut s).1] := by unfold splitn3; rw [hc]
    rw [this] at h; cases h
  | some r =>
    have hsp : splitn3 s = splitn3Rest (cut s).1 r := by unfold splitn3; rw [hc]
    obtain ⟨t, ht⟩ := splitn3Rest_shape (cut s).1 r
    rw [hsp, ht] at h
    have hd : (splitDash s)[1]? = some (cut r).1 := by rw [digest_eq, hc]
    have key : (decoder "Base64" (cut r).1).isSome = true ∧ s' = s := by
      unfold checkParts at h
      have h2 : Gen.C05.integrityParseBase = "Base64" := rfl
      rw [h2] at h
      have hne : ("Base64" == "") = false := by decide
      rw [hne] at h
      simp only [Bool.false_eq_true, ↓reduceIte] at h
      split at h
      · next hh => injection h with h; exact ⟨hh, h.symm⟩
      · cases h
    obtain ⟨hdec, hs⟩ := key
    refine ⟨hs, ⟨(cut s).1, ?_⟩, ⟨(cut r).1, ?_, ?_⟩, ?_⟩
    · unfold alg; rw [hc]
    · unfold digest; rw [hd]
    · rw [hsp, ht]; rfl
    · unfold digestBytes digest
      rw [hd, h3]
      simp only [Outcome.bind]
      cases hb : decoder "Base64" (cut r).1 with
      | none => rw [hb] at hdec; cases hdec
      | some b => exact ⟨b, rfl⟩

theorem checkParts_never_panics (s : List Nat) (parts : List (List Nat)) : (checkParts s parts).isPanic = false := by
  cases parts with
  | nil => rfl
  | cons a t =>
    cases t with
    | nil => rfl
    | cons d t' =>
      show (if Gen.C05.integrityParseBase == "" then Outcome.ok s
        else if (decoder Gen.C05.integrityParseBase d).isSome then Outcome.ok s else Outcome.err ()).isPanic = false
      split
      · rfl
      · split <;> rfl

/-- `parse` itself never panics -/
theorem integrity_parse_never_panics (s : List Nat) : (parseIntegrity s).isPanic = false :=
  checkParts_never_panics s _

/-! ## the entry points modelled for other properties (re-exported) -/

/-- DID / DID-URL parsing and `join`, IOTA DID parsing and conversion, timestamp parsing and formatting of accepted
values, status-list reads and writes, key-binding JWT validation: none of the models has a reachable panic branch -/
theorem modelled_entry_points_never_panic :
    (∀ s, (Did.parseDid s).isPanic = false ∧ (Did.parseUrl s).isPanic = false) ∧
    (∀ u seg, (Did.join u seg).isPanic = false) ∧
    (∀ s, (IotaDid.parseLower s).isPanic = false) ∧
    (∀ d, (IotaDid.tryFromCoreChecked d).isPanic = false) ∧
    (∀ s, (Time.parse s).isPanic = false) ∧
    (∀ s u, Time.parse s = .ok u → ∃ bs, Time.toRfc3339 u = .ok bs) ∧
    (∀ l i, (Status.get l i).isPanic = false) ∧
    (∀ l i v, (Status.set l i v).isPanic = false) ∧
    (∀ doc digest tok o, Val.validateKb doc digest tok o ≠ .error .panic) :=
  ⟨C10.parse_never_panics, C10.join_never_panics, C17.parseLower_never_panics,
   C17.checked_never_panics, fun s => (C13.parse_total_in_range s).1,
   fun s u h => (C13.format_total u ((C13.parse_total_in_range s).2 u h)).imp fun _ hb => hb.1,
   C12.get_total, C12.set_total, C16.kb_never_panics⟩

/-! ## the service wrappers whose accessors `unreachable!` / `expect` -/

open Linked in
/-- `LinkedDomainService`: neither the check nor the constructor panics, and on every service the check accepts the
accessor `domains` returns a list (its `unreachable!` and `expect` arms are not reachable) -/
theorem linked_domain_total (s : Svc) :
    (ldCheck s).isPanic = false ∧ (ldCheck s = .ok () → ∃ ds, ldDomains s = .ok ds) := by
  obtain ⟨ts, ep⟩ := s
  refine ⟨?_, ?_⟩
  · unfold ldCheck
    split; · rfl
    split; · rfl
    split; · rfl
    cases ep with
    | one u => simp only []; split <;> rfl
    | set us => simp only []; split <;> rfl
    | map m =>
      simp only []
      split; · rfl
      split
      · split <;> rfl
      · split <;> rfl
  · unfold ldCheck ldDomains
    split; · intro h; cases h
    split; · intro h; cases h
    split; · intro h; cases h
    cases ep with
    | one u => intro _; exact ⟨[u], rfl⟩
    | set us => simp only [show Gen.C05.ldSetRefused = true from rfl, if_true]; intro h; cases h
    | map m =>
      simp only []
      split; · intro h; cases h
      cases hl : lookup m "origins" with
      | none => simp only [show Gen.C05.ldOriginsRequired = true from rfl, if_true]; intro h; cases h
      | some os => intro _; exact ⟨os, rfl⟩

open Linked in
/-- what `domains` returns for an accepted service: the endpoint's URLs, every one `https` and a bare origin -/
theorem linked_domain_urls (s : Svc) (ds : List U) (h : ldCheck s = .ok ()) (hd : ldDomains s = .ok ds) :
    ds.all okUrl = true := by
  obtain ⟨ts, ep⟩ := s
  unfold ldCheck at h
  unfold ldDomains at hd
  split at h; · cases h
  split at h; · cases h
  split at h; · cases h
  cases ep with
  | one u =>
    simp only [] at h hd
    split at h
    · cases hd; simpa using ‹okUrl u = true›
    · cases h
  | set us => cases hd
  | map m =>
    simp only [] at h hd
    split at h; · cases h
    cases hl : lookup m "origins" with
    | none => rw [hl] at hd; cases hd
    | some os =>
      rw [hl] at h hd
      simp only [] at h hd
      cases hd
      split at h
      · assumption
      · cases h

open Linked in
/-- the constructor never panics, the wrapped service returns exactly the domains it was built from, and the constructor
refuses exactly the lists holding a URL of another scheme -/
theorem linked_domain_new (ds : List U) :
    (ldNew ds).isPanic = false ∧
    (∀ s, ldNew ds = .ok s → ldDomains s = .ok ds) ∧
    ((∃ s, ldNew ds = .ok s) ↔ ds.all (·.https) = true) := by
  unfold ldNew
  cases hall : ds.all (·.https) with
  | false => simp [Outcome.isPanic]
  | true =>
    simp only [Bool.not_true, Bool.false_eq_true, if_false]
    cases ds with
    | nil => simp [ldDomains, lookup, Outcome.isPanic]
    | cons a t =>
      cases t with
      | nil => simp [ldDomains, Outcome.isPanic]
      | cons b t' => simp [ldDomains, lookup, Outcome.isPanic]

open Linked in
/-- `LinkedVerifiablePresentationService`: the same three facts -/
theorem linked_vp_total (s : Svc) :
    (lvpCheck s).isPanic = false ∧ (lvpCheck s = .ok () → ∃ us, lvpUrls s = .ok us) := by
  obtain ⟨ts, ep⟩ := s
  refine ⟨?_, ?_⟩
  · unfold lvpCheck
    split; · rfl
    split; · rfl
    split; · rfl
    cases ep <;> simp only [] <;> first | rfl | (split <;> rfl)
  · unfold lvpCheck lvpUrls
    split; · intro h; cases h
    split; · intro h; cases h
    split; · intro h; cases h
    cases ep with
    | one u => intro _; exact ⟨[u], rfl⟩
    | set us => intro _; exact ⟨us, rfl⟩
    | map m => simp only [show Gen.C05.lvpMapRefused = true from rfl, if_true]; intro h; cases h

open Linked in
theorem linked_vp_new (us : List U) :
    (lvpNew us).isPanic = false ∧ (∀ s, lvpNew us = .ok s → lvpUrls s = .ok us ∧ lvpCheck s = .ok ()) := by
  unfold lvpNew
  cases us with
  | nil => simp [lvpUrls, lvpCheck, Outcome.isPanic]
  | cons a t =>
    cases t with
    | nil => simp [lvpUrls, lvpCheck, Outcome.isPanic]
    | cons b t' => simp [lvpUrls, lvpCheck, Outcome.isPanic]

/-! ## the regenerated inventory of panic-capable sites -/

/-- **every panic-capable site of the library's non-test source has a disposition** (the anchored files and, since the
fourth session, every other source file of the library crates: `Gen.C05.filesInventoried` files) (a new `unwrap`, `expect`, index expression …
in one of these files changes the regenerated inventory and breaks this obligation until it is classified) -/
theorem sites_classified : Gen.C05.sites.all (fun s => (Sites.disposition s).isSome) = true := by decide +kernel

/-! ## non-vacuity -/

example : unpackDigest [0, 1, 2, 0, 0, 0, 0, 0, 0] = .ok (0, 513) := by decide
example : unpackDigest [1, 1, 2, 0, 0, 0, 0, 0, 0] = .err () := by decide
example : unpackDigest [0, 1, 2] = .err () := by decide
example : unframeP [68, 73, 68, 1, 0, 2, 0, 7, 8, 9] = .ok [7, 8] := by decide
example : unframeP [68, 73, 68, 1, 0, 9, 0, 7, 8, 9] = .err .short := by decide
-- "a-AAAA-x": alg "a", digest "AAAA", option "x"
example : parseIntegrity [97, 45, 65, 65, 65, 65, 45, 120] = .ok [97, 45, 65, 65, 65, 65, 45, 120] := by decide
example : digestBytes [97, 45, 65, 65, 65, 65, 45, 120] = .ok [0, 0, 0] := by decide
example : parseIntegrity [97, 45, 65] = .err () := by decide
example : parseIntegrity [97] = .err () := by decide
-- a linked-domain service with an `origins` map of two bare https origins is accepted and returns both
example : Linked.ldCheck { types := ["LinkedDomains"], ep := .map [("origins", [⟨true, true, 1⟩, ⟨true, true, 2⟩])] } = .ok () := by decide
example : Linked.ldCheck { types := ["LinkedDomains"], ep := .set [⟨true, true, 1⟩] } = .err () := by decide
example : Linked.ldCheck { types := ["LinkedDomains"], ep := .map [("x", [⟨true, true, 1⟩])] } = .err () := by decide
example : Linked.lvpCheck { types := ["LinkedVerifiablePresentation"], ep := .set [⟨false, false, 1⟩] } = .ok () := by decide

end IdModel.Props.C05
