//! C18 — Jwk against the Lean model `IdModel.Jwk`.
use crate::rng::Rng;
use identity_core::convert::{FromJson, ToJson};
use identity_did::CoreDID;
use identity_jose::jwk::{Jwk, JwkParams, JwkParamsEc, JwkParamsOct, JwkParamsOkp, JwkParamsRsa, JwkType};
use identity_verification::VerificationMethod;
use std::io::Write;

fn pairs(t: &str) -> Option<Vec<(String, String)>> {
  if t == "-" {
    return Some(vec![]);
  }
  t.split(',')
    .map(|kv| {
      let mut it = kv.split('=');
      let k = it.next()?;
      let v = it.next()?;
      if it.next().is_some() {
        return None;
      }
      Some((k.to_string(), v.to_string()))
    })
    .collect()
}

fn fam_of(p: &JwkParams) -> &'static str {
  match p {
    JwkParams::Ec(_) => "ec",
    JwkParams::Rsa(_) => "rsa",
    JwkParams::Oct(_) => "oct",
    JwkParams::Okp(_) => "okp",
  }
}
fn kty_name(k: JwkType) -> &'static str {
  k.name()
}
fn private_names(f: &str) -> &'static [&'static str] {
  match f {
    "ec" | "okp" => &["d"],
    "rsa" => &["d", "p", "q", "dp", "dq", "qi", "oth"],
    _ => &["k"],
  }
}
fn required_names(f: &str) -> &'static [&'static str] {
  match f {
    "ec" => &["crv", "x", "y"],
    "rsa" => &["n", "e"],
    "okp" => &["crv", "x"],
    _ => &["k"],
  }
}

/// params members present, in struct declaration order, read back from the key's own JSON
fn members_of(j: &Jwk) -> Vec<(String, String)> {
  let v = serde_json::to_value(j).unwrap();
  let f = fam_of(j.params());
  let mut out = vec![];
  for n in required_names(f).iter().chain(if f == "oct" { [].iter() } else { private_names(f).iter() }) {
    if let Some(x) = v.get(*n) {
      out.push((n.to_string(), x.as_str().map(|s| s.to_string()).unwrap_or_else(|| "OTH".into())));
    }
  }
  out
}
fn show_members(ms: &[(String, String)]) -> String {
  if ms.is_empty() {
    "-".into()
  } else {
    ms.iter().map(|(k, v)| format!("{}={}", k, v)).collect::<Vec<_>>().join(",")
  }
}
fn ops_names(j: &Jwk) -> String {
  match j.key_ops() {
    None => "~".into(),
    Some(o) => o.iter().map(|x| format!("{:?}", x)).collect::<Vec<_>>().join("+"),
  }
}

fn thumb_members(j: &Jwk) -> String {
  // parse the hash input (a JSON object by construction) back into ordered members
  let s = j.thumbprint_hash_input();
  let v: serde_json::Value = match serde_json::from_str(&s) {
    Ok(v) => v,
    Err(_) => return format!("unparsable:{}", s),
  };
  // preserve textual order
  let mut keys: Vec<(usize, String, String)> = v.as_object().unwrap().iter().map(|(k, x)| (s.find(&format!("\"{}\":", k)).unwrap_or(0), k.clone(), x.as_str().unwrap_or("").to_string())).collect();
  keys.sort();
  keys.iter().map(|(_, k, x)| format!("{}={}", k, x)).collect::<Vec<_>>().join(",")
}

fn show_key(j: &Jwk) -> (String, Option<String>) {
  let f = fam_of(j.params());
  let ms = members_of(j);
  let mut fail: Option<String> = None;
  if kty_name(j.kty()) != match f { "ec" => "EC", "rsa" => "RSA", "oct" => "oct", _ => "OKP" } {
    fail = Some(format!("kty-family-mismatch:kty {} carries {} parameters", kty_name(j.kty()), f));
  }
  let has_private = ms.iter().any(|(k, _)| private_names(f).contains(&k.as_str()));
  if j.is_public() == has_private && fail.is_none() {
    fail = Some(format!("is-public-wrong:is_public {} but private members present = {}", j.is_public(), has_private));
  }
  // RFC 7638 §3.2 / RFC 8037 §2: required members only, lexicographic order, no whitespace — computed
  // independently through a sorted map
  if j.kty() == j.params().kty() && fail.is_none() {
    let names: &[&str] = match f { "ec" => &["crv", "x", "y"], "rsa" => &["e", "n"], "oct" => &["k"], _ => &["crv", "x"] };
    let mut req: std::collections::BTreeMap<&str, String> = std::collections::BTreeMap::new();
    req.insert("kty", kty_name(j.kty()).to_string());
    for n in names {
      if let Some((_, v)) = ms.iter().find(|(k, _)| k == n) {
        req.insert(n, v.clone());
      }
    }
    let plain = req.values().all(|v| v.chars().all(|c| c.is_ascii_alphanumeric() || c == '-' || c == '_'));
    let want = serde_json::to_string(&req).unwrap();
    let got = j.thumbprint_hash_input();
    if plain && req.len() == names.len() + 1 && want != got {
      fail = Some(format!("thumbprint-not-rfc7638:{} expected {}", got, want));
    }
  }
  // the three thumbprint functions are one value: base64url(SHA-256(hash input)), whatever the optional members say
  if fail.is_none() {
    let a = j.thumbprint_sha256_b64();
    let b = identity_jose::jwu::encode_b64(j.thumbprint_sha256());
    let mut bare = j.clone();
    bare.set_kid("");
    let mut other = j.clone();
    other.set_kid("AAAAAAAAAAAAAAAAAAAAAAAAAAAAAAAAAAAAAAAAAAA");
    other.set_alg("none");
    if a != b || a != bare.thumbprint_sha256_b64() || a != other.thumbprint_sha256_b64() || j.thumbprint_hash_input() != other.thumbprint_hash_input() {
      fail = Some(format!("thumbprint-depends-on-optional-members:thumbprint_sha256_b64 {} / thumbprint_sha256 {} / with another kid {}", a, b, other.thumbprint_sha256_b64()));
    }
  }
  let proj = match j.to_public() {
    None => "none".to_string(),
    Some(p) => {
      let pm = members_of(&p);
      let pf = fam_of(p.params());
      if pm.iter().any(|(k, _)| private_names(pf).contains(&k.as_str())) && fail.is_none() {
        fail = Some("projection-leaks-private-member:".into());
      }
      let pj = p.to_json().unwrap_or_default();
      for n in private_names(pf) {
        if pj.contains(&format!("\"{}\":", n)) && fail.is_none() {
          fail = Some(format!("projection-leaks-private-member:{} in JSON", n));
        }
      }
      for n in required_names(f) {
        if pm.iter().find(|(k, _)| k == n) != ms.iter().find(|(k, _)| k == n) && fail.is_none() {
          fail = Some(format!("projection-changes-public-member:{}", n));
        }
      }
      if p.kty() != j.params().kty() && fail.is_none() {
        fail = Some("projection-changes-kty:".into());
      }
      if !p.is_public() && fail.is_none() {
        fail = Some("projection-not-public:".into());
      }
      match p.to_public() {
        Some(pp) if pp == p => {}
        _ => {
          if fail.is_none() {
            fail = Some("projection-not-idempotent:".into())
          }
        }
      }
      if p.thumbprint_hash_input() != j.thumbprint_hash_input() && j.kty() == j.params().kty() && fail.is_none() {
        fail = Some("thumbprint-depends-on-private-part:".into());
      }
      format!("{};{};{}", show_members(&pm), ops_names(&p), kty_name(p.kty()))
    }
  };
  (
    // `t=`: the hash input as the exact text it is (compared with the text-level model, IdModel/Jwk/Thumb.lean)
    format!("ok:{}:{}:{}:{}:{}:{}:t={}", kty_name(j.kty()), f, j.is_public() as u8, j.is_private() as u8, thumb_members(j), proj, crate::rng::hex(j.thumbprint_hash_input().as_bytes())),
    fail,
  )
}

fn json_of(kty: &str, ms: &[(String, String)], opts: &[(String, String)], perm: u64) -> String {
  let mut members: Vec<(String, serde_json::Value)> = vec![];
  if kty != "-" {
    members.push(("kty".into(), serde_json::json!(kty)));
  }
  for (k, v) in ms {
    if k == "oth" {
      members.push((k.clone(), serde_json::json!([{"r": v, "d": "dd", "t": "tt"}])));
    } else {
      members.push((k.clone(), serde_json::json!(v)));
    }
  }
  for (k, v) in opts {
    match k.as_str() {
      "ops" => members.push(("key_ops".into(), serde_json::json!(if v.is_empty() { vec![] } else { v.split('+').map(|o| {
        // variant name -> JSON name
        let mut s = String::new();
        for (i, c) in o.chars().enumerate() { if i > 0 && c.is_uppercase() { s.push(c); } else { s.push(c.to_ascii_lowercase()); } }
        s
      }).collect::<Vec<_>>() }))),
      _ => members.push((k.clone(), serde_json::json!(v))),
    }
  }
  // permute member order
  let mut r = Rng::new(perm);
  for i in (1..members.len()).rev() {
    let j = r.below(i as u64 + 1) as usize;
    members.swap(i, j);
  }
  let body: Vec<String> = members.iter().map(|(k, v)| format!("{}:{}", serde_json::json!(k), v)).collect();
  format!("{{{}}}", body.join(","))
}

fn params_of(fam: &str, ms: &[(String, String)]) -> Option<JwkParams> {
  let get = |n: &str| ms.iter().find(|(k, _)| k == n).map(|(_, v)| v.clone());
  Some(match fam {
    "EC" => {
      let mut p = JwkParamsEc::new();
      p.crv = get("crv")?;
      p.x = get("x")?;
      p.y = get("y")?;
      p.d = get("d");
      JwkParams::Ec(p)
    }
    "RSA" => {
      let mut p = JwkParamsRsa::new();
      p.n = get("n")?;
      p.e = get("e")?;
      p.d = get("d");
      p.p = get("p");
      p.q = get("q");
      p.dp = get("dp");
      p.dq = get("dq");
      p.qi = get("qi");
      p.oth = get("oth").map(|r| vec![identity_jose::jwk::JwkParamsRsaPrime { r, d: "dd".into(), t: "tt".into() }]);
      JwkParams::Rsa(p)
    }
    "oct" => {
      let mut p = JwkParamsOct::new();
      p.k = get("k")?;
      JwkParams::Oct(p)
    }
    "OKP" => {
      let mut p = JwkParamsOkp::new();
      p.crv = get("crv")?;
      p.x = get("x")?;
      p.d = get("d");
      JwkParams::Okp(p)
    }
    _ => return None,
  })
}
fn kty_of(t: &str) -> Option<JwkType> {
  Some(match t {
    "EC" => JwkType::Ec,
    "RSA" => JwkType::Rsa,
    "oct" => JwkType::Oct,
    "OKP" => JwkType::Okp,
    _ => return None,
  })
}

pub fn run(args: &[&str]) -> String {
  let with = |(obs, f): (String, Option<String>)| match f {
    Some(f) => format!("{}\t#FAIL:{}", obs, f),
    None => obs,
  };
  match args {
    ["json", kty, ms, os, perm] => {
      let (Some(ms), Some(os), Ok(perm)) = (pairs(ms), pairs(os), perm.parse::<u64>()) else { return "bad-request".into() };
      let js = json_of(kty, &ms, &os, perm);
      match Jwk::from_json(&js) {
        Err(_) => "err".into(),
        Ok(j) => {
          let (obs, mut f) = show_key(&j);
          // member order must not matter
          if let Ok(j0) = Jwk::from_json(&json_of(kty, &ms, &os, 0)) {
            if (j0.thumbprint_hash_input() != j.thumbprint_hash_input() || j0.thumbprint_sha256_b64() != j.thumbprint_sha256_b64()) && f.is_none() {
              f = Some("thumbprint-depends-on-member-order:".into());
            }
          }
          // optional members must not matter
          if let Ok(j1) = Jwk::from_json(&json_of(kty, &ms, &[], perm)) {
            if (j1.thumbprint_hash_input() != j.thumbprint_hash_input() || j1.thumbprint_sha256_b64() != j.thumbprint_sha256_b64()) && f.is_none() {
              f = Some("thumbprint-depends-on-optional-members:".into());
            }
          }
          // JSON round trip of accepted keys
          match j.to_json().ok().and_then(|s| Jwk::from_json(&s).ok()) {
            Some(j2) if j2 == j => {}
            _ => {
              if f.is_none() {
                f = Some("jwk-json-roundtrip:".into())
              }
            }
          }
          with((obs, f))
        }
      }
    }
    ["new", kty] => {
      let Some(k) = kty_of(kty) else { return "bad-request".into() };
      with(show_key(&Jwk::new(k)))
    }
    ["setkty", _k1, fam, ms, k2] => {
      let (Some(ms), Some(k2)) = (pairs(ms), kty_of(k2)) else { return "bad-request".into() };
      let Some(p) = params_of(fam, &ms) else { return "bad-request".into() };
      let mut j = Jwk::from_params(p);
      j.set_kty(k2);
      with(show_key(&j))
    }
    ["setparams", k1, fam, ms] => {
      let (Some(ms), Some(k1)) = (pairs(ms), kty_of(k1)) else { return "bad-request".into() };
      let Some(p) = params_of(fam, &ms) else { return "bad-request".into() };
      let mut j = Jwk::new(k1);
      let before = j.clone();
      match j.set_params(p.clone()) {
        Ok(()) => with(show_key(&j)),
        Err(_) => {
          // a refused setter leaves the key as it was, also when the key already carried parameters
          let mut f = if j != before || j.kty() != j.params().kty() { Some("setter-error-changed-value:set_params refused the parameters but stored them".to_string()) } else { None };
          for fam2 in [JwkType::Ec, JwkType::Rsa, JwkType::Oct, JwkType::Okp] {
            let mut full = Jwk::new(fam2);
            if let Some(own) = params_of(kty_name(fam2), &[("crv".into(), "c".into()), ("x".into(), "x".into()), ("y".into(), "y".into()), ("n".into(), "n".into()), ("e".into(), "e".into()), ("k".into(), "k".into())]) {
              let _ = full.set_params(own);
            }
            let b2 = full.clone();
            if full.set_params(p.clone()).is_err() && (full != b2 || full.kty() != full.params().kty()) && f.is_none() {
              f = Some(format!("setter-error-changed-value:set_params on a {} key refused the parameters but stored them", kty_name(fam2)));
            }
          }
          with(("err".into(), f))
        }
      }
    }
    ["method", fam, ms] => {
      let Some(ms) = pairs(ms) else { return "bad-request".into() };
      let Some(p) = params_of(fam, &ms) else { return "bad-request".into() };
      let j = Jwk::from_params(p);
      let f = fam_of(j.params());
      let has_private = ms.iter().any(|(k, _)| private_names(f).contains(&k.as_str()));
      // the other constructors: the builder, the conversion from a did:jwk, the did:jwk document expansion, and
      // deserialisation (a JSON document is not "built through the library's constructors", it is only walked)
      let leaks = |js: &str| private_names(f).iter().any(|n| js.contains(&format!("\"{}\":", n)));
      let mut extra: Option<String> = None;
      {
        use identity_verification::{MethodData, MethodType};
        let did = CoreDID::parse("did:example:abc").unwrap();
        let built = VerificationMethod::builder(Default::default())
          .id(identity_did::DIDUrl::parse("did:example:abc#k").unwrap())
          .controller(did.clone())
          .type_(MethodType::JSON_WEB_KEY_2020)
          .data(MethodData::PublicKeyJwk(j.clone()))
          .build();
        if let Ok(m) = &built {
          if has_private || leaks(&m.to_json().unwrap_or_default()) {
            extra = Some("method-carries-private-key:MethodBuilder::build".into());
          }
        } else if !has_private {
          extra = Some("method-rejects-public-key:MethodBuilder::build".into());
        }
        if let Ok(enc) = identity_jose::jwu::encode_b64_json(&j) {
          if let Ok(dj) = identity_did::DIDJwk::parse(&format!("did:jwk:{}", enc)) {
            if let Ok(m) = VerificationMethod::try_from(dj.clone()) {
              if (has_private || leaks(&m.to_json().unwrap_or_default())) && extra.is_none() {
                extra = Some("method-carries-private-key:TryFrom<DIDJwk> for VerificationMethod".into());
              }
            }
            if let Ok(doc) = identity_document::document::CoreDocument::expand_did_jwk(dj) {
              if (has_private || leaks(&doc.to_json().unwrap_or_default())) && extra.is_none() {
                extra = Some("method-carries-private-key:CoreDocument::expand_did_jwk".into());
              }
            }
          }
        }
      }
      match VerificationMethod::new_from_jwk(CoreDID::parse("did:example:abc").unwrap(), j, Some("#k")) {
        Ok(m) => {
          let js = m.to_json().unwrap_or_default();
          let leak = has_private || leaks(&js);
          with(("ok".into(), if leak { Some("method-carries-private-key:".into()) } else { extra }))
        }
        Err(_) => with(("err".into(), if !has_private { Some("method-rejects-public-key:".into()) } else { extra })),
      }
    }
    ["storage", n] => {
      let Ok(n) = n.parse::<u64>() else { return "bad-request".into() };
      match storage_scan(n) {
        None => "impl-only".into(),
        Some(f) => format!("impl-only\t#FAIL:{}", f),
      }
    }
    _ => "bad-request".into(),
  }
}

/// generated key output and documents produced by key generation never contain private members
fn storage_scan(n: u64) -> Option<String> {
  use identity_core::common::Object;
  use identity_document::document::CoreDocument;
  use identity_jose::jws::JwsAlgorithm;
  use identity_storage::{JwkDocumentExt, JwkMemStore, JwkStorage, KeyIdMemstore, Storage};
  use identity_verification::MethodScope;
  let rt = tokio::runtime::Builder::new_current_thread().build().unwrap();
  let store = JwkMemStore::new();
  let out = rt.block_on(store.generate(JwkMemStore::ED25519_KEY_TYPE, JwsAlgorithm::EdDSA)).ok()?;
  let js = out.jwk.to_json().ok()?;
  if js.contains("\"d\":") || !out.jwk.is_public() {
    return Some("generate-output-carries-private-key:".into());
  }
  if out.jwk.kid() != Some(out.jwk.thumbprint_sha256_b64().as_str()) {
    return Some("generate-kid-not-thumbprint:".into());
  }
  let storage = Storage::new(JwkMemStore::new(), KeyIdMemstore::new());
  let mut doc = CoreDocument::builder(Object::new()).id(CoreDID::parse("did:example:gen").unwrap()).build().unwrap();
  let frag = if n % 2 == 0 { Some("k") } else { None };
  rt.block_on(doc.generate_method(&storage, JwkMemStore::ED25519_KEY_TYPE, JwsAlgorithm::EdDSA, frag, MethodScope::VerificationMethod)).ok()?;
  let dj = doc.to_json().ok()?;
  if dj.contains("\"d\":") {
    return Some("document-carries-private-key:".into());
  }
  None
}

pub fn gen(thorough: bool, seed: u64, out: &mut impl Write) {
  let mut r = Rng::new(seed ^ 0xC18);
  let ktys = ["EC", "RSA", "oct", "OKP", "bad", "-"];
  // member pools per family
  let fams: [(&str, Vec<(&str, &str)>, Vec<(&str, &str)>); 4] = [
    ("EC", vec![("crv", "P-256"), ("x", "xx"), ("y", "yy")], vec![("d", "secret")]),
    ("RSA", vec![("n", "nn"), ("e", "AQAB")], vec![("d", "s1"), ("p", "s2"), ("q", "s3"), ("dp", "s4"), ("dq", "s5"), ("qi", "s6"), ("oth", "s7")]),
    ("oct", vec![("k", "kk")], vec![]),
    ("OKP", vec![("crv", "Ed25519"), ("x", "xx")], vec![("d", "secret")]),
  ];
  let optsets = ["-", "kid=k1", "kid=AAAAAAAAAAAAAAAAAAAAAAAAAAAAAAAAAAAAAAAAAAA", "kid=NzbLsXh8uDCcd-6MNwXF4W_7noWXFZAfHkxZsRGC9Xs,alg=ES256", "use=sig,alg=EdDSA,kid=k1", "ops=Sign", "ops=Verify+Sign", "ops=Encrypt+WrapKey+DeriveKey+ProofGeneration,kid=k", "ops="];
  for (fam, req, priv_) in &fams {
    // every subset of private members (RSA: 128), every declared kty, missing one required member
    let np = priv_.len();
    for mask in 0..(1u32 << np) {
      let mut ms: Vec<String> = req.iter().map(|(k, v)| format!("{}={}", k, v)).collect();
      for (i, (k, v)) in priv_.iter().enumerate() {
        if mask >> i & 1 == 1 {
          ms.push(format!("{}={}", k, v));
        }
      }
      let mstr = ms.join(",");
      for kty in ktys {
        if kty != *fam && mask != 0 && mask != (1 << np) - 1 && np > 1 {
          continue;
        }
        for o in optsets.iter().take(if kty == *fam { optsets.len() } else { 2 }) {
          writeln!(out, "C18 json {} {} {} {}", kty, mstr, o, r.below(1000)).unwrap();
        }
      }
      writeln!(out, "C18 method {} {}", fam, mstr).unwrap();
      writeln!(out, "C18 setparams {} {} {}", fam, fam, mstr).unwrap();
      for k2 in ["EC", "RSA", "oct", "OKP"] {
        if mask == 0 || mask == (1 << np) - 1 {
          writeln!(out, "C18 setkty {} {} {} {}", fam, fam, mstr, k2).unwrap();
          if k2 != *fam {
            writeln!(out, "C18 setparams {} {} {}", k2, fam, mstr).unwrap();
          }
        }
      }
    }
    for drop in 0..req.len() {
      let ms: Vec<String> = req.iter().enumerate().filter(|(i, _)| *i != drop).map(|(_, (k, v))| format!("{}={}", k, v)).collect();
      let mstr = if ms.is_empty() { "-".to_string() } else { ms.join(",") };
      writeln!(out, "C18 json {} {} - 0", fam, mstr).unwrap();
    }
    writeln!(out, "C18 new {}", fam).unwrap();
  }
  // declared-type / parameter-family mismatches and mixed member sets
  let mixes = [
    "crv=Ed25519,x=abc", "crv=Ed25519,x=abc,y=zz", "crv=Ed25519,x=abc,y=zz,d=s", "n=nn,e=ee,k=kk", "k=kk,crv=c,x=x", "n=nn,e=ee,crv=c,x=x,y=y", "k=kk", "n=nn,e=ee,d=s,crv=c,x=x",
    "crv=P-256,x=xx,y=yy,n=nn,e=ee,k=kk", "x=xx,y=yy", "-",
  ];
  for m in mixes {
    for kty in ktys {
      for perm in 0..(if thorough { 6 } else { 2 }) {
        writeln!(out, "C18 json {} {} kid=k,ops=Sign {}", kty, m, perm).unwrap();
      }
    }
  }
  // member order permutations of complete keys
  for _ in 0..(if thorough { 3000 } else { 300 }) {
    let (fam, req, priv_) = &fams[r.below(4) as usize];
    let mut ms: Vec<String> = req.iter().map(|(k, v)| format!("{}={}", k, v)).collect();
    for (k, v) in priv_ {
      if r.chance(1, 2) {
        ms.push(format!("{}={}", k, v));
      }
    }
    writeln!(out, "C18 json {} {} {} {}", fam, ms.join(","), r.pick(&optsets), r.next() % 100000).unwrap();
  }
  for k in 0..(if thorough { 40 } else { 6 }) {
    writeln!(out, "C18 storage {}", k).unwrap();
  }
}
