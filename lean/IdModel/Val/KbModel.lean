import IdModel.Doc.Model
import IdModel.Time.Model
import IdModel.Gen.C16
/-!
Model of `SdJwtCredentialValidator::validate_key_binding_jwt` (property C16).  The hash over the presented token
and disclosures is a number (`digest`), the signature scheme a parameter as in C02/C03, the holder document the C04
model.  The SD-JWT credential path is the C02 model with its disclosure flag.
-/
namespace IdModel.Val
open IdModel.Doc IdModel.Time

structure KbClaims where
  sdHash : Nat
  nonce : Nat
  aud : Nat
  iat : Int
  deriving DecidableEq, Repr

structure KbTok where
  /-- the SD-JWT carries a key-binding JWT -/
  present : Bool
  /-- the hash algorithm named in the signed claims is supported -/
  hasherOk : Bool
  /-- `typ` of the KB-JWT header: absent, or whether it equals the expected value -/
  typ : Option Bool
  kid : Option (Option Id)
  sigKey : Nat
  claims : Option KbClaims

structure KbOpts where
  methodId : Option Id
  scope : Option Scope
  nonce : Option Nat
  aud : Option Nat
  earliest : Option Int
  latest : Option Int
  /-- the wall clock, used when no latest issuance date is configured -/
  now : Int

inductive KbErr
  | missing | hasher | typ | kidMissing | kidParse | methodLookup | signature | panic | deser
  | digest | nonce | aud | iatRange | tooEarly | tooLate | future
  deriving DecidableEq, Repr

def kbMethodId (tok : KbTok) (o : KbOpts) : Except KbErr Id :=
  match o.methodId with
  | some m => .ok m
  | none =>
    match tok.kid with
    | none => .error .kidMissing
    | some none => .error .kidParse
    | some (some i) => .ok i

/-- the checks on the claims, in the regenerated order -/
def kbClaimCheck (digest : Nat) (c : KbClaims) (o : KbOpts) : String → Option KbErr
  | "digest" => if c.sdHash ≠ digest then some .digest else none
  | "nonce" => match o.nonce with
    | some n => if n ≠ c.nonce then some .nonce else none
    | none => none
  | "aud" => match o.aud with
    | some a => if a ≠ c.aud then some .aud else none
    | none => none
  | "iat" => match fromUnix c.iat with
    | .ok _ => none
    | _ => some .iatRange
  | "earliest" => match o.earliest with
    | some e => if c.iat < e then some .tooEarly else none
    | none => none
  | "latest" => match o.latest with
    | some l => if l < c.iat then some .tooLate else none
    | none => if o.now < c.iat then some .future else none
  | _ => none

def firstErr (digest : Nat) (c : KbClaims) (o : KbOpts) : List String → Option KbErr
  | [] => none
  | n :: t =>
    match kbClaimCheck digest c o n with
    | some e => some e
    | none => firstErr digest c o t

/-- `validate_key_binding_jwt` -/
def validateKb (doc : Doc) (digest : Nat) (tok : KbTok) (o : KbOpts) : Except KbErr KbClaims :=
  if !tok.present then .error .missing
  else if !tok.hasherOk then .error .hasher
  else if tok.typ ≠ some true then .error .typ
  else
    match kbMethodId tok o with
    | .error e => .error e
    | .ok mid =>
      match resolveMethod doc (Query.ofId mid) o.scope with
      | none => .error .methodLookup
      | some m =>
        if m.body = 0 then .error .methodLookup
        else if m.body ≠ tok.sigKey then (if Gen.C16.kbSignatureIsError then .error .signature else .error .panic)
        else
          match tok.claims with
          | none => .error .deser
          | some c =>
            match firstErr digest c o Gen.C16.kbChecks with
            | some e => .error e
            | none => .ok c

end IdModel.Val
