import IdModel.Did.Model
import IdModel.Gen.C17
/-!
Model of `identity_iota_core::IotaDID` and `NetworkName` on top of `IdModel.Did` (property C17).
`IotaDID::parse` lower-cases its input with `str::to_lowercase` (Unicode); the model starts from
the lower-cased bytes, which the harness supplies (and checks against the implementation).
-/
namespace IdModel.IotaDid
open IdModel IdModel.Did IdModel.Gen.C17

/-- `denormalized_components`: split the method-specific id at its first `:` -/
def denorm (mid : Str) : Str × Str :=
  match mid.findIdx? (· == 58) with
  | some i => (mid.take i, mid.drop (i + 1))
  | none => (defaultNetwork, mid)

def isLowerAlnum (c : Nat) : Bool := (97 ≤ c && c ≤ 122) || (48 ≤ c && c ≤ 57)

/-- `NetworkName::validate_network_name` -/
def validNetwork (n : Str) : Bool := !n.isEmpty && n.length ≤ networkMaxLength && n.all isLowerAlnum

def hexVal (c : Nat) : Option Nat :=
  if 48 ≤ c && c ≤ 57 then some (c - 48)
  else if 97 ≤ c && c ≤ 102 then some (c - 87)
  else if 65 ≤ c && c ≤ 70 then some (c - 55)
  else none

/-- `hex::decode_to_slice` into a buffer of `n` bytes: exact length, every digit valid -/
def hexDecodeAux : Str → Option (List Nat)
  | [] => some []
  | [_] => none
  | a :: b :: r =>
    match hexVal a, hexVal b, hexDecodeAux r with
    | some x, some y, some t => some ((x * 16 + y) :: t)
    | _, _, _ => none

def hexDecode (n : Nat) (s : Str) : Option (List Nat) :=
  if s.length = 2 * n then hexDecodeAux s else none

/-- `prefix_hex::decode::<[u8; N]>` -/
def prefixHexDecode (n : Nat) (s : Str) : Option (List Nat) :=
  match s with
  | 48 :: 120 :: r => hexDecode n r
  | _ => none

def hexDigit (v : Nat) : Nat := if v < 10 then 48 + v else 87 + v

/-- `prefix_hex::encode` -/
def prefixHexEncode (bs : List Nat) : Str :=
  48 :: 120 :: bs.flatMap fun b => [hexDigit (b / 16), hexDigit (b % 16)]

/-- `IotaDID::check_validity`: method, tag, network — in that order -/
def checkValidity (d : CoreDid) : Bool :=
  d.method == method &&
    (prefixHexDecode tagBytesLen (denorm d.methodId).2).isSome &&
    validNetwork (denorm d.methodId).1

/-- `IotaDID::normalize`: drop an explicit default network -/
def normalize (d : CoreDid) : Outcome DErr CoreDid :=
  let mid := d.methodId
  let nt := denorm mid
  if nt.2.length == mid.length || nt.1 != defaultNetwork then .ok d
  else match setMethodId d nt.2 with
    | some d' => .ok d'
    | none => .panic "iota_did.rs:normalize:expect"

/-- validity check + normalisation -/
def tryFromCoreChecked (d : CoreDid) : Outcome DErr CoreDid :=
  if checkValidity d then normalize d else .err .invalid

def isUpper (c : Nat) : Bool := 65 ≤ c && c ≤ 90
def asciiLower (s : Str) : Str := s.map fun c => if isUpper c then c + 32 else c

/-- `IotaDID::try_from_core`: a DID containing upper-case characters is first re-parsed from its
lower-cased string (when the code does that) -/
def tryFromCore (d : CoreDid) : Outcome DErr CoreDid :=
  if tryFromCoreLowercases && d.str.any isUpper then
    match parseDid (asciiLower d.str) with
    | .ok d' => tryFromCoreChecked d'
    | .err e => .err e
    | .panic m => .panic m
  else tryFromCoreChecked d

/-- `IotaDID::parse` applied to the lower-cased input -/
def parseLower (lower : Str) : Outcome DErr CoreDid :=
  match parseDid lower with
  | .ok d => tryFromCore d
  | .err e => .err e
  | .panic m => .panic m

def network (d : CoreDid) : Str := (denorm d.methodId).1
def tag (d : CoreDid) : Str := (denorm d.methodId).2
def tagBytes (d : CoreDid) : Option (List Nat) := prefixHexDecode tagBytesLen (tag d)

/-- `IotaDID::new(bytes, network_name)`: format, then `parse(..).expect(..)` -/
def new (bytes : List Nat) (net : Str) : Outcome DErr CoreDid :=
  match parseLower ([100, 105, 100, 58] ++ method ++ [58] ++ net ++ [58] ++ prefixHexEncode bytes) with
  | .ok d => .ok d
  | _ => .panic "iota_did.rs:new:expect"

def isPlaceholder (d : CoreDid) : Bool := tag d == placeholderTag

end IdModel.IotaDid
