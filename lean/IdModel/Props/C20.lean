import IdModel.Resolver.Model
import IdModel.Doc.Resolve
/-!
# C20 — the resolver dispatches by DID method and is independent of completion order

Property theorems only.  `IdModel.Resolver.Model` transliterates `Resolver::{attach_handler, resolve,
resolve_multiple}` (de-duplication, completion-order collection that stops at the first error) and
`CoreDocument::expand_did_jwk` over the C04 document model.
-/
namespace IdModel.Props.C20
open IdModel.Resolver IdModel.Doc

/-- **dispatch by method**: exactly the handler registered for the DID's method is invoked, with that DID, and its
result is returned; without a handler for the method the error is `unsupported` and no handler is called -/
theorem resolve_dispatch (t : Table) (d : Did) :
    (t.get d.method = none → resolve t d = (.error (.unsupported d.method), [])) ∧
    (∀ h, t.get d.method = some h →
      (∀ c ∈ (resolve t d).2, c = (h.name, d)) ∧
      (resolve t d).1 = (match h.run d.id with
        | .parseError => .error (.parse d)
        | .fail => .error (.handler d)
        | .doc n => .ok n)) := by
  constructor
  · intro h; simp [resolve, h]
  · intro h hh
    simp only [resolve, hh]
    cases h.run d.id <;> simp

/-- the handler attached last for a method is the one that is used; other methods are unaffected -/
theorem attach_get (t : Table) (m : Nat) (h : Handler) (m' : Nat) :
    (t.attach m h).get m' = if m' = m then some h else t.get m' := by
  unfold Table.attach Table.get
  by_cases hm : m' = m
  · subst hm; simp
  · rw [if_neg hm, List.find?_cons]
    have : (m == m') = false := by simpa using fun e => hm e.symm
    simp only [this]
    congr 1
    induction t with
    | nil => rfl
    | cons x xs ih =>
      rw [List.filter_cons]
      by_cases hx : x.1 = m
      · have h1 : (!(x.1 == m)) = false := by simp [hx]
        have h2 : (x.1 == m') = false := by rw [hx]; simpa using fun e => hm e.symm
        simp only [h1, Bool.false_eq_true, ↓reduceIte, List.find?_cons, h2]
        exact ih
      · have h1 : (!(x.1 == m)) = true := by simp [hx]
        simp only [h1, ↓reduceIte, List.find?_cons]
        cases x.1 == m'
        · exact ih
        · rfl

theorem collect_ok_iff (t : Table) (ds : List Did) (r : List (Did × Nat)) :
    collect t ds = .ok r ↔ (r.map (·.1) = ds ∧ ∀ p ∈ r, (resolve t p.1).1 = .ok p.2) := by
  induction ds generalizing r with
  | nil =>
    simp only [collect]
    constructor
    · intro h; injection h with h; subst h; simp
    · rintro ⟨h, _⟩
      cases r with
      | nil => rfl
      | cons a b => simp at h
  | cons d ds ih =>
    unfold collect
    cases hr : (resolve t d).1 with
    | error e =>
      simp only
      constructor
      · intro h; cases h
      · rintro ⟨h1, h2⟩
        cases r with
        | nil => simp at h1
        | cons a b =>
          simp only [List.map_cons, List.cons.injEq] at h1
          have := h2 a List.mem_cons_self
          rw [h1.1, hr] at this; cases this
    | ok n =>
      simp only
      cases hc : collect t ds with
      | error e =>
        simp only
        constructor
        · intro h; cases h
        · rintro ⟨h1, h2⟩
          cases r with
          | nil => simp at h1
          | cons a b =>
            simp only [List.map_cons, List.cons.injEq] at h1
            have := (ih b).2 ⟨h1.2, fun p hp => h2 p (List.mem_cons_of_mem _ hp)⟩
            rw [hc] at this; cases this
      | ok r' =>
        simp only
        have ihr := (ih r').1 hc
        constructor
        · intro h
          injection h with h
          subst h
          refine ⟨by simp [ihr.1], ?_⟩
          intro p hp
          rcases List.mem_cons.1 hp with hp | hp
          · rw [hp]; exact hr
          · exact ihr.2 p hp
        · rintro ⟨h1, h2⟩
          cases r with
          | nil => simp at h1
          | cons a b =>
            simp only [List.map_cons, List.cons.injEq] at h1
            have hb := (ih b).2 ⟨h1.2, fun p hp => h2 p (List.mem_cons_of_mem _ hp)⟩
            rw [hc] at hb
            injection hb with hb
            have ha := h2 a List.mem_cons_self
            rw [h1.1, hr] at ha
            injection ha with ha
            have : a = (d, n) := by cases a; simp_all
            rw [this, hb]

/-- **independent of completion order**: for any two completion orders of the same DIDs, success in one is success in
the other, with the same entry for every DID — each equal to what single resolution returns -/
theorem multi_order_independent (t : Table) (o1 o2 : List Did) (hp : o1.Perm o2) (r1 : List (Did × Nat))
    (h1 : resolveMultiple t o1 = .ok r1) :
    ∃ r2, resolveMultiple t o2 = .ok r2 ∧ r2.Perm r1 ∧ ∀ p ∈ r2, (resolve t p.1).1 = .ok p.2 := by
  unfold resolveMultiple at *
  obtain ⟨e1, f1⟩ := (collect_ok_iff t o1 r1).1 h1
  -- every DID of o2 resolves
  have hall : ∀ d ∈ o2, ∃ n, (resolve t d).1 = .ok n := by
    intro d hd
    have : d ∈ r1.map (·.1) := by rw [e1]; exact hp.symm.subset hd
    obtain ⟨p, hp', hpd⟩ := List.mem_map.1 this
    exact ⟨p.2, by rw [← hpd]; exact f1 p hp'⟩
  -- build the result for o2
  have build : ∀ ds : List Did, (∀ d ∈ ds, ∃ n, (resolve t d).1 = .ok n) → ∃ r, collect t ds = .ok r := by
    intro ds
    induction ds with
    | nil => intro _; exact ⟨[], rfl⟩
    | cons d ds ih =>
      intro h
      obtain ⟨n, hn⟩ := h d List.mem_cons_self
      obtain ⟨r, hr⟩ := ih (fun x hx => h x (List.mem_cons_of_mem _ hx))
      exact ⟨(d, n) :: r, by simp [collect, hn, hr]⟩
  obtain ⟨r2, hr2⟩ := build o2 hall
  obtain ⟨e2, f2⟩ := (collect_ok_iff t o2 r2).1 hr2
  refine ⟨r2, hr2, ?_, f2⟩
  -- both are the map d ↦ (d, single result d) over permuted lists
  have key : ∀ (ds : List Did) (r : List (Did × Nat)), r.map (·.1) = ds → (∀ p ∈ r, (resolve t p.1).1 = .ok p.2) →
      r = ds.map (fun d => (d, match (resolve t d).1 with | .ok n => n | .error _ => 0)) := by
    intro ds
    induction ds with
    | nil => intro r h _; cases r with
      | nil => rfl
      | cons a b => simp at h
    | cons d ds ih =>
      intro r h f
      cases r with
      | nil => simp at h
      | cons a b =>
        simp only [List.map_cons, List.cons.injEq] at h
        have ha := f a List.mem_cons_self
        rw [List.map_cons, ih b h.2 (fun p hp => f p (List.mem_cons_of_mem _ hp))]
        congr 1
        cases a with
        | mk a1 a2 =>
          simp only at h ha
          rw [← h.1, ha]
  rw [key o1 r1 e1 f1, key o2 r2 e2 f2]
  exact (hp.map _).symm

/-- **fails if any one of them fails** (in every completion order), and succeeds if all succeed -/
theorem multi_fails_iff (t : Table) (order : List Did) :
    (∃ e, resolveMultiple t order = .error e) ↔ ∃ d ∈ order, ∃ e, (resolve t d).1 = .error e := by
  unfold resolveMultiple
  induction order with
  | nil => simp [collect]
  | cons d ds ih =>
    unfold collect
    cases hr : (resolve t d).1 with
    | error e =>
      simp only
      exact ⟨fun _ => ⟨d, List.mem_cons_self, e, hr⟩, fun _ => ⟨e, rfl⟩⟩
    | ok n =>
      simp only
      cases hc : collect t ds with
      | error e =>
        simp only
        have := ih.1 (by rw [hc]; exact ⟨e, rfl⟩)
        obtain ⟨x, hx, e', he'⟩ := this
        exact ⟨fun _ => ⟨x, List.mem_cons_of_mem _ hx, e', he'⟩, fun _ => ⟨e, rfl⟩⟩
      | ok r =>
        simp only
        constructor
        · rintro ⟨e, h⟩; cases h
        · rintro ⟨x, hx, e', he'⟩
          rcases List.mem_cons.1 hx with hx | hx
          · rw [hx, hr] at he'; cases he'
          · have := ih.2 ⟨x, hx, e', he'⟩
            rw [hc] at this
            obtain ⟨e, h⟩ := this
            cases h

/-- **exactly one entry per distinct input DID** -/
theorem dedup_spec (l : List Did) : (dedup l).Nodup ∧ ∀ d, d ∈ dedup l ↔ d ∈ l := by
  induction l with
  | nil => simp [dedup]
  | cons x t ih =>
    unfold dedup
    by_cases hc : t.contains x = true
    · rw [if_pos hc]
      refine ⟨ih.1, ?_⟩
      intro d
      rw [ih.2 d]
      have : x ∈ t := by simpa using hc
      constructor
      · exact fun h => List.mem_cons_of_mem _ h
      · intro h
        rcases List.mem_cons.1 h with h | h
        · rw [h]; exact this
        · exact h
    · rw [if_neg hc]
      have hx : x ∉ t := by simpa using hc
      refine ⟨List.nodup_cons.2 ⟨fun h => hx ((ih.2 x).1 h), ih.1⟩, ?_⟩
      intro d
      simp only [List.mem_cons, ih.2 d]

/-- **did:jwk**: the expansion is a document the library accepts, its single method carries exactly the key encoded
in the DID, and every relationship it lists refers to that method -/
theorem didjwk_spec (did key : Nat) :
    fromData (expandDidJwk did key).toData = some (expandDidJwk did key) ∧
    allMethods (expandDidJwk did key) = [⟨⟨did, 0, some 0⟩, key⟩] ∧
    (∀ r, ∀ e ∈ (expandDidJwk did key).getRel r, e = .refer ⟨did, 0, some 0⟩) ∧
    (∀ s, resolveMethod (expandDidJwk did key) ⟨none, some 0⟩ s = none ∨
      resolveMethod (expandDidJwk did key) ⟨none, some 0⟩ s = some ⟨⟨did, 0, some 0⟩, key⟩) := by
  have hrel : ∀ r, ∀ e ∈ (expandDidJwk did key).getRel r, e = .refer ⟨did, 0, some 0⟩ := by
    intro r e he
    cases r <;> simp [expandDidJwk, Doc.getRel, Gen.C20.didJwkRelationships] at he <;> first | exact he | cases he
  refine ⟨?_, ?_, hrel, ?_⟩
  · rw [fromData_iff]
    refine ⟨rfl, ?_⟩
    refine ⟨by simp [expandDidJwk, OSet.Uniq], ?_, by simp [expandDidJwk, OSet.Uniq], ?_, ?_, ?_, ?_⟩
    · intro r
      cases r <;> simp [expandDidJwk, Doc.getRel, Gen.C20.didJwkRelationships, OSet.Uniq]
    · intro r r' _ e he e' he' _
      rw [hrel r e he, hrel r' e' he']
      exact ⟨rfl, rfl⟩
    · intro v _ r e he hemb
      rw [hrel r e he] at hemb; cases hemb
    · intro s hs; simp [expandDidJwk] at hs
    · intro s hs; simp [expandDidJwk] at hs
  · simp [allMethods, expandDidJwk, relList, Gen.C04.allMethodsOrder, Rel.ofNat?, Doc.getRel, Gen.C20.didJwkRelationships,
      MRef.embedded?]
  · intro s
    cases hres : resolveMethod (expandDidJwk did key) ⟨none, some 0⟩ s with
    | none => left; rfl
    | some m =>
      right
      have hm := C04_sound (expandDidJwk did key) _ s m hres
      have : allMethods (expandDidJwk did key) = [⟨⟨did, 0, some 0⟩, key⟩] := by
        simp [allMethods, expandDidJwk, relList, Gen.C04.allMethodsOrder, Rel.ofNat?, Doc.getRel,
          Gen.C20.didJwkRelationships, MRef.embedded?]
      rw [this] at hm
      simp at hm
      rw [hm]
where
  C04_sound (d : Doc) (q : Query) (s : Option Scope) (m : Method) (h : resolveMethod d q s = some m) : m ∈ allMethods d := by
    have hvm : ∀ q', query Method.id d.vm q' = some m → m ∈ allMethods d :=
      fun q' h' => (mem_allMethods d m).2 (Or.inl (query_some_mem _ _ _ _ h').1)
    cases s with
    | none =>
      simp only [resolveMethod, resolveMethodInner] at h
      cases hfr : firstRel d q (relList Gen.C04.resolveOrder) with
      | none => rw [hfr] at h; exact hvm _ h
      | some e =>
        rw [hfr] at h
        obtain ⟨r, _, hq⟩ := firstRel_some d q e _ hfr
        cases e with
        | embed x =>
          simp only [Option.some.injEq] at h
          subst h
          exact (mem_allMethods d x).2 (Or.inr ⟨r, (query_some_mem _ _ _ _ hq).1⟩)
        | refer i => exact hvm _ h
    | some sc =>
      cases sc with
      | vm => exact hvm _ h
      | rel r =>
        simp only [resolveMethod] at h
        cases hq : query MRef.id (d.getRel r) q with
        | none => rw [hq] at h; cases h
        | some e =>
          rw [hq] at h
          cases e with
          | embed x =>
            simp only [resolveMethodRef, Option.some.injEq] at h
            subst h
            exact (mem_allMethods d x).2 (Or.inr ⟨r, (query_some_mem _ _ _ _ hq).1⟩)
          | refer i => exact hvm _ h

/-! ## non-vacuity -/

def hA : Handler := ⟨1, fun n => if n < 50 then .doc (1000 + n) else .fail⟩
def hB : Handler := ⟨2, fun n => if n % 2 = 0 then .doc (2000 + n) else .parseError⟩
def tbl : Table := (Table.attach [] 1 hA).attach 2 hB

deriving instance DecidableEq for Except

example : (resolve tbl ⟨1, 7⟩) = (.ok 1007, [(1, ⟨1, 7⟩)]) := by decide
example : (resolve tbl ⟨3, 7⟩) = (.error (.unsupported 3), []) := by decide
example : resolveMultiple tbl [⟨1, 7⟩, ⟨2, 4⟩] = .ok [(⟨1, 7⟩, 1007), (⟨2, 4⟩, 2004)] := by decide
example : resolveMultiple tbl [⟨2, 4⟩, ⟨1, 7⟩] = .ok [(⟨2, 4⟩, 2004), (⟨1, 7⟩, 1007)] := by decide
example : resolveMultiple tbl [⟨1, 7⟩, ⟨1, 70⟩, ⟨2, 4⟩] = .error (.handler ⟨1, 70⟩) := by decide

end IdModel.Props.C20
