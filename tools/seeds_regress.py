#!/usr/bin/env python3
"""Re-runs every kept seeded change against the CURRENT checks and the CURRENT /repo tree:
   git -C /repo apply seeded/<id>/patch.diff ; ./check <Cxx> ; git -C /repo checkout -- .
Writes seeded/REGRESSION.json (id -> applies / exit code / first verdict line).  /repo must be clean; nothing else may
run checks meanwhile (the patch is in /repo's working tree while a check runs)."""
import json, os, re, subprocess, sys, time
ROOT = os.path.dirname(os.path.dirname(os.path.abspath(__file__)))
only = sys.argv[1:]
if subprocess.run(["git", "-C", "/repo", "status", "--porcelain", "--untracked-files=no"], capture_output=True, text=True).stdout.strip():
    print("/repo is not clean"); sys.exit(2)
out = {}
p = os.path.join(ROOT, "seeded", "REGRESSION.json")
if os.path.exists(p) and only:
    out = json.load(open(p))
for d in sorted(os.listdir(os.path.join(ROOT, "seeded"))):
    m = re.fullmatch(r"(C\d\d)-\d+", d)
    if not m or (only and d not in only and m.group(1) not in only):
        continue
    pid = m.group(1)
    patch = os.path.join(ROOT, "seeded", d, "patch.diff")
    t0 = time.time()
    if subprocess.run(["git", "-C", "/repo", "apply", "--check", patch], capture_output=True).returncode != 0:
        out[d] = {"applies": False}
        print(d, "does not apply to the current tree"); continue
    subprocess.run(["git", "-C", "/repo", "apply", patch], check=True)
    try:
        r = subprocess.run([os.path.join(ROOT, "check"), pid], cwd=ROOT, capture_output=True, text=True)
    finally:
        subprocess.run(["git", "-C", "/repo", "checkout", "--", "."], check=True)
    lines = [l for l in r.stdout.splitlines() if re.search(r"^VIOLATION|oracle failed|correspondence broken|no longer checks|^OK property", l)]
    out[d] = {"applies": True, "exit": r.returncode, "detected": r.returncode == 1, "verdict": [l[:300] for l in lines[:4]], "wall_s": round(time.time() - t0, 1)}
    print(d, "exit", r.returncode, (lines[0][:120] if lines else ""), flush=True)
    json.dump(out, open(p, "w"), indent=1, sort_keys=True)
# evidence files were rewritten by the runs above: refresh them on the unchanged tree
for pid in sorted({re.match(r"C\d\d", d).group(0) for d in out}):
    subprocess.run([os.path.join(ROOT, "check"), pid], cwd=ROOT, capture_output=True)
json.dump(out, open(p, "w"), indent=1, sort_keys=True)
missed = [d for d, v in out.items() if v.get("applies") and not v.get("detected")]
print("seeds: %d, not applying: %d, missed: %s" % (len(out), len([1 for v in out.values() if not v.get("applies")]), missed))
