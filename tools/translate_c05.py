"""Generator for lean/IdModel/Gen/C05.lean: the inventory of panic-capable sites in the files C05 is anchored in, and the
shape flags of the byte-level decoders that the panic-aware models are parameterised by."""
import re
from rustexpr import strip_comments, strip_tests, match_brace, find_fn_body, Unsupported

ANCHORS = [
    "identity_did/src/did.rs",
    "identity_did/src/did_url.rs",
    "identity_did/src/did_jwk.rs",
    "identity_core/src/common/timestamp.rs",
    "identity_jose/src/jws/decoder.rs",
    "identity_jose/src/jwk/key.rs",
    "identity_jose/src/jwk/jwk_ext.rs",
    "identity_document/src/document/core_document.rs",
    "identity_iota_core/src/state_metadata/document.rs",
    "identity_iota_core/src/did/iota_did.rs",
    "identity_credential/src/validator/sd_jwt/validator.rs",
    "identity_credential/src/validator/jwt_credential_validation/jwt_credential_validator.rs",
    "identity_credential/src/validator/jwt_presentation_validation/jwt_presentation_validator.rs",
    "identity_credential/src/revocation/revocation_bitmap_2022/bitmap.rs",
    "identity_credential/src/revocation/status_list_2021/status_list.rs",
    "identity_credential/src/revocation/status_list_2021/credential.rs",
    "identity_credential/src/credential/revocation_bitmap_status.rs",
    "identity_credential/src/sd_jwt_vc/token.rs",
    "identity_credential/src/sd_jwt_vc/metadata/integrity.rs",
    "identity_storage/src/key_id_storage/method_digest.rs",
]

# Every other non-test source file of the library crates is inventoried too (tighter tie: a new panic-capable site anywhere in
# the library has to be classified).  Anchored files keep their short names; the others are named <crate>/<path below src/>.
CRATES = ["identity_core", "identity_did", "identity_document", "identity_verification", "identity_jose", "identity_credential",
          "identity_iota_core", "identity_storage", "identity_resolver", "identity_eddsa_verifier", "identity_ecdsa_verifier",
          "identity_stronghold"]


def extra_files(root=None):
    import glob, os
    root = root or os.environ.get("VERIF_REPO", "/repo")
    out = []
    for c in CRATES:
        for f in sorted(glob.glob("%s/%s/src/**/*.rs" % (root, c), recursive=True)):
            rel = os.path.relpath(f, root)
            base = os.path.basename(rel)
            if rel in ANCHORS or "/tests/" in rel or base in ("tests.rs", "test_utils.rs") or "/test_utils/" in rel:
                continue
            out.append(rel)
    return out


def short_name(rel):
    if rel in ANCHORS:
        return rel.split("/src/")[0].replace("identity_", "") + "/" + rel.rsplit("/", 1)[1]
    return rel.split("/src/")[0].replace("identity_", "") + "/" + rel.split("/src/", 1)[1]


KINDS = [
    ("unwrap", re.compile(r"\.unwrap\(\)")),
    ("expect", re.compile(r"\.expect\(")),
    ("unreachable", re.compile(r"\bunreachable!")),
    ("panic", re.compile(r"\b(?:panic|todo|unimplemented)!")),
    ("assert", re.compile(r"(?<![_\w])assert(?:_eq|_ne)?!")),
    ("index", re.compile(r"[A-Za-z0-9_\)\]]\[(?!\s*\])")),
]


def strip_strings(s):
    return re.sub(r'"(?:\\.|[^"\\])*"', '""', s)


def strip_attrs(s):
    return re.sub(r"#!?\[[^\]]*\]", "", s)


def drop_cfg_test_items(s):
    """drop single items (fn / impl / mod) under #[cfg(test)] that are not the trailing test module"""
    while True:
        m = re.search(r"#\[cfg\(test\)\]\s*(?:pub(?:\([a-z]+\))?\s+)?(?:fn|impl|mod)\b[^{;]*\{", s)
        if not m:
            return s
        end = match_brace(s, m.end() - 1)
        s = s[:m.start()] + s[end + 1:]


def functions(text):
    """(name, body) for every fn with a body; nested fns are reported on their own and also inside their parent"""
    out = []
    for m in re.finditer(r"\bfn\s+([A-Za-z_]\w*)", text):
        i = m.end()
        depth = 0
        j = i
        n = len(text)
        while j < n:
            c = text[j]
            if c in "([<":
                depth += 1 if c != "<" else 0
            elif c in ")]":
                depth -= 1
            elif c == "{" and depth == 0:
                break
            elif c == ";" and depth == 0:
                j = -1
                break
            j += 1
        if j < 0 or j >= n:
            continue
        end = match_brace(text, j)
        out.append((m.group(1), text[j:end + 1]))
    return out


def inventory(read):
    sites = []
    for rel in ANCHORS + extra_files():
        text = read(rel)
        text = drop_cfg_test_items(strip_tests(strip_comments(text)))
        text = strip_attrs(strip_strings(text))
        per = {}
        for name, body in functions(text):
            for kind, rx in KINDS:
                c = len(rx.findall(body))
                if c:
                    per[(name, kind)] = per.get((name, kind), 0) + c
        short = short_name(rel)
        for (name, kind), c in sorted(per.items()):
            sites.append((short, name, kind, c))
    return sites


def ws(s):
    return re.sub(r"\s+", "", s)


def gen_C05(read, log):
    out = ["/-! GENERATED by tools/translate.py (tools/translate_c05.py) from the files property C05 is anchored in.",
           "Do not edit: regenerated on every run. -/", "namespace IdModel.Gen.C05", ""]
    sites = inventory(read)
    out.append("/-- every panic-capable site outside test code in the anchored files: (file, function, kind, count), kinds\n"
               "`unwrap` `expect` `unreachable` `panic` `assert` `index` (an index or slice expression) -/")
    out.append("def sites : List (String × String × String × Nat) := [")
    out.append(",\n".join('  ("%s", "%s", "%s", %d)' % s for s in sites))
    out.append("]\n")
    nfiles = len(ANCHORS) + len(extra_files())
    out.append("/-- number of source files inventoried (anchored files + every other non-test file of the library crates) -/\ndef filesInventoried : Nat := %d\n" % nfiles)
    log("GEN panic-site inventory: %d sites in %d files (%d anchored)" % (len(sites), nfiles, len(ANCHORS)))

    # --- MethodDigest::unpack
    md = strip_comments(read("identity_storage/src/key_id_storage/method_digest.rs"))
    b = ws(find_fn_body(md, "unpack"))
    len_checked = b.startswith("ifbytes.len()!=9{returnErr(")
    m = re.search(r"letversion:u8=bytes\[0\];ifversion!=(\d+)\{returnErr\(", b)
    out.append("/-- `MethodDigest::unpack` refuses any length other than 9 before it indexes -/\ndef digestLenChecked : Bool := %s" % ("true" if len_checked else "false"))
    out.append("/-- the version byte `MethodDigest::unpack` accepts (`none`: the test was not found) -/\ndef digestVersion : Option Nat := %s" % ("some %s" % m.group(1) if m else "none"))
    sl = re.search(r"bytes\[(\d+)\.\.(\d+)\]\.try_into\(\)", b)
    if not sl:
        raise Unsupported("MethodDigest::unpack: value slice not found")
    out.append("/-- the value bytes: `bytes[lo..hi]` -/\ndef digestValueLo : Nat := %s\ndef digestValueHi : Nat := %s" % (sl.group(1), sl.group(2)))
    le = "from_le_bytes" in b
    out.append("/-- the value is read little-endian -/\ndef digestLittleEndian : Bool := %s" % ("true" if le else "false"))
    log("GEN MethodDigest::unpack: length guard %s, version %s, slice %s..%s" % (len_checked, m.group(1) if m else None, sl.group(1), sl.group(2)))

    # --- StateMetadataDocument::unpack: how each of the five reads is written
    sm = strip_comments(read("identity_iota_core/src/state_metadata/document.rs"))
    u = ws(find_fn_body(sm, "unpack"))
    reads = [("marker", r"\.get\(0\.\.=2\)\.ok_or\("), ("version", r"\.get\(3\)\.ok_or\("), ("encoding", r"\.get\(4\)\.ok_or\("),
             ("length", r"\.get\(5\.\.=6\)\.ok_or\("), ("payload", r"\.get\(7\.\.\(7\+data_lenasusize\)\)\.ok_or\(")]
    flags = []
    for name, pat in reads:
        flags.append(bool(re.search(pat, u)))
    raw = len(re.findall(r"data\[", u))
    out.append("/-- `StateMetadataDocument::unpack`: the reads of marker, version, encoding, length and payload are bounds-checked\n"
               "(`.get(..).ok_or(..)`) -/\ndef unpackChecked : List Bool := [%s]" % ", ".join("true" if f else "false" for f in flags))
    out.append("/-- unchecked index / slice expressions on the input in `unpack` -/\ndef unpackRawIndexing : Nat := %d" % raw)
    log("GEN StateMetadataDocument::unpack: checked reads %s, raw indexing %d" % (flags, raw))

    # --- IntegrityMetadata
    ig = strip_comments(read("identity_credential/src/sd_jwt_vc/metadata/integrity.rs"))
    tf = ws(ig[ig.index("impl TryFrom<String> for IntegrityMetadata"):])
    splits3 = "value.splitn(3,'-')" in tf
    md2 = re.search(r"let_digest=metadata_parts\.next\(\)\.and_then\(\|digest\|BaseEncoding::decode\(digest,Base::(\w+)\)\.ok\(\)\)\.ok_or_else\(", tf)
    alg = ws(find_fn_body(ig, "alg"))
    dig = ws(find_fn_body(ig, "digest"))
    dby = ws(find_fn_body(ig, "digest_bytes"))
    mb = re.fullmatch(r"BaseEncoding::decode\(self\.digest\(\),Base::(\w+)\)\.unwrap\(\)", dby)
    out.append("/-- `TryFrom<String>` splits with `splitn(3, '-')` -/\ndef integritySplitsN3 : Bool := %s" % ("true" if splits3 else "false"))
    out.append("/-- base in which `TryFrom<String>` requires the second part to decode (`\"\"`: no such requirement found) -/\ndef integrityParseBase : String := \"%s\"" % (md2.group(1) if md2 else ""))
    out.append("/-- `alg` is `split_once('-').unwrap().0` -/\ndef integrityAlgIsSplitOnce : Bool := %s" % ("true" if alg == "self.0.split_once('-').unwrap().0" else "false"))
    out.append("/-- `digest` is `split('-').nth(1).unwrap()` -/\ndef integrityDigestIsSecondOfSplit : Bool := %s" % ("true" if dig == "self.0.split('-').nth(1).unwrap()" else "false"))
    out.append("/-- base `digest_bytes` decodes (and unwraps) in -/\ndef integrityDigestBytesBase : String := \"%s\"" % (mb.group(1) if mb else ""))
    log("GEN IntegrityMetadata: splitn3 %s, parse base %s, digest_bytes base %s" % (splits3, md2.group(1) if md2 else None, mb.group(1) if mb else None))

    # --- LinkedDomainService / LinkedVerifiablePresentationService: which endpoint shapes check_structure refuses
    def arm(body, variant, what):
        m = re.search(re.escape("ServiceEndpoint::%s(" % variant) + r"\w+\)=>(\{?)(Err\(|Ok\(|.)", body)
        if not m:
            raise Unsupported("%s: arm for ServiceEndpoint::%s not found" % (what, variant))
        if m.group(2) == "Err(":
            return True
        if m.group(2) == "Ok(":
            return False
        return None
    ld = strip_comments(read("identity_credential/src/credential/linked_domain_service.rs"))
    ldc = ws(find_fn_body(ld, "check_structure"))
    ld_set = arm(ldc, "Set", "LinkedDomainService::check_structure")
    if ld_set is None:
        raise Unsupported("LinkedDomainService::check_structure: Set arm is neither Err nor Ok")
    ld_empty = "ifendpoint.is_empty(){returnErr(" in ldc
    ld_orig = bool(re.search(r'\.get\("origins"\)\.ok_or_else\(', ldc))
    if not ld_orig and '.get("origins")' not in ldc:
        raise Unsupported("LinkedDomainService::check_structure: origins lookup not found")
    lv = strip_comments(read("identity_credential/src/credential/linked_verifiable_presentation_service.rs"))
    lvc = ws(find_fn_body(lv, "check_structure"))
    lv_map = arm(lvc, "Map", "LinkedVerifiablePresentationService::check_structure")
    if lv_map is None:
        raise Unsupported("LinkedVerifiablePresentationService::check_structure: Map arm is neither Err nor Ok")
    b = lambda x: "true" if x else "false"
    out.append("/-- `LinkedDomainService::check_structure` refuses a set endpoint -/\ndef ldSetRefused : Bool := %s" % b(ld_set))
    out.append("/-- ... refuses an empty endpoint map -/\ndef ldEmptyMapRefused : Bool := %s" % b(ld_empty))
    out.append("/-- ... refuses an endpoint map without `origins` (`.get(\"origins\").ok_or_else(..)?`) -/\ndef ldOriginsRequired : Bool := %s" % b(ld_orig))
    out.append("/-- `LinkedVerifiablePresentationService::check_structure` refuses a map endpoint -/\ndef lvpMapRefused : Bool := %s" % b(lv_map))
    log("GEN linked services: ld set refused %s, empty map refused %s, origins required %s; lvp map refused %s" % (ld_set, ld_empty, ld_orig, lv_map))
    out.append("\nend IdModel.Gen.C05\n")
    return "\n".join(out)
