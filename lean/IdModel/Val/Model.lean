import IdModel.Doc.Model
import IdModel.Vc.Model
import IdModel.Bitmap.Model
import IdModel.Gen.C02
/-!
Model of `JwtCredentialValidator::{verify_signature, validate}` (property C02) over the document model of C04
(method resolution), the claims conversion of C07 and the status check of C06.

The signature scheme is a parameter: a token carries the number of the key that signed it and verifies under
exactly that key.  A method's `body` is the number of the public JWK it holds (0 = no JWK).  What the conversion
copies verbatim is represented by the facts validation looks at (`ctxOk`, `typeOk`, …).  The order of the
validation units is regenerated from the source (`IdModel.Gen.C02`).
-/
namespace IdModel.Val
open IdModel.Doc IdModel.Vc IdModel.Bitmap

inductive Relationship
  | alwaysSubject | subjectOnNonTransferable | any
  deriving DecidableEq, Repr

/-- `JwtCredentialValidationOptions` (with its `JwsVerificationOptions`) and `FailFast` -/
structure VOpts where
  nonce : Option Nat
  methodId : Option Id
  scope : Option Scope
  earliestExpiry : Int
  latestIssuance : Int
  subjectHolder : Option (Nat × Relationship)
  status : StatusCheck
  failFast : Bool

structure Token where
  /-- `kid` of the protected header: absent, not a DID URL, or the DID URL -/
  kid : Option (Option Id)
  nonce : Option Nat
  sigKey : Nat
  /-- the claims set (`none`: the payload does not deserialise as one) -/
  claims : Option Claims
  /-- the issuer URL is a DID -/
  issuerIsDid : Bool
  ctxOk : Bool
  typeOk : Bool
  subjPropsEmpty : Bool
  nonTransferable : Option Bool
  statusView : Option StatusView
  /-- SD-JWT only (C16): the disclosure decoder accepted the supplied disclosures against the signed claims; `claims`
  then is the claims set with the disclosed values put back.  Always `true` for a plain JWT. -/
  sdOk : Bool := true

inductive VErr
  | nonce | kidMissing | kidParse | documentMismatch | methodLookup | signature | claimsJson
  | sdDecode | claims (e : CErr) | signerUrl | identifierMismatch
  | issuanceDate | expirationDate | structure | subjectHolder | status (v : VRes)
  deriving DecidableEq, Repr

def issuerDid : Issuer → Nat
  | .url u => u
  | .obj u _ => u

/-- `parse_jwk`: the method id the token is verified against -/
def methodIdOf (tok : Token) (o : VOpts) : Except VErr Id :=
  match o.methodId with
  | some m => .ok m
  | none =>
    match tok.kid with
    | none => .error .kidMissing
    | some none => .error .kidParse
    | some (some i) => .ok i

/-- the key found for a method id: the issuer document is chosen by DID equality, the method resolved in scope -/
def keyOf (docs : List Doc) (mid : Id) (scope : Option Scope) : Except VErr Nat :=
  match docs.find? (fun d => d.id == mid.did) with
  | none => .error .documentMismatch
  | some d =>
    match resolveMethod d (Query.ofId mid) scope with
    | some m => if m.body = 0 then .error .methodLookup else .ok m.body
    | none => .error .methodLookup

/-- `verify_signature` -/
def verifySignature (docs : List Doc) (tok : Token) (o : VOpts) : Except VErr Cred :=
  if tok.nonce ≠ o.nonce then .error .nonce else
  match methodIdOf tok o with
  | .error e => .error e
  | .ok mid =>
    match keyOf docs mid o.scope with
    | .error e => .error e
    | .ok key =>
      if key ≠ tok.sigKey then .error .signature else
      if !tok.sdOk then .error .sdDecode else
      match tok.claims with
      | none => .error .claimsJson
      | some cl =>
        match tryIntoCredential cl with
        | .error e => .error (.claims e)
        | .ok c =>
          if !tok.issuerIsDid then .error .signerUrl
          else if issuerDid c.issuer ≠ mid.did then .error .identifierMismatch
          else .ok c

def vIssuance (c : Cred) (o : VOpts) : Bool := decide (c.issuance ≤ o.latestIssuance)
def vExpiry (c : Cred) (o : VOpts) : Bool := match c.expiration with
  | none => true
  | some e => decide (o.earliestExpiry ≤ e)
def vStructure (tok : Token) (c : Cred) : Bool := tok.ctxOk && tok.typeOk && !(c.subjectId.isNone && tok.subjPropsEmpty)
def vSubjectHolder (tok : Token) (c : Cred) (o : VOpts) : Bool := match o.subjectHolder with
  | none => true
  | some (h, rel) =>
    let urlMatches := c.subjectId == some h
    match rel with
    | .alwaysSubject => urlMatches
    | .subjectOnNonTransferable => urlMatches || !(tok.nonTransferable.getD false)
    | .any => true

/-- one validation unit: its name (as in the regenerated order) and the error it raises -/
def unit (docs : List Doc) (tok : Token) (c : Cred) (o : VOpts) (service : Option (List Nat)) : String → Option VErr
  | "issuance" => if vIssuance c o then none else some .issuanceDate
  | "expiry" => if vExpiry c o then none else some .expirationDate
  | "structure" => if vStructure tok c then none else some .structure
  | "subjectHolder" => if vSubjectHolder tok c o then none else some .subjectHolder
  | "status" =>
    match checkStatus o.status tok.statusView (docs.any (fun d => d.id == issuerDid c.issuer)) service with
    | .ok => none
    | v => some (.status v)
  | _ => none

/-- `validate_decoded_credential` -/
def validateDecoded (docs : List Doc) (tok : Token) (c : Cred) (o : VOpts) (service : Option (List Nat)) :
    Except (List VErr) Cred :=
  let errs := Gen.C02.units.filterMap (unit docs tok c o service)
  if errs.isEmpty then .ok c else .error (if o.failFast then errs.take 1 else errs)

/-- `validate` (one issuer document) / `verify_signature` + `validate_decoded_credential` (several) -/
def validate (docs : List Doc) (tok : Token) (o : VOpts) (service : Option (List Nat)) : Except (List VErr) Cred :=
  match verifySignature docs tok o with
  | .error e => .error [e]
  | .ok c => validateDecoded docs tok c o service

end IdModel.Val
