import IdModel.Core.Outcome
import IdModel.Gen.C12
/-!
Model of `StatusList2021` (status_list.rs), of the status-list credential's entry logic
(credential.rs) and of `check_status_with_status_list_2021` (property C12).
The bit expressions, index split, size formula and bounds tests come from `IdModel.Gen.C12`,
which is regenerated from the Rust source on every run.  A list is its byte vector (`List Nat`).
-/
namespace IdModel.Status
open IdModel IdModel.Gen.C12

inductive SErr
  | indexOutOfBounds | invalidListSize | unreversibleRevocation
  deriving Repr, DecidableEq

/-- `self.0[i] & MASK != 0` -/
def readBit (b offset : Nat) : Bool := (b &&& getMask offset) != 0

/-- `if value { self.0[i] |= M1 } else { self.0[i] &= M2 }` -/
def writeBit (b offset : Nat) (v : Bool) : Nat :=
  if v == trueSets then b ||| setMask offset else b &&& clearMask offset

/-- `StatusList2021::len` -/
def len (l : List Nat) : Nat := lenOf l.length

/-- `get_unchecked`: indexing out of range panics -/
def getUnchecked (l : List Nat) (index : Nat) : Outcome SErr Bool :=
  match l[(storeIndex index).1]? with
  | some b => .ok (readBit b (storeIndex index).2)
  | none => .panic "status_list.rs:get_unchecked:index"

/-- `set_unchecked` -/
def setUnchecked (l : List Nat) (index : Nat) (v : Bool) : Outcome SErr (List Nat) :=
  match l[(storeIndex index).1]? with
  | some b => .ok (l.set (storeIndex index).1 (writeBit b (storeIndex index).2 v))
  | none => .panic "status_list.rs:set_unchecked:index"

/-- `get`: `(index < self.len()).then_some(self.get_unchecked(index))` evaluates the read first;
`.then(|| …)` only inside the range. -/
def get (l : List Nat) (index : Nat) : Outcome SErr Bool :=
  if getEager then
    match getUnchecked l index with
    | .ok v => if getInRange index (len l) then .ok v else .err .indexOutOfBounds
    | .err e => .err e
    | .panic s => .panic s
  else if getInRange index (len l) then getUnchecked l index else .err .indexOutOfBounds

/-- `set` -/
def set (l : List Nat) (index : Nat) (v : Bool) : Outcome SErr (List Nat) :=
  if setInRange index (len l) then setUnchecked l index v else .err .indexOutOfBounds

/-- `new` -/
def new (numEntries : Nat) : Outcome SErr (List Nat) :=
  if tooSmall numEntries then .err .invalidListSize else .ok (List.replicate (byteSize numEntries) 0)

/-! ### credential layer -/

inductive Purpose | revocation | suspension
  deriving Repr, DecidableEq

inductive CredStatus | revoked | suspended | valid
  deriving Repr, DecidableEq

/-- `StatusList2021Credential::set_entry` / `MutStatusList::set_entry` on the decoded list. -/
def setEntry (p : Purpose) (l : List Nat) (index : Nat) (value : Bool) : Outcome SErr (List Nat) :=
  match get l index with
  | .ok entry =>
    if p == .revocation && !value && entry then .err .unreversibleRevocation else set l index value
  | .err e => .err e
  | .panic s => .panic s

/-- `StatusList2021Credential::entry` -/
def entry (p : Purpose) (l : List Nat) (index : Nat) : Outcome SErr CredStatus :=
  match get l index with
  | .ok true => .ok (match p with | .revocation => .revoked | .suspension => .suspended)
  | .ok false => .ok .valid
  | .err e => .err e
  | .panic s => .panic s

/-- a write history through the credential: failed writes leave the list unchanged -/
def runEntries (p : Purpose) (l : List Nat) (ws : List (Nat × Bool)) : List Nat :=
  ws.foldl (fun st w => match setEntry p st w.1 w.2 with | .ok l' => l' | _ => st) l

/-- the codec (gzip + base64) as an abstract pair; `dec (enc l) = some l` is a hypothesis of the
theorems that use it and is exercised on the implementation by the correspondence check -/
structure Codec where
  enc : List Nat → String
  dec : String → Option (List Nat)

/-- credential-level `set_entry` through the encoded list -/
def setEntryEncoded (c : Codec) (p : Purpose) (encoded : String) (index : Nat) (value : Bool) :
    Option (Outcome SErr String) :=
  match c.dec encoded with
  | none => none   -- InvalidEncoding
  | some l => some (match setEntry p l index value with
    | .ok l' => .ok (c.enc l')
    | .err e => .err e
    | .panic s => .panic s)

/-! ### validator -/

inductive StatusCheck | strict | skipUnsupported | skipAll
  deriving Repr, DecidableEq

inductive VRes | ok | invalidStatus | revoked | suspended | panic
  deriving Repr, DecidableEq

/-- the credential's status entry as far as the validator looks at it -/
structure StatusEntry where
  listCredential : String
  purpose : Purpose
  index : Nat

/-- `check_status_with_status_list_2021`.
`status = none`: no `credentialStatus`; `some none`: present but not a `StatusList2021Entry`. -/
def checkStatus (sc : StatusCheck) (status : Option (Option StatusEntry))
    (credId : Option String) (p : Purpose) (l : List Nat) : VRes :=
  if sc == .skipAll then .ok else
  match status with
  | none => .ok
  | some none => .invalidStatus
  | some (some st) =>
    if some st.listCredential == credId && st.purpose == p then
      match entry p l st.index with
      | .ok .revoked => .revoked
      | .ok .suspended => .suspended
      | .ok .valid => .ok
      | .err _ => .invalidStatus
      | .panic _ => .panic
    else .invalidStatus

end IdModel.Status
