//! C05 — no parser, decoder or validator panics on externally supplied data.
//!
//! Request: `C05 <entry> <hex input> [<hex aux>]`.  The entry point is run under `catch_unwind`; when it accepts the input, every
//! public accessor / formatter / serialiser of the accepted value is run too.  Reply:
//!   modelled entries (did, url, iota, ts, unpack, mdigest, integrity): the outcome class the Lean model also computes;
//!   other entries: `u:ok` / `u:err` (not compared: no model of the third-party parser behind them);
//!   a panic anywhere: `panic` + `#FAIL:panic@<entry>/<stage>@<file>:<message>`.
//! The harness is built with overflow checks (dev profile), so an arithmetic overflow is a panic too.
use crate::jwtu::*;
use crate::rng::{hex, unhex, Rng};
use identity_core::common::Duration;
use identity_core::common::Object;
use identity_core::common::Timestamp;
use identity_core::common::Url;
use identity_core::convert::FromJson;
use identity_core::convert::ToJson;
use identity_credential::credential::Credential;
use identity_credential::credential::Jwt;
use identity_credential::credential::RevocationBitmapStatus;
use identity_credential::credential::Status;
use identity_credential::presentation::JwtPresentationOptions;
use identity_credential::presentation::Presentation;
use identity_credential::revocation::status_list_2021::StatusList2021;
use identity_credential::revocation::status_list_2021::StatusList2021Credential;
use identity_credential::revocation::status_list_2021::StatusList2021Entry;
use identity_credential::revocation::RevocationBitmap;
use identity_credential::sd_jwt_payload::SdJwt;
use identity_credential::sd_jwt_payload::SdObjectDecoder;
use identity_credential::sd_jwt_vc::metadata::IntegrityMetadata;
use identity_credential::sd_jwt_vc::metadata::IssuerMetadata;
use identity_credential::sd_jwt_vc::metadata::TypeMetadata;
use identity_credential::sd_jwt_vc::SdJwtVc;
use identity_credential::validator::FailFast;
use identity_credential::validator::JwtCredentialValidationOptions;
use identity_credential::validator::JwtCredentialValidator;
use identity_credential::validator::JwtCredentialValidatorUtils;
use identity_credential::validator::JwtPresentationValidationOptions;
use identity_credential::validator::JwtPresentationValidator;
use identity_credential::validator::JwtPresentationValidatorUtils;
use identity_credential::validator::KeyBindingJWTValidationOptions;
use identity_credential::validator::SdJwtCredentialValidator;
use identity_did::CoreDID;
use identity_did::DIDJwk;
use identity_did::DIDUrl;
use identity_did::DID;
use identity_document::document::CoreDocument;
use identity_document::service::Service;
use identity_document::verifiable::JwsVerificationOptions;
use identity_iota_core::IotaDID;
use identity_iota_core::IotaDocument;
use identity_iota_core::StateMetadataDocument;
use identity_jose::jwk::Jwk;
use identity_jose::jwk::JwkSet;
use identity_jose::jws::Decoder;
use identity_jose::jws::JwsHeader;
use identity_jose::jws::JwsAlgorithm;
use identity_jose::jws::JwsVerifier;
use identity_jose::jws::VerificationInput;
use identity_ecdsa_verifier::EcDSAJwsVerifier;
use identity_eddsa_verifier::EdDSAJwsVerifier;
use identity_credential::credential::LinkedDomainService;
use identity_credential::credential::LinkedVerifiablePresentationService;
use identity_credential::domain_linkage::DomainLinkageConfiguration;
use identity_credential::domain_linkage::JwtDomainLinkageValidator;
use identity_storage::key_id_storage::MethodDigest;
use identity_verification::MethodScope;
use identity_verification::VerificationMethod;
use serde_json::Value;
use std::cell::RefCell;
use std::collections::hash_map::DefaultHasher;
use std::hash::Hash;
use std::hash::Hasher;
use std::io::Write;
use std::panic::AssertUnwindSafe;

thread_local! {
  static STAGE: RefCell<String> = RefCell::new(String::new());
  static PANIC: RefCell<Option<String>> = RefCell::new(None);
}
fn st(s: &str) {
  STAGE.with(|x| *x.borrow_mut() = s.to_string());
}
fn hook() {
  static ONCE: std::sync::Once = std::sync::Once::new();
  ONCE.call_once(|| {
    std::panic::set_hook(Box::new(|info| {
      let file = info.location().map(|l| l.file().rsplit('/').next().unwrap_or("?").to_string()).unwrap_or_default();
      let msg = if let Some(s) = info.payload().downcast_ref::<&str>() {
        s.to_string()
      } else if let Some(s) = info.payload().downcast_ref::<String>() {
        s.clone()
      } else {
        "?".into()
      };
      let msg: String = msg.chars().filter(|c| !c.is_control()).take(60).collect();
      PANIC.with(|p| *p.borrow_mut() = Some(format!("{}:{}", file, msg)));
    }));
  });
}

fn hash_of<T: Hash>(t: &T) -> u64 {
  let mut h = DefaultHasher::new();
  t.hash(&mut h);
  h.finish()
}

const MODELLED: [&str; 9] = ["did", "url", "iota", "ts", "unpack", "mdigest", "integrity", "linked", "linkednew"];

struct NoResolver;
#[async_trait::async_trait]
impl identity_credential::sd_jwt_vc::Resolver<Url, Vec<u8>> for NoResolver {
  async fn resolve(&self, input: &Url) -> Result<Vec<u8>, identity_credential::sd_jwt_vc::resolver::Error> {
    Err(identity_credential::sd_jwt_vc::resolver::Error::NotFound(input.to_string()))
  }
}
#[async_trait::async_trait]
impl identity_credential::sd_jwt_vc::Resolver<identity_core::common::StringOrUrl, Vec<u8>> for NoResolver {
  async fn resolve(&self, input: &identity_core::common::StringOrUrl) -> Result<Vec<u8>, identity_credential::sd_jwt_vc::resolver::Error> {
    Err(identity_credential::sd_jwt_vc::resolver::Error::NotFound(input.to_string()))
  }
}
#[async_trait::async_trait]
impl identity_credential::sd_jwt_vc::Resolver<Url, Value> for NoResolver {
  async fn resolve(&self, input: &Url) -> Result<Value, identity_credential::sd_jwt_vc::resolver::Error> {
    Err(identity_credential::sd_jwt_vc::resolver::Error::NotFound(input.to_string()))
  }
}

fn issuer_doc() -> CoreDocument {
  let did = "did:ex:i1";
  CoreDocument::from_json(&format!(
    r#"{{"id":"{d}","verificationMethod":[{{"id":"{d}#k0","controller":"{d}","type":"JsonWebKey2020","publicKeyJwk":{k}}}],"service":[{{"id":"{d}#rev","type":"RevocationBitmap2022","serviceEndpoint":"data:application/octet-stream;base64,eJyzMmAAAwADKABr"}}]}}"#,
    d = did,
    k = toy_jwk_json(10)
  ))
  .unwrap()
}

fn walk_did(d: &CoreDID) {
  st("method");
  let _ = (d.method().len(), d.method_id().len(), d.as_str().len(), d.authority().len());
  st("display");
  let _ = (format!("{}", d), format!("{:?}", d));
  st("to_url");
  let u = d.to_url();
  let _ = u.to_string();
  st("join");
  let _ = d.clone().join("#frag").map(|u| u.to_string());
  let _ = d.clone().join("?a=b").map(|u| u.to_string());
  st("serde");
  let j = d.to_json().unwrap_or_default();
  let _ = CoreDID::from_json(&j);
  st("hash-ord");
  let _ = (hash_of(d), d.cmp(d));
  st("conversions");
  let _ = (d.clone().into_string().len(), String::from(d.clone()).len(), d.clone().into_url().to_string().len(), DIDUrl::from(d.clone()).to_string().len());
  let _ = (d.scheme().len(), AsRef::<str>::as_ref(d).len(), d == d.as_str());
}
fn walk_url(u: &DIDUrl) {
  st("parts");
  let _ = (u.did().as_str().len(), u.path().map(|s| s.len()), u.query().map(|s| s.len()), u.fragment().map(|s| s.len()));
  st("query_pairs");
  let _ = u.query_pairs().count();
  st("display");
  let _ = (format!("{}", u), format!("{:?}", u));
  st("url_from");
  let _ = u.url();
  let x: Url = Url::from(u.clone());
  let _ = x.as_str().len();
  st("join");
  let _ = u.join("#x").map(|v| v.to_string());
  let _ = u.join("/p?q").map(|v| v.to_string());
  st("setters");
  let mut v = u.clone();
  let _ = v.set_fragment(Some("f"));
  let _ = v.set_query(None);
  let _ = v.set_path(Some("/a"));
  let _ = v.to_string();
  st("serde");
  let j = u.to_json().unwrap_or_default();
  let _ = DIDUrl::from_json(&j);
  st("hash-ord");
  let _ = (hash_of(u), u.cmp(u));
  st("conversions");
  let _ = (String::from(u.clone()).len(), u.url().to_string().len(), format!("{:?}", u.url()).len(), u.url().is_empty());
  let _ = u.clone().map(|d| d).to_string();
  let _ = DIDUrl::new(u.did().clone(), Some(u.url().clone())).to_string();
}

fn walk_jwk(j: &Jwk) {
  st("fields");
  let _ = (j.kty(), j.use_(), j.key_ops().map(|k| k.len()), j.alg(), j.kid(), j.x5u(), j.x5c().map(|c| c.len()), j.x5t(), j.x5t_s256());
  st("params");
  let _ = (j.try_ec_params().is_ok(), j.try_rsa_params().is_ok(), j.try_oct_params().is_ok(), j.try_okp_params().is_ok());
  st("thumbprint");
  let _ = j.thumbprint_sha256_b64();
  let _ = j.thumbprint_hash_input();
  st("is_public");
  let _ = (j.is_public(), j.is_private());
  st("to_public");
  if let Some(p) = j.to_public() {
    let _ = p.to_json();
  }
  st("check");
  let _ = j.check_alg("EdDSA");
  st("serde");
  let _ = j.to_json();
  let _ = format!("{:?}", j);
  // the library's own signature verifiers, handed this (externally supplied) key: every algorithm name, signatures of the
  // usual lengths; a verifier has to answer with an error, whatever the key members decode to
  for alg in [JwsAlgorithm::EdDSA, JwsAlgorithm::ES256, JwsAlgorithm::ES256K, JwsAlgorithm::ES384, JwsAlgorithm::HS256, JwsAlgorithm::RS256, JwsAlgorithm::NONE] {
    for n in [0usize, 64, 65] {
      st("eddsa_verify");
      let _ = EdDSAJwsVerifier::default().verify(VerificationInput { alg, signing_input: b"a.b".to_vec().into(), decoded_signature: vec![1u8; n].into() }, j).is_ok();
      st("ecdsa_verify");
      let _ = EcDSAJwsVerifier::default().verify(VerificationInput { alg, signing_input: b"a.b".to_vec().into(), decoded_signature: vec![1u8; n].into() }, j).is_ok();
    }
  }
  st("vm_from_jwk");
  if let Ok(did) = CoreDID::parse("did:ex:abc") {
    if let Ok(vm) = VerificationMethod::new_from_jwk(did, j.clone(), Some("k")) {
      st("mdigest_new");
      if let Ok(d) = MethodDigest::new(&vm) {
        let p = d.pack();
        let _ = MethodDigest::unpack(p);
      }
    }
  }
}

fn walk_doc(d: &CoreDocument) {
  st("id");
  let _ = (d.id().as_str().len(), d.controller().map(|c| c.len()), d.also_known_as().len());
  st("methods");
  for m in d.methods(None) {
    let _ = (m.id().to_string(), m.controller().as_str().len(), m.type_().to_string());
    st("method_data");
    let _ = m.data().try_decode();
    let _ = m.data().public_key_jwk().map(|j| j.thumbprint_sha256_b64());
    st("mdigest_new");
    let _ = MethodDigest::new(m);
    st("methods");
  }
  for sc in [MethodScope::authentication(), MethodScope::assertion_method(), MethodScope::key_agreement(), MethodScope::capability_delegation(), MethodScope::capability_invocation(), MethodScope::VerificationMethod] {
    let _ = d.methods(Some(sc)).len();
  }
  st("resolve");
  let _ = d.resolve_method("#k0", None).is_some();
  let _ = d.resolve_method("did:ex:i1#k0", Some(MethodScope::authentication())).is_some();
  let _ = d.resolve_service("#rev").is_some();
  st("services");
  for s in d.service().iter() {
    st("service_bitmap");
    let _ = RevocationBitmap::try_from(s).map(|b| (b.len(), b.is_revoked(0), b.is_revoked(u32::MAX)));
    st("services");
    let _ = s.to_json();
  }
  st("display");
  let _ = (format!("{}", d), format!("{:?}", d).len());
  st("serde");
  if let Ok(j) = d.to_json() {
    st("reparse");
    let _ = CoreDocument::from_json(&j);
  }
  st("verify_jws");
  let _ = d.verify_jws("a.b.c", None, &ToyVerifier, &JwsVerificationOptions::default());
  st("mutate");
  let mut e = d.clone();
  if let Some(m) = d.methods(None).first() {
    let id = m.id().clone();
    let _ = e.attach_method_relationship(&id, identity_verification::MethodRelationship::Authentication);
    let _ = e.detach_method_relationship(&id, identity_verification::MethodRelationship::Authentication);
    let _ = e.remove_method(&id);
    let _ = e.insert_method((*m).clone(), MethodScope::VerificationMethod);
  }
  let _ = e.to_json();
}

fn walk_cred(c: &Credential<Object>) {
  st("check_structure");
  let _ = c.check_structure();
  st("serialize_jwt");
  let _ = c.serialize_jwt(None);
  st("display");
  let _ = (format!("{}", c), format!("{:?}", c).len());
  st("serde");
  let _ = c.to_json();
  st("utils");
  let _ = JwtCredentialValidatorUtils::check_structure(c);
  let _ = JwtCredentialValidatorUtils::check_expires_on_or_after(c, Timestamp::from_unix(0).unwrap());
  let _ = JwtCredentialValidatorUtils::check_issued_on_or_before(c, Timestamp::from_unix(0).unwrap());
  let _ = JwtCredentialValidatorUtils::extract_issuer::<CoreDID, _>(c);
  st("subject_holder");
  for h in ["did:ex:s2", "did:ex:other", "https://a.example"] {
    if let Ok(h) = Url::parse(h) {
      for rel in [identity_credential::validator::SubjectHolderRelationship::AlwaysSubject, identity_credential::validator::SubjectHolderRelationship::SubjectOnNonTransferable, identity_credential::validator::SubjectHolderRelationship::Any] {
        let _ = JwtCredentialValidatorUtils::check_subject_holder_relationship(c, &h, rel);
      }
    }
  }
  st("check_status");
  let docs = [issuer_doc()];
  for sc in [identity_credential::validator::StatusCheck::Strict, identity_credential::validator::StatusCheck::SkipUnsupported] {
    let _ = JwtCredentialValidatorUtils::check_status(c, &docs, sc);
  }
  st("status_convert");
  if let Some(s) = c.credential_status.as_ref() {
    let _ = RevocationBitmapStatus::try_from(s.clone()).map(|r| (r.index(), r.id().map(|i| i.to_string())));
    let _ = StatusList2021Entry::try_from(s).map(|e| (e.index(), e.purpose(), e.status_list_credential().to_string()));
  }
  st("statuslist_cred");
  if let Ok(mut slc) = StatusList2021Credential::try_from(c.clone()) {
    let _ = (slc.id().map(|u| u.to_string()), slc.purpose());
    for i in [0usize, 1, 7, 8, 131071, 131072, usize::MAX] {
      st("statuslist_cred.entry");
      let _ = slc.entry(i);
    }
    st("statuslist_cred.set_credential_status");
    let mut other = c.clone();
    let _ = slc.set_credential_status(&mut other, 5, true);
    let _ = slc.set_credential_status(&mut other, usize::MAX, false);
    st("statuslist_cred.update");
    let _ = slc.update(|l| {
      let _ = l.set_entry(0, true);
      let _ = l.set_entry(usize::MAX, true);
      Ok(())
    });
    st("statuslist_cred.check");
    let _ = JwtCredentialValidatorUtils::check_status_with_status_list_2021(&other, &slc, identity_credential::validator::StatusCheck::Strict);
    let _ = JwtCredentialValidatorUtils::check_status_with_status_list_2021(c, &slc, identity_credential::validator::StatusCheck::Strict);
    let _ = slc.to_json();
  }
}

fn block<F: std::future::Future>(f: F) -> F::Output {
  futures::executor::block_on(f)
}

/// runs the entry point and, on acceptance, the accessors; Ok(true) = accepted
fn entry(name: &str, data: &[u8], aux: &[u8]) -> Option<bool> {
  let s = String::from_utf8_lossy(data).to_string();
  st("parse");
  Some(match name {
    "did" => match CoreDID::parse(&s) {
      Ok(d) => {
        walk_did(&d);
        true
      }
      Err(_) => false,
    },
    "url" => match DIDUrl::parse(&s) {
      Ok(u) => {
        walk_url(&u);
        true
      }
      Err(_) => false,
    },
    // the same strings through serde (a JSON string): Deserialize must be as total as `parse`
    "didserde" => match serde_json::from_str::<CoreDID>(&serde_json::to_string(&s).unwrap_or_default()) {
      Ok(d) => {
        walk_did(&d);
        true
      }
      Err(_) => false,
    },
    "urlserde" => match serde_json::from_str::<DIDUrl>(&serde_json::to_string(&s).unwrap_or_default()) {
      Ok(u) => {
        walk_url(&u);
        true
      }
      Err(_) => false,
    },
    "iotaserde" => match serde_json::from_str::<IotaDID>(&serde_json::to_string(&s).unwrap_or_default()) {
      Ok(d) => {
        st("accessors");
        let _ = (d.network_str().len(), d.tag_str().len(), d.to_string());
        st("conversions");
        let _ = (d.clone().into_string().len(), String::from(d.clone()).len(), CoreDID::from(d.clone()).as_str().len());
        true
      }
      Err(_) => false,
    },
    "didjwkserde" => match serde_json::from_str::<DIDJwk>(&serde_json::to_string(&s).unwrap_or_default()) {
      Ok(d) => {
        st("jwk");
        let _ = d.jwk();
        true
      }
      Err(_) => false,
    },
    "tsfromstr" => match s.parse::<Timestamp>() {
      Ok(t) => {
        st("to_rfc3339");
        let _ = (t.to_rfc3339(), t.to_unix());
        true
      }
      Err(_) => false,
    },
    // values BUILT through the setters (which validate on their own, not through the parser), then every accessor,
    // conversion and join on them
    "didset" => match CoreDID::parse(&s) {
      Ok(mut d) => {
        let v = String::from_utf8_lossy(aux).to_string();
        st("set_method_id");
        let a = d.set_method_id(&v).is_ok();
        if a {
          walk_did(&d);
          st("url-of-set-did");
          walk_url(&d.to_url());
          walk_url(&DIDUrl::from(d.clone()));
        }
        let mut d2 = CoreDID::parse(&s).unwrap();
        st("set_method_name");
        let b = d2.set_method_name(&v).is_ok();
        if b {
          walk_did(&d2);
          walk_url(&d2.to_url());
        }
        a || b
      }
      Err(_) => false,
    },
    "urlset" => match DIDUrl::parse(&s) {
      Ok(u) => {
        let v = String::from_utf8_lossy(aux).to_string();
        let mut any = false;
        for which in 0..3 {
          let mut w = u.clone();
          st("set_component");
          let r = match which {
            0 => w.set_path(Some(&v)),
            1 => w.set_query(Some(&v)),
            _ => w.set_fragment(Some(&v)),
          };
          if r.is_ok() {
            any = true;
            walk_url(&w);
            st("did-of-set-url");
            walk_did(w.did());
          }
        }
        any
      }
      Err(_) => false,
    },
    "join" => {
      let seg = String::from_utf8_lossy(aux).to_string();
      match DIDUrl::parse(&s) {
        Ok(u) => {
          st("join");
          match u.join(&seg) {
            Ok(v) => {
              walk_url(&v);
              true
            }
            Err(_) => false,
          }
        }
        Err(_) => false,
      }
    }
    "iota" => match IotaDID::parse(&s) {
      Ok(d) => {
        st("accessors");
        let _ = (d.network_str().len(), d.tag_str().len(), d.is_placeholder(), d.to_string(), format!("{:?}", d));
        let _ = d.to_url().to_string();
        let _ = d.clone().join("#x").map(|u| u.to_string());
        st("serde");
        let _ = IotaDID::from_json(&d.to_json().unwrap_or_default());
        walk_did(d.as_ref());
        st("conversions");
        let _ = (d.clone().into_string().len(), String::from(d.clone()).len(), CoreDID::from(d.clone()).as_str().len());
        let _ = (d.clone().into_url().to_string().len(), d.scheme().len(), d.authority().len(), d.method().len(), d.method_id().len());
        let _ = (IotaDID::check_validity(&d).is_ok(), IotaDID::is_valid(d.as_ref()), hash_of(&d), d.cmp(&d));
        let _ = IotaDID::try_from(CoreDID::from(d.clone())).map(|x| x.to_string());
        true
      }
      Err(_) => false,
    },
    "didjwk" => match DIDJwk::parse(&s) {
      Ok(d) => {
        st("jwk");
        let j = d.jwk();
        walk_jwk(&j);
        st("expand");
        let _ = CoreDocument::expand_did_jwk(d.clone()).map(|doc| walk_doc(&doc));
        st("serde");
        let _ = DIDJwk::from_json(&d.to_json().unwrap_or_default());
        let _ = (d.to_string(), hash_of(&d));
        st("conversions");
        let _ = (String::from(d.clone()).len(), CoreDID::from(d.clone()).as_str().len(), format!("{:?}", d).len());
        walk_did(d.as_ref());
        let _ = DIDJwk::try_from(CoreDID::from(d.clone())).map(|x| x.to_string());
        true
      }
      Err(_) => false,
    },
    "ts" => match Timestamp::parse(&s) {
      Ok(t) => {
        st("to_rfc3339");
        let _ = (t.to_rfc3339(), format!("{}", t), format!("{:?}", t));
        st("to_unix");
        let _ = t.to_unix();
        st("serde");
        let _ = Timestamp::from_json(&t.to_json().unwrap_or_default());
        st("arith");
        for d in [Duration::seconds(1), Duration::seconds(u32::MAX), Duration::days(u32::MAX), Duration::weeks(u32::MAX), Duration::minutes(u32::MAX)] {
          let _ = t.checked_add(d).map(|x| x.to_rfc3339());
          let _ = t.checked_sub(d).map(|x| x.to_rfc3339());
        }
        let _ = (hash_of(&t), t.cmp(&t));
        true
      }
      Err(_) => false,
    },
    "tsjson" => match Timestamp::from_json(&s) {
      Ok(t) => {
        st("to_rfc3339");
        let _ = (t.to_rfc3339(), t.to_unix(), t.to_json());
        true
      }
      Err(_) => false,
    },
    "jwk" => match Jwk::from_json(&s) {
      Ok(j) => {
        walk_jwk(&j);
        true
      }
      Err(_) => false,
    },
    "jwkext" => match serde_json::from_str::<jsonprooftoken::jwk::key::Jwk>(&s) {
      // a JWK of the third-party JSON-proof-token type, converted into the library's JWK and back
      Ok(x) => {
        st("try_from");
        match Jwk::try_from(x) {
          Ok(j) => {
            walk_jwk(&j);
            st("try_into");
            let back: Result<jsonprooftoken::jwk::key::Jwk, _> = (&j).try_into();
            let _ = back.is_ok();
            true
          }
          Err(_) => false,
        }
      }
      Err(_) => false,
    },
    "jwkset" => match JwkSet::from_json(&s) {
      Ok(set) => {
        st("iter");
        for j in set.iter() {
          walk_jwk(j);
        }
        st("get");
        let _ = (set.len(), set.get("k").len(), set.to_json());
        true
      }
      Err(_) => false,
    },
    "jwsheader" => match JwsHeader::from_json(&s) {
      Ok(h) => {
        st("fields");
        let _ = (h.alg(), h.b64(), h.kid(), h.crit().map(|c| c.len()), h.typ(), h.cty(), h.nonce(), h.jwk().map(|j| j.thumbprint_sha256_b64()));
        let _ = (h.to_json(), format!("{:?}", h).len());
        true
      }
      Err(_) => false,
    },
    "compact" | "compactd" => {
      let d = Decoder::new();
      let det: Option<&[u8]> = if name == "compactd" { Some(aux) } else { None };
      match d.decode_compact_serialization(data, det) {
        Ok(item) => {
          st("item");
          let _ = (item.protected_header().map(|h| h.alg()), item.unprotected_header().is_some(), item.alg(), item.kid().map(|k| k.len()), item.nonce().map(|k| k.len()), item.claims().len(), item.signing_input().len(), item.decoded_signature().len());
          st("verify");
          let _ = item.verify(&ToyVerifier, &toy_jwk(10)).map(|x| x.claims.len());
          true
        }
        Err(_) => false,
      }
    }
    "flat" => {
      let d = Decoder::new();
      match d.decode_flattened_serialization(data, if aux.is_empty() { None } else { Some(aux) }) {
        Ok(item) => {
          st("item");
          let _ = (item.protected_header().map(|h| h.alg()), item.unprotected_header().map(|h| h.kid().map(|k| k.len())), item.alg(), item.kid().map(|k| k.len()), item.claims().len(), item.signing_input().len());
          st("verify");
          let _ = item.verify(&ToyVerifier, &toy_jwk(10)).map(|x| x.claims.len());
          true
        }
        Err(_) => false,
      }
    }
    "general" => {
      let d = Decoder::new();
      match d.decode_general_serialization(data, if aux.is_empty() { None } else { Some(aux) }) {
        Ok(iter) => {
          st("iter");
          let mut any = false;
          for it in iter {
            if let Ok(item) = it {
              any = true;
              st("item");
              let _ = (item.alg(), item.kid().map(|k| k.len()), item.claims().len(), item.signing_input().len());
              st("verify");
              let _ = item.verify(&ToyVerifier, &toy_jwk(10)).map(|x| x.claims.len());
              st("iter");
            }
          }
          any
        }
        Err(_) => false,
      }
    }
    "doc" => match CoreDocument::from_json(&s) {
      Ok(d) => {
        walk_doc(&d);
        true
      }
      Err(_) => false,
    },
    "iotadoc" => match IotaDocument::from_json(&s) {
      Ok(d) => {
        st("accessors");
        let _ = (d.id().to_string(), d.controller().count(), d.also_known_as().len(), d.methods(None).len(), d.service().len());
        let _ = (d.metadata.created, d.metadata.updated, d.metadata.deactivated, d.metadata.to_json(), format!("{}", d.metadata));
        walk_doc(d.core_document());
        st("display");
        let _ = (format!("{}", d), format!("{:?}", d).len(), d.to_json());
        st("pack");
        if let Ok(p) = d.clone().pack() {
          st("unpack_packed");
          let _ = StateMetadataDocument::unpack(&p).map(|m| m.into_iota_document(d.id()));
        }
        true
      }
      Err(_) => false,
    },
    "unpack" => match StateMetadataDocument::unpack(data) {
      Ok(m) => {
        st("into_iota_document");
        let did = IotaDID::parse(format!("did:iota:0x{}", "ab".repeat(32))).unwrap();
        match m.clone().into_iota_document(&did) {
          Ok(d) => {
            walk_doc(d.core_document());
            st("repack");
            let _ = d.pack();
          }
          Err(_) => {}
        }
        st("pack");
        let _ = m.pack(identity_iota_core::StateMetadataEncoding::Json);
        true
      }
      Err(e) => {
        let msg = format!("{:?}", e);
        // framing errors vs. errors of the JSON decoder behind the frame
        if msg.contains("failed to deserialize JSON") {
          return None;
        }
        if msg.contains("state metadata decoding") || msg.contains("marker") || msg.contains("unsupported version") || msg.contains("InvalidStateMetadata") || msg.contains("unsupported encoding") {
          return Some(false);
        }
        return None;
      }
    },
    "mdigest" => match MethodDigest::unpack(data.to_vec()) {
      Ok(d) => {
        st("pack");
        let p = d.pack();
        let _ = (format!("{:?}", d), hash_of(&d), p.len());
        true
      }
      Err(_) => false,
    },
    "vm" => match VerificationMethod::from_json(&s) {
      Ok(m) => {
        st("accessors");
        let _ = (m.id().to_string(), m.controller().to_string(), m.type_().to_string(), m.properties().len());
        st("try_decode");
        let _ = m.data().try_decode();
        st("mdigest_new");
        let _ = MethodDigest::new(&m);
        st("display");
        let _ = (format!("{}", m), m.to_json());
        true
      }
      Err(_) => false,
    },
    "service" => match Service::from_json(&s) {
      Ok(sv) => {
        st("accessors");
        let _ = (sv.id().to_string(), sv.type_().len(), sv.service_endpoint().to_string(), sv.properties().len());
        st("bitmap");
        if let Ok(mut b) = RevocationBitmap::try_from(&sv) {
          let _ = (b.len(), b.is_empty(), b.is_revoked(0), b.is_revoked(u32::MAX));
          let _ = (b.revoke(u32::MAX), b.unrevoke(0));
          st("to_service");
          let _ = b.to_service(sv.id().clone()).map(|s2| RevocationBitmap::try_from(&s2).is_ok());
        }
        st("linked_domain");
        let _ = LinkedDomainService::check_structure(&sv).is_ok();
        if let Ok(l) = LinkedDomainService::try_from(sv.clone()) {
          st("linked_domain_accessors");
          let _ = (l.domains().len(), l.id().to_string(), Service::from(l).to_json());
        }
        st("linked_vp");
        let _ = LinkedVerifiablePresentationService::check_structure(&sv).is_ok();
        if let Ok(l) = LinkedVerifiablePresentationService::try_from(sv.clone()) {
          st("linked_vp_accessors");
          let _ = (l.verifiable_presentation_urls().len(), l.id().to_string(), l.to_json());
        }
        st("linked_vp_serde");
        if let Ok(l) = LinkedVerifiablePresentationService::from_json(&s) {
          st("linked_vp_accessors");
          let _ = (l.verifiable_presentation_urls().len(), l.id().to_string());
        }
        st("display");
        let _ = (format!("{}", sv), sv.to_json());
        true
      }
      Err(_) => false,
    },
    "dlconfig" => match DomainLinkageConfiguration::from_json(&s) {
      Ok(c) => {
        st("accessors");
        let _ = (c.linked_dids().len(), c.issuers().map(|i| i.len()), c.to_json(), format!("{}", c).len());
        st("validate_linkage");
        let v = JwtDomainLinkageValidator::with_signature_verifier(ToyVerifier);
        for dom in ["https://a.example", "https://a.example/p?q", "http://a.example", "did:ex:i1"] {
          if let Ok(u) = Url::parse(dom) {
            let _ = v.validate_linkage(&issuer_doc(), &c, &u, &JwtCredentialValidationOptions::default()).is_ok();
          }
        }
        true
      }
      Err(_) => false,
    },
    "cred" => match Credential::<Object>::from_json(&s) {
      Ok(c) => {
        walk_cred(&c);
        true
      }
      Err(_) => false,
    },
    "pres" => match Presentation::<Jwt, Object>::from_json(&s) {
      Ok(p) => {
        st("check_structure");
        let _ = p.check_structure();
        let _ = JwtPresentationValidatorUtils::check_structure(&p);
        st("serialize_jwt");
        let _ = p.serialize_jwt(&JwtPresentationOptions::default());
        let _ = p.serialize_jwt(&JwtPresentationOptions::default().expiration_date(Timestamp::from_unix(1).unwrap()).issuance_date(Timestamp::from_unix(1).unwrap()).audience(Url::parse("https://a.b").unwrap()));
        st("display");
        let _ = (format!("{}", p), p.to_json());
        true
      }
      Err(_) => false,
    },
    "status" => match Status::from_json(&s) {
      Ok(x) => {
        st("bitmap_status");
        let _ = RevocationBitmapStatus::try_from(x.clone()).map(|r| (r.index(), r.id().map(|i| i.to_string()), Status::from(r).to_json()));
        st("sl_entry");
        let _ = StatusList2021Entry::try_from(&x).map(|e| (e.index(), e.purpose(), e.id().to_string()));
        let _ = x.to_json();
        true
      }
      Err(_) => false,
    },
    "slentry" => match StatusList2021Entry::from_json(&s) {
      Ok(e) => {
        st("accessors");
        let _ = (e.index(), e.purpose(), e.id().to_string(), e.status_list_credential().to_string(), e.to_json());
        let _ = Status::from(e.clone()).to_json();
        true
      }
      Err(_) => false,
    },
    "statuslist" => match StatusList2021::try_from_encoded_str(&s) {
      Ok(mut l) => {
        st("len");
        let n = l.len();
        for i in [0usize, 1, 7, 8, n.wrapping_sub(1), n, n.wrapping_add(1), usize::MAX, usize::MAX / 8 + 1] {
          st("get");
          let _ = l.get(i);
          st("set");
          let _ = l.set(i, true);
          let _ = l.set(i, false);
        }
        st("encode");
        let e = l.clone().into_encoded_str();
        let _ = StatusList2021::try_from_encoded_str(&e);
        let _ = (hash_of(&l), format!("{:?}", l).len());
        true
      }
      Err(_) => false,
    },
    "integrity" => match IntegrityMetadata::parse(&s) {
      Ok(m) => {
        st("alg");
        let _ = m.alg().len();
        st("digest");
        let _ = m.digest().len();
        st("digest_bytes");
        let _ = m.digest_bytes().len();
        st("options");
        let _ = m.options().map(|o| o.len());
        st("serde");
        let _ = (m.to_string(), m.to_json().map(|j| IntegrityMetadata::from_json(&j).is_ok()));
        true
      }
      Err(_) => false,
    },
    "integrityjson" => match IntegrityMetadata::from_json(&s) {
      Ok(m) => {
        st("accessors");
        let _ = (m.alg().len(), m.digest().len(), m.digest_bytes().len(), m.options().map(|o| o.len()));
        true
      }
      Err(_) => false,
    },
    "typemeta" => match TypeMetadata::from_json(&s) {
      Ok(m) => {
        st("accessors");
        let _ = (m.name(), m.description(), m.extends().map(|u| u.to_string()), m.extends_integrity(), m.claim_metadata().len(), m.display_metadata().len());
        st("validate_credential");
        for v in [serde_json::json!({}), serde_json::json!({"name":"x","address":{"city":"y"},"degrees":[{"type":"a"},1,null]}), serde_json::json!([1]), Value::Null] {
          let _ = m.validate_credential(&v);
          st("validate_credential_with_resolver");
          let _ = block(m.validate_credential_with_resolver(&v, &NoResolver));
          st("claim_metadata");
          for cm in m.claim_metadata() {
            let _ = cm.check_value_disclosability(&v);
          }
          st("validate_credential");
        }
        let _ = m.to_json();
        true
      }
      Err(_) => false,
    },
    "issuermeta" => match IssuerMetadata::from_json(&s) {
      Ok(m) => {
        st("validate");
        if let Ok(vc) = SdJwtVc::parse(&sd_jwt_vc_token(r#"{"iss":"https://example.com/issuer","vct":"https://x.example/v","iat":1}"#, &[])) {
          let _ = m.validate(&vc);
        }
        let _ = m.to_json();
        true
      }
      Err(_) => false,
    },
    "sdjwtvc" => match SdJwtVc::parse(&s) {
      Ok(vc) => {
        st("claims");
        let c = vc.claims();
        let _ = (c.iss.to_string(), c.vct.to_string(), c.nbf, c.exp, c.iat, c.sub.as_ref().map(|x| x.to_string()), c.status.is_some());
        st("display");
        let _ = vc.to_string();
        st("issuer_metadata");
        let _ = block(vc.issuer_metadata(&NoResolver));
        st("type_metadata");
        let _ = block(vc.type_metadata(&NoResolver));
        st("issuer_jwk");
        let _ = block(vc.issuer_jwk(&NoResolver));
        st("verify_signature");
        let _ = vc.verify_signature(&ToyVerifier, &toy_jwk(10));
        st("validate_claims_disclosability");
        let _ = vc.validate_claims_disclosability(&[]);
        st("validate");
        let hasher = identity_credential::sd_jwt_v2::Sha256Hasher;
        let _ = block(vc.validate(&NoResolver, &ToyVerifier, &hasher));
        st("verify_key_binding");
        let _ = vc.verify_key_binding(&ToyVerifier, &toy_jwk(10));
        st("validate_key_binding");
        let _ = vc.validate_key_binding(&ToyVerifier, &toy_jwk(10), &hasher, &Default::default());
        st("into_disclosed_object");
        let _ = vc.clone().into_disclosed_object(&hasher);
        st("into_presentation");
        let _ = vc.clone().into_presentation(&hasher).map(|b| b.finish());
        st("vct_to_url");
        if let identity_core::common::StringOrUrl::Url(u) = &vc.claims().vct {
          let _ = identity_credential::sd_jwt_vc::vct_to_url(u);
        }
        true
      }
      Err(_) => false,
    },
    "vcturl" => match Url::parse(&s) {
      Ok(u) => {
        st("vct_to_url");
        let _ = identity_credential::sd_jwt_vc::vct_to_url(&u);
        true
      }
      Err(_) => false,
    },
    "sdjwt" => match SdJwt::parse(&s) {
      Ok(sd) => {
        st("validate_credential");
        let v = SdJwtCredentialValidator::with_signature_verifier(ToyVerifier, SdObjectDecoder::new_with_sha256());
        let doc = issuer_doc();
        let _ = v.validate_credential::<_, Object>(&sd, &doc, &JwtCredentialValidationOptions::default(), FailFast::AllErrors);
        st("verify_signature");
        let _ = v.verify_signature::<_, Object>(&sd, &[doc.clone()], &JwsVerificationOptions::default());
        st("validate_key_binding_jwt");
        let _ = v.validate_key_binding_jwt(&sd, &doc, &KeyBindingJWTValidationOptions::default());
        let _ = v.validate_key_binding_jwt(&sd, &doc, &KeyBindingJWTValidationOptions::default().nonce("n").aud("a").earliest_issuance_date(Timestamp::from_unix(0).unwrap()).latest_issuance_date(Timestamp::from_unix(1 << 33).unwrap()));
        st("presentation");
        let _ = sd.presentation();
        true
      }
      Err(_) => false,
    },
    "vcjwt" => {
      // a credential JWT handed to the validator and to the extraction helpers
      let v = JwtCredentialValidator::with_signature_verifier(ToyVerifier);
      let doc = issuer_doc();
      let jwt = Jwt::new(s.clone());
      st("extract_issuer_from_jwt");
      let _ = JwtCredentialValidatorUtils::extract_issuer_from_jwt::<CoreDID>(&jwt);
      st("validate");
      let mut any = false;
      for ff in [FailFast::AllErrors, FailFast::FirstError] {
        for o in [JwtCredentialValidationOptions::default(), JwtCredentialValidationOptions::default().status_check(identity_credential::validator::StatusCheck::SkipAll).subject_holder_relationship(Url::parse("did:ex:s2").unwrap(), identity_credential::validator::SubjectHolderRelationship::AlwaysSubject)] {
          any |= v.validate::<_, Object>(&jwt, &doc, &o, ff).is_ok();
        }
      }
      st("verify_signature");
      let _ = v.verify_signature::<_, Object>(&jwt, &[doc.clone()], &JwsVerificationOptions::default());
      any
    }
    "vpjwt" => {
      let v = JwtPresentationValidator::with_signature_verifier(ToyVerifier);
      let doc = issuer_doc();
      let jwt = Jwt::new(s.clone());
      st("extract_holder");
      let _ = JwtPresentationValidatorUtils::extract_holder::<CoreDID>(&jwt);
      st("validate");
      let r = v.validate::<_, Jwt, Object>(&jwt, &doc, &JwtPresentationValidationOptions::default());
      let ok = r.is_ok();
      if let Ok(d) = r {
        st("decoded");
        let _ = (d.presentation.to_json(), d.aud.map(|a| a.to_string()), d.expiration_date, d.issuance_date);
      }
      ok
    }
    _ => return None,
  })
}

/// a syntactically valid SD-JWT VC around the given claims (signature bytes arbitrary)
fn sd_jwt_vc_token(claims: &str, disclosures: &[&str]) -> String {
  sd_jwt_vc_token_h(r#"{"alg":"EdDSA","typ":"vc+sd-jwt"}"#, claims, disclosures)
}
fn sd_jwt_vc_token_h(header: &str, claims: &str, disclosures: &[&str]) -> String {
  let mut t = sign_compact(header, claims, 10);
  t.push('~');
  for d in disclosures {
    t.push_str(d);
    t.push('~');
  }
  t
}

// ---------------------------------------------------------------------------------------------------------
// the linked-service wrappers against their model (IdModel/Panic/Linked.lean): the request is an abstract spec, the harness
// builds the service JSON from it
fn l_url(c: char) -> Option<(&'static str, u32)> {
  Some(match c {
    'a' => ("https://a.example", 1),
    'b' => ("https://b.example/", 2),
    'p' => ("https://a.example/p", 3),
    'q' => ("https://a.example?q", 4),
    'f' => ("https://a.example#f", 5),
    'h' => ("http://a.example", 6),
    'd' => ("did:ex:x", 7),
    _ => return None,
  })
}
fn l_tag(u: &Url) -> String {
  for c in ['a', 'b', 'p', 'q', 'f', 'h', 'd'] {
    let (s, t) = l_url(c).unwrap();
    if Url::parse(s).map(|x| &x == u).unwrap_or(false) {
      return t.to_string();
    }
  }
  "?".into()
}
fn l_tags(us: &[Url]) -> String {
  format!("n{}", us.iter().map(l_tag).collect::<Vec<_>>().join(","))
}
fn linked_json(spec: &str) -> Option<String> {
  let (ts, ep) = spec.split_once('|')?;
  let types: Vec<&str> = ts
    .chars()
    .map(|c| match c {
      'L' => Some("LinkedDomains"),
      'V' => Some("LinkedVerifiablePresentation"),
      'X' => Some("X"),
      'Y' => Some("linkeddomains"),
      _ => None,
    })
    .collect::<Option<_>>()?;
  let q = |c: char| l_url(c).map(|(s, _)| format!("\"{}\"", s));
  let mut cs = ep.chars();
  let e = match cs.next()? {
    'o' => q(cs.next()?)?,
    's' => format!("[{}]", cs.map(q).collect::<Option<Vec<_>>>()?.join(",")),
    'm' => {
      let rest: String = cs.collect();
      let mut groups = vec![];
      for g in rest.split(';').filter(|g| !g.is_empty()) {
        let mut gc = g.chars();
        let k = match gc.next()? {
          'o' => "origins",
          'x' => "x",
          'y' => "Origins",
          _ => return None,
        };
        groups.push(format!("\"{}\":[{}]", k, gc.map(q).collect::<Option<Vec<_>>>()?.join(",")));
      }
      format!("{{{}}}", groups.join(","))
    }
    _ => return None,
  };
  let t = if types.len() == 1 { format!("\"{}\"", types[0]) } else { format!("[{}]", types.iter().map(|t| format!("\"{}\"", t)).collect::<Vec<_>>().join(",")) };
  Some(format!(r#"{{"id":"did:ex:i1#l","type":{},"serviceEndpoint":{}}}"#, t, e))
}
fn linked_reply(name: &str, spec: &str) -> String {
  if name == "linkednew" {
    let mut cs = spec.chars();
    let kind = cs.next();
    let us: Option<Vec<Url>> = cs.map(|c| l_url(c).and_then(|(s, _)| Url::parse(s).ok())).collect();
    let (Some(kind), Some(us)) = (kind, us) else { return "bad-request".into() };
    let set: identity_core::common::OrderedSet<Url> = us.into_iter().collect();
    let id = DIDUrl::parse("did:ex:i1#l").unwrap();
    return match kind {
      'L' => match LinkedDomainService::new(id, set, Object::new()) {
        Ok(l) => {
          st("linked_domain_accessors");
          let d = l_tags(l.domains());
          format!("ok/{}/{}", d, if LinkedDomainService::check_structure(&Service::from(l)).is_ok() { "ok" } else { "err" })
        }
        Err(_) => "err".into(),
      },
      'V' => match LinkedVerifiablePresentationService::new(id, set, Object::new()) {
        Ok(l) => {
          st("linked_vp_accessors");
          let d = l_tags(l.verifiable_presentation_urls());
          format!("ok/{}/{}", d, if LinkedVerifiablePresentationService::check_structure(&Service::from(l)).is_ok() { "ok" } else { "err" })
        }
        Err(_) => "err".into(),
      },
      _ => "bad-request".into(),
    };
  }
  let Some(json) = linked_json(spec) else { return "bad-request".into() };
  let sv = match Service::from_json(&json) {
    Ok(sv) => sv,
    Err(e) => return format!("service-json-refused:{}", e),
  };
  st("linked_domain");
  let ld = match LinkedDomainService::try_from(sv.clone()) {
    Ok(l) => {
      // the fallible constructor and the free-standing check must agree
      let agree = LinkedDomainService::check_structure(&sv).is_ok();
      st("linked_domain_accessors");
      format!("ok/{}{}", l_tags(l.domains()), if agree { "" } else { "!check_structure-disagrees" })
    }
    Err(_) => "err".into(),
  };
  st("linked_vp");
  let lvp = match LinkedVerifiablePresentationService::try_from(sv.clone()) {
    Ok(l) => {
      st("linked_vp_accessors");
      let a = l_tags(l.verifiable_presentation_urls());
      // the serde path (try_from = "Service") must accept the same services
      let serde_ok = LinkedVerifiablePresentationService::from_json(&json).is_ok();
      format!("ok/{}{}", a, if serde_ok { "" } else { "!serde-disagrees" })
    }
    Err(_) => {
      if LinkedVerifiablePresentationService::from_json(&json).is_ok() {
        "err!serde-accepts".into()
      } else {
        "err".into()
      }
    }
  };
  format!("ld:{} lvp:{}", ld, lvp)
}

pub fn run(args: &[&str]) -> String {
  hook();
  let (name, data, aux) = match args {
    [n, h] => (*n, unhex(h), Some(vec![])),
    [n, h, a] => (*n, unhex(h), unhex(a)),
    _ => return "bad-request".into(),
  };
  let (data, aux) = match (data, aux) {
    (Some(d), Some(a)) => (d, a),
    _ => return "bad-request".into(),
  };
  PANIC.with(|p| *p.borrow_mut() = None);
  if name == "linked" || name == "linkednew" {
    let spec = String::from_utf8_lossy(&data).to_string();
    return match std::panic::catch_unwind(AssertUnwindSafe(|| linked_reply(name, &spec))) {
      Ok(s) => s,
      Err(_) => {
        let stage = STAGE.with(|s| s.borrow().clone());
        let info = PANIC.with(|p| p.borrow().clone()).unwrap_or_default();
        format!("panic\t#FAIL:panic@{}/{}@{}:the implementation panicked in stage `{}` of entry `{}` on spec {}: {}", name, stage, info.replace(':', ";").replace(' ', "_"), stage, name, spec, info)
      }
    };
  }
  let r = std::panic::catch_unwind(AssertUnwindSafe(|| entry(name, &data, &aux)));
  let modelled = MODELLED.contains(&name);
  match r {
    Ok(Some(ok)) => {
      let c = if ok { "ok" } else { "err" };
      if name == "mdigest" && ok {
        let v = data[1..9].iter().enumerate().fold(0u64, |a, (i, b)| a | (*b as u64) << (8 * i));
        return format!("ok:{}", v);
      }
      if name == "unpack" && ok {
        return "framed".into();
      }
      if modelled {
        c.to_string()
      } else {
        format!("u:{}", c)
      }
    }
    Ok(None) => {
      if name == "unpack" {
        "framed".into()
      } else {
        "bad-request".into()
      }
    }
    Err(_) => {
      let stage = STAGE.with(|s| s.borrow().clone());
      let info = PANIC.with(|p| p.borrow().clone()).unwrap_or_default();
      format!("panic\t#FAIL:panic@{}/{}@{}:the implementation panicked in stage `{}` of entry `{}`: {}", name, stage, info.replace(':', ";").replace(' ', "_"), stage, name, info)
    }
  }
}

// ---------------------------------------------------------------------------------------------------------
// generators

const BYTE_ENTRIES: [&str; 7] = ["unpack", "mdigest", "compact", "compactd", "flat", "general", "jwsbytes"];
/// entries that take a `&str` only ever see valid UTF-8 (so that the model reads the same bytes)
fn canon(name: &str, data: &[u8]) -> Vec<u8> {
  if BYTE_ENTRIES.contains(&name) {
    data.to_vec()
  } else {
    String::from_utf8_lossy(data).as_bytes().to_vec()
  }
}
fn emit(out: &mut impl Write, name: &str, data: &[u8]) {
  // every string for a parser also goes through the type's serde / FromStr path
  let twin = match name {
    "did" => Some("didserde"),
    "url" => Some("urlserde"),
    "iota" => Some("iotaserde"),
    "didjwk" => Some("didjwkserde"),
    "ts" => Some("tsjsonstr"),
    _ => None,
  };
  if let Some(t) = twin {
    if t == "tsjsonstr" {
      writeln!(out, "C05 tsjson {}", hex(serde_json::to_string(&String::from_utf8_lossy(data).to_string()).unwrap_or_default().as_bytes())).unwrap();
      writeln!(out, "C05 tsfromstr {}", hex(&canon("ts", data))).unwrap();
    } else {
      writeln!(out, "C05 {} {}", t, hex(&canon(t, data))).unwrap();
    }
  }
  if name == "iota" {
    return emit2(out, name, data, b"");
  }
  writeln!(out, "C05 {} {}", name, hex(&canon(name, data))).unwrap();
}
fn emit2(out: &mut impl Write, name: &str, data: &[u8], aux: &[u8]) {
  let d = canon(name, data);
  if name == "iota" {
    // the second argument is the lower-cased input (the model of IotaDID::parse starts from it)
    let low = String::from_utf8_lossy(&d).to_lowercase();
    writeln!(out, "C05 {} {} {}", name, hex(&d), hex(low.as_bytes())).unwrap();
  } else {
    writeln!(out, "C05 {} {} {}", name, hex(&d), hex(&canon(if name == "join" || name == "didset" || name == "urlset" { "join" } else { "compact" }, aux))).unwrap();
  }
}

const ALPHA: [&str; 24] = ["%", ":", "/", "?", "#", ".", "-", "_", "~", "+", "0", "9", "a", "f", "z", "A", "F", " ", "\t", "\n", "\u{7f}", "é", "😀", "\0"];

fn strings_upto(n: usize, alpha: &[&str]) -> Vec<String> {
  let mut all = vec![String::new()];
  let mut last = vec![String::new()];
  for _ in 0..n {
    let mut next = vec![];
    for p in &last {
      for a in alpha {
        next.push(format!("{}{}", p, a));
      }
    }
    all.extend(next.iter().cloned());
    last = next;
  }
  all
}

/// byte-level and token-level mutations of a seed
fn mutate(r: &mut Rng, seed: &[u8]) -> Vec<u8> {
  let mut v = seed.to_vec();
  let toks: [&[u8]; 28] = [b"%", b":", b"#", b"?", b"/", b"\"", b"\\", b"{", b"}", b"[", b"]", b",", b"null", b"true", b"-1", b"0", b"18446744073709551616", b"1e999", b"4294967296", b"-9223372036854775809", b"\"\"", b"[]", b"{}", b" ", b"\xc3\xa9", b"\xf0\x9f\x98\x80", b".", b"~"];
  for _ in 0..(1 + r.below(3)) {
    if v.is_empty() {
      v.extend_from_slice(*r.pick(&toks));
      continue;
    }
    let i = r.below(v.len() as u64) as usize;
    match r.below(8) {
      0 => {
        v[i] ^= 1 << r.below(8);
      }
      1 => {
        v.remove(i);
      }
      2 => {
        v.truncate(i);
      }
      3 => {
        let t = *r.pick(&toks);
        for (k, b) in t.iter().enumerate() {
          v.insert(i + k, *b);
        }
      }
      4 => {
        // duplicate a slice
        let j = (i + 1 + r.below(16) as usize).min(v.len());
        let sl = v[i..j].to_vec();
        for (k, b) in sl.iter().enumerate() {
          v.insert(j + k, *b);
        }
      }
      5 => {
        // replace a run of digits by an extreme number
        let t = *r.pick(&[&b"0"[..], b"-1", b"4294967295", b"4294967296", b"18446744073709551615", b"18446744073709551616", b"253402300800", b"-62167219201", b"1e400", b"1.5"]);
        let mut j = i;
        while j < v.len() && v[j].is_ascii_digit() {
          j += 1;
        }
        if j > i {
          v.splice(i..j, t.iter().cloned());
        }
      }
      6 => {
        let j = r.below(v.len() as u64) as usize;
        v.swap(i, j);
      }
      _ => {
        v[i] = r.next() as u8;
      }
    }
  }
  v
}

/// structural JSON mutation: replace / delete / retype a random node
fn mutate_json(r: &mut Rng, seed: &str) -> String {
  let mut v: Value = match serde_json::from_str(seed) {
    Ok(v) => v,
    Err(_) => return seed.to_string(),
  };
  fn count(v: &Value) -> usize {
    1 + match v {
      Value::Array(a) => a.iter().map(count).sum(),
      Value::Object(o) => o.values().map(count).sum(),
      _ => 0,
    }
  }
  fn at<'a>(v: &'a mut Value, n: &mut usize) -> Option<&'a mut Value> {
    if *n == 0 {
      return Some(v);
    }
    *n -= 1;
    match v {
      Value::Array(a) => {
        for x in a.iter_mut() {
          if let Some(y) = at(x, n) {
            return Some(y);
          }
        }
        None
      }
      Value::Object(o) => {
        for (_, x) in o.iter_mut() {
          if let Some(y) = at(x, n) {
            return Some(y);
          }
        }
        None
      }
      _ => None,
    }
  }
  let pool: Vec<Value> = vec![
    Value::Null,
    Value::Bool(true),
    serde_json::json!(0),
    serde_json::json!(-1),
    serde_json::json!(4294967296u64),
    serde_json::json!(18446744073709551615u64),
    serde_json::json!(1.5),
    serde_json::json!(""),
    serde_json::json!(" "),
    serde_json::json!("#"),
    serde_json::json!("did:ex:i1#"),
    serde_json::json!("did:ex:%"),
    serde_json::json!("urn:x"),
    serde_json::json!("data:,"),
    serde_json::json!("https://"),
    serde_json::json!("x".repeat(300)),
    serde_json::json!([]),
    serde_json::json!({}),
    serde_json::json!([[]]),
    serde_json::json!([null]),
    serde_json::json!({"id": "did:ex:i1#k0"}),
    serde_json::json!("9999-12-31T23:59:59Z"),
    serde_json::json!("0000-01-01T00:00:00Z"),
    serde_json::json!("-1"),
    serde_json::json!("4294967296"),
    serde_json::json!("é😀"),
  ];
  for _ in 0..(1 + r.below(2)) {
    let n = count(&v);
    let mut k = r.below(n as u64) as usize;
    if let Some(node) = at(&mut v, &mut k) {
      match r.below(6) {
        0 | 1 | 2 => *node = r.pick(&pool).clone(),
        3 => {
          // wrap / unwrap
          let old = node.take();
          *node = Value::Array(vec![old]);
        }
        4 => {
          if let Value::Object(o) = node {
            if let Some(key) = o.keys().next().cloned() {
              o.remove(&key);
            }
          } else if let Value::Array(a) = node {
            a.pop();
          } else {
            *node = Value::Null;
          }
        }
        _ => {
          if let Value::Object(o) = node {
            o.insert(r.pick(&["id", "type", "@context", "controller", "alg", "kty", "crv", "x", "d", "exp", "nbf", "iat", "iss", "sub", "vc", "vp", "_sd", "_sd_alg", "cnf", "status", "b64", "crit"]).to_string(), r.pick(&pool).clone());
          } else if let Value::String(s) = node {
            s.push_str(*r.pick(&["#", "?", "%", " ", "\n", "é", "/..", ":"]));
          } else {
            *node = r.pick(&pool).clone();
          }
        }
      }
    }
  }
  v.to_string()
}

struct Seeds {
  name: &'static str,
  json: bool,
  seeds: Vec<String>,
}

fn seeds() -> Vec<Seeds> {
  let d = "did:ex:i1";
  let jwk_ed = r#"{"kty":"OKP","crv":"Ed25519","x":"11qYAYKxCrfVS_7TyWQHOg7hcvPapiMlrwIaaPcHURo"}"#;
  let jwk_ed_priv = r#"{"kty":"OKP","crv":"Ed25519","x":"11qYAYKxCrfVS_7TyWQHOg7hcvPapiMlrwIaaPcHURo","d":"nWGxne_9WmC6hEr0kuwsxERJxWl7MmkZcDusAxyuf2A","alg":"EdDSA","use":"sig","key_ops":["sign","verify"],"kid":"k"}"#;
  let jwk_ec = r#"{"kty":"EC","crv":"P-256","x":"acbIQiuMs3i8_uszEjJ2tpTtRM4EU3yz91PH6CdH2V0","y":"_KcyLj9vWMptnmKtm46GqDz8wf74I5LKgrl2GzH3nSE","x5u":"https://example.com/c","x5c":["MIIB"],"x5t":"dGVzdA","x5t#S256":"dGVzdA"}"#;
  let jwk_rsa = r#"{"kty":"RSA","n":"AQAB","e":"AQAB","d":"AQAB","p":"AQ","q":"AQ","dp":"AQ","dq":"AQ","qi":"AQ","oth":[{"r":"AQ","d":"AQ","t":"AQ"}]}"#;
  let jwk_oct = r#"{"kty":"oct","k":"AQAB"}"#;
  let jwk_k1 = r#"{"kty":"EC","crv":"secp256k1","x":"WfY7Px6AgH6x-_dgAoRbg8weYRJA36ON-gQiFnETrqw","y":"bVy-z-v_-Y9nN2o8kw2bp6Vn7a8Sjp_NL3Dq_vCr4KQ"}"#;
  let dl_jwt = sign_compact(r#"{"alg":"EdDSA","kid":"did:ex:i1#k0"}"#, r#"{"exp":4102444800,"iss":"did:ex:i1","nbf":1262373804,"sub":"did:ex:i1","vc":{"@context":["https://www.w3.org/2018/credentials/v1","https://identity.foundation/.well-known/did-configuration/v1"],"credentialSubject":{"origin":"https://a.example"},"type":["VerifiableCredential","DomainLinkageCredential"]}}"#, 10);
  let doc = format!(
    r##"{{"id":"{d}","controller":["{d}","did:ex:c2"],"alsoKnownAs":["https://a.example"],"verificationMethod":[{{"id":"{d}#k0","controller":"{d}","type":"JsonWebKey2020","publicKeyJwk":{k}}},{{"id":"{d}#k1","controller":"{d}","type":"Ed25519VerificationKey2018","publicKeyMultibase":"zHHoh9NQC9AUsK15Jyyq53VTujxEUizKDXRXd7zbT1B5u"}},{{"id":"{d}#k2","controller":"{d}","type":"X","publicKeyBase58":"HHoh9NQC9AUsK15Jyyq53VTujxEUizKDXRXd7zbT1B5u"}}],"authentication":["{d}#k0",{{"id":"{d}#a1","controller":"{d}","type":"JsonWebKey2020","publicKeyJwk":{k}}}],"assertionMethod":["{d}#k0"],"keyAgreement":[],"capabilityDelegation":["{d}#k1"],"capabilityInvocation":["{d}#k2"],"service":[{{"id":"{d}#rev","type":"RevocationBitmap2022","serviceEndpoint":"data:application/octet-stream;base64,eJyzMmAAAwADKABr"}},{{"id":"{d}#ld","type":["LinkedDomains","X"],"serviceEndpoint":{{"origins":["https://a.example"]}}}},{{"id":"{d}#s3","type":"T","serviceEndpoint":["https://a.example","https://b.example"],"extra":1}}],"custom":{{"a":[1,2]}}}}"##,
    d = d,
    k = jwk_ed
  );
  let iota = format!("did:iota:0x{}", "ab".repeat(32));
  let iotadoc = format!(
    r##"{{"doc":{{"id":"{i}","verificationMethod":[{{"id":"{i}#k0","controller":"{i}","type":"JsonWebKey2020","publicKeyJwk":{k}}}],"service":[{{"id":"{i}#rev","type":"RevocationBitmap2022","serviceEndpoint":"data:application/octet-stream;base64,eJyzMmAAAwADKABr"}}]}},"meta":{{"created":"2023-01-01T00:00:00Z","updated":"2023-01-02T00:00:00Z","deactivated":false,"stateControllerAddress":"rms1x","governorAddress":"rms1y"}}}}"##,
    i = iota,
    k = jwk_ed
  );
  let cred = format!(
    r##"{{"@context":["https://www.w3.org/2018/credentials/v1","https://w3id.org/vc/status-list/2021/v1"],"id":"https://example.edu/credentials/3732","type":["VerifiableCredential","UniversityDegreeCredential"],"credentialSubject":{{"id":"did:ex:s2","degree":{{"type":"BachelorDegree","name":"B"}}}},"issuer":{{"id":"{d}","name":"I"}},"issuanceDate":"2010-01-01T19:23:24Z","expirationDate":"2030-01-01T00:00:00Z","credentialStatus":{{"id":"{d}?index=5#rev","type":"RevocationBitmap2022","revocationBitmapIndex":"5"}},"credentialSchema":{{"id":"https://a.example/s","type":"J"}},"refreshService":{{"id":"https://a.example/r","type":"R"}},"termsOfUse":[{{"type":"T"}}],"evidence":[{{"type":["E"]}}],"nonTransferable":true,"proof":{{"type":"P","x":1}}}}"##,
    d = d
  );
  let cred_sl = r##"{"@context":"https://www.w3.org/2018/credentials/v1","id":"https://example.edu/credentials/1","type":["VerifiableCredential"],"credentialSubject":{"id":"did:ex:s2"},"issuer":"did:ex:i1","issuanceDate":"2010-01-01T19:23:24Z","credentialStatus":{"id":"https://example.com/credentials/status#94567","type":"StatusList2021Entry","statusPurpose":"revocation","statusListIndex":"94567","statusListCredential":"https://example.com/credentials/status"}}"##.to_string();
  let slc = r##"{"@context":["https://www.w3.org/2018/credentials/v1","https://w3id.org/vc/status-list/2021/v1"],"id":"https://example.com/credentials/status","type":["VerifiableCredential","StatusList2021Credential"],"issuer":"did:ex:i1","issuanceDate":"2021-04-05T14:27:40Z","credentialSubject":{"id":"https://example.com/status/3#list","type":"StatusList2021","statusPurpose":"revocation","encodedList":"H4sIAAAAAAAAA-3BMQEAAADCoPVPbQwfoAAAAAAAAAAAAAAAAAAAAIC3AYbSVKsAQAAA"}}"##.to_string();
  let pres = r##"{"@context":"https://www.w3.org/2018/credentials/v1","id":"https://example.org/p/1","type":["VerifiablePresentation","X"],"verifiableCredential":["a.b.c","eyJhbGciOiJFZERTQSJ9.e30.AA"],"holder":"did:ex:h3","refreshService":[{"id":"https://a.example/r","type":"R"}],"termsOfUse":{"type":"T"},"proof":{"type":"P"},"extra":[1]}"##.to_string();
  let vc_claims = format!(
    r##"{{"iss":"{d}","nbf":1262373804,"exp":1893456000,"jti":"https://example.edu/credentials/3732","sub":"did:ex:s2","vc":{{"@context":"https://www.w3.org/2018/credentials/v1","type":["VerifiableCredential","U"],"credentialSubject":{{"degree":"B"}},"credentialStatus":{{"id":"{d}?index=5#rev","type":"RevocationBitmap2022","revocationBitmapIndex":"5"}}}}}}"##,
    d = d
  );
  let vp_claims = r##"{"iss":"did:ex:i1","nbf":1262373804,"exp":4102444800,"aud":"https://v.example","nonce":"n","jti":"https://example.org/p/1","vp":{"@context":"https://www.w3.org/2018/credentials/v1","type":"VerifiablePresentation","verifiableCredential":["a.b.c"]},"x":1}"##.to_string();
  let sdvc_claims = r##"{"iss":"https://example.com/issuer","iat":1683000000,"exp":1883000000,"nbf":1,"vct":"https://bmi.bund.example/credential/pid/1.0","sub":"did:ex:s2","_sd_alg":"sha-256","cnf":{"jwk":{"kty":"OKP","crv":"Ed25519","x":"a2V5MTA"}},"status":{"status_list":{"idx":1,"uri":"https://s.example/l"}},"name":"n"}"##.to_string();
  let type_meta = r##"{"vct":"https://x.example/v","name":"N","description":"D","extends":"https://x.example/base","extends#integrity":"sha256-9cLlJNXN-TsMk-PmKjZ5t0WRL5ca_xGgX3c1VLmXfh-WRL5","schema":{"type":"object","properties":{"name":{"type":"string"}}},"display":[{"lang":"en","name":"N","rendering":{"simple":{"logo":{"uri":"https://x.example/l.png","uri#integrity":"sha256-LmXfh-9cLlJNXN-TsMk-PmKjZ5t0WRL5ca_xGgX3c1V","alt_text":"l"},"background_color":"#12107c"}}}],"claims":[{"path":["name"],"display":[{"lang":"en","label":"Name"}],"sd":"allowed"},{"path":["address","city"],"sd":"always"},{"path":["degrees",null,"type"],"sd":"never"},{"path":["degrees",0]}]}"##.to_string();
  let issuer_meta = r##"{"issuer":"https://example.com/issuer","jwks":{"keys":[{"kty":"OKP","crv":"Ed25519","x":"a2V5MTA","kid":"k"}]}}"##.to_string();
  let issuer_meta2 = r##"{"issuer":"https://example.com","jwks_uri":"https://jwt-vc-issuer.example.org/my_public_keys.jwks"}"##.to_string();
  let vc_jwt = sign_compact(r#"{"alg":"EdDSA","kid":"did:ex:i1#k0","typ":"JWT"}"#, &vc_claims, 10);
  let vp_jwt = sign_compact(r#"{"alg":"EdDSA","kid":"did:ex:i1#k0","typ":"JWT"}"#, &vp_claims, 10);
  let flat = format!(r#"{{"payload":"{}","protected":"{}","header":{{"kid":"k"}},"signature":"{}"}}"#, b64(b"{}"), b64(br#"{"alg":"EdDSA"}"#), b64(b"sig"));
  let general = format!(
    r#"{{"payload":"{}","signatures":[{{"protected":"{}","header":{{"kid":"k"}},"signature":"{}"}},{{"protected":"{}","signature":"{}"}}]}}"#,
    b64(b"{}"),
    b64(br#"{"alg":"EdDSA"}"#),
    b64(b"sig"),
    b64(br#"{"alg":"ES256","b64":true,"crit":["b64"]}"#),
    b64(b"s2")
  );
  vec![
    Seeds { name: "jwk", json: true, seeds: vec![jwk_ed.into(), jwk_ed_priv.into(), jwk_ec.into(), jwk_rsa.into(), jwk_oct.into()] },
    Seeds { name: "jwkext", json: true, seeds: vec![jwk_ec.into(), jwk_ed.into(), r#"{"kty":"EC","crv":"BLS12381G2","x":"AQAB","y":"AQAB","alg":"BBS-SHA256","use":"proof","key_ops":["proofGeneration"],"kid":"k"}"#.into(), r#"{"kty":"OKP","crv":"Ed25519","x":"AQAB","d":"AQAB"}"#.into()] },
    Seeds { name: "jwkset", json: true, seeds: vec![format!(r#"{{"keys":[{},{}]}}"#, jwk_ed_priv, jwk_ec)] },
    Seeds { name: "jwsheader", json: true, seeds: vec![format!(r#"{{"alg":"EdDSA","b64":false,"crit":["b64"],"kid":"k","typ":"JWT","cty":"x","nonce":"n","jwk":{},"jku":"https://a.example","x5u":"https://a.example","x5c":["MIIB"],"url":"https://a.example","custom":1}}"#, jwk_ed)] },
    Seeds { name: "doc", json: true, seeds: vec![doc.clone()] },
    Seeds { name: "iotadoc", json: true, seeds: vec![iotadoc.clone()] },
    Seeds { name: "vm", json: true, seeds: vec![format!(r#"{{"id":"{d}#k0","controller":"{d}","type":"JsonWebKey2020","publicKeyJwk":{k}}}"#, d = d, k = jwk_ed), format!(r#"{{"id":"{d}#k1","controller":"{d}","type":"Ed25519VerificationKey2018","publicKeyMultibase":"zHHoh9NQC9AUsK15Jyyq53VTujxEUizKDXRXd7zbT1B5u"}}"#, d = d), format!(r#"{{"id":"{d}#k2","controller":"{d}","type":"X","publicKeyBase58":"HHoh9NQC9AUsK15Jyyq53VTujxEUizKDXRXd7zbT1B5u"}}"#, d = d)] },
    Seeds { name: "service", json: true, seeds: vec![format!(r#"{{"id":"{d}#rev","type":"RevocationBitmap2022","serviceEndpoint":"data:application/octet-stream;base64,eJyzMmAAAwADKABr"}}"#, d = d), format!(r#"{{"id":"{d}#rev","type":["RevocationBitmap2022"],"serviceEndpoint":"data:application/octet-stream;base64,ZUp5ek1tQUFBd0FES0FCcg=="}}"#, d = d), format!(r#"{{"id":"{d}#s","type":"T","serviceEndpoint":{{"a":["https://a.example"]}}}}"#, d = d)] },
    Seeds { name: "service", json: true, seeds: vec![format!(r#"{{"id":"{d}#ld","type":"LinkedDomains","serviceEndpoint":"https://a.example"}}"#, d = d), format!(r#"{{"id":"{d}#ld","type":"LinkedDomains","serviceEndpoint":{{"origins":["https://a.example","https://b.example"]}}}}"#, d = d), format!(r#"{{"id":"{d}#ld","type":["LinkedDomains"],"serviceEndpoint":{{"x":["https://a.example"],"origins":[]}}}}"#, d = d), format!(r#"{{"id":"{d}#lv","type":"LinkedVerifiablePresentation","serviceEndpoint":"https://a.example/vp.jwt"}}"#, d = d), format!(r#"{{"id":"{d}#lv","type":"LinkedVerifiablePresentation","serviceEndpoint":["https://a.example/vp.jwt","https://b.example/vp.jwt"]}}"#, d = d)] },
    Seeds { name: "dlconfig", json: true, seeds: vec![format!(r#"{{"@context":"https://identity.foundation/.well-known/did-configuration/v1","linked_dids":["{}","a.b.c"]}}"#, dl_jwt)] },
    Seeds { name: "jwk", json: true, seeds: vec![jwk_k1.into(), jwk_ec.into(), r#"{"kty":"EC","crv":"P-256","x":"AQAB","y":"AQAB"}"#.into(), r#"{"kty":"EC","crv":"secp256k1","x":"","y":""}"#.into(), r#"{"kty":"OKP","crv":"Ed25519","x":"AQAB"}"#.into()] },
    Seeds { name: "cred", json: true, seeds: vec![cred.clone(), cred_sl.clone(), slc.clone(), cred_sl.replace(r#""credentialSubject":{"id":"did:ex:s2"}"#, r#""credentialSubject":[]"#), cred_sl.replace(r#""credentialSubject":{"id":"did:ex:s2"}"#, r#""credentialSubject":[{"id":"did:ex:s2"},{"x":1}],"nonTransferable":true"#), cred_sl.replace(r#""credentialSubject":{"id":"did:ex:s2"}"#, r#""credentialSubject":[{"id":"did:ex:s2"}]"#)] },
    Seeds { name: "pres", json: true, seeds: vec![pres.clone()] },
    Seeds { name: "status", json: true, seeds: vec![format!(r#"{{"id":"{d}?index=5#rev","type":"RevocationBitmap2022","revocationBitmapIndex":"5"}}"#, d = d), r##"{"id":"https://example.com/credentials/status#94567","type":"StatusList2021Entry","statusPurpose":"revocation","statusListIndex":"94567","statusListCredential":"https://example.com/credentials/status"}"##.into()] },
    Seeds { name: "slentry", json: true, seeds: vec![r##"{"id":"https://example.com/credentials/status#94567","type":"StatusList2021Entry","statusPurpose":"suspension","statusListIndex":"94567","statusListCredential":"https://example.com/credentials/status"}"##.into()] },
    Seeds { name: "typemeta", json: true, seeds: vec![type_meta] },
    Seeds { name: "issuermeta", json: true, seeds: vec![issuer_meta, issuer_meta2] },
    Seeds { name: "integrityjson", json: true, seeds: vec![r#""sha384-dOTZf16X8p34q2/kYyEFm0jh89uTjikhnzjeLeF0FHsEaYKb1A1cv+Lyv4Hk8vHd""#.into()] },
    Seeds { name: "tsjson", json: true, seeds: vec![r#""2023-01-01T00:00:00Z""#.into()] },
    Seeds { name: "flat", json: true, seeds: vec![flat] },
    Seeds { name: "general", json: true, seeds: vec![general] },
    // token-shaped inputs: the claims are mutated as JSON before signing, the token as bytes afterwards
    Seeds { name: "vcjwt", json: false, seeds: vec![vc_jwt, vc_claims] },
    Seeds { name: "vpjwt", json: false, seeds: vec![vp_jwt, vp_claims] },
    Seeds { name: "sdjwtvc", json: false, seeds: vec![sd_jwt_vc_token(&sdvc_claims, &["WyJzYWx0IiwibmFtZSIsIkEiXQ"]), sdvc_claims] },
    Seeds { name: "statuslist", json: false, seeds: vec!["H4sIAAAAAAAAA-3BMQEAAADCoPVPbQwfoAAAAAAAAAAAAAAAAAAAAIC3AYbSVKsAQAAA".into(), "H4sIAAAAAAAAAwMAAAAAAAAAAAA".into()] },
    Seeds { name: "integrity", json: false, seeds: vec!["sha384-dOTZf16X8p34q2/kYyEFm0jh89uTjikhnzjeLeF0FHsEaYKb1A1cv+Lyv4Hk8vHd".into(), "sha256-AAAA-opt-ion".into()] },
    // a did:jwk around a JWK of every key type, public and private
    Seeds { name: "didjwk", json: false, seeds: vec![format!("did:jwk:{}", b64(jwk_ed.as_bytes())), format!("did:jwk:{}", b64(jwk_ec.as_bytes())), format!("did:jwk:{}", b64(jwk_ed_priv.as_bytes())), format!("did:jwk:{}", b64(jwk_rsa.as_bytes())), format!("did:jwk:{}", b64(jwk_oct.as_bytes())), format!("did:jwk:{}", b64(br#"{"kty":"OKP","crv":"X25519","use":"enc","x":"3p7bfXt9wbTTW2HC7OQ1Nz-DQ8hbeGdNrfx-FG-IK08"}"#)), format!("did:jwk:{}", b64(br#"{"kty":"RSA","n":"AQAB","e":"AQAB"}"#))] },
    Seeds { name: "vcturl", json: false, seeds: vec!["https://bmi.bund.example/credential/pid/1.0".into(), "https://[::1]:8080/a?b#c".into(), "https://user:pw@a.example:444/p/../q".into()] },
  ]
}

pub fn gen(thorough: bool, seed: u64, out: &mut impl Write) {
  let mut r = Rng::new(seed ^ 0xC05);
  let n_short = if thorough { 4 } else { 3 };
  // (a) exhaustive short strings over the adversarial alphabet after valid prefixes
  let shorts = strings_upto(n_short, &ALPHA);
  let step = if thorough { 1 } else { 3 };
  for (i, s) in shorts.iter().enumerate() {
    // every string for the DID family; a third of them (quick) for the others
    emit(out, "did", format!("did:m:{}", s).as_bytes());
    if i % step == 0 {
      emit(out, "url", format!("did:m:a{}", s).as_bytes());
      emit(out, "ts", format!("2023-01-01T00:00:0{}", s).as_bytes());
    }
    if i % (step * 3) == 0 {
      emit(out, "did", s.as_bytes());
      let low = format!("did:iota:{}", s).to_lowercase();
      emit2(out, "iota", format!("did:iota:{}", s).as_bytes(), low.as_bytes());
      emit(out, "didjwk", format!("did:jwk:{}", s).as_bytes());
      emit2(out, "join", b"did:m:a/p?q#f", s.as_bytes());
      emit2(out, "didset", b"did:m:a", s.as_bytes());
      emit2(out, "urlset", b"did:m:a/p?q#f", s.as_bytes());
      emit2(out, "urlset", b"did:m:a", format!("/{}", s).as_bytes());
      emit(out, "integrity", format!("sha256-AAAA{}", s).as_bytes());
      emit(out, "integrity", s.as_bytes());
      emit(out, "ts", format!("{}-01-01T00:00:00Z", s).as_bytes());
      emit(out, "ts", format!("2023-01-01T00:00:00{}", s).as_bytes());
    }
  }
  // IOTA DIDs: valid ones of every shape, then mutations
  let tag = "0123456789abcdef".repeat(4);
  let mut iotas: Vec<String> = vec![format!("did:iota:0x{}", tag), format!("did:iota:smr:0x{}", tag), format!("did:iota:0x{}", "0".repeat(64)), format!("did:iota:abcdef:0x{}", tag.to_uppercase()), format!("DID:IOTA:0x{}", tag), format!("did:iota:toolong7:0x{}", tag), format!("did:iota::0x{}", tag), format!("did:iota:0x{}", &tag[1..]), format!("did:iota:0x{}/p?q#f", tag), format!("did:iota:rms:0x{}#k", tag)];
  for _ in 0..(if thorough { 3000 } else { 300 }) {
    let b = r.pick(&iotas).clone();
    iotas.push(String::from_utf8_lossy(&mutate(&mut r, b.as_bytes())).to_string());
  }
  // the default network (or another one) followed by an EMPTY tag, repeated default-network segments
  for s in ["did:iota:iota:", "did:iota:IOTA:", "did:iota::", "did:iota:smr:", "did:iota:iota:iota:", "did:iota:iota:0x", "did:iota:iota", "did:iota:", "did:key:iota:", "did:iota:iota::"] {
    iotas.push(s.to_string());
  }
  for s in &iotas {
    emit2(out, "iota", s.as_bytes(), s.to_lowercase().as_bytes());
    emit(out, "did", s.as_bytes());
    emit(out, "url", s.as_bytes());
  }
  // timestamps at the edges of the representable range, with offsets
  for y in ["0000", "0001", "9999", "-0001", "+10000", "10000"] {
    for (mo, da) in [("01", "01"), ("12", "31"), ("02", "29"), ("02", "30"), ("13", "01"), ("00", "00")] {
      for t in ["00:00:00", "23:59:59", "23:59:60", "24:00:00"] {
        for off in ["Z", "z", "+00:00", "-00:00", "+23:59", "-23:59", "+24:00", "+01:00", "-01:00", ".999999999Z", ".9999999999+00:01", ""] {
          emit(out, "ts", format!("{}-{}-{}T{}{}", y, mo, da, t, off).as_bytes());
        }
      }
    }
  }
  // (b) packed formats: every short frame, every length prefix against every payload length
  for n in 0..12usize {
    for fill in [0u8, 1, 68, 255] {
      emit(out, "mdigest", &vec![fill; n]);
      emit(out, "unpack", &vec![fill; n]);
    }
    let mut v = vec![0u8];
    v.extend((0..n as u8).map(|x| x.wrapping_mul(37)));
    emit(out, "mdigest", &v);
  }
  let payload = br#"{"doc":{"id":"did:0:0"},"meta":{}}"#;
  for ver in [0u8, 1, 2] {
    for enc in [0u8, 1] {
      for len in [0usize, 1, payload.len() - 1, payload.len(), payload.len() + 1, 255, 256, 65535] {
        for have in [0usize, 1, payload.len() - 1, payload.len(), payload.len() + 3] {
          let mut v = b"DID".to_vec();
          v.push(ver);
          v.push(enc);
          v.push((len % 256) as u8);
          v.push((len / 256) as u8);
          let mut p = payload.to_vec();
          p.resize(have, b' ');
          v.extend_from_slice(&p);
          emit(out, "unpack", &v);
        }
      }
    }
  }
  for i in 0..(if thorough { 3000 } else { 300 }) {
    let mut v = b"DID\x01\x00".to_vec();
    v.push(payload.len() as u8);
    v.push(0);
    v.extend_from_slice(payload);
    let m = if i % 2 == 0 { mutate(&mut r, &v) } else { let mut w = v[..7].to_vec(); w.extend(mutate_json(&mut r, std::str::from_utf8(payload).unwrap()).bytes()); let l = w.len() - 7; w[5] = (l % 256) as u8; w[6] = (l / 256) as u8; w };
    emit(out, "unpack", &m);
    emit(out, "mdigest", &mutate(&mut r, &[0, 1, 2, 3, 4, 5, 6, 7, 8]));
  }
  // (c) compact JWS: valid tokens of every header shape, then mutations
  let hdrs = [r#"{"alg":"EdDSA"}"#, r#"{"alg":"EdDSA","b64":false,"crit":["b64"]}"#, r#"{"alg":"none"}"#, r#"{"alg":"EdDSA","kid":"did:ex:i1#k0","typ":"JWT","nonce":"n"}"#, r#"{"alg":"EdDSA","crit":[]}"#, r#"{}"#, r#"[]"#, r#"{"alg":1}"#];
  let mut tokens: Vec<String> = vec![];
  for h in hdrs {
    for c in ["{}", "", "x", r#"{"iss":"did:ex:i1"}"#] {
      tokens.push(sign_compact(h, c, 10));
    }
  }
  tokens.extend(["", ".", "..", "...", "a.b", "a.b.c", "a.b.c.d", "a..c", ".b.", "é.é.é"].iter().map(|s| s.to_string()));
  for t in &tokens {
    emit(out, "compact", t.as_bytes());
    emit2(out, "compactd", t.as_bytes(), b"payload");
    let parts: Vec<&str> = t.split('.').collect();
    if parts.len() == 3 {
      emit2(out, "compactd", format!("{}..{}", parts[0], parts[2]).as_bytes(), b"payload");
    }
  }
  let per = if thorough { 6000 } else { 600 };
  for _ in 0..per * 3 {
    let t = r.pick(&tokens).clone();
    let m = mutate(&mut r, t.as_bytes());
    emit(out, "compact", &m);
    emit2(out, "compactd", &m, b"p");
  }
  // (d) every seed, structural JSON mutations and byte mutations of it
  for sd in seeds() {
    for s in &sd.seeds {
      if s.starts_with('{') && !sd.json {
        continue;
      }
      emit(out, sd.name, s.as_bytes());
    }
    for i in 0..per {
      let base = r.pick(&sd.seeds).clone();
      let m: Vec<u8> = if sd.json {
        if i % 3 == 0 {
          mutate(&mut r, base.as_bytes())
        } else {
          mutate_json(&mut r, &base).into_bytes()
        }
      } else if sd.name == "vcjwt" || sd.name == "vpjwt" {
        // mutate the claims as JSON, sign, and sometimes mutate the token bytes too
        let claims = mutate_json(&mut r, &sd.seeds[1]);
        let hdr = if r.chance(1, 5) { mutate_json(&mut r, r#"{"alg":"EdDSA","kid":"did:ex:i1#k0","typ":"JWT"}"#) } else { r#"{"alg":"EdDSA","kid":"did:ex:i1#k0","typ":"JWT"}"#.to_string() };
        let t = sign_compact(&hdr, &claims, 10);
        if i % 4 == 0 {
          mutate(&mut r, t.as_bytes())
        } else {
          t.into_bytes()
        }
      } else if sd.name == "sdjwtvc" {
        let claims = mutate_json(&mut r, &sd.seeds[1]);
        let ds: Vec<&str> = match r.below(4) {
          0 => vec![],
          1 => vec!["WyJzYWx0IiwibmFtZSIsIkEiXQ"],
          2 => vec!["WyJzYWx0IiwibmFtZSIsIkEiXQ", "WyJzYWx0IiwibmFtZSIsIkEiXQ"],
          _ => vec!["bm90LWEtZGlzY2xvc3VyZQ", ""],
        };
        // the header is mutated too (a member dropped, retyped, added)
        let hdr = if r.chance(1, 3) { mutate_json(&mut r, r#"{"alg":"EdDSA","typ":"vc+sd-jwt","kid":"k"}"#) } else { r#"{"alg":"EdDSA","typ":"vc+sd-jwt"}"#.to_string() };
        let mut t = sd_jwt_vc_token_h(&hdr, &claims, &ds);
        if r.chance(1, 3) {
          t.push_str(&sign_compact(r#"{"alg":"EdDSA","typ":"kb+jwt"}"#, &mutate_json(&mut r, r#"{"iat":1,"aud":"a","nonce":"n","sd_hash":"x"}"#), 10));
        }
        if i % 4 == 0 {
          mutate(&mut r, t.as_bytes())
        } else {
          t.into_bytes()
        }
      } else {
        mutate(&mut r, base.as_bytes())
      };
      emit(out, sd.name, &m);
      if sd.name == "sdjwtvc" || sd.name == "vcjwt" {
        // the same tokens through the SD-JWT credential validator (with and without a trailing `~`)
        let mut t = m.clone();
        if r.chance(1, 2) && !t.ends_with(b"~") {
          t.push(b'~');
        }
        emit(out, "sdjwt", &t);
      }
    }
  }
  // SD-JWT VC headers: typ absent / of another JSON type / another value
  for h in [r#"{"alg":"EdDSA"}"#, r#"{"alg":"EdDSA","typ":1}"#, r#"{"alg":"EdDSA","typ":null}"#, r#"{"alg":"EdDSA","typ":"JWT"}"#, r#"{"typ":"vc+sd-jwt"}"#, r#"{}"#] {
    emit(out, "sdjwtvc", sd_jwt_vc_token_h(h, r#"{"iss":"https://example.com/issuer","iat":1,"vct":"https://x.example/v"}"#, &[]).as_bytes());
  }
  // issuer / vct URLs of every kind of origin through the SD-JWT VC helpers
  for iss in ["https://example.com/issuer", "https://example.com", "http://a.example:8080/x/y", "did:example:123", "urn:uuid:1", "data:,x", "file:///etc", "blob:https://a.example/x", "mailto:a@b", "https://[::1]/", "ftp://a.example/"] {
    let c = format!(r#"{{"iss":"{}","iat":1,"vct":"{}"}}"#, iss, iss);
    emit(out, "sdjwtvc", sd_jwt_vc_token(&c, &[]).as_bytes());
    emit(out, "vcturl", iss.as_bytes());
  }
  // (e) the linked-service wrappers: every type list x every endpoint shape over the URL codes (model: Panic/Linked.lean)
  {
    let urls = ['a', 'b', 'p', 'q', 'f', 'h', 'd'];
    let mut eps: Vec<String> = vec![];
    for u in urls {
      eps.push(format!("o{}", u));
    }
    // sets and origins lists: empty, singletons, ordered pairs of distinct URLs, one triple
    let mut lists: Vec<String> = vec![String::new()];
    for u in urls {
      lists.push(u.to_string());
      for v in urls {
        if u != v {
          lists.push(format!("{}{}", u, v));
        }
      }
    }
    lists.push("abp".into());
    for l in &lists {
      eps.push(format!("s{}", l));
      eps.push(format!("mo{}", l));
      eps.push(format!("mx{}", l));
      eps.push(format!("my{}", l));
      eps.push(format!("mx{};o{}", l, l));
      eps.push(format!("mo{};xa", l));
    }
    eps.push("m".into());
    let types = ["L", "V", "X", "Y", "LX", "XL", "LV", "VL", "VX"];
    for (i, e) in eps.iter().enumerate() {
      for (j, t) in types.iter().enumerate() {
        // quick: every endpoint with the two wrapper types, a third of the others
        if thorough || j < 2 || (i + j) % 3 == 0 {
          writeln!(out, "C05 linked {}", hex(format!("{}|{}", t, e).as_bytes())).unwrap();
        }
      }
    }
    for l in &lists {
      writeln!(out, "C05 linkednew {}", hex(format!("L{}", l).as_bytes())).unwrap();
      writeln!(out, "C05 linkednew {}", hex(format!("V{}", l).as_bytes())).unwrap();
    }
  }
  // (f) integrity metadata: digests of every length 0..=6 in the standard and URL alphabets, unpadded, correctly padded, over- and
  // under-padded, with and without options (the parser and the accessors must agree on what a digest is)
  {
    const STD: &[u8] = b"ABCDEFGHIJKLMNOPQRSTUVWXYZabcdefghijklmnopqrstuvwxyz0123456789+/";
    for n in 0..=6usize {
      let bytes: Vec<u8> = (0..n).map(|i| 0xfbu8.wrapping_add((i * 37) as u8)).collect();
      let mut enc = String::new();
      for ch in bytes.chunks(3) {
        let v = (ch[0] as u32) << 16 | (*ch.get(1).unwrap_or(&0) as u32) << 8 | *ch.get(2).unwrap_or(&0) as u32;
        enc.push(STD[(v >> 18) as usize & 63] as char);
        enc.push(STD[(v >> 12) as usize & 63] as char);
        if ch.len() > 1 {
          enc.push(STD[(v >> 6) as usize & 63] as char);
        }
        if ch.len() > 2 {
          enc.push(STD[v as usize & 63] as char);
        }
      }
      let pad = (4 - enc.len() % 4) % 4;
      for p in 0..=3usize {
        for alg in ["sha256", "sha512", "x", ""] {
          for opt in ["", "-opt", "-", "-a-b"] {
            let d = format!("{}{}", enc, "=".repeat(p));
            emit(out, "integrity", format!("{}-{}{}", alg, d, opt).as_bytes());
            emit(out, "integrityjson", serde_json::to_string(&format!("{}-{}{}", alg, d, opt)).unwrap().as_bytes());
            if p == pad {
              emit(out, "integrity", format!("{}-{}{}", alg, d.replace('+', "-").replace('/', "_"), opt).as_bytes());
            }
          }
        }
      }
    }
    emit(out, "integrity", b"sha256-47DEQpj8HBSa+/TImW+5JCeuQeRkm5NMpJWZG3hSuFU=");
    emit(out, "integrity", b"sha512-z4PhNX7vuL3xVChQ1m2AB9Yg5AULVxXcg/SpIdNs6c5H0NE8XYXysP+DGNKHfuwvY7kxvUdBeoGlODJ6+SfaPg==");
  }
  // (g) revocation services whose payload is a well-framed roaring serialisation with broken container invariants (unsorted /
  // repeated array values, cardinalities that disagree with the data, offsets out of range, run containers that overlap)
  {
    use std::io::Write as _;
    let frame = |roaring: &[u8]| -> String {
      let mut z = flate2::write::ZlibEncoder::new(Vec::new(), flate2::Compression::default());
      z.write_all(roaring).unwrap();
      format!(r#"{{"id":"did:ex:i1#rev","type":"RevocationBitmap2022","serviceEndpoint":"data:application/octet-stream;base64,{}"}}"#, b64(&z.finish().unwrap()))
    };
    let u16s = |v: &[u16]| -> Vec<u8> { v.iter().flat_map(|x| x.to_le_bytes()).collect() };
    // array container of key 0: cookie 12346, one container, (key, cardinality-1), offset 16, values
    let array = |card_minus_1: u16, offset: u32, vals: &[u16]| -> Vec<u8> {
      let mut b = vec![0x3a, 0x30, 0, 0, 1, 0, 0, 0];
      b.extend(u16s(&[0, card_minus_1]));
      b.extend(offset.to_le_bytes());
      b.extend(u16s(vals));
      b
    };
    let mut payloads: Vec<Vec<u8>> = vec![
      array(1, 16, &[3, 5]),
      array(1, 16, &[5, 3]),
      array(1, 16, &[3, 3]),
      array(2, 16, &[3, 5]),
      array(0, 16, &[3, 5]),
      array(1, 15, &[3, 5]),
      array(1, 400, &[3, 5]),
      array(1, 16, &[3]),
      array(65535, 16, &[3, 5]),
      array(2, 16, &[9, 8, 7]),
      array(3, 16, &[1, 2, 2, 1]),
    ];
    // run container: cookie 12347 | (n-1) << 16, run bitset, (key, card-1), then runs (start, length-1)
    let run = |card_minus_1: u16, runs: &[(u16, u16)]| -> Vec<u8> {
      let mut b = vec![0x3b, 0x30, 0, 0, 1];
      b.extend(u16s(&[0, card_minus_1]));
      b.extend(u16s(&[runs.len() as u16]));
      for (s, l) in runs {
        b.extend(u16s(&[*s, *l]));
      }
      b
    };
    payloads.extend([run(3, &[(1, 1), (5, 1)]), run(3, &[(5, 1), (1, 1)]), run(3, &[(1, 5), (3, 1)]), run(0, &[(65535, 5)]), run(3, &[(1, 1)]), run(9, &[])]);
    // bitmap container (cardinality 4097) with a body of another popcount / length
    for (card, ones, len) in [(4096u16, 4097usize, 8192usize), (4096, 4096, 8192), (4096, 0, 8192), (4096, 4097, 8191), (65535, 65536, 8192), (65535, 1, 8192)] {
      let mut b = vec![0x3a, 0x30, 0, 0, 1, 0, 0, 0];
      b.extend(u16s(&[0, card]));
      b.extend(16u32.to_le_bytes());
      let mut body = vec![0u8; len];
      for i in 0..ones.min(len * 8) {
        body[i / 8] |= 1 << (i % 8);
      }
      b.extend(body);
      payloads.push(b);
    }
    // two containers with keys out of order / equal
    for keys in [[1u16, 0], [0, 0], [0, 1]] {
      let mut b = vec![0x3a, 0x30, 0, 0, 2, 0, 0, 0];
      b.extend(u16s(&[keys[0], 0, keys[1], 0]));
      b.extend(24u32.to_le_bytes());
      b.extend(26u32.to_le_bytes());
      b.extend(u16s(&[7, 9]));
      payloads.push(b);
    }
    let n = payloads.len();
    for i in 0..(if thorough { 1500 } else { 150 }) {
      let base = payloads[i % n].clone();
      payloads.push(mutate(&mut r, &base));
    }
    for p in &payloads {
      emit(out, "service", frame(p).as_bytes());
    }
  }
  // random DID-ish strings from a grammar-aware generator
  for _ in 0..(if thorough { 20000 } else { 2000 }) {
    let mut s = String::from(*r.pick(&["did:", "did:", "did:", "DID:", "did", ""]));
    s.push_str(*r.pick(&["m", "iota", "jwk", "ex", "M", "", "a-b", "é"]));
    for _ in 0..r.below(6) {
      s.push_str(*r.pick(&[":", "a", "0x", "%41", "%4", "%", "/", "?", "#", ".", "-", "_", "ab", "é", " ", "\n", "%zz", "/..", "?a=b&c", "#f", "0123456789abcdef0123456789abcdef0123456789abcdef0123456789abcdef"]));
    }
    match r.below(4) {
      0 => emit(out, "did", s.as_bytes()),
      1 => emit(out, "url", s.as_bytes()),
      2 => emit2(out, "iota", s.as_bytes(), s.to_lowercase().as_bytes()),
      _ => {
        emit2(out, "join", b"did:m:a/p?q#f", s.as_bytes());
        emit2(out, "didset", b"did:m:a", s.as_bytes());
        emit2(out, "urlset", b"did:m:a/p", s.as_bytes());
      }
    }
  }
}
