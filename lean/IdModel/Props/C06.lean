import IdModel.Bitmap.Model
import IdModel.Bitmap.Lookup
import IdModel.Doc.Lemmas
import IdModel.Core.B64Lemmas
/-!
# C06 — revocation bitmaps round-trip and revoke exactly the requested indices

The roaring serialisation + zlib are an abstract codec with two explicit hypotheses, both
exercised on every generated bitmap by the correspondence run:
`unpack (pack s) = some s` and "the compressed stream starts with the zlib default header
`78 9C`".  The legacy-detection prefixes are regenerated from bitmap.rs on every run.
-/
namespace IdModel.Props.C06
open IdModel IdModel.Bitmap IdModel.Gen.C06

/-! ## encoding round trip -/

/-- a stream starting with `78 9C` encodes to text starting with `eJ` -/
theorem enc_prefix_eJ (r : Bytes) : ∃ t, B64.enc (120 :: 156 :: r) = 101 :: 74 :: t := by
  match r with
  | [] => exact ⟨_, rfl⟩
  | c :: r' => exact ⟨_, rfl⟩

/-- the regenerated detection recognises every such text as new format -/
theorem isNewFormat_eJ (t : Bytes) : isNewFormat (101 :: 74 :: t) = true := by
  unfold isNewFormat newFormatPrefixes
  simp [List.isPrefixOf]

/-- … and nothing that starts with `Z` (what the legacy form starts with) -/
theorem not_newFormat_Z (t : Bytes) : isNewFormat (90 :: t) = false := by
  unfold isNewFormat newFormatPrefixes
  simp [List.isPrefixOf]

theorem isPrefixOf_append (p s : Bytes) : p.isPrefixOf (p ++ s) = true := by
  induction p with
  | nil => simp [List.isPrefixOf]
  | cons a r ih => simp [List.isPrefixOf, ih]

/-- **a bitmap survives encoding into a service endpoint and decoding back** -/
theorem endpoint_roundtrip (c : Codec) (s : List Nat) (r : Bytes)
    (hhdr : c.pack s = 120 :: 156 :: r) (hbytes : B64.Bytes (c.pack s))
    (hcodec : c.unpack (c.pack s) = some s) :
    tryFromEndpoint c (toEndpoint c s) = some s := by
  unfold tryFromEndpoint toEndpoint
  rw [isPrefixOf_append]
  simp only [↓reduceIte, List.drop_left]
  unfold deserialize serialize
  obtain ⟨t, ht⟩ := enc_prefix_eJ r
  rw [hhdr] at hbytes hcodec ⊢
  rw [ht, isNewFormat_eJ t]
  simp only [↓reduceIte]
  rw [← ht, B64.dec_enc _ hbytes]
  exact hcodec

theorem service_roundtrip (c : Codec) (s : List Nat) (r : Bytes) (types : List Bytes)
    (ht : typeName ∈ types)
    (hhdr : c.pack s = 120 :: 156 :: r) (hbytes : B64.Bytes (c.pack s))
    (hcodec : c.unpack (c.pack s) = some s) :
    tryFromService c types (some (toEndpoint c s)) = some s := by
  unfold tryFromService
  have : types.contains typeName = true := by simpa using ht
  simp only [this, ↓reduceIte]
  exact endpoint_roundtrip c s r hhdr hbytes hcodec

/-! ## the legacy double-encoded form: `Base64(ascii(Base64Url(compressed)))` -/

def urlToStd (c : Nat) : Nat := if c = 45 then 43 else if c = 95 then 47 else c

/-- standard-alphabet encoding -/
def encStd (b : Bytes) : Bytes := (B64.enc b).map urlToStd

theorem charOf_cases (v : Nat) :
    (65 ≤ B64.charOf v ∧ B64.charOf v ≤ 90) ∨ (97 ≤ B64.charOf v ∧ B64.charOf v ≤ 122) ∨
    (48 ≤ B64.charOf v ∧ B64.charOf v ≤ 57) ∨ B64.charOf v = 45 ∨ B64.charOf v = 95 := by
  unfold B64.charOf
  split
  · left; omega
  · split
    · right; left; omega
    · split
      · right; right; left; omega
      · split
        · right; right; right; left; rfl
        · right; right; right; right; rfl

theorem enc_chars (b : Bytes) : ∀ c ∈ B64.enc b,
    (65 ≤ c ∧ c ≤ 90) ∨ (97 ≤ c ∧ c ≤ 122) ∨ (48 ≤ c ∧ c ≤ 57) ∨ c = 45 ∨ c = 95 := by
  induction hn : b.length using Nat.strongRecOn generalizing b with
  | _ n ih =>
    match b, hn with
    | [], _ => intro c hc; cases hc
    | [a], _ =>
      intro c hc; simp only [B64.enc, List.mem_cons, List.not_mem_nil, or_false] at hc
      rcases hc with h | h <;> (subst h; exact charOf_cases _)
    | [a, b'], _ =>
      intro c hc; simp only [B64.enc, List.mem_cons, List.not_mem_nil, or_false] at hc
      rcases hc with h | h | h <;> (subst h; exact charOf_cases _)
    | a :: b' :: c' :: r, hn =>
      intro c hc; simp only [B64.enc, List.mem_cons] at hc
      rcases hc with h | h | h | h | h
      · subst h; exact charOf_cases _
      · subst h; exact charOf_cases _
      · subst h; exact charOf_cases _
      · subst h; exact charOf_cases _
      · exact ih r.length (by simp at hn; omega) r rfl c h

theorem stdToUrl_urlToStd (cs : Bytes)
    (h : ∀ c ∈ cs, (65 ≤ c ∧ c ≤ 90) ∨ (97 ≤ c ∧ c ≤ 122) ∨ (48 ≤ c ∧ c ≤ 57) ∨ c = 45 ∨ c = 95) :
    (cs.map urlToStd).mapM stdToUrl = some cs := by
  induction cs with
  | nil => rfl
  | cons c r ih =>
    have hc := h c List.mem_cons_self
    have e : stdToUrl (urlToStd c) = some c := by
      unfold urlToStd stdToUrl
      rcases hc with hc | hc | hc | hc | hc
      · have : c ≠ 45 ∧ c ≠ 95 ∧ c ≠ 43 ∧ c ≠ 47 := by omega
        simp [this.1, this.2.1, this.2.2.1, this.2.2.2]
      · have : c ≠ 45 ∧ c ≠ 95 ∧ c ≠ 43 ∧ c ≠ 47 := by omega
        simp [this.1, this.2.1, this.2.2.1, this.2.2.2]
      · have : c ≠ 45 ∧ c ≠ 95 ∧ c ≠ 43 ∧ c ≠ 47 := by omega
        simp [this.1, this.2.1, this.2.2.1, this.2.2.2]
      · subst hc; rfl
      · subst hc; rfl
    simp only [List.map_cons, List.mapM_cons, e, ih (fun x hx => h x (List.mem_cons_of_mem _ hx))]
    rfl

theorem utf8Valid_ascii (b : Bytes) (h : ∀ c ∈ b, c < 128) : utf8Valid b = true := by
  induction b with
  | nil => rfl
  | cons c r ih =>
    unfold utf8Valid
    rw [if_pos (h c List.mem_cons_self)]
    exact ih (fun x hx => h x (List.mem_cons_of_mem _ hx))

/-- **endpoints in the legacy double-encoded form still decode** -/
theorem legacy_decodes (c : Codec) (s : List Nat) (r : Bytes)
    (hhdr : c.pack s = 120 :: 156 :: r) (hbytes : B64.Bytes (c.pack s))
    (hcodec : c.unpack (c.pack s) = some s) :
    deserialize c (encStd (B64.enc (c.pack s))) = some s := by
  obtain ⟨t, ht⟩ := enc_prefix_eJ r
  have hinner : B64.enc (c.pack s) = 101 :: 74 :: t := by rw [hhdr]; exact ht
  have hinner_bytes : B64.Bytes (B64.enc (c.pack s)) := by
    intro x hx
    have := enc_chars (c.pack s) x hx; omega
  have hascii : ∀ x ∈ B64.enc (c.pack s), x < 128 := by
    intro x hx
    have := enc_chars (c.pack s) x hx; omega
  -- the outer text starts with `Z`: base64 of `e` …
  have houter : ∃ u, encStd (B64.enc (c.pack s)) = 90 :: u := by
    unfold encStd
    rw [hinner]
    match t with
    | [] => exact ⟨_, rfl⟩
    | x :: t' => exact ⟨_, rfl⟩
  obtain ⟨u, hu⟩ := houter
  unfold deserialize
  rw [hu, not_newFormat_Z u, ← hu]
  simp only [Bool.false_eq_true, ↓reduceIte]
  have hds : decStd (encStd (B64.enc (c.pack s))) = some (B64.enc (c.pack s)) := by
    unfold decStd encStd
    rw [stdToUrl_urlToStd _ (enc_chars _)]
    simp only [Option.bind_some]
    exact B64.dec_enc _ hinner_bytes
  rw [hds]
  simp only [utf8Valid_ascii _ hascii, ↓reduceIte, B64.dec_enc _ hbytes]
  exact hcodec

/-! ## revoking and un-revoking change exactly the requested indices -/

theorem mem_revoke (s : List Nat) (i j : Nat) : j ∈ revoke s i ↔ (j = i ∨ j ∈ s) := by
  unfold revoke
  split
  · rename_i h
    constructor
    · intro hj; exact Or.inr hj
    · rintro (h1 | h1)
      · subst h1; exact h
      · exact h1
  · simp

theorem mem_unrevoke (s : List Nat) (i j : Nat) : j ∈ unrevoke s i ↔ (j ≠ i ∧ j ∈ s) := by
  unfold unrevoke
  simp [List.mem_filter, and_comm]

theorem revoke_exact (s is : List Nat) (j : Nat) : j ∈ revokeAll s is ↔ (j ∈ is ∨ j ∈ s) := by
  unfold revokeAll
  induction is generalizing s with
  | nil => simp
  | cons i r ih =>
    simp only [List.foldl_cons, ih, mem_revoke, List.mem_cons]
    constructor
    · rintro (h | h | h)
      · exact Or.inl (Or.inr h)
      · exact Or.inl (Or.inl h)
      · exact Or.inr h
    · rintro ((h | h) | h)
      · exact Or.inr (Or.inl h)
      · exact Or.inl h
      · exact Or.inr (Or.inr h)

theorem unrevoke_exact (s is : List Nat) (j : Nat) : j ∈ unrevokeAll s is ↔ (j ∉ is ∧ j ∈ s) := by
  unfold unrevokeAll
  induction is generalizing s with
  | nil => simp
  | cons i r ih =>
    simp only [List.foldl_cons, ih, mem_unrevoke, List.mem_cons, not_or]
    constructor
    · rintro ⟨h1, h2, h3⟩; exact ⟨⟨h2, h1⟩, h3⟩
    · rintro ⟨⟨h1, h2⟩, h3⟩; exact ⟨h2, h1, h3⟩

/-- the abstract effect of one batch on membership -/
def specBatch (m : Nat → Prop) : Batch → Nat → Prop
  | .revoke is => fun j => j ∈ is ∨ m j
  | .unrevoke is => fun j => j ∉ is ∧ m j

theorem applyBatch_spec (s : List Nat) (b : Batch) (j : Nat) :
    j ∈ applyBatch s b ↔ specBatch (· ∈ s) b j := by
  cases b with
  | revoke is => exact revoke_exact s is j
  | unrevoke is => exact unrevoke_exact s is j

/-- **any sequence of batches**: membership of every index is what the abstract set semantics
says; in particular indices never mentioned keep their status -/
theorem history_membership (s : List Nat) (bs : List Batch) (j : Nat)
    (hun : ∀ b ∈ bs, match b with | .revoke is => j ∉ is | .unrevoke is => j ∉ is) :
    j ∈ bs.foldl applyBatch s ↔ j ∈ s := by
  induction bs generalizing s with
  | nil => rfl
  | cons b r ih =>
    simp only [List.foldl_cons]
    rw [ih (applyBatch s b) (fun b' hb' => hun b' (List.mem_cons_of_mem _ hb'))]
    have := hun b List.mem_cons_self
    rw [applyBatch_spec]
    cases b with
    | revoke is => simp only [specBatch]; simp only at this; constructor
                   · rintro (h | h); exact absurd h this; exact h
                   · intro h; exact Or.inr h
    | unrevoke is => simp only [specBatch]; simp only at this; exact ⟨fun h => h.2, fun h => ⟨this, h⟩⟩

/-- through the service: an update rewrites the endpoint to the encoding of the updated set,
and decoding it again gives exactly that set (round trip) -/
theorem update_roundtrip (c : Codec) (types : List Bytes) (ep : Option Bytes) (b : Batch)
    (s : List Nat) (hs : tryFromService c types ep = some s) (r : Bytes)
    (hhdr : c.pack (applyBatch s b) = 120 :: 156 :: r) (hbytes : B64.Bytes (c.pack (applyBatch s b)))
    (hcodec : c.unpack (c.pack (applyBatch s b)) = some (applyBatch s b)) :
    ∃ ep', updateEndpoint c types ep b = some ep' ∧
      tryFromService c types (some ep') = some (applyBatch s b) := by
  unfold updateEndpoint
  rw [hs]
  refine ⟨_, rfl, ?_⟩
  have ht : typeName ∈ types := by
    unfold tryFromService at hs
    by_cases h : types.contains typeName = true
    · simpa using h
    · simp [h] at hs
      exact hs.1
  exact service_roundtrip c _ r types ht hhdr hbytes hcodec

/-! ## a credential is reported revoked exactly when its index is a member -/

theorem status_revoked_iff (sc : StatusCheck) (st : StatusView) (issuerFound : Bool)
    (service : Option (List Nat)) :
    checkStatus sc (some st) issuerFound service = .revoked ↔
      (sc ≠ .skipAll ∧ st.typeIsBitmap = true ∧ issuerFound = true ∧ st.idIsDidUrl = true ∧
        ∃ n s, statusIndex st = some n ∧ service = some s ∧ n ∈ s) := by
  unfold checkStatus
  cases sc <;> simp only [reduceCtorEq, beq_self_eq_true, ↓reduceIte, ne_eq, not_true_eq_false,
    false_and, not_false_eq_true, true_and, Bool.false_eq_true, beq_iff_eq]
  all_goals first
    | (cases hty : st.typeIsBitmap <;> simp only [Bool.not_false, Bool.not_true, ↓reduceIte,
        Bool.false_eq_true, false_and, reduceCtorEq, true_and]
       · cases hidx : statusIndex st with
         | none => simp
         | some n =>
           simp only
           cases issuerFound <;> simp only [Bool.not_false, Bool.not_true, ↓reduceIte,
             Bool.false_eq_true, false_and, reduceCtorEq, true_and]
           cases hid : st.idIsDidUrl <;> simp only [Bool.not_false, Bool.not_true, ↓reduceIte,
             Bool.false_eq_true, false_and, reduceCtorEq, true_and]
           cases service with
           | none => simp
           | some s =>
             simp only [Option.some.injEq, exists_eq_left']
             by_cases hm : n ∈ s <;> simp [hm])
    | simp

theorem status_relaxed (st : Option StatusView) (issuerFound : Bool) (service : Option (List Nat)) :
    checkStatus .skipAll st issuerFound service = .ok := by
  unfold checkStatus; rfl

/-! ## the service consulted is the one the status entry names by its FULL id -/

section Lookup
open IdModel.Doc

/-- the bitmap that answers is the content of a service OF THE ISSUER DOCUMENT whose id has the DID and the fragment of
the status entry's id — a service of another DID with the same fragment never answers — and it is the first such
service -/
theorem lookup_by_full_id (doc : Doc) (sets : Nat → Option (List Nat)) (sid : Id) (s : List Nat)
    (h : resolveBitmapService doc sets sid = some s) :
    ∃ svc ∈ doc.service, svc.id.did = sid.did ∧ svc.id.frag = sid.frag ∧ sid.frag ≠ none ∧ sets svc.body = some s := by
  unfold resolveBitmapService at h
  cases hr : resolveService doc (Query.ofId sid) with
  | none => simp [hr] at h
  | some svc =>
    simp only [hr] at h
    obtain ⟨hm, hq⟩ := query_some_mem Service.id doc.service (Query.ofId sid) svc hr
    refine ⟨svc, hm, ?_⟩
    unfold Query.matches Query.ofId at hq
    simp only [Bool.and_eq_true, beq_iff_eq] at hq
    obtain ⟨hd, hf⟩ := hq
    cases hsf : sid.frag with
    | none => simp [hsf] at hf
    | some a =>
      cases hvf : svc.id.frag with
      | none => simp [hsf, hvf] at hf
      | some b =>
        simp only [hsf, hvf, beq_iff_eq] at hf
        exact ⟨hd.symm, by rw [hf], by simp, h⟩

/-- no service with that DID and fragment: the lookup fails, and a well-formed entry is reported as a service-lookup
error — never answered from another service -/
theorem lookup_none (doc : Doc) (sets : Nat → Option (List Nat)) (sid : Id)
    (h : ∀ svc ∈ doc.service, ¬ (svc.id.did = sid.did ∧ svc.id.frag = sid.frag)) :
    resolveBitmapService doc sets sid = none := by
  unfold resolveBitmapService
  cases hr : resolveService doc (Query.ofId sid) with
  | none => rfl
  | some svc =>
    exfalso
    obtain ⟨hm, hq⟩ := query_some_mem Service.id doc.service (Query.ofId sid) svc hr
    apply h svc hm
    unfold Query.matches Query.ofId at hq
    simp only [Bool.and_eq_true, beq_iff_eq] at hq
    obtain ⟨hd, hf⟩ := hq
    refine ⟨hd.symm, ?_⟩
    cases hsf : sid.frag with
    | none => simp [hsf] at hf
    | some a =>
      cases hvf : svc.id.frag with
      | none => simp [hsf, hvf] at hf
      | some b => simp only [hsf, hvf, beq_iff_eq] at hf; rw [hf]

/-- **revoked exactly when a member — of the service the entry names**: with a well-formed entry and the issuer found,
the report is `revoked` iff the index is in the set of the first service of the issuer document with the entry's DID
and fragment -/
theorem status_doc_revoked_iff (sc : StatusCheck) (st : StatusView) (doc : Doc) (sets : Nat → Option (List Nat))
    (sid : Id) (n : Nat) (hsc : sc ≠ .skipAll) (hty : st.typeIsBitmap = true) (hidx : statusIndex st = some n)
    (hid : st.idIsDidUrl = true) :
    checkStatusDoc sc (some st) true doc sets sid = .revoked ↔
      ∃ s, resolveBitmapService doc sets sid = some s ∧ n ∈ s := by
  unfold checkStatusDoc checkStatus
  have h1 : (sc == StatusCheck.skipAll) = false := by cases sc <;> simp_all
  simp only [h1, Bool.false_eq_true, ↓reduceIte, hty, Bool.not_true, hidx, Bool.not_false, hid]
  cases hr : resolveBitmapService doc sets sid with
  | none => simp
  | some s =>
    by_cases hm : n ∈ s
    · simp [hm]
    · simp [hm]

end Lookup

/-! ## non-vacuity -/

example : isNewFormat [101, 74, 119, 65] = true ∧ isNewFormat [101, 74, 122] = true ∧
    isNewFormat [90, 85, 112] = false := by decide
example : (3 : Nat) ∈ applyBatch (applyBatch [1, 2] (.revoke [3, 4])) (.unrevoke [1, 4]) := by decide

end IdModel.Props.C06
