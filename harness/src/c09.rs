//! C09 — storage-backed generate_method / purge_method are all-or-nothing under storage faults.
//!
//! Request:  `C09 hist <C|I><doc> | <op> …`      (C: CoreDocument, I: IotaDocument; doc as in c04.rs)
//!   op = `gen:<scope>:<frag>:<mask>`   frag: a number (fragment k<n>), `~` (use the JWK kid), `X` (not DID URL syntax)
//!      | `purge:<id>:<mask>`
//!      | `at:…` `dt:…` `im:…` `rm:…` (document operations of c04.rs, to set up references)
//!      | `S`  (print document, key store, key-id store)
//!   mask = eight characters 0/1 (+ optionally a digit 0..8: the KIND of error the failing calls return): fail every call of JwkStorage::generate, JwkStorage::delete,
//!          KeyIdStorage::insert_key_id, get_key_id, delete_key_id, JwkStorage::exists, sign, insert during this operation
//! Keys are numbered in the order of generation; a generated method's key material prints as 1000 + key number, a
//! fragment taken from the JWK kid as 100 + key number.
//! Implementation-side oracle after every gen/purge: success ⇒ complete (method resolves, key exists, key id recorded,
//! signing works / everything gone); error other than UndoOperationFailed ⇒ document and both stores unchanged.
use crate::c04::*;
use crate::rng::Rng;
use async_trait::async_trait;
use identity_core::convert::FromJson;
use identity_did::DIDUrl;
use identity_document::document::CoreDocument;
use identity_iota_core::IotaDocument;
use identity_storage::JwkDocumentExt;
use identity_storage::JwkGenOutput;
use identity_storage::JwkMemStore;
use identity_storage::JwkStorage;
use identity_storage::JwkStorageDocumentError as SErr;
use identity_storage::JwsSignatureOptions;
use identity_storage::KeyId;
use identity_storage::KeyIdMemstore;
use identity_storage::KeyIdStorage;
use identity_storage::KeyIdStorageError;
use identity_storage::KeyIdStorageErrorKind;
use identity_storage::KeyIdStorageResult;
use identity_storage::KeyStorageError;
use identity_storage::KeyStorageErrorKind;
use identity_storage::KeyStorageResult;
use identity_storage::KeyType;
use identity_storage::MethodDigest;
use identity_storage::Storage;
use identity_verification::jose::jwk::Jwk;
use identity_verification::jose::jws::JwsAlgorithm;
use identity_verification::MethodRef;
use identity_verification::MethodRelationship;
use identity_verification::MethodScope;
use identity_verification::VerificationMethod;
use std::cell::RefCell;
use std::io::Write;

#[derive(Clone, Copy, Default)]
struct Plan {
  generate: bool,
  delete_key: bool,
  insert_kid: bool,
  get_kid: bool,
  delete_kid: bool,
  // calls the two operations do not make at the pinned commit; a change that starts making them is exposed to their failure too
  exists: bool,
  sign: bool,
  insert_key: bool,
  /// per call (same order as the mask): the fault fires on the FIRST occurrence of the call only (mask character `2`); a
  /// retry of the same call then succeeds.  At the pinned commit no call is made twice, so `2` behaves like `1` there.
  once: [bool; 8],
}

thread_local! {
  static PLAN: RefCell<Plan> = RefCell::new(Plan::default());
  /// every key ever generated, in order: (key id, public JWK)
  static KEYS: RefCell<Vec<(KeyId, Jwk)>> = RefCell::new(vec![]);
  /// every digest ever offered to insert_key_id
  static DIGESTS: RefCell<Vec<MethodDigest>> = RefCell::new(vec![]);
}

/// does call number `i` (mask order) fail now?  A first-occurrence fault disarms itself.
fn fault(i: usize) -> bool {
  PLAN.with(|p| {
    let mut p = p.borrow_mut();
    let hit = match i {
      0 => p.generate,
      1 => p.delete_key,
      2 => p.insert_kid,
      3 => p.get_kid,
      4 => p.delete_kid,
      5 => p.exists,
      6 => p.sign,
      _ => p.insert_key,
    };
    if hit && p.once[i] {
      match i {
        0 => p.generate = false,
        1 => p.delete_key = false,
        2 => p.insert_kid = false,
        3 => p.get_kid = false,
        4 => p.delete_kid = false,
        5 => p.exists = false,
        6 => p.sign = false,
        _ => p.insert_key = false,
      }
    }
    hit
  })
}

struct FK(JwkMemStore);
struct FI(KeyIdMemstore);

thread_local! {
  /// which kind of error the failing calls return (ninth character of the mask)
  static KIND_OF_ERROR: std::cell::Cell<u8> = std::cell::Cell::new(0);
}
fn kerr() -> KeyStorageError {
  KeyStorageError::new(match KIND_OF_ERROR.with(|k| k.get()) {
    1 => KeyStorageErrorKind::KeyNotFound,
    2 => KeyStorageErrorKind::Unauthenticated,
    3 => KeyStorageErrorKind::Unspecified,
    4 => KeyStorageErrorKind::RetryableIOFailure,
    5 => KeyStorageErrorKind::SerializationError,
    6 => KeyStorageErrorKind::UnsupportedKeyType,
    7 => KeyStorageErrorKind::KeyAlgorithmMismatch,
    8 => KeyStorageErrorKind::UnsupportedSignatureAlgorithm,
    _ => KeyStorageErrorKind::Unavailable,
  })
}
fn ierr() -> KeyIdStorageError {
  KeyIdStorageError::new(match KIND_OF_ERROR.with(|k| k.get()) {
    1 => KeyIdStorageErrorKind::KeyIdNotFound,
    2 => KeyIdStorageErrorKind::Unauthenticated,
    3 => KeyIdStorageErrorKind::Unspecified,
    4 => KeyIdStorageErrorKind::RetryableIOFailure,
    5 => KeyIdStorageErrorKind::SerializationError,
    6 => KeyIdStorageErrorKind::KeyIdAlreadyExists,
    _ => KeyIdStorageErrorKind::Unavailable,
  })
}

#[async_trait(?Send)]
impl JwkStorage for FK {
  async fn generate(&self, key_type: KeyType, alg: JwsAlgorithm) -> KeyStorageResult<JwkGenOutput> {
    if fault(0) {
      return Err(kerr());
    }
    let out = self.0.generate(key_type, alg).await?;
    let n = KEYS.with(|k| {
      k.borrow_mut().push((out.key_id.clone(), out.jwk.clone()));
      k.borrow().len() as u32
    });
    if let Some(kid) = out.jwk.kid() {
      BODIES.with(|t| t.borrow_mut().push((kid.to_string(), 1000 + n)));
      FRAGS.with(|t| t.borrow_mut().push((kid.to_string(), 100 + n)));
    }
    Ok(out)
  }
  async fn insert(&self, jwk: Jwk) -> KeyStorageResult<KeyId> {
    if fault(7) {
      return Err(kerr());
    }
    self.0.insert(jwk).await
  }
  async fn sign(&self, key_id: &KeyId, data: &[u8], public_key: &Jwk) -> KeyStorageResult<Vec<u8>> {
    if fault(6) {
      return Err(kerr());
    }
    self.0.sign(key_id, data, public_key).await
  }
  async fn delete(&self, key_id: &KeyId) -> KeyStorageResult<()> {
    if fault(1) {
      return Err(kerr());
    }
    self.0.delete(key_id).await
  }
  async fn exists(&self, key_id: &KeyId) -> KeyStorageResult<bool> {
    if fault(5) {
      return Err(kerr());
    }
    self.0.exists(key_id).await
  }
}

#[async_trait(?Send)]
impl KeyIdStorage for FI {
  async fn insert_key_id(&self, method_digest: MethodDigest, key_id: KeyId) -> KeyIdStorageResult<()> {
    DIGESTS.with(|d| {
      if !d.borrow().contains(&method_digest) {
        d.borrow_mut().push(method_digest.clone())
      }
    });
    if fault(2) {
      return Err(ierr());
    }
    self.0.insert_key_id(method_digest, key_id).await
  }
  async fn get_key_id(&self, method_digest: &MethodDigest) -> KeyIdStorageResult<KeyId> {
    if fault(3) {
      return Err(ierr());
    }
    self.0.get_key_id(method_digest).await
  }
  async fn delete_key_id(&self, method_digest: &MethodDigest) -> KeyIdStorageResult<()> {
    if fault(4) {
      return Err(ierr());
    }
    self.0.delete_key_id(method_digest).await
  }
}

/// what the two document types have in common for this harness
trait DocLike: Clone + PartialEq + JwkDocumentExt {
  fn from_spec(spec: &Spec) -> Option<Self>;
  fn core(&self) -> &CoreDocument;
  fn insert_m(&mut self, m: VerificationMethod, s: MethodScope) -> bool;
  fn remove_m(&mut self, u: &DIDUrl) -> Option<(VerificationMethod, MethodScope)>;
  fn attach(&mut self, q: &str, url: Option<&DIDUrl>, r: MethodRelationship, attach: bool) -> Result<bool, String>;
}

impl DocLike for CoreDocument {
  fn from_spec(spec: &Spec) -> Option<Self> {
    CoreDocument::from_json(&doc_json(spec)).ok()
  }
  fn core(&self) -> &CoreDocument {
    self
  }
  fn insert_m(&mut self, m: VerificationMethod, s: MethodScope) -> bool {
    self.insert_method(m, s).is_ok()
  }
  fn remove_m(&mut self, u: &DIDUrl) -> Option<(VerificationMethod, MethodScope)> {
    self.remove_method_and_scope(u)
  }
  fn attach(&mut self, q: &str, url: Option<&DIDUrl>, r: MethodRelationship, attach: bool) -> Result<bool, String> {
    let res = match (url, attach) {
      (Some(u), true) => self.attach_method_relationship(u, r),
      (Some(u), false) => self.detach_method_relationship(u, r),
      (None, true) => self.attach_method_relationship(q, r),
      (None, false) => self.detach_method_relationship(q, r),
    };
    res.map_err(|e| format!("{:?}", e))
  }
}

impl DocLike for IotaDocument {
  fn from_spec(spec: &Spec) -> Option<Self> {
    let j = format!(
      "{{\"doc\":{},\"meta\":{{\"created\":\"2023-01-01T00:00:00Z\",\"updated\":\"2023-01-01T00:00:00Z\"}}}}",
      doc_json(spec)
    );
    IotaDocument::from_json(&j).ok()
  }
  fn core(&self) -> &CoreDocument {
    self.core_document()
  }
  fn insert_m(&mut self, m: VerificationMethod, s: MethodScope) -> bool {
    self.insert_method(m, s).is_ok()
  }
  fn remove_m(&mut self, u: &DIDUrl) -> Option<(VerificationMethod, MethodScope)> {
    self.remove_method_and_scope(u)
  }
  fn attach(&mut self, q: &str, url: Option<&DIDUrl>, r: MethodRelationship, attach: bool) -> Result<bool, String> {
    let res = match (url, attach) {
      (Some(u), true) => self.attach_method_relationship(u, r),
      (Some(u), false) => self.detach_method_relationship(u, r),
      (None, true) => self.attach_method_relationship(q, r),
      (None, false) => self.detach_method_relationship(q, r),
    };
    res.map_err(|e| format!("{:?}", e))
  }
}

fn parse_mask(t: &str) -> Option<Plan> {
  let kind = match t.len() {
    8 => 0,
    9 => t[8..].parse::<u8>().ok()?,
    _ => return None,
  };
  let t = &t[..8];
  let b: Vec<bool> = t.chars().map(|c| c == '1' || c == '2').collect();
  if !t.chars().all(|c| c == '0' || c == '1' || c == '2') {
    return None;
  }
  let mut once = [false; 8];
  for (i, c) in t.chars().enumerate() {
    once[i] = c == '2';
  }
  KIND_OF_ERROR.with(|k| k.set(kind));
  Some(Plan { generate: b[0], delete_key: b[1], insert_kid: b[2], get_kid: b[3], delete_kid: b[4], exists: b[5], sign: b[6], insert_key: b[7], once })
}

fn err_kind(e: &SErr) -> &'static str {
  match e {
    SErr::KeyStorageError(_) => "keyStorage",
    SErr::KeyIdStorageError(_) => "keyIdStorage",
    SErr::VerificationMethodConstructionError(_) => "construction",
    SErr::FragmentAlreadyExists => "fragmentExists",
    SErr::MethodNotFound => "methodNotFound",
    SErr::MethodDigestConstructionError(_) => "digest",
    SErr::UndoOperationFailed { .. } => "undoFailed",
    _ => "other",
  }
}

struct Stores {
  rt: tokio::runtime::Runtime,
  storage: Storage<FK, FI>,
}

impl Stores {
  /// key numbers present in the key store
  fn keys(&self) -> Vec<u32> {
    let all: Vec<KeyId> = KEYS.with(|k| k.borrow().iter().map(|(i, _)| i.clone()).collect());
    let mut v = vec![];
    for (n, k) in all.iter().enumerate() {
      if self.rt.block_on(self.storage.key_storage().0.exists(k)).unwrap_or(false) {
        v.push(n as u32 + 1);
      }
    }
    v
  }
  /// (digest name, key number) pairs present in the key-id store; a digest is named by the (fragment, key) it belongs to
  fn kids(&self, names: &[(MethodDigest, String)]) -> Vec<(String, u32)> {
    let all: Vec<KeyId> = KEYS.with(|k| k.borrow().iter().map(|(i, _)| i.clone()).collect());
    let ds: Vec<MethodDigest> = DIGESTS.with(|d| d.borrow().clone());
    let mut v = vec![];
    for d in ds {
      if let Ok(k) = self.rt.block_on(self.storage.key_id_storage().0.get_key_id(&d)) {
        let name = names.iter().find(|(x, _)| *x == d).map(|(_, n)| n.clone()).unwrap_or_else(|| "?.?".into());
        let kn = all.iter().position(|x| *x == k).map(|p| p as u32 + 1).unwrap_or(0);
        v.push((name, kn));
      }
    }
    v
  }
}

fn sort_key(name: &str) -> u64 {
  let (f, b) = name.split_once('.').unwrap_or(("0", "0"));
  f.parse::<u64>().unwrap_or(0) * 100000 + b.parse::<u64>().unwrap_or(0)
}

fn state<D: DocLike>(doc: &D, st: &Stores, names: &[(MethodDigest, String)]) -> String {
  let ks = st.keys().iter().map(|k| k.to_string()).collect::<Vec<_>>().join(",");
  let mut is = st.kids(names);
  is.sort_by_key(|(n, _)| sort_key(n));
  format!("{}|K={}|I={}", show_doc(doc.core()), ks, is.iter().map(|(n, k)| format!("{}>{}", n, k)).collect::<Vec<_>>().join(","))
}

/// the number the correspondence uses for a fragment name (the model computes the same: IdModel.Store.fragmentNumber)
fn fragment_number(f: &str) -> u32 {
  let b = f.as_bytes();
  if b.first() == Some(&b'k') && b.len() > 1 && b.len() <= 7 && b[1..].iter().all(|c| c.is_ascii_digit()) {
    f[1..].parse().unwrap_or(999)
  } else {
    900 + b.iter().fold(0u32, |a, c| (a * 31 + *c as u32) % 97)
  }
}

/// names for the digests of every (fragment string, generated key) pair seen so far
fn digest_names(did: &identity_did::CoreDID, frags: &[String]) -> Vec<(MethodDigest, String)> {
  let keys: Vec<Jwk> = KEYS.with(|k| k.borrow().iter().map(|(_, j)| j.clone()).collect());
  let mut out = vec![];
  for (n, j) in keys.iter().enumerate() {
    let mut fs: Vec<String> = frags.to_vec();
    if let Some(kid) = j.kid() {
      fs.push(kid.to_string());
    }
    for f in fs {
      if let Ok(m) = VerificationMethod::new_from_jwk(did.clone(), j.clone(), Some(f.as_str())) {
        if let Ok(d) = MethodDigest::new(&m) {
          let fnum = id_of(m.id()).frag.unwrap_or(0);
          out.push((d, format!("{}.{}", fnum, 1000 + n as u32 + 1)));
        }
      }
    }
  }
  out
}

fn run_hist<D: DocLike>(spec: &Spec, ops: &[&str]) -> String {
  KEYS.with(|k| k.borrow_mut().clear());
  DIGESTS.with(|k| k.borrow_mut().clear());
  FRAGS.with(|k| k.borrow_mut().clear());
  BODIES.with(|k| k.borrow_mut().clear());
  PLAN.with(|p| *p.borrow_mut() = Plan::default());
  let mut doc = match D::from_spec(spec) {
    Some(d) => d,
    None => return "start:reject".into(),
  };
  let st = Stores {
    rt: tokio::runtime::Builder::new_current_thread().build().unwrap(),
    storage: Storage::new(FK(JwkMemStore::new()), FI(KeyIdMemstore::new())),
  };
  let did: identity_did::CoreDID = doc.core().id().clone();
  let mut frags: Vec<String> = vec![];
  let mut out = vec!["start:ok".to_string()];
  let mut fail: Option<String> = None;
  for t in ops {
    let p: Vec<&str> = t.split(':').collect();
    match p.as_slice() {
      ["S"] => {
        let names = digest_names(&did, &frags);
        out.push(state(&doc, &st, &names));
      }
      ["gen", sc, fr, mask] => {
        let (scope, plan) = match (scope_of(sc), parse_mask(mask)) {
          (Some(a), Some(b)) => (a, b),
          _ => {
            out.push("bad-op".into());
            break;
          }
        };
        let frag: Option<String> = match *fr {
          // `S<hex>`: the fragment string itself (the model decides through the C10 join model whether it is one)
          x if x.starts_with('S') => {
            let Some(raw) = crate::rng::unhex(&x[1..]).and_then(|b| String::from_utf8(b).ok()) else {
              out.push("bad-op".into());
              break;
            };
            let name = raw.strip_prefix('#').unwrap_or(&raw).to_string();
            FRAGS.with(|t| {
              let mut t = t.borrow_mut();
              if !t.iter().any(|(s, _)| *s == name) {
                t.push((name.clone(), fragment_number(&name)));
              }
            });
            Some(raw)
          }
          "~" => None,
          "X" => Some("not a fragment".to_string()),
          // other strings that are no fragment: a doubled delimiter in front of a valid name, a second delimiter inside,
          // a bad percent triple, a trailing delimiter, a space after the delimiter
          "X1" => Some("##k1".to_string()),
          "X2" => Some("#a#b".to_string()),
          "X3" => Some("#%zz".to_string()),
          "X4" => Some("#k1#".to_string()),
          "X5" => Some("# k1".to_string()),
          "X6" => Some("###k2".to_string()),
          n => Some(format!("k{}", n)),
        };
        if let Some(f) = &frag {
          if !frags.contains(f) {
            frags.push(f.clone());
          }
        }
        let names0 = digest_names(&did, &frags);
        let before = (doc.clone(), st.keys(), st.kids(&names0));
        PLAN.with(|p| *p.borrow_mut() = plan);
        let r = st.rt.block_on(doc.generate_method(&st.storage, JwkMemStore::ED25519_KEY_TYPE, JwsAlgorithm::EdDSA, frag.as_deref(), scope));
        PLAN.with(|p| *p.borrow_mut() = Plan::default());
        let names = digest_names(&did, &frags);
        match &r {
          Ok(f) => {
            let fnum = id_of(&DIDUrl::parse(format!("{}#{}", did, f)).unwrap()).frag.unwrap_or(999);
            out.push(format!("ok:{}", fnum));
            if fail.is_none() {
              // complete: resolves, key exists, key id recorded, signing works
              // by full id: a bare fragment is documented to misbehave next to ids of another DID with the same fragment
              let full = format!("{}#{}", did, f);
              let resolved = doc.core().resolve_method(full.as_str(), None).cloned();
              let complete = match resolved {
                None => Err("the method does not resolve"),
                Some(m) => match MethodDigest::new(&m) {
                  Err(_) => Err("no digest"),
                  Ok(d) => match st.rt.block_on(st.storage.key_id_storage().0.get_key_id(&d)) {
                    Err(_) => Err("its key id is not recorded"),
                    Ok(k) => {
                      if !st.rt.block_on(st.storage.key_storage().0.exists(&k)).unwrap_or(false) {
                        Err("its key does not exist")
                      } else if st.rt.block_on(doc.create_jws(&st.storage, full.as_str(), b"x", &JwsSignatureOptions::default())).is_err() {
                        Err("signing with it fails")
                      } else {
                        Ok(())
                      }
                    }
                  },
                },
              };
              if let Err(why) = complete {
                fail = Some(format!("generate-not-atomic:{} reported success but {}", t, why));
              }
            }
          }
          Err(e) => {
            out.push(format!("err:{}", err_kind(e)));
            if fail.is_none() && err_kind(e) != "undoFailed" {
              let after = (doc.clone(), st.keys(), st.kids(&names));
              if after.0 != before.0 {
                fail = Some(format!("generate-not-atomic:{} failed ({}) but the document changed", t, err_kind(e)));
              } else if after.1 != before.1 {
                fail = Some(format!("generate-not-atomic:{} failed ({}) but left key(s) {:?} (before {:?})", t, err_kind(e), after.1, before.1));
              } else if after.2 != before.2 {
                fail = Some(format!("generate-not-atomic:{} failed ({}) but the key-id store changed", t, err_kind(e)));
              }
            }
          }
        }
      }
      ["purge", i, mask] => {
        let (id, plan) = match (parse_id(i), parse_mask(mask)) {
          (Some(a), Some(b)) => (a, b),
          _ => {
            out.push("bad-op".into());
            break;
          }
        };
        let url = mk_url(id).unwrap();
        let names = digest_names(&did, &frags);
        let before = (doc.clone(), st.keys(), st.kids(&names));
        // what completion must remove
        let target: Option<(MethodDigest, Option<KeyId>)> = doc.core().methods(None).into_iter().find(|m| m.id() == &url).and_then(|m| MethodDigest::new(m).ok()).map(|d| {
          let k = st.rt.block_on(st.storage.key_id_storage().0.get_key_id(&d)).ok();
          (d, k)
        });
        PLAN.with(|p| *p.borrow_mut() = plan);
        let r = st.rt.block_on(doc.purge_method(&st.storage, &url));
        PLAN.with(|p| *p.borrow_mut() = Plan::default());
        match &r {
          Ok(()) => {
            out.push("ok".into());
            if fail.is_none() {
              let c = doc.core();
              let still = c.methods(None).into_iter().any(|m| m.id() == &url) || c.verification_relationships().any(|e| e.id() == &url);
              let stores_clean = match &target {
                Some((d, Some(k))) => st.rt.block_on(st.storage.key_id_storage().0.get_key_id(d)).is_err() && !st.rt.block_on(st.storage.key_storage().0.exists(k)).unwrap_or(true),
                _ => false,
              };
              if still {
                fail = Some(format!("purge-not-atomic:{} reported success but the method or a reference to it is still in the document", t));
              } else if !stores_clean {
                fail = Some(format!("purge-not-atomic:{} reported success but key or key id remain", t));
              }
            }
          }
          Err(e) => {
            out.push(format!("err:{}", err_kind(e)));
            if fail.is_none() && err_kind(e) != "undoFailed" {
              let after = (doc.clone(), st.keys(), st.kids(&names));
              if after.0 != before.0 {
                let refs = |d: &D| d.core().verification_relationships().filter(|e| matches!(e, MethodRef::Refer(_)) && e.id() == &url).count();
                fail = Some(format!(
                  "purge-not-atomic:{} failed ({}) but the document changed (references to the method before {}, after {})",
                  t,
                  err_kind(e),
                  refs(&before.0),
                  refs(&doc)
                ));
              } else if after.1 != before.1 || after.2 != before.2 {
                fail = Some(format!("purge-not-atomic:{} failed ({}) but a store changed", t, err_kind(e)));
              }
            }
          }
        }
      }
      [k @ ("at" | "dt"), form, i, r] => {
        let res = (|| {
          let id = parse_id(i)?;
          let rel = rel_of(r.parse().ok()?)?;
          let url = mk_url(id)?;
          let q = if *form == "F" { String::new() } else { query_strings(form, id)? };
          Some(doc.attach(&q, if *form == "F" { Some(&url) } else { None }, rel, *k == "at"))
        })();
        out.push(match res {
          None => "bad-op".into(),
          Some(Ok(true)) => "ok1".into(),
          Some(Ok(false)) => "ok0".into(),
          Some(Err(e)) if e.contains("InvalidMethodEmbedded") => "errE".into(),
          Some(Err(e)) if e.contains("MethodNotFound") => "errN".into(),
          Some(Err(e)) => format!("err?{}", e),
        });
      }
      ["im", s, m] => {
        let res = (|| {
          let (i, b) = parse_idb(m)?;
          Some(doc.insert_m(mk_method(i, b)?, scope_of(s)?))
        })();
        out.push(match res {
          None => "bad-op".into(),
          Some(true) => "ok".into(),
          Some(false) => "errI".into(),
        });
      }
      ["rm", i] => {
        let res = (|| Some(doc.remove_m(&mk_url(parse_id(i)?)?)))();
        out.push(match res {
          None => "bad-op".into(),
          Some(None) => "none".into(),
          Some(Some((m, s))) => format!("{}@{}", show_method(&m), show_scope(s)),
        });
      }
      _ => {
        out.push("bad-op".into());
        break;
      }
    }
  }
  let line = out.join(" ");
  match fail {
    Some(f) => format!("{}\t#FAIL:{}", line, f),
    None => line,
  }
}

pub fn run(args: &[&str]) -> String {
  if args.len() < 2 || args[0] != "hist" {
    return "bad-request".into();
  }
  let (kind, spec_s) = args[1].split_at(1);
  let k = match kind {
    "C" => 'C',
    "I" => 'I',
    _ => return "bad-request".into(),
  };
  KIND.with(|c| c.set(k));
  let spec = match parse_spec(spec_s) {
    Some(s) => s,
    None => {
      KIND.with(|c| c.set('C'));
      return "bad-request".into();
    }
  };
  let ops = if args.get(2) == Some(&"|") { &args[3..] } else { &args[2..] };
  let r = if k == 'C' { run_hist::<CoreDocument>(&spec, ops) } else { run_hist::<IotaDocument>(&spec, ops) };
  KIND.with(|c| c.set('C'));
  r
}

// ---------------------------------------------------------------------------------------------------------
/// `bits`: the five calls the operations make (generate, delete, insert_key_id, get_key_id, delete_key_id);
/// `extra`: also fail exists / sign / insert
fn mask2(bits: u32, extra: bool) -> String {
  let mut m: String = (0..5).map(|i| if bits >> (4 - i) & 1 == 1 { '1' } else { '0' }).collect();
  m.push_str(if extra { "111" } else { "000" });
  m
}
fn mask(bits: u32) -> String {
  mask2(bits, false)
}

pub fn gen(thorough: bool, seed: u64, out: &mut impl Write) {
  let mut r = Rng::new(seed ^ 0xC09);
  let i = |did, pq, f| Id { did, pq, frag: Some(f) };
  let none: [Vec<Result<(Id, u32), Id>>; 5] = Default::default();
  let empty = spec_line(0, &[], &none, &[]);
  // start documents: empty; with unrelated methods, a service and a reference that does not resolve yet
  let busy = spec_line(0, &[(i(0, 0, 7), 11)], &[vec![Err(i(0, 0, 7)), Err(i(0, 0, 1))], vec![], vec![Ok((i(0, 0, 8), 12))], vec![], vec![Err(i(0, 0, 2))]], &[(i(0, 0, 9), 13)]);
  // the same without references to the fragments generated below
  let busy_b = spec_line(0, &[(i(0, 0, 7), 11)], &[vec![Err(i(0, 0, 7)), Err(i(0, 0, 5))], vec![], vec![Ok((i(0, 0, 8), 12))], vec![], vec![Err(i(1, 0, 1))]], &[(i(0, 0, 9), 13)]);
  // methods of ANOTHER DID carrying the fragments generated below (#1 general-purpose, #7 and #9 embedded), listed first
  let foreign = spec_line(0, &[(i(1, 0, 1), 21)], &[vec![Ok((i(1, 0, 7), 23))], vec![Ok((i(1, 0, 9), 24))], vec![], vec![], vec![]], &[]);
  let scopes = ["vm", "0", "1", "2", "3", "4"];
  // (a0) fragment STRINGS of every shape: whether each is a fragment (and which) is the C10 model's verdict
  let frag_strings = [
    "k1", "#k1", "##k1", "#", "", "k 1", "k1?x/y", "#%41", "#%4", "k%zz", "#k1#", "\u{e9}", "k1\n", "/k1", "?k1", "#k1/../x", "k1:2", "a@b", "k1%41", " k1", "k7", "#k9",
    "k1#k2", "%41%42", "k1%4", "k1%", "-._~", "!$&'()*+,;=", "k1 ", "#?", "#/", "K1", "k01",
  ];
  for kind in ["C", "I"] {
    for start in [&empty, &busy] {
      for fs in frag_strings {
        for m in [0u32, 2] {
          let bits = ((m >> 2) & 1) << 4 | ((m >> 1) & 1) << 3 | (m & 1) << 2;
          let fr = format!("S{}", crate::rng::hex(fs.as_bytes()));
          writeln!(out, "C09 hist {}{} | gen:vm:{}:{} S gen:0:{}:00000000 S", kind, start, fr, mask(bits), fr).unwrap();
        }
      }
    }
  }
  for kind in ["C", "I"] {
    // (a) generate_method: every fault mask x scope x fragment kind, from the three start documents; then a fault-free
    //     generate of the same fragment (shows that nothing stale blocks it), state after each step
    for start in [&empty, &busy, &foreign] {
      for sc in scopes {
        for fr in ["1", "~", "X", "7", "9", "X1", "X2", "X3", "X4", "X5", "X6"] {
          for m in 0..8u32 {
            if fr.len() == 2 && m != 0 && m != 2 {
              continue;
            }
            // bits: generate, deleteKey, insertKid
            let bits = ((m >> 2) & 1) << 4 | ((m >> 1) & 1) << 3 | (m & 1) << 2;
            writeln!(out, "C09 hist {}{} | gen:{}:{}:{} S gen:{}:{}:00000000 S", kind, start, sc, fr, mask(bits), sc, fr).unwrap();
            if sc == "vm" || sc == "3" {
              writeln!(out, "C09 hist {}{} | gen:{}:{}:{} S gen:{}:{}:00000000 S", kind, start, sc, fr, mask2(bits, true), sc, fr).unwrap();
            }
          }
        }
      }
    }
    // (a2 / b2) faults that fire on the first occurrence of a call only (a retry of that call would succeed): every single
    // call and every pair of calls, for generate and for purge of a method with and without references
    for once in 0..64u32 {
      if once.count_ones() == 0 || once.count_ones() > 2 {
        continue;
      }
      // mask characters in call order: generate, deleteKey, insertKid, getKid, deleteKid, exists
      let m: String = (0..8).map(|i| if i < 6 && (once >> i) & 1 == 1 { '2' } else { '0' }).collect();
      for sc in ["vm", "0"] {
        writeln!(out, "C09 hist {}{} | gen:{}:1:{} S gen:{}:1:00000000 S", kind, empty, sc, m, sc).unwrap();
        let refs = if sc == "vm" { "at:F:0.0.1:0 at:F:0.0.1:2 " } else { "" };
        writeln!(out, "C09 hist {}{} | gen:{}:1:00000000 gen:vm:2:00000000 {}S purge:0.0.1:{} S purge:0.0.1:00000000 S", kind, empty, sc, refs, m).unwrap();
      }
    }
    // (b) purge_method: target embedded in each scope with 0..3 references (general-purpose only), every fault mask
    for sc in scopes {
      let nrefs: &[usize] = if sc == "vm" { &[0, 1, 3] } else { &[0] };
      for &n in nrefs {
        for start in [&empty, &busy_b] {
          for m in 0..16u32 {
            // bits: deleteKey, insertKid, getKid, deleteKid
            let bits = ((m >> 3) & 1) << 3 | ((m >> 2) & 1) << 2 | ((m >> 1) & 1) << 1 | (m & 1);
            let mut ops = vec![format!("gen:{}:1:00000000", sc), "gen:vm:2:00000000".to_string()];
            for k in 0..n {
              ops.push(format!("at:F:0.0.1:{}", [0, 2, 4][k]));
            }
            ops.push("S".into());
            ops.push(format!("purge:0.0.1:{}", mask2(bits, m % 2 == 1 && n == 1)));
            ops.push("S".into());
            // a second, fault-free purge shows whether the first left the system usable
            ops.push("purge:0.0.1:00000000".into());
            ops.push("S".into());
            writeln!(out, "C09 hist {}{} | {}", kind, start, ops.join(" ")).unwrap();
          }
        }
      }
    }
    // (b') every KIND of error for the calls whose failure the operations must undo: generate with a failing insert_key_id,
    //      purge with failing delete / delete_key_id / get_key_id, one call at a time
    for ek in 0..9u32 {
      writeln!(out, "C09 hist {}{} | gen:vm:1:00100000{} S gen:1:2:00100000{} S gen:vm:1:00000000 S", kind, empty, ek, ek).unwrap();
      for bits in ["01000000", "00001000", "00010000", "01001000"] {
        writeln!(out, "C09 hist {}{} | gen:vm:1:00000000 gen:2:2:00000000 at:F:0.0.1:0 S purge:0.0.1:{}{} S purge:0.0.2:{}{} S purge:0.0.1:00000000 S", kind, empty, bits, ek, bits, ek).unwrap();
      }
    }
    // (b'') purge with an id that differs from the method's id only in path / query (no such method: nothing may happen)
    for pid in ["0.1.1", "0.2.1", "0.3.1", "1.0.1", "50.0.1", "10.0.1"] {
      writeln!(out, "C09 hist {}{} | gen:vm:1:00000000 at:F:0.0.1:0 S purge:{}:00000000 S purge:0.0.1:00000000 S", kind, empty, pid).unwrap();
    }
    // (c) purge of methods that have no key (start document), undecodable key material, unknown ids
    let odd = spec_line(0, &[(i(0, 0, 1), 0), (i(0, 0, 2), 12)], &[vec![Err(i(0, 0, 1)), Err(i(0, 0, 3))], vec![Ok((i(0, 0, 4), 0))], vec![], vec![], vec![]], &[]);
    for id in ["0.0.1", "0.0.2", "0.0.3", "0.0.4", "0.0.5", "1.0.1", "0.1.1"] {
      for m in [0u32, 2, 8, 1] {
        writeln!(out, "C09 hist {}{} | S purge:{}:{} S", kind, odd, id, mask(m)).unwrap();
      }
    }
  }
  // (d) random histories mixing generate, attach/detach, purge, with random masks
  let nh = if thorough { 6000 } else { 400 };
  for k in 0..nh {
    let kind = if k % 3 == 0 { "I" } else { "C" };
    let start = [&empty, &busy, &busy_b][k % 3];
    let len = 2 + r.below(10);
    let mut ops: Vec<String> = vec![];
    for _ in 0..len {
      let mk = if r.chance(1, 2) { 0 } else { r.below(32) as u32 };
      let ex = r.chance(1, 4);
      match r.below(10) {
        0..=3 => ops.push(format!("gen:{}:{}:{}{}", r.pick(&scopes), r.pick(&["1", "2", "3", "~", "7", "X", "X1", "X2", "X3", "X4", "X5", "X6"]), mask2(mk, ex), r.below(9))),
        4..=5 => ops.push(format!("at:{}:0.0.{}:{}", r.pick(&["F", "H"]), 1 + r.below(3), r.below(5))),
        6 => ops.push(format!("dt:F:0.0.{}:{}", 1 + r.below(3), r.below(5))),
        7 => ops.push(format!("purge:0.{}.{}:{}{}", r.below(3), 1 + r.below(3), mask2(mk, ex), r.below(9))),
        _ => ops.push(format!("purge:0.0.{}:{}{}", 1 + r.below(3), mask2(mk, ex), r.below(9))),
      }
      ops.push("S".into());
    }
    writeln!(out, "C09 hist {}{} | {}", kind, start, ops.join(" ")).unwrap();
  }
}
