import IdModel.OSet.Model
import IdModel.Gen.C04
/-!
Model of `identity_document::document::CoreDocument` as far as property C04 needs it: the six method
collections and the service collection (each an `OrderedSet`, modelled by `IdModel.OSet`), the id
constraint gate of `TryFrom<CoreDocumentData>`, the checked mutators and the resolution functions.

Identifiers are abstract: a DID URL is `(did, pq, frag)` where `did` names the DID, `pq` names the
path-and-query part (0 = none) and `frag` the fragment (`none` = absent or empty).  `OrderedSet` keys
compare the whole DID URL; queries (`DIDUrlQuery::matches`) compare the DID, if the query carries one,
and the fragment.  Method and service contents other than the id are an opaque `body`.

Import-free apart from the OSet model and the regenerated constants; executable.
-/
namespace IdModel.Doc

structure Id where
  did : Nat
  pq : Nat
  frag : Option Nat
  deriving DecidableEq, Repr

structure Method where
  id : Id
  body : Nat
  deriving DecidableEq, Repr

/-- `MethodRef` -/
inductive MRef
  | embed (m : Method)
  | refer (id : Id)
  deriving DecidableEq, Repr

def MRef.id : MRef → Id
  | .embed m => m.id
  | .refer i => i

def MRef.isEmbed : MRef → Bool
  | .embed _ => true
  | .refer _ => false

def MRef.embedded? : MRef → Option Method
  | .embed m => some m
  | .refer _ => none

structure Service where
  id : Id
  body : Nat
  deriving DecidableEq, Repr

/-- `MethodRelationship` -/
inductive Rel
  | auth | asrt | keyAgr | capDel | capInv
  deriving DecidableEq, Repr

def Rel.all : List Rel := [.auth, .asrt, .keyAgr, .capDel, .capInv]

def Rel.ofNat? : Nat → Option Rel
  | 0 => some .auth | 1 => some .asrt | 2 => some .keyAgr | 3 => some .capDel | 4 => some .capInv
  | _ => none

def relList (l : List Nat) : List Rel := l.filterMap Rel.ofNat?

/-- `MethodScope` -/
inductive Scope
  | vm
  | rel (r : Rel)
  deriving DecidableEq, Repr

/-- `CoreDocumentData` (the collections that carry identifiers) -/
structure Doc where
  id : Nat
  vm : List Method
  auth : List MRef
  asrt : List MRef
  keyAgr : List MRef
  capDel : List MRef
  capInv : List MRef
  service : List Service
  deriving DecidableEq, Repr

def Doc.getRel (d : Doc) : Rel → List MRef
  | .auth => d.auth | .asrt => d.asrt | .keyAgr => d.keyAgr | .capDel => d.capDel | .capInv => d.capInv

def Doc.setRel (d : Doc) (r : Rel) (l : List MRef) : Doc :=
  match r with
  | .auth => { d with auth := l }
  | .asrt => { d with asrt := l }
  | .keyAgr => { d with keyAgr := l }
  | .capDel => { d with capDel := l }
  | .capInv => { d with capInv := l }

/-! ### queries -/

/-- `DIDUrlQuery`, after `did_str()` / `fragment()` extraction -/
structure Query where
  did : Option Nat
  frag : Option Nat
  deriving DecidableEq, Repr

/-- `DIDUrlQuery::matches` -/
def Query.matches (q : Query) (i : Id) : Bool :=
  (match q.did with
   | some d => d == i.did
   | none => true) &&
  (match q.frag, i.frag with
   | some a, some b => a == b
   | _, _ => false)

/-- `From<&DIDUrl>` / `From<DIDUrl>` / `&did_url.to_string()` -/
def Query.ofId (i : Id) : Query := ⟨some i.did, i.frag⟩

/-- `Queryable::query` on an `OrderedSet` -/
def query {α : Type} (key : α → Id) (s : List α) (q : Query) : Option α :=
  s.find? (fun e => q.matches (key e))

/-- `resolve_method_ref` -/
def resolveMethodRef (d : Doc) : MRef → Option Method
  | .embed m => some m
  | .refer i => query Method.id d.vm (Query.ofId i)

/-- the chain of `if method.is_none() { method = self.data.<rel>.query(..) }` in `resolve_method_inner` -/
def firstRel (d : Doc) (q : Query) : List Rel → Option MRef
  | [] => none
  | r :: rs =>
    match query MRef.id (d.getRel r) q with
    | some e => some e
    | none => firstRel d q rs

/-- `resolve_method_inner` -/
def resolveMethodInner (d : Doc) (q : Query) : Option Method :=
  match firstRel d q (relList Gen.C04.resolveOrder) with
  | some (.embed m) => some m
  | some (.refer i) => query Method.id d.vm (Query.ofId i)
  | none => query Method.id d.vm q

/-- `resolve_method` -/
def resolveMethod (d : Doc) (q : Query) : Option Scope → Option Method
  | none => resolveMethodInner d q
  | some .vm => query Method.id d.vm q
  | some (.rel r) =>
    match query MRef.id (d.getRel r) q with
    | some e => resolveMethodRef d e
    | none => none

/-- `resolve_service` -/
def resolveService (d : Doc) (q : Query) : Option Service := query Service.id d.service q

/-- `verification_relationships` -/
def relationships (d : Doc) : List MRef :=
  (relList Gen.C04.relationshipsOrder).flatMap d.getRel

/-- `all_methods` -/
def allMethods (d : Doc) : List Method :=
  d.vm ++ (relList Gen.C04.allMethodsOrder).flatMap (fun r => (d.getRel r).filterMap MRef.embedded?)

/-- `methods(scope)` -/
def methods (d : Doc) : Option Scope → List Method
  | none => allMethods d
  | some .vm => d.vm
  | some (.rel r) => (d.getRel r).filterMap (resolveMethodRef d)

/-! ### the id constraint gate -/

/-- the `HashMap<&DIDUrl, bool>` of `check_id_constraints`, as a function -/
abbrev IdMap := Id → Option Bool

def IdMap.insert (m : IdMap) (k : Id) (v : Bool) : IdMap := fun x => if x = k then some v else m x

/-- first loop: relationship entries -/
def checkRels : IdMap → List MRef → Option IdMap
  | m, [] => some m
  | m, e :: t =>
    match m e.id with
    | some true => none
    | some false => if e.isEmbed then none else checkRels (m.insert e.id e.isEmbed) t
    | none => checkRels (m.insert e.id e.isEmbed) t

/-- second loop: general-purpose methods -/
def checkVm : IdMap → List Method → Option IdMap
  | m, [] => some m
  | m, x :: t =>
    match m x.id with
    | some true => none
    | _ => checkVm (m.insert x.id false) t

/-- third loop: services -/
def checkServices (m : IdMap) (l : List Service) : Bool := l.all (fun s => (m s.id).isNone)

/-- `CoreDocumentData::check_id_constraints` -/
def checkIdConstraints (d : Doc) : Bool :=
  match checkRels (fun _ => none) ((relList Gen.C04.checkOrder).flatMap d.getRel) with
  | none => false
  | some m =>
    match checkVm m d.vm with
    | none => false
    | some m' => checkServices m' d.service

/-- what deserialisation / the builder are given: plain vectors -/
structure Data where
  id : Nat
  vm : List Method
  auth : List MRef
  asrt : List MRef
  keyAgr : List MRef
  capDel : List MRef
  capInv : List MRef
  service : List Service
  deriving DecidableEq, Repr

def Doc.toData (d : Doc) : Data :=
  ⟨d.id, d.vm, d.auth, d.asrt, d.keyAgr, d.capDel, d.capInv, d.service⟩

/-- `TryFrom<CoreDocumentData>` preceded by the `OrderedSet: TryFrom<Vec<_>>` of every collection -/
def fromData (x : Data) : Option Doc :=
  match OSet.tryFromVec Method.id x.vm, OSet.tryFromVec MRef.id x.auth, OSet.tryFromVec MRef.id x.asrt,
    OSet.tryFromVec MRef.id x.keyAgr, OSet.tryFromVec MRef.id x.capDel, OSet.tryFromVec MRef.id x.capInv,
    OSet.tryFromVec Service.id x.service with
  | some vm, some a, some b, some c, some e, some f, some s =>
    let d : Doc := ⟨x.id, vm, a, b, c, e, f, s⟩
    if checkIdConstraints d then some d else none
  | _, _, _, _, _, _, _ => none

/-! ### checked mutators -/

inductive Res
  | ok
  | okFlag (b : Bool)
  | removedMethod (m : Option (Method × Scope))
  | removedService (s : Option Service)
  | errMethodInsertion
  | errServiceInsertion
  | errEmbedded
  | errNotFound
  deriving DecidableEq, Repr

def Res.isErr : Res → Bool
  | .errMethodInsertion | .errServiceInsertion | .errEmbedded | .errNotFound => true
  | _ => false

/-- the refusal test of `insert_method`, parameterised by which of the four clauses the source has -/
def insertRefusedG (c1 c2 c3 c4 : Bool) (d : Doc) (m : Method) (s : Scope) : Bool :=
  (c1 && (resolveMethod d (Query.ofId m.id) none).isSome) ||
  (c2 && (query Service.id d.service (Query.ofId m.id)).isSome) ||
  (c3 && (allMethods d).any (fun x => x.id == m.id)) ||
  (c4 && s != .vm && (relationships d).any (fun e => e.id == m.id))

/-- `insert_method` with a given refusal test -/
def insertMethodG (c1 c2 c3 c4 : Bool) (d : Doc) (m : Method) (s : Scope) : Doc × Res :=
  if insertRefusedG c1 c2 c3 c4 d m s then (d, .errMethodInsertion)
  else match s with
    | .vm => ({ d with vm := (OSet.append Method.id d.vm m).1 }, .ok)
    | .rel r => (d.setRel r (OSet.append MRef.id (d.getRel r) (.embed m)).1, .ok)

def insertRefused (d : Doc) (m : Method) (s : Scope) : Bool :=
  insertRefusedG Gen.C04.insertChecksResolve Gen.C04.insertChecksService Gen.C04.insertChecksEmbeddedIds
    Gen.C04.insertChecksRelationshipIds d m s

/-- `insert_method` -/
def insertMethod (d : Doc) (m : Method) (s : Scope) : Doc × Res :=
  insertMethodG Gen.C04.insertChecksResolve Gen.C04.insertChecksService Gen.C04.insertChecksEmbeddedIds
    Gen.C04.insertChecksRelationshipIds d m s

/-- the five `remove` calls of `remove_method_and_scope` (all executed), and the first embedded method
among their results -/
def removeRels (d : Doc) (k : Id) : List Rel → Doc × Option (Method × Rel)
  | [] => (d, none)
  | r :: rs =>
    let x := OSet.remove MRef.id (d.getRel r) k
    let y := removeRels (d.setRel r x.1) k rs
    match x.2 with
    | some (.embed m) => (y.1, some (m, r))
    | _ => y

/-- `remove_method_and_scope` -/
def removeMethod (d : Doc) (k : Id) : Doc × Res :=
  let y := removeRels d k (relList Gen.C04.removeOrder)
  match y.2 with
  | some (m, r) => (y.1, .removedMethod (some (m, .rel r)))
  | none =>
    let x := OSet.remove Method.id y.1.vm k
    ({ y.1 with vm := x.1 }, .removedMethod (x.2.map (fun m => (m, Scope.vm))))

/-- `insert_service` -/
def insertService (d : Doc) (s : Service) : Doc × Res :=
  let idExists := Gen.C04.insertServiceChecksMethodIds &&
    ((relationships d).any (fun e => e.id == s.id) || d.vm.any (fun m => m.id == s.id))
  if idExists then (d, .errServiceInsertion)
  else
    let x := OSet.append Service.id d.service s
    if x.2 then ({ d with service := x.1 }, .ok) else (d, .errServiceInsertion)

/-- `remove_service` -/
def removeService (d : Doc) (k : Id) : Doc × Res :=
  let x := OSet.remove Service.id d.service k
  ({ d with service := x.1 }, .removedService x.2)

/-- `attach_method_relationship` -/
def attach (d : Doc) (q : Query) (r : Rel) : Doc × Res :=
  match resolveMethod d q (some .vm) with
  | none =>
    match resolveMethod d q none with
    | some _ => (d, .errEmbedded)
    | none => (d, .errNotFound)
  | some m =>
    let x := OSet.append MRef.id (d.getRel r) (.refer m.id)
    (d.setRel r x.1, .okFlag x.2)

/-- `detach_method_relationship` -/
def detach (d : Doc) (q : Query) (r : Rel) : Doc × Res :=
  match resolveMethod d q (some .vm) with
  | none =>
    match resolveMethod d q none with
    | some _ => (d, .errEmbedded)
    | none => (d, .errNotFound)
  | some m =>
    let x := OSet.remove MRef.id (d.getRel r) m.id
    (d.setRel r x.1, .okFlag x.2.isSome)

inductive Op
  | insertMethod (m : Method) (s : Scope)
  | removeMethod (k : Id)
  | insertService (s : Service)
  | removeService (k : Id)
  | attach (q : Query) (r : Rel)
  | detach (q : Query) (r : Rel)
  deriving DecidableEq, Repr

def step (d : Doc) : Op → Doc × Res
  | .insertMethod m s => insertMethod d m s
  | .removeMethod k => removeMethod d k
  | .insertService s => insertService d s
  | .removeService k => removeService d k
  | .attach q r => attach d q r
  | .detach q r => detach d q r

def run (d : Doc) (ops : List Op) : Doc := ops.foldl (fun st op => (step st op).1) d

end IdModel.Doc
