import IdModel.OSet.Model
