import IdModel.OSet.Lemmas
/-!
# C19 — ordered-set collections keep order and key-uniqueness over all op sequences

Property theorems only (helper lemmas live in `IdModel.OSet.Lemmas`).
All statements are for an arbitrary element type `α`, key type `κ` and key function.
-/
namespace IdModel.Props.C19
open IdModel.OSet

set_option linter.unusedSectionVars false
variable {α κ : Type} [DecidableEq κ] (key : α → κ)

/-- the model's recursion is the code's position/drain/filter/extend/insert sequence -/
theorem change_is_transliteration (f : α → Bool) (d : α) (s : List α) :
    change f d s = changeT f d s := change_eq_changeT f d s

/-! ## per-operation specifications against the abstract duplicate-free list -/

theorem append_spec (s : List α) (x : α) :
    append key s x = if key x ∈ s.map key then (s, false) else (s ++ [x], true) := by
  unfold append
  cases h : contains key s (key x)
  · simp [(contains_false_iff key s (key x)).1 h]
  · simp [(contains_iff key s (key x)).1 h]

theorem prepend_spec (s : List α) (x : α) :
    prepend key s x = if key x ∈ s.map key then (s, false) else (x :: s, true) := by
  unfold prepend
  cases h : contains key s (key x)
  · simp [(contains_false_iff key s (key x)).1 h]
  · simp [(contains_iff key s (key x)).1 h]

/-- `update` on a duplicate-free set replaces the element with that key in place. -/
theorem update_spec (s : List α) (x : α) (h : Uniq key s) :
    update key s x =
      (s.map (fun y => if key y = key x then x else y), decide (key x ∈ s.map key)) := by
  unfold update Uniq at *
  induction s with
  | nil => simp [change]
  | cons y ys ih =>
    rw [List.map_cons, List.nodup_cons] at h
    by_cases hy : key y = key x
    · have hnot : key x ∉ ys.map key := hy ▸ h.1
      have hf : ys.filter (fun z => !decide (key z = key x)) = ys := by
        apply List.filter_eq_self.2
        intro z hz
        have : key z ≠ key x := fun hk => hnot (hk ▸ List.mem_map.2 ⟨z, hz, rfl⟩)
        simp [this]
      have hm : ys.map (fun y => if key y = key x then x else y) = ys := by
        conv => rhs; rw [← List.map_id ys]
        apply List.map_congr_left
        intro z hz
        have : key z ≠ key x := fun hk => hnot (hk ▸ List.mem_map.2 ⟨z, hz, rfl⟩)
        simp [this]
      simp [change, hy, hf, hm]
    · have := ih h.2
      have hne : ¬ key x = key y := fun h => hy h.symm
      simp [change, hy, this, hne]

/-- `replace` (and `update`): flag, position, survivors and their order. -/
theorem replace_spec (s : List α) (c : κ) (x : α) :
    let f := fun it => decide (key it = c) || decide (key it = key x)
    (replace key s c x).2 = s.any f ∧
    (s.any f = false → (replace key s c x).1 = s) ∧
    (s.any f = true →
      (∀ z, z ∈ (replace key s c x).1 ↔ z = x ∨ (z ∈ s ∧ key z ≠ c ∧ key z ≠ key x)) ∧
      (replace key s c x).1.filter (fun y => !f y) = s.filter (fun y => !f y) ∧
      (replace key s c x).1.findIdx? f = s.findIdx? f) := by
  intro f
  refine ⟨change_snd f x s, ?_, ?_⟩
  · intro h; show (change f x s).1 = s; rw [change_fst_of_not_any f x s h]
  · intro h
    refine ⟨?_, change_filter f x (by simp [f]) s, ?_⟩
    · intro z
      have := change_mem f x s h z
      simp only [f, Bool.or_eq_false_iff, decide_eq_false_iff_not] at this
      exact this
    · show (change f x s).1.findIdx? f = s.findIdx? f
      rw [change_eq_changeT]
      unfold changeT
      cases hi : s.findIdx? f with
      | none => simp [hi]
      | some i =>
        have hfx : f x = true := by simp [f]
        have hlt : i < s.length := (List.findIdx?_eq_some_iff_getElem.1 hi).1
        have hpre : ∀ j (hj : j < i), f (s[j]'(by omega)) = false := by
          intro j hj
          have := (List.findIdx?_eq_some_iff_getElem.1 hi).2.2 j hj
          simpa using this
        simp only
        rw [List.findIdx?_eq_some_iff_getElem]
        refine ⟨by simp; omega, ?_, ?_⟩
        · simp [List.getElem_append_right, Nat.min_eq_left (Nat.le_of_lt hlt), hfx]
        · intro j hj
          have : j < (List.take i s).length := by simp; omega
          rw [List.getElem_append_left this]
          simp [hpre j hj]

theorem remove_spec (s : List α) (k : κ) (h : Uniq key s) :
    remove key s k =
      (s.filter (fun y => !decide (key y = k)), s.find? (fun y => decide (key y = k))) :=
  remove_eq key s k h

/-! ## the invariant holds in every reachable state -/

theorem step_inv (s : List α) (op : Op α κ) (h : Uniq key s) : Uniq key (step key s op).1 := by
  cases op with
  | append x => exact append_inv key s x h
  | prepend x => exact prepend_inv key s x h
  | update x => exact change_inv key _ x (by intro y hy; simp [hy]) s h
  | replace c x => exact change_inv key _ x (by intro y hy; simp [hy]) s h
  | remove k => exact remove_inv key s k h

theorem run_inv (s : List α) (ops : List (Op α κ)) (h : Uniq key s) : Uniq key (run key s ops) := by
  unfold run
  induction ops generalizing s with
  | nil => simpa
  | cons op ops ih => exact ih _ (step_inv key s op h)

/-- every state reachable from the empty set is duplicate-free -/
theorem reachable_inv (ops : List (Op α κ)) : Uniq key (run key [] ops) :=
  run_inv key [] ops (by simp [Uniq])

/-! ## constructors from lists -/

theorem tryFromVecAux_spec (acc xs : List α) (ys : List α) :
    tryFromVecAux key acc xs = some ys ↔
      ((∀ x ∈ xs, key x ∉ acc.map key) ∧ (xs.map key).Nodup ∧ ys = acc ++ xs) := by
  induction xs generalizing acc with
  | nil => simp [tryFromVecAux, eq_comm]
  | cons x xs ih =>
    unfold tryFromVecAux
    cases hc : contains key acc (key x)
    · have hn := (contains_false_iff key acc (key x)).1 hc
      simp only [Bool.false_eq_true, ↓reduceIte, ih, List.map_append, List.map_cons, List.map_nil,
        List.mem_append, List.mem_cons, List.not_mem_nil, or_false, not_or, List.nodup_cons,
        List.append_assoc, List.cons_append, List.nil_append, List.mem_map]
      constructor
      · rintro ⟨h1, h2, h3⟩
        refine ⟨?_, ⟨?_, h2⟩, h3⟩
        · intro z hz
          rcases hz with hz | hz
          · subst hz; simpa using hn
          · exact (h1 z hz).1
        · rintro ⟨z, hz, hk⟩
          exact (h1 z hz).2 hk
      · rintro ⟨h1, ⟨h2, h2'⟩, h3⟩
        refine ⟨?_, h2', h3⟩
        intro z hz
        refine ⟨h1 z (Or.inr hz), ?_⟩
        intro hk; exact h2 ⟨z, hz, hk⟩
    · have hn := (contains_iff key acc (key x)).1 hc
      simp only [↓reduceIte, List.mem_cons, forall_eq_or_imp, false_iff, reduceCtorEq]
      intro h; exact absurd hn h.1.1

/-- building from a list succeeds exactly when the keys are pairwise distinct, and then keeps
the list as it is -/
theorem tryFromVec_iff_nodup (xs ys : List α) :
    tryFromVec key xs = some ys ↔ ((xs.map key).Nodup ∧ ys = xs) := by
  unfold tryFromVec
  rw [tryFromVecAux_spec]
  simp

theorem fromIter_aux (acc xs : List α) :
    xs.foldl (fun a x => (append key a x).1) acc =
      acc ++ (xs.foldl (fun a x => (append key a x).1) acc).drop acc.length := by
  induction xs generalizing acc with
  | nil => simp
  | cons x xs ih =>
    simp only [List.foldl_cons]
    rw [append_spec]
    by_cases h : key x ∈ acc.map key
    · simp only [h, ↓reduceIte]; exact ih acc
    · simp only [h, ↓reduceIte]
      have := ih (acc ++ [x])
      rw [this]
      simp

/-- the collecting constructor yields a duplicate-free set … -/
theorem fromIter_inv (xs : List α) : Uniq key (fromIter key xs) := by
  unfold fromIter
  have : ∀ acc, Uniq key acc → Uniq key (xs.foldl (fun a x => (append key a x).1) acc) := by
    induction xs with
    | nil => intro acc h; simpa
    | cons x xs ih => intro acc h; exact ih _ (append_inv key acc x h)
  exact this [] (by simp [Uniq])

/-- … that contains, for every key of the input, its **first** occurrence, and nothing else. -/
theorem fromIter_keeps_first (xs : List α) (k : κ) :
    (fromIter key xs).find? (fun y => decide (key y = k)) = xs.find? (fun y => decide (key y = k)) := by
  unfold fromIter
  have : ∀ acc, (xs.foldl (fun a x => (append key a x).1) acc).find? (fun y => decide (key y = k))
      = (acc ++ xs).find? (fun y => decide (key y = k)) := by
    induction xs with
    | nil => simp
    | cons x xs ih =>
      intro acc
      simp only [List.foldl_cons]
      rw [ih, append_spec]
      by_cases h : key x ∈ acc.map key
      · simp only [h, ↓reduceIte, List.find?_append, List.find?_cons]
        by_cases hk : key x = k
        · rcases List.mem_map.1 h with ⟨z, hz, hzk⟩
          have : (acc.find? (fun y => decide (key y = k))).isSome := by
            rw [List.find?_isSome]; exact ⟨z, hz, by simp [hzk, hk]⟩
          cases hf : acc.find? (fun y => decide (key y = k)) with
          | none => simp [hf] at this
          | some w => simp
        · simp [hk]
      · simp [h, List.append_assoc]
  simpa using this []

/-! ## OneOrSet / OneOrMany -/

/-- well-formed one-or-set: the `Set` variant is never empty and is duplicate-free -/
def OneOrSet.WF (r : OneOrSet α) : Prop :=
  match r with
  | .one _ => True
  | .set xs => xs ≠ [] ∧ Uniq key xs

theorem newSet_empty_err : OneOrSet.newSet ([] : List α) = none := rfl
theorem newSet_singleton_is_one (x : α) : OneOrSet.newSet [x] = some (.one x) := rfl

theorem newSet_nonempty (s : List α) (r : OneOrSet α) (h : OneOrSet.newSet s = some r) :
    r.toList = s ∧ s ≠ [] := by
  match s, h with
  | [x], h => simp [OneOrSet.newSet] at h; subst h; simp [OneOrSet.toList]
  | x :: y :: t, h => simp [OneOrSet.newSet] at h; subst h; simp [OneOrSet.toList]

theorem newSet_wf (s : List α) (r : OneOrSet α) (hs : Uniq key s) (h : OneOrSet.newSet s = some r) :
    OneOrSet.WF key r := by
  match s, h with
  | [x], h => simp [OneOrSet.newSet] at h; subst h; trivial
  | x :: y :: t, h => simp [OneOrSet.newSet] at h; subst h; exact ⟨by simp, hs⟩

theorem oneOrSet_append_wf (r : OneOrSet α) (x : α) (h : OneOrSet.WF key r) :
    OneOrSet.WF key (OneOrSet.append key r x).1 ∧ (OneOrSet.append key r x).1.toList ≠ [] := by
  cases r with
  | one y =>
    unfold OneOrSet.append
    by_cases hk : key y = key x
    · simp [hk, OneOrSet.WF, OneOrSet.toList]
    · simp only [hk, ↓reduceIte, OneOrSet.WF, OneOrSet.toList]
      have hi := fromIter_inv key [y, x]
      have hne : fromIter key [y, x] ≠ [] := by
        simp [fromIter, append, contains, hk]
      exact ⟨⟨hne, hi⟩, hne⟩
  | set xs =>
    obtain ⟨hne, hinv⟩ := h
    simp only [OneOrSet.append, OneOrSet.WF, OneOrSet.toList]
    have hne' : (append key xs x).1 ≠ [] := by
      rw [append_spec]; split <;> simp [hne]
    exact ⟨⟨hne', append_inv key xs x hinv⟩, hne'⟩

theorem asStrs_map_str (xs : List String) : JV.asStrs? (xs.map JV.str) = some xs := by
  induction xs with
  | nil => rfl
  | cons x xs ih => simp [JV.asStrs?, JV.asStr?, ih]

/-- a well-formed one-or-set deserialises from its own JSON to an equal value -/
theorem oneOrSet_json_roundtrip (r : OneOrSet String) (h : OneOrSet.WF id r) :
    oneOrSetFromJ (oneOrSetToJ r) = some r := by
  cases r with
  | one x => rfl
  | set xs =>
    obtain ⟨hne, hinv⟩ := h
    have h1 : tryFromVec id xs = some xs := (tryFromVec_iff_nodup id xs xs).2 ⟨hinv, rfl⟩
    cases xs with
    | nil => exact absurd rfl hne
    | cons y ys =>
      simp only [oneOrSetToJ, oneOrSetFromJ, osetFromJ, asStrs_map_str, h1]

/-- duplicate keys and the empty array are rejected -/
theorem oneOrSet_rejects_duplicate_and_empty_json (xs : List String)
    (h : xs = [] ∨ ¬ xs.Nodup) : oneOrSetFromJ (.arr (xs.map .str)) = none := by
  simp only [oneOrSetFromJ, osetFromJ, asStrs_map_str]
  rcases h with h | h
  · subst h; rfl
  · have : tryFromVec id xs = none := by
      cases ht : tryFromVec id xs with
      | none => rfl
      | some ys => exact absurd (by simpa using ((tryFromVec_iff_nodup id xs ys).1 ht).1) h
    simp [this]

theorem oneOrMany_push_normalises (x : α) :
    OneOrMany.push (.many []) x = .one x ∧
    (∀ y, OneOrMany.push (.one y) x = .many [y, x]) := ⟨rfl, fun _ => rfl⟩

theorem oneOrMany_push_toList (r : OneOrMany α) (x : α) :
    (OneOrMany.push r x).toList = r.toList ++ [x] := by
  cases r with
  | one y => rfl
  | many ys => cases ys <;> rfl

theorem fromVec_singleton_is_one (x : α) : OneOrMany.fromVec [x] = .one x := rfl

theorem fromVec_toList (xs : List α) : (OneOrMany.fromVec xs).toList = xs := by
  match xs with
  | [] => rfl
  | [x] => rfl
  | x :: y :: t => rfl

theorem oneOrMany_json_roundtrip (r : OneOrMany String) :
    oneOrManyFromJ (oneOrManyToJ r) = some r := by
  cases r with
  | one x => rfl
  | many xs => simp [oneOrManyToJ, oneOrManyFromJ, asStrs_map_str]

/-! ## non-vacuity -/

example : Uniq Prod.fst [((1 : Nat), (7 : Nat)), (2, 8)] := by unfold Uniq; decide
example : (replace Prod.fst [((1 : Nat), (7 : Nat)), (2, 8), (3, 9)] 1 (3, 0)).1 = [(3, 0), (2, 8)] := by
  decide
example : OneOrSet.WF id (OneOrSet.set ["a", "b"]) := ⟨by simp, by unfold Uniq; decide⟩

end IdModel.Props.C19
