import IdModel.Bitmap.Model
import IdModel.Bitmap.Lookup
import Driver.Util
namespace Driver.C06
open IdModel IdModel.Bitmap

def nats (t : String) : Option (List Nat) := if t == "-" then some [] else (t.splitOn ",").mapM String.toNat?

def sortDedup (l : List Nat) : List Nat := (l.mergeSort (· ≤ ·)).eraseDups

def showSet (l : List Nat) : String :=
  let s := sortDedup l
  if s.isEmpty then "-" else ",".intercalate (s.map toString)

/-- codec oracle table `Z=<hex compressed>=<indices>`: the facts "these bytes decompress and
deserialise to this set", computed by the harness with the real flate2 + roaring -/
def parseZ (ts : List String) : Option (List (List Nat × List Nat)) :=
  (ts.filter (·.startsWith "Z=")).mapM fun t =>
    match t.splitOn "=" with
    | ["Z", h, is] => match unhex h, nats is with
      | some b, some l => some (b, l)
      | _, _ => none
    | _ => none

def mkCodec (tab : List (List Nat × List Nat)) : Codec :=
  { pack := fun s => ((tab.find? fun e => sortDedup e.2 == sortDedup s).map (·.1)).getD [],
    unpack := fun z => (tab.find? (·.1 == z)).map (·.2) }

def parseBatch (t : String) : Option Batch :=
  match t.splitOn ":" with
  | ["rv", is] => (nats is).map .revoke
  | ["un", is] => (nats is).map .unrevoke
  | _ => none

def runHist (s : List Nat) : List String → List String
  | [] => []
  | t :: ts =>
    match t.splitOn ":" with
    | ["q", i] => match i.toNat? with
      | some i => (if i ∈ s then "1" else "0") :: runHist s ts
      | none => ["bad-op"]
    | _ => match parseBatch t with
      | some b => let s' := applyBatch s b; ("ok:" ++ showSet s') :: runHist s' ts
      | none => ["bad-op"]

/-- `u32::from_str` on a decimal string -/
def toU32? (s : String) : Option Nat := (s.toNat?).filter (· < 4294967296)

def showV : VRes → String
  | .ok => "ok" | .invalidStatus => "invalid-status" | .documentMismatch => "document-mismatch"
  | .serviceLookup => "service-lookup" | .revoked => "revoked"

/-- `inst`: a set changed by `r:<i>` / `u:<i>` -/
def instOps (s : List Nat) : List String → Option (List Nat)
  | [] => some s
  | op :: r =>
    match op.splitOn ":" with
    | ["r", i] => i.toNat?.bind fun i => instOps (i :: s) r
    | ["u", i] => i.toNat?.bind fun i => instOps (s.filter (· != i)) r
    | _ => none

def handle : List String → String
  -- one index in each of `n` blocks survives the round trip through a service (the abstract codec: `dec (enc s) = s`)
  | ["big", n] => match n.toNat? with | some n => if n ≤ 65536 then s!"ok:{n}" else "bad-request" | none => "bad-request"
  | "inst" :: start :: "|" :: ops =>
    let st : Option (List Nat) := if start == "-" then some [] else (start.splitOn ",").mapM String.toNat?
    match st.bind (instOps · ops) with
    | some s => "ok:" ++ showSet s
    | none => "bad-request"
  | "decode" :: types :: url :: tab =>
    -- `types` = comma list of hex type strings; `url` = hex endpoint URL or `~` (not a single URL)
    match (if types == "-" then some [] else (types.splitOn ",").mapM unhex), parseZ tab with
    | some tys, some tab =>
      let ep := if url == "~" then some none else (unhex url).map some
      match ep with
      | some ep => match tryFromService (mkCodec tab) tys ep with
        | some s => "ok:" ++ showSet s
        | none => "err"
      | none => "bad-request"
    | _, _ => "bad-request"
  | "hist" :: start :: ops =>
    match nats start with
    | some s => " ".intercalate (runHist s ops)
    | none => "bad-request"
  -- the same history through IotaDocument's own methods: the same model answers
  | "ihist" :: start :: ops =>
    match nats start with
    | some s => " ".intercalate (runHist s ops)
    | none => "bad-request"
  -- several trusted issuers: the status is looked up in the document whose id EQUALS the credential's issuer (the first set)
  -- the fragment `#rev` (1) under two DIDs: issuer = DID 1, other = DID 2; the service is looked up in the issuer
  -- document by the FULL id of the status entry (Bitmap/Lookup.lean over the C04 document model)
  | ["statusx", v, i, a, b] =>
    match i.toNat?, nats a, nats b with
    | some i, some sa, some sb =>
      let own : IdModel.Doc.Id := ⟨1, 0, some 1⟩
      let foreign : IdModel.Doc.Id := ⟨2, 0, some 1⟩
      let sets : Nat → Option (List Nat) := fun n => if n == 1 then some sa else if n == 2 then some sb else none
      let mk (svcs : List IdModel.Doc.Service) : IdModel.Doc.Doc := ⟨1, [], [], [], [], [], [], svcs⟩
      let st : StatusView := { typeIsBitmap := true, indexProp := some (some (some i)), queryIndices := [some i], idIsDidUrl := true }
      let r? : Option VRes :=
        if v == "foreign" then some (checkStatusDoc .strict (some st) true (mk [⟨own, 1⟩]) sets foreign)
        else if v == "two" then some (checkStatusDoc .strict (some st) true (mk [⟨foreign, 1⟩, ⟨own, 2⟩]) sets own)
        else if v == "twor" then some (checkStatusDoc .strict (some st) true (mk [⟨own, 2⟩, ⟨foreign, 1⟩]) sets own)
        else none
      match r? with
      | some r => showV r
      | none => "bad-request"
    | _, _, _ => "bad-request"
  | ["statusm", _order, i, a, _b] =>
    match i.toNat?, nats a with
    | some i, some a => if i ∈ a then "revoked" else "ok"
    | _, _ => "bad-request"
  | ["status", sc, ty, ip, qs, idok, issuer, svc] =>
    let sc? : Option StatusCheck := if sc == "strict" then some .strict else if sc == "skipu" then some .skipUnsupported
      else if sc == "skipall" then some .skipAll else none
    let ip? : Option (Option (Option (Option Nat))) :=
      if ip == "absent" then some none else if ip == "notstring" then some (some none)
      else if ip == "nan" then some (some (some none))
      else match ip.toNat? with
        | some _ => some (some (some (toU32? ip)))
        | none => none
    let qs? : Option (List (Option Nat)) :=
      if qs == "-" then some [] else some ((qs.splitOn ",").map toU32?)
    let svc? : Option (Option (List Nat)) := if svc == "~" then some none else (nats svc).map some
    match sc?, ip?, qs?, svc? with
    | some sc, some ip, some qs, some svc =>
      let status : Option StatusView := if ty == "none" then none else
        some { typeIsBitmap := ty == "bitmap", indexProp := ip, queryIndices := qs, idIsDidUrl := idok == "1" }
      showV (checkStatus sc status (issuer == "1") svc)
    | _, _, _, _ => "bad-request"
  | _ => "bad-request"

end Driver.C06
