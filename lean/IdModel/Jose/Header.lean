import IdModel.Gen.C11
/-!
Model of the JOSE header policy (`identity_jose::jwu::serde::validate_jws_headers` and the
`JwsHeader`/`JwtHeader` `has` / `is_disjoint` methods); property C11.
Constant tables come from `IdModel.Gen.C11` (regenerated from the Rust source on every run).
-/
namespace IdModel.Jose
open IdModel.Gen.C11

/-- What the policy looks at in a `JwsHeader`. -/
structure Hdr where
  alg : Option String := none
  b64 : Option Bool := none
  crit : Option (List String) := none
  /-- the `JwtHeader` fields other than `crit` that are `Some`, by Rust field name -/
  fields : List String := []
  /-- keys of the custom map (`None` and an empty map behave alike) -/
  custom : List String := []
  deriving Repr, DecidableEq

def Hdr.allFields (h : Hdr) : List String :=
  (if h.crit.isSome then ["crit"] else []) ++ h.fields

/-- `JwtHeader::has` -/
def commonHasClaim (h : Hdr) (claim : String) : Bool :=
  match commonHas.lookup claim with
  | some f => h.allFields.contains f
  | none => false

/-- `JwsHeader::has` -/
def has (h : Hdr) (claim : String) : Bool :=
  if claim == "alg" then h.alg.isSome
  else if claim == "b64" then h.b64.isSome
  else commonHasClaim h claim || h.custom.contains claim

/-- `JwtHeader::is_disjoint` -/
def commonIsDisjoint (a b : Hdr) : Bool :=
  !(commonDisjoint.any fun f => a.allFields.contains f && b.allFields.contains f)

/-- `JwsHeader::is_custom_disjoint` -/
def customDisjoint (a b : Hdr) : Bool :=
  !(a.custom.any fun k => b.custom.contains k) &&
  (if customVsDeclared then !(a.custom.any fun k => has b k) && !(b.custom.any fun k => has a k)
   else true)

/-- `JwsHeader::is_disjoint` -/
def isDisjoint (a b : Hdr) : Bool :=
  !(a.alg.isSome && b.alg.isSome || a.b64.isSome && b.b64.isSome) &&
    commonIsDisjoint a b && customDisjoint a b

deriving instance DecidableEq for Except

inductive HErr
  | notDisjoint | unprotectedCrit | emptyCrit | critPredefined | critUnpermitted | critAbsent
  | unprotectedB64 | b64NotInCrit | missingHeader | b64Mismatch
  deriving Repr, DecidableEq

/-- `validate_disjoint` -/
def validateDisjoint (p u : Option Hdr) : Except HErr Unit :=
  match p, u with
  | some p, some u => if isDisjoint p u then .ok () else .error .notDisjoint
  | _, _ => .ok ()

/-- `protected.map(has_claim).or_else(|| unprotected.map(has_claim)).unwrap_or_default()` -/
def critExists (p u : Option Hdr) (v : String) : Bool :=
  match p with
  | some h => has h v
  | none => match u with
    | some h => has h v
    | none => false

/-- the per-value loop of `validate_crit` -/
def critLoop (p u : Option Hdr) : List String → Except HErr Unit
  | [] => .ok ()
  | v :: vs =>
    if predefined.contains v then .error .critPredefined
    else if !permittedCrits.contains v then .error .critUnpermitted
    else if !critExists p u v then .error .critAbsent else critLoop p u vs

/-- `validate_crit` -/
def validateCrit (p u : Option Hdr) : Except HErr Unit :=
  if (u.map (has · "crit")).getD false then .error .unprotectedCrit
  else if ((p.bind (·.crit)).map List.isEmpty).getD false then .error .emptyCrit
  else critLoop p u ((p.bind (·.crit)).getD [])

/-- `validate_b64` -/
def validateB64 (p u : Option Hdr) : Except HErr Unit :=
  if (u.bind (·.b64)).isSome then .error .unprotectedB64
  else
    match p.bind (·.b64), p.bind (·.crit) with
    | some _, some values => if values.any (· == "b64") then .ok () else .ok ()
    | some _, none => .error .b64NotInCrit
    | _, _ => .ok ()

/-- `validate_jws_headers` -/
def validate (p u : Option Hdr) : Except HErr Unit :=
  match validateDisjoint p u with
  | .error e => .error e
  | .ok () =>
    match validateCrit p u with
    | .error e => .error e
    | .ok () => validateB64 p u

/-- `extract_b64` -/
def extractB64 (p : Option Hdr) : Bool := (p.bind (·.b64)).getD defaultB64

/-- `validate_headers_json_serialization` (flattened/general encoders) -/
def validateRecipient (p u : Option Hdr) : Except HErr Unit :=
  if p.isNone && u.isNone then .error .missingHeader else validate p u

/-- `CompactJwsEncoder::validate_header` -/
def validateCompact (p : Hdr) : Except HErr Unit := validate (some p) none

/-- `GeneralJwsEncoder::new` followed by `add_recipient` for the rest: index of the first
rejected recipient, or `none` when all are accepted. -/
def generalEncoderAux (b64 : Bool) : Nat → List (Option Hdr × Option Hdr) → Option Nat
  | _, [] => none
  | i, (p, u) :: rs =>
    if extractB64 p != b64 then some i
    else match validateRecipient p u with
      | .error _ => some i
      | .ok () => generalEncoderAux b64 (i + 1) rs

def generalEncoder : List (Option Hdr × Option Hdr) → Option Nat
  | [] => none
  | (p, u) :: rs =>
    match validateRecipient p u with
    | .error _ => some 0
    | .ok () => generalEncoderAux (extractB64 p) 1 rs

/-- `Decoder::decode_signature` header stage: headers validated, at least one present -/
def decodeHeaders (p u : Option Hdr) : Except HErr Unit :=
  match validate p u with
  | .error e => .error e
  | .ok () => if p.isNone && u.isNone then .error .missingHeader else .ok ()

/-- `decode_general_serialization`: all signatures whose protected header decodes must agree on
the effective `b64` (`b64Agreement = false` models a decoder without that test). -/
def generalDecoderAgree (b64Agreement : Bool) (sigs : List (Option Hdr × Option Hdr)) : Bool :=
  if b64Agreement then
    match sigs with
    | [] => true
    | (p, _) :: rs => rs.all fun s => extractB64 s.1 == extractB64 p
  else true

/-- `JwsValidationItem::verify` up to the call of the verifier: needs a protected header that
carries `alg`. -/
inductive VerifyGate | missingProtected | protectedWithoutAlg | callVerifier (alg : String)
  deriving Repr, DecidableEq

def verifyGate (p : Option Hdr) : VerifyGate :=
  match p with
  | none => .missingProtected
  | some h => match h.alg with
    | none => .protectedWithoutAlg
    | some a => .callVerifier a

end IdModel.Jose
