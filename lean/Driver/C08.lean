import IdModel.Jose.Jws
import IdModel.Jose.Sign
import Driver.Util
import Driver.C11
import Driver.C01
namespace Driver.C08
open IdModel IdModel.Jose

/-- serialisation table entries `S=<Hspec>=<hex json>` (spec may contain `=`; the hex is last) -/
def parseSTable (ts : List String) : Option (List (Hdr × Bytes)) :=
  ts.mapM fun t =>
    match t.splitOn "=" with
    | "S" :: rest =>
      match rest.reverse with
      | h :: specRev =>
        match unhex h, Driver.C11.parseHdr ("=".intercalate specRev.reverse) with
        | some b, some (some hd) => some (hd, b)
        | _, _ => none
      | [] => none
    | _ => none

def mkS (tab : List (Hdr × Bytes)) (h : Hdr) : Bytes := ((tab.find? (·.1 == h)).map (·.2)).getD []
def mkP (tab : List (Hdr × Bytes)) (b : Bytes) : Option Hdr := (tab.find? (·.2 == b)).map (·.1)

def showIt (o : Option Item) : String :=
  match o with
  | none => "undecodable"
  | some it =>
    let alg := match it.prot.bind (·.alg) with | some a => a | none => "-"
    s!"dec:{hex it.signingInput}:{hex it.signature}:{hex it.claims}:{alg}"

def ho (o : Option Bytes) : String := match o with | none => "~" | some b => hex b

def triples : List String → Option (List (Option Hdr × Option Hdr × Bytes))
  | [] => some []
  | p :: u :: s :: r =>
    match Driver.C11.parseHdr p, Driver.C11.parseHdr u, unhex s, triples r with
    | some p, some u, some s, some t => some ((p, u, s) :: t)
    | _, _, _, _ => none
  | _ => none

/-- `sign` request: options `a:<0|1>;b:<~|t|f>;t:<~|i>;c:<~|i>;u:<~|i>;n:<~|i>;k:<~|i>;d:<0|1>;x:<0|1>;j:<0|1>`
(text values are named by their index in the harness' pools: `t3` is the typ value number 3, …) -/
def parseSigOpts (t : String) : Option (SigOpts × Bool) :=
  let m := (t.splitOn ";").filterMap fun kv => match kv.splitOn ":" with | [k, v] => some (k, v) | _ => none
  let get (k : String) : Option String := (m.find? (·.1 == k)).map (·.2)
  let txt (k pre : String) : Option (Option String) := match get k with
    | some "~" => some none
    | some v => some (some (pre ++ v))
    | none => none
  let flag (k : String) : Option Bool := match get k with | some "1" => some true | some "0" => some false | _ => none
  match flag "a", get "b", txt "t" "t", txt "c" "c", txt "u" "u", txt "n" "n", txt "k" "k", flag "d", flag "x", flag "j" with
  | some a, some b, some t, some c, some u, some n, some k, some d, some x, some j =>
    let b64 : Option (Option Bool) := if b == "~" then some none else if b == "t" then some (some true)
      else if b == "f" then some (some false) else none
    b64.map fun b64 => ({ attachJwk := a, b64 := b64, typ := t, cty := c, url := u, nonce := n, kid := k, detached := d,
                          custom := if x then ["x-custom"] else [] }, j)
  | _, _, _, _, _, _, _, _, _, _ => none

def so (o : Option String) : String := o.getD "~"

def sign (opts pl : String) : String :=
  match parseSigOpts opts, unhex pl with
  | some (o, jwt), some payload =>
    let enc := if jwt then createJwt (fun _ => []) payload "EdDSA" "M" 1 o else createJws (fun _ => []) payload "EdDSA" "M" 1 o
    match enc with
    | none => "err"
    | some e =>
      let h := createHeader "EdDSA" "M" 1 o
      let b64 := match h.b64 with | none => "~" | some true => "t" | some false => "f"
      let crit := match h.crit with | none => "~" | some l => ",".intercalate l
      let cust := if h.custom.isEmpty then "~" else ",".intercalate h.custom
      s!"ok:alg={so h.alg};kid={so h.kid};typ={so h.typ};cty={so h.cty};url={so h.url};nonce={so h.nonce};jwk={match h.jwk with | none => "0" | some k => toString k};b64={b64};crit={crit};cust={cust};det={if e.processedPayload.isNone then 1 else 0}"
  | _, _ => "bad-request"

def handle : List String → String
  | ["sign", opts, pl] => sign opts pl
  | "compact" :: pl :: h :: opts :: sg :: tab =>
    match unhex pl, Driver.C11.parseHdr h, unhex sg, parseSTable tab with
    | some pl, some (some h), some sg, some tab =>
      let o? : Option CompactOpts :=
        if opts == "det" then some .detached else if opts == "nd-default" then some (.nonDetached .default)
        else if opts == "nd-url" then some (.nonDetached .urlSafe) else none
      match o? with
      | none => "bad-request"
      | some o =>
        match compactNew (mkS tab) pl h o with
        | none => "err"
        | some e =>
          let tok := compactIntoJws e sg
          let det := if opts == "det" then some (maybeEncode pl (some h)) else none
          s!"tok:{hex tok}:{hex e.signingInput}:{showIt (decodeCompact (mkP tab) tok det)}"
    | _, _, _, _ => "bad-request"
  | "flat" :: pl :: p :: u :: det :: u8 :: sg :: tab =>
    match unhex pl, Driver.C11.parseHdr p, Driver.C11.parseHdr u, unhex sg, parseSTable tab with
    | some pl, some p, some u, some sg, some tab =>
      match flatNew (mkS tab) (fun _ => u8 == "1") pl p u (det == "1") with
      | none => "err"
      | some e =>
        let (mp, m) := flatIntoJws e sg
        let d := if det == "1" then some (maybeEncode pl p) else none
        s!"m:{ho mp}:{ho m.prot}:{hex m.signature}:{hex e.signingInput}:{showIt (decodeFlattened (mkP tab) mp m d)}"
    | _, _, _, _, _ => "bad-request"
  | "general" :: pl :: det :: u8 :: rest =>
    match unhex pl with
    | some pl =>
      let (recs, tab) := rest.partition (fun t => !t.startsWith "S=")
      match triples recs, parseSTable tab with
      | some rs, some tab =>
        match generalEncode (mkS tab) pl (det == "1") rs with
        | .error i => s!"err@{i}"
        | .ok (mp, sigs) =>
          let p0 := match rs with | (p, _, _) :: _ => p | [] => none
          -- `into_jws`: a non-detached payload must be valid UTF-8 (it is only checked there)
          if det != "1" && !extractB64 p0 && u8 != "1" then "err-into-jws" else
          let d := if det == "1" then some (maybeEncode pl p0) else none
          let decs := match decodeGeneral (mkP tab) mp sigs d with
            | none => "undecodable"
            | some items => " ".intercalate (items.map showIt)
          let sis := " ".intercalate (rs.map fun r => hex (generalSigningInput (mkS tab) pl p0 r.1))
          s!"g:{ho mp}:{",".intercalate (sigs.map fun m => ho m.prot ++ "/" ++ hex m.signature)}:{sis} {decs}"
      | _, _ => "bad-request"
    | none => "bad-request"
  | "doc" :: _ => "impl-only"
  | _ => "bad-request"

end Driver.C08
