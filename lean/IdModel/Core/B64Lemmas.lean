import IdModel.Core.B64
/-! Round-trip theorems for base64url (no padding, canonical). -/
namespace IdModel.B64

theorem valOf_charOf : ∀ v : Fin 64, valOf (charOf v.val) = some v.val := by decide

theorem valOf_charOf' (v : Nat) (h : v < 64) : valOf (charOf v) = some v := valOf_charOf ⟨v, h⟩

theorem valOf_lt (c v : Nat) (h : valOf c = some v) : v < 64 ∧ charOf v = c := by
  unfold valOf at h
  split at h
  · injection h with h; subst h; unfold charOf; constructor <;> (try split) <;> omega
  · split at h
    · injection h with h; subst h; unfold charOf; refine ⟨by omega, ?_⟩
      rw [if_neg (by omega), if_pos (by omega)]; omega
    · split at h
      · injection h with h; subst h; unfold charOf; refine ⟨by omega, ?_⟩
        rw [if_neg (by omega), if_neg (by omega), if_pos (by omega)]; omega
      · split at h
        · injection h with h; subst h; rename_i hc; subst hc; decide
        · split at h
          · injection h with h; subst h; rename_i hc; subst hc; decide
          · cases h

def Bytes (l : List Nat) : Prop := ∀ b ∈ l, b < 256

/-- decode ∘ encode = id -/
theorem dec_enc (l : List Nat) (h : Bytes l) : dec (enc l) = some l := by
  induction hn : l.length using Nat.strongRecOn generalizing l with
  | _ n ih =>
    match l, hn, h with
    | [], _, _ => rfl
    | [a], _, h =>
      have ha := h a (by simp)
      simp only [enc, dec]
      rw [valOf_charOf' _ (by omega), valOf_charOf' _ (by omega)]
      simp only
      rw [if_pos (by omega)]
      congr 2; omega
    | [a, b], _, h =>
      have ha := h a (by simp); have hb := h b (by simp)
      simp only [enc, dec]
      rw [valOf_charOf' _ (by omega), valOf_charOf' _ (by omega), valOf_charOf' _ (by omega)]
      simp only
      rw [if_pos (by omega)]
      congr 2
      · omega
      · congr 1; omega
    | a :: b :: c :: r, hn, h =>
      have ha := h a (by simp); have hb := h b (by simp); have hc := h c (by simp)
      have hr : Bytes r := fun x hx => h x (by simp [hx])
      have ihr := ih r.length (by simp at hn; omega) r hr rfl
      simp only [enc, dec]
      rw [valOf_charOf' _ (by omega), valOf_charOf' _ (by omega), valOf_charOf' _ (by omega),
        valOf_charOf' _ (by omega), ihr]
      simp only
      congr 2
      · omega
      · congr 1
        · omega
        · congr 1; omega

/-- whatever decodes, decodes to bytes and re-encodes to itself (canonical form) -/
theorem enc_dec (s l : List Nat) (h : dec s = some l) : enc l = s ∧ Bytes l := by
  induction hn : s.length using Nat.strongRecOn generalizing s l with
  | _ n ih =>
    match s, hn, h with
    | [], _, h => simp [dec] at h; subst h; exact ⟨rfl, by intro b hb; cases hb⟩
    | [_], _, h => simp [dec] at h
    | [w, x], _, h =>
      simp only [dec] at h
      cases hw : valOf w with
      | none => simp [hw] at h
      | some p =>
        cases hx : valOf x with
        | none => simp [hw, hx] at h
        | some q =>
          simp only [hw, hx] at h
          split at h
          · rename_i hq
            injection h with h; subst h
            obtain ⟨p64, cp⟩ := valOf_lt w p hw
            obtain ⟨q64, cq⟩ := valOf_lt x q hx
            refine ⟨?_, ?_⟩
            · simp only [enc]
              have e1 : (p * 4 + q / 16) / 4 = p := by omega
              have e2 : (p * 4 + q / 16) % 4 * 16 = q := by omega
              rw [e1, e2, cp, cq]
            · intro b hb; simp at hb; subst hb; omega
          · cases h
    | [w, x, y], _, h =>
      simp only [dec] at h
      cases hw : valOf w with
      | none => simp [hw] at h
      | some p =>
        cases hx : valOf x with
        | none => simp [hw, hx] at h
        | some q =>
          cases hy : valOf y with
          | none => simp [hw, hx, hy] at h
          | some r =>
            simp only [hw, hx, hy] at h
            split at h
            · rename_i hr
              injection h with h; subst h
              obtain ⟨p64, cp⟩ := valOf_lt w p hw
              obtain ⟨q64, cq⟩ := valOf_lt x q hx
              obtain ⟨r64, cr⟩ := valOf_lt y r hy
              refine ⟨?_, ?_⟩
              · simp only [enc]
                have e1 : (p * 4 + q / 16) / 4 = p := by omega
                have e2 : (p * 4 + q / 16) % 4 * 16 + (q % 16 * 16 + r / 4) / 16 = q := by omega
                have e3 : (q % 16 * 16 + r / 4) % 16 * 4 = r := by omega
                rw [e1, e2, e3, cp, cq, cr]
              · intro b hb; simp at hb; rcases hb with hb | hb <;> (subst hb; omega)
            · cases h
    | w :: x :: y :: z :: rest, hn, h =>
      simp only [dec] at h
      cases hw : valOf w with
      | none => simp [hw] at h
      | some p =>
        cases hx : valOf x with
        | none => simp [hw, hx] at h
        | some q =>
          cases hy : valOf y with
          | none => simp [hw, hx, hy] at h
          | some r =>
            cases hz : valOf z with
            | none => simp [hw, hx, hy, hz] at h
            | some s' =>
              cases hrest : dec rest with
              | none => simp [hw, hx, hy, hz, hrest] at h
              | some t =>
                simp only [hw, hx, hy, hz, hrest, Option.some.injEq] at h
                subst h
                obtain ⟨p64, cp⟩ := valOf_lt w p hw
                obtain ⟨q64, cq⟩ := valOf_lt x q hx
                obtain ⟨r64, cr⟩ := valOf_lt y r hy
                obtain ⟨s64, cs⟩ := valOf_lt z s' hz
                obtain ⟨et, bt⟩ := ih rest.length (by simp at hn; omega) rest t hrest rfl
                refine ⟨?_, ?_⟩
                · simp only [enc]
                  have e1 : (p * 4 + q / 16) / 4 = p := by omega
                  have e2 : (p * 4 + q / 16) % 4 * 16 + (q % 16 * 16 + r / 4) / 16 = q := by omega
                  have e3 : (q % 16 * 16 + r / 4) % 16 * 4 + (r % 4 * 64 + s') / 64 = r := by omega
                  have e4 : (r % 4 * 64 + s') % 64 = s' := by omega
                  rw [e1, e2, e3, e4, cp, cq, cr, cs, et]
                · intro b hb
                  simp only [List.mem_cons] at hb
                  rcases hb with hb | hb | hb | hb
                  · subst hb; omega
                  · subst hb; omega
                  · subst hb; omega
                  · exact bt b hb

/-- the decoder is injective -/
theorem dec_injective (s1 s2 l : List Nat) (h1 : dec s1 = some l) (h2 : dec s2 = some l) : s1 = s2 := by
  rw [← (enc_dec s1 l h1).1, ← (enc_dec s2 l h2).1]

/-- encoded text contains only alphabet characters (in particular no `.`) -/
theorem charOf_ne_dot (v : Nat) : charOf v ≠ 46 := by
  unfold charOf; split <;> (try split) <;> (try split) <;> (try split) <;> omega

theorem enc_no_dot (l : List Nat) : 46 ∉ enc l := by
  induction hn : l.length using Nat.strongRecOn generalizing l with
  | _ n ih =>
    match l, hn with
    | [], _ => simp [enc]
    | [a], _ => simp [enc]; exact ⟨(charOf_ne_dot _).symm, (charOf_ne_dot _).symm⟩
    | [a, b], _ => simp [enc]; exact ⟨(charOf_ne_dot _).symm, (charOf_ne_dot _).symm, (charOf_ne_dot _).symm⟩
    | a :: b :: c :: r, hn =>
      simp only [enc, List.mem_cons, not_or]
      exact ⟨(charOf_ne_dot _).symm, (charOf_ne_dot _).symm, (charOf_ne_dot _).symm,
        (charOf_ne_dot _).symm, ih r.length (by simp at hn; omega) r rfl⟩

end IdModel.B64
