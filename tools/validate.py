#!/usr/bin/env python3
import json, sys, os, glob
import jsonschema
R = os.path.dirname(os.path.dirname(os.path.abspath(__file__)))
jsonschema.validate(json.load(open(R + '/MANIFEST.json')), json.load(open('/root/.vp/MANIFEST.schema.json')))
for f in glob.glob(R + '/evidence/*.json'):
    jsonschema.validate(json.load(open(f)), json.load(open('/root/.vp/EVIDENCE.schema.json')))
    print('ok', f)
print('manifest ok')
