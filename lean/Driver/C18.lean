import IdModel.Jwk.Model
import IdModel.Jwk.Thumb
import Driver.Util
namespace Driver.C18
open IdModel.Jwk

def famOfKty (t : String) : Option Family :=
  if t == "EC" then some .ec else if t == "RSA" then some .rsa else if t == "oct" then some .oct
  else if t == "OKP" then some .okp else none

def pairs (t : String) : Option (List (String × String)) :=
  if t == "-" then some [] else
  (t.splitOn ",").mapM fun kv => match kv.splitOn "=" with
    | [k, v] => some (k, v)
    | _ => none

structure Opts where
  use_ : Option String := none
  alg : Option String := none
  kid : Option String := none
  ops : Option (List String) := none

def parseOpts (t : String) : Option Opts :=
  (pairs t).map fun ps =>
    { use_ := ps.lookup "use", alg := ps.lookup "alg", kid := ps.lookup "kid",
      ops := (ps.lookup "ops").map fun o => if o == "" then [] else o.splitOn "+" }

def showMembers (ms : List (String × String)) : String :=
  if ms.isEmpty then "-" else ",".intercalate (ms.map fun m => m.1 ++ "=" ++ m.2)

def showOps (o : Option (List String)) : String :=
  match o with | none => "~" | some l => "+".intercalate l

/-- members in the struct's declaration order (what serialisation emits) -/
def ordered (f : Family) (ms : List (String × String)) : List (String × String) :=
  (required f ++ optional f).filterMap fun n => (ms.lookup n).map fun v => (n, v)

def showKey (j : Jwk) : String :=
  let proj := match toPublic j with
    | none => "none"
    | some p => s!"{showMembers (ordered p.family p.members)};{showOps p.keyOps};{p.kty.ktyName}"
  let txt := Driver.hex ((String.ofList (Thumb.thumbprintText j)).toUTF8.toList.map (·.toNat))
  s!"ok:{j.kty.ktyName}:{j.family.tag}:{if isPublic j then 1 else 0}:{if isPrivate j then 1 else 0}:{showMembers (thumbprintInput j)}:{proj}:t={txt}"

def handle : List String → String
  | ["json", kty, ms, os, _perm] =>
    match pairs ms, parseOpts os with
    | some ms, some o =>
      match fromJson (famOfKty kty) ms with
      | none => "err"
      | some j => showKey { j with use_ := o.use_, alg := o.alg, kid := o.kid, keyOps := o.ops }
    | _, _ => "bad-request"
  | ["new", kty] =>
    match famOfKty kty with
    | some k => showKey (new k)
    | none => "bad-request"
  | ["setkty", k1, fam, ms, k2] =>
    match famOfKty k1, famOfKty fam, pairs ms, famOfKty k2 with
    | some _, some f, some ms, some k2 => showKey (setKty (fromParams f ms) k2)
    | _, _, _, _ => "bad-request"
  | ["setparams", k1, fam, ms] =>
    match famOfKty k1, famOfKty fam, pairs ms with
    | some k, some f, some ms =>
      match setParams (new k) f ms with
      | some j => showKey j
      | none => "err"
    | _, _, _ => "bad-request"
  | ["method", fam, ms] =>
    match famOfKty fam, pairs ms with
    | some f, some ms => match methodFromJwk (fromParams f ms) with
      | some _ => "ok"
      | none => "err"
    | _, _ => "bad-request"
  | "storage" :: _ => "impl-only"
  | _ => "bad-request"

end Driver.C18
