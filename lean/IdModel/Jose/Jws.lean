import IdModel.Jose.Header
import IdModel.Core.B64
/-!
Model of `identity_jose::jws::{Decoder, JwsValidationItem::verify, CompactJwsEncoder,
FlattenedJwsEncoder, GeneralJwsEncoder}` (properties C01 and C08).

* byte strings are `List Nat`;
* the header (de)serialisation is a parameter: `P : bytes → Option Hdr` (serde `from_slice`) and
  `S : Hdr → bytes` (serde `to_vec`);
* the signature verifier is a parameter `V alg key message signature : Bool`;
* the JSON envelope of the flattened / general serializations is handled at the level of its
  members (payload, prot, header, signature): the serde layer is tied by correspondence.
-/
namespace IdModel.Jose
open IdModel

abbrev Bytes := List Nat

/-- `slice.split(|b| b == sep)` -/
def splitOn (sep : Nat) : Bytes → List Bytes
  | [] => [[]]
  | c :: r =>
    if c = sep then [] :: splitOn sep r
    else match splitOn sep r with
      | [] => [[c]]
      | h :: t => (c :: h) :: t

/-- `Decoder::expand_payload`: exactly one of detached / non-empty embedded -/
def expandPayload (detached : Option Bytes) (parsed : Option Bytes) : Option Bytes :=
  match detached, parsed.filter (fun p => !p.isEmpty) with
  | some p, none => some p
  | none, some p => some p
  | _, _ => none

/-- `JwsValidationItem` -/
structure Item where
  prot : Option Hdr
  unprot : Option Hdr
  signingInput : Bytes
  signature : Bytes
  claims : Bytes
  deriving Repr, DecidableEq

/-- `Decoder::decode_signature` -/
def decodeSignature (P : Bytes → Option Hdr) (payload : Bytes) (prot : Option Bytes)
    (unprot : Option Hdr) (signature : Bytes) : Option Item :=
  -- `prot.map(decode_b64_json).transpose()?`
  let ph : Option (Option Hdr) :=
    match prot with
    | none => some none
    | some p => match B64.dec p with
      | none => none
      | some hb => (P hb).map some
  match ph with
  | none => none
  | some ph =>
    match validate ph unprot with
    | .error _ => none
    | .ok () =>
      match B64.dec signature with
      | none => none
      | some sig =>
        let claims? := if (ph.bind (·.b64)).getD true then B64.dec payload else some payload
        match claims? with
        | none => none
        | some claims =>
          if ph.isNone && unprot.isNone then none
          else some { prot := ph, unprot := unprot,
                      signingInput := prot.getD [] ++ 46 :: payload,
                      signature := sig, claims := claims }

/-- `Decoder::decode_compact_serialization` -/
def decodeCompact (P : Bytes → Option Hdr) (tok : Bytes) (detached : Option Bytes) : Option Item :=
  match splitOn 46 tok with
  | [p, pl, sg] =>
    match expandPayload detached (some pl) with
    | none => none
    | some payload => decodeSignature P payload (some p) none sg
  | _ => none

/-- the members of a flattened JWS JSON object / of one entry of `signatures` -/
structure SigMembers where
  prot : Option Bytes
  header : Option Hdr
  signature : Bytes
  deriving Repr, DecidableEq

/-- `Decoder::decode_flattened_serialization` after the JSON layer -/
def decodeFlattened (P : Bytes → Option Hdr) (payload : Option Bytes) (m : SigMembers)
    (detached : Option Bytes) : Option Item :=
  match expandPayload detached payload with
  | none => none
  | some pl => decodeSignature P pl m.prot m.header m.signature

/-- effective `b64` of a signature entry whose prot header decodes -/
def sigB64 (P : Bytes → Option Hdr) (m : SigMembers) : Option Bool :=
  match m.prot with
  | none => some (extractB64 none)
  | some p => match B64.dec p with
    | none => none
    | some hb => (P hb).map fun h => extractB64 (some h)

/-- `Decoder::decode_general_serialization` after the JSON layer: `none` = the whole token is
rejected; otherwise one result per signature -/
def decodeGeneral (P : Bytes → Option Hdr) (payload : Option Bytes) (sigs : List SigMembers)
    (detached : Option Bytes) : Option (List (Option Item)) :=
  match expandPayload detached payload with
  | none => none
  | some pl =>
    let bs := sigs.filterMap (sigB64 P)
    let agree := match bs with
      | [] => true
      | b :: r => r.all (· == b)
    if agree then some (sigs.map fun m => decodeSignature P pl m.prot m.header m.signature)
    else none

/-- key as far as `verify` looks at it: its optional `alg` and an opaque identity -/
structure Key where
  alg : Option String
  id : Nat
  deriving Repr, DecidableEq

inductive VerifyErr | missingProtected | protectedWithoutAlg | algMismatch | signature
  deriving Repr, DecidableEq

/-- `JwsValidationItem::verify` -/
def verify (V : String → Key → Bytes → Bytes → Bool) (it : Item) (key : Key) :
    Except VerifyErr (Hdr × Option Hdr × Bytes) :=
  match it.prot with
  | none => .error .missingProtected
  | some p =>
    match p.alg with
    | none => .error .protectedWithoutAlg
    | some a =>
      if key.alg.isSome && key.alg != some a then .error .algMismatch
      else if V a key it.signingInput it.signature then .ok (p, it.unprot, it.claims)
      else .error .signature

/-! ### encoders -/

inductive CharSet | default | urlSafe
  deriving Repr, DecidableEq

/-- `CharSet::validate` on bytes: valid UTF-8 is implied by the ASCII classes -/
def charsetOk (cs : CharSet) (data : Bytes) : Bool :=
  !data.contains 46 &&
    match cs with
    | .default => data.all fun c => (32 ≤ c && c ≤ 45) || (47 ≤ c && c ≤ 126)
    | .urlSafe => data.all fun c =>
        (97 ≤ c && c ≤ 122) || (65 ≤ c && c ≤ 90) || (48 ≤ c && c ≤ 57) || c == 45 || c == 95 || c == 126

inductive CompactOpts | nonDetached (cs : CharSet) | detached
  deriving Repr, DecidableEq

/-- `MaybeEncodedPayload::encode_if_b64` -/
def maybeEncode (payload : Bytes) (p : Option Hdr) : Bytes :=
  if extractB64 p then B64.enc payload else payload

structure CompactEnc where
  protectedHeader : Bytes
  processedPayload : Option Bytes
  signingInput : Bytes
  deriving Repr, DecidableEq

/-- `CompactJwsEncoder::new_with_options` -/
def compactNew (S : Hdr → Bytes) (payload : Bytes) (h : Hdr) (opts : CompactOpts) : Option CompactEnc :=
  match validateCompact h with
  | .error _ => none
  | .ok () =>
    let eh := B64.enc (S h)
    let me := maybeEncode payload (some h)
    let si := eh ++ 46 :: me
    match opts with
    | .detached => some { protectedHeader := eh, processedPayload := none, signingInput := si }
    | .nonDetached cs =>
      if extractB64 (some h) then some { protectedHeader := eh, processedPayload := some me, signingInput := si }
      else if charsetOk cs payload then
        some { protectedHeader := eh, processedPayload := some payload, signingInput := si }
      else none

/-- `CompactJwsEncoder::into_jws` -/
def compactIntoJws (e : CompactEnc) (sig : Bytes) : Bytes :=
  e.protectedHeader ++ 46 :: (e.processedPayload.getD [] ++ 46 :: B64.enc sig)

structure FlatEnc where
  payload : Option Bytes
  protectedHeader : Option Bytes
  signingInput : Bytes
  unprot : Option Hdr
  deriving Repr, DecidableEq

/-- `SigningData::new` -/
def signingData (S : Hdr → Bytes) (processed : Bytes) (p : Option Hdr) : Option Bytes × Bytes :=
  let eh := p.map fun h => B64.enc (S h)
  (eh, eh.getD [] ++ 46 :: processed)

/-- `FlattenedJwsEncoder::new`; the non-detached unencoded payload must be valid UTF-8, which
is a parameter `utf8` here -/
def flatNew (S : Hdr → Bytes) (utf8 : Bytes → Bool) (payload : Bytes) (p u : Option Hdr)
    (detached : Bool) : Option FlatEnc :=
  match validateRecipient p u with
  | .error _ => none
  | .ok () =>
    let me := maybeEncode payload p
    let sd := signingData S me p
    if detached then some { payload := none, protectedHeader := sd.1, signingInput := sd.2, unprot := u }
    else if extractB64 p || utf8 payload then
      some { payload := some me, protectedHeader := sd.1, signingInput := sd.2, unprot := u }
    else none

/-- members of the flattened JSON object produced by `into_jws` -/
def flatIntoJws (e : FlatEnc) (sig : Bytes) : Option Bytes × SigMembers :=
  (e.payload, { prot := e.protectedHeader, header := e.unprot, signature := B64.enc sig })

/-- `GeneralJwsEncoder`: `new` for the first recipient, `add_recipient` for the others; every
recipient signs over the same partially processed payload (encoded per the FIRST recipient's
`b64`).  Returns the member-level token or the index of the rejected recipient. -/
def generalEncode (S : Hdr → Bytes) (payload : Bytes) (detached : Bool)
    (rs : List (Option Hdr × Option Hdr × Bytes)) : Except Nat (Option Bytes × List SigMembers) :=
  match rs with
  | [] => .error 0
  | (p0, _, _) :: _ =>
    match generalEncoder (rs.map fun r => (r.1, r.2.1)) with
    | some i => .error i
    | none =>
      let pp := maybeEncode payload p0
      let sigs := rs.map fun r =>
        ({ prot := (signingData S pp r.1).1, header := r.2.1, signature := B64.enc r.2.2 } : SigMembers)
      .ok (if detached then none else some pp, sigs)

/-- signing input of recipient `r` of the general encoder -/
def generalSigningInput (S : Hdr → Bytes) (payload : Bytes) (p0 p : Option Hdr) : Bytes :=
  (signingData S (maybeEncode payload p0) p).2

end IdModel.Jose
