import IdModel.Status.Model
/-! Interface lemmas about the regenerated fragment `IdModel.Gen.C12` and list-level helpers (C12). -/
namespace IdModel.Status
open IdModel IdModel.Gen.C12

/-- well-formed byte vector -/
def WF (l : List Nat) : Prop := ∀ b ∈ l, b < 256

/-! ### the byte-level table: every (byte, written offset, read offset, value) -/

theorem byte_table :
    ∀ b : Fin 256, ∀ i : Fin 8, ∀ j : Fin 8, ∀ v : Bool,
      writeBit b.val i.val v < 256 ∧
      readBit (writeBit b.val i.val v) i.val = v ∧
      (i ≠ j → readBit (writeBit b.val i.val v) j.val = readBit b.val j.val) := by
  decide +kernel

theorem writeBit_lt (b i : Nat) (v : Bool) (hb : b < 256) (hi : i < 8) : writeBit b i v < 256 :=
  (byte_table ⟨b, hb⟩ ⟨i, hi⟩ ⟨i, hi⟩ v).1

theorem readBit_writeBit_eq (b i : Nat) (v : Bool) (hb : b < 256) (hi : i < 8) :
    readBit (writeBit b i v) i = v :=
  (byte_table ⟨b, hb⟩ ⟨i, hi⟩ ⟨i, hi⟩ v).2.1

theorem readBit_writeBit_ne (b i j : Nat) (v : Bool) (hb : b < 256) (hi : i < 8) (hj : j < 8)
    (hij : i ≠ j) : readBit (writeBit b i v) j = readBit b j :=
  (byte_table ⟨b, hb⟩ ⟨i, hi⟩ ⟨j, hj⟩ v).2.2 (by intro h; exact hij (by simpa using congrArg Fin.val h))

theorem readBit_zero : ∀ j : Fin 8, readBit 0 j.val = false := by decide +kernel

/-! ### the other generated fragments, pinned to their specification -/

theorem storeIndex_eq (i : Nat) : storeIndex i = (i / 8, i % 8) := rfl
theorem lenOf_eq (n : Nat) : lenOf n = n * 8 := rfl
theorem getInRange_eq (i n : Nat) : getInRange i n = decide (i < n) := rfl
theorem setInRange_eq (i n : Nat) : setInRange i n = decide (i < n) := rfl
theorem getEager_eq : getEager = false := rfl
theorem minimum_eq : minimumListSize = 131072 := by decide
theorem tooSmall_eq (n : Nat) : tooSmall n = decide (n < 131072) := by
  unfold tooSmall; rw [minimum_eq]
theorem byteSize_ge (n : Nat) : n ≤ byteSize n * 8 ∧ byteSize n * 8 < n + 8 := by
  unfold byteSize
  by_cases h : n % 8 = 0
  · simp [h]; omega
  · simp [h]; omega

/-! ### list level -/

theorem get_eq (l : List Nat) (index : Nat) :
    get l index =
      if index < l.length * 8 then
        match l[index / 8]? with
        | some b => .ok (readBit b (index % 8))
        | none => .panic "status_list.rs:get_unchecked:index"
      else .err .indexOutOfBounds := by
  unfold get getUnchecked len
  simp only [getEager_eq, Bool.false_eq_true, ↓reduceIte, getInRange_eq, lenOf_eq, storeIndex_eq,
    decide_eq_true_eq]
  rfl

theorem get_in (l : List Nat) (index : Nat) (h : index < l.length * 8) :
    ∃ b, l[index / 8]? = some b ∧ get l index = .ok (readBit b (index % 8)) := by
  have hlt : index / 8 < l.length := by omega
  refine ⟨l[index / 8], List.getElem?_eq_getElem hlt, ?_⟩
  rw [get_eq, if_pos h]
  simp [List.getElem?_eq_getElem hlt]

theorem get_out (l : List Nat) (index : Nat) (h : ¬ index < l.length * 8) :
    get l index = .err .indexOutOfBounds := by
  rw [get_eq, if_neg h]

theorem set_in (l : List Nat) (index : Nat) (v : Bool) (h : index < l.length * 8) :
    ∃ b, l[index / 8]? = some b ∧
      set l index v = .ok (l.set (index / 8) (writeBit b (index % 8) v)) := by
  have hlt : index / 8 < l.length := by omega
  refine ⟨l[index / 8], List.getElem?_eq_getElem hlt, ?_⟩
  unfold set setUnchecked len
  simp [setInRange_eq, lenOf_eq, storeIndex_eq, h, List.getElem?_eq_getElem hlt]

theorem set_out (l : List Nat) (index : Nat) (v : Bool) (h : ¬ index < l.length * 8) :
    set l index v = .err .indexOutOfBounds := by
  unfold set len
  simp [setInRange_eq, lenOf_eq, h]

theorem wf_get? (l : List Nat) (k b : Nat) (h : WF l) (hb : l[k]? = some b) : b < 256 :=
  h b (List.mem_of_getElem? hb)

theorem wf_set (l : List Nat) (i b : Nat) (h : WF l) (hb : b < 256) : WF (l.set i b) := by
  intro x hx
  rcases List.mem_or_eq_of_mem_set hx with h1 | h1
  · exact h x h1
  · exact h1 ▸ hb

end IdModel.Status
