import IdModel.Doc.Resolve
import IdModel.Doc.QueryStrLemmas
/-!
# C04 — DID document id-uniqueness and round trip hold across every mutation history

Property theorems only; helper lemmas are in `IdModel.Doc.{Gate,Lemmas,Resolve}`.

The model (`IdModel.Doc.Model`) transliterates `CoreDocument`'s collections, the gate
`check_id_constraints`, the checked mutators and the resolution functions.  The search orders over the five
relationship sets and the clauses of the refusal tests are regenerated from the Rust source on every run
(`IdModel.Gen.C04`); the proofs below use them through `rfl`/`decide`, so that dropping a clause or a set
breaks a theorem.
-/
namespace IdModel.Props.C04
open IdModel.Doc IdModel.OSet

/-- **what the invariant says about the contents** — the three clauses of the property statement:
no two embedded verification methods with one id; no relationship reference aliasing an embedded method;
no service id equal to a method id (or reference) -/
theorem inv_statement (d : Doc) (h : Inv d) :
    (allMethods d).Pairwise (fun a b => a.id ≠ b.id) ∧
    (∀ r r' i m, MRef.refer i ∈ d.getRel r → MRef.embed m ∈ d.getRel r' → i ≠ m.id) ∧
    (∀ s ∈ d.service, (∀ m ∈ allMethods d, m.id ≠ s.id) ∧ (∀ e ∈ relationships d, e.id ≠ s.id)) := by
  refine ⟨?_, ?_, ?_⟩
  · unfold allMethods
    rw [List.pairwise_append]
    refine ⟨?_, ?_, ?_⟩
    · have := h.uVm
      unfold Uniq List.Nodup at this
      rwa [List.pairwise_map] at this
    · rw [List.pairwise_flatMap]
      constructor
      · intro r _
        have := h.uRel r
        unfold Uniq List.Nodup at this
        rw [List.pairwise_map] at this
        refine List.Pairwise.filterMap MRef.embedded? ?_ this
        intro a a' hne b hb b' hb'
        cases a with
        | refer _ => cases hb
        | embed x =>
          cases a' with
          | refer _ => cases hb'
          | embed y =>
            simp only [MRef.embedded?, Option.some.injEq] at hb hb'
            subst hb hb'
            exact hne
      · have hnd : (relList Gen.C04.allMethodsOrder).Nodup := by decide
        refine hnd.imp ?_
        intro r r' hne x hx y hy hid
        rw [List.mem_filterMap] at hx hy
        obtain ⟨ex, hex, hx⟩ := hx
        obtain ⟨ey, hey, hy⟩ := hy
        cases ex with
        | refer _ => cases hx
        | embed x' =>
          cases ey with
          | refer _ => cases hy
          | embed y' =>
            simp only [MRef.embedded?, Option.some.injEq] at hx hy
            subst hx hy
            have := h.cross r r' hne _ hex _ hey hid
            cases this.1
    · intro v hv x hx hid
      rw [List.mem_flatMap] at hx
      obtain ⟨r, _, hx⟩ := hx
      rw [List.mem_filterMap] at hx
      obtain ⟨e, he, hx⟩ := hx
      cases e with
      | refer _ => cases hx
      | embed x' =>
        simp only [MRef.embedded?, Option.some.injEq] at hx
        subst hx
        exact h.vmEmb v hv r _ he rfl hid.symm
  · intro r r' i m hr he heq
    by_cases hrr : r = r'
    · subst hrr
      have := Doc.uniq_eq MRef.id _ (h.uRel r) _ hr _ he heq
      cases this
    · have := h.cross r r' hrr _ hr _ he heq
      cases this.2
  · intro s hs
    constructor
    · intro m hm
      rcases (mem_allMethods d m).1 hm with hv | ⟨r, hr⟩
      · exact h.svcVm s hs m hv
      · exact h.svcRel s hs r _ hr
    · intro e he
      obtain ⟨r, hr⟩ := (mem_relationships d e).1 he
      exact h.svcRel s hs r e hr

/-- **the gate**: a document is accepted from its serialised collections exactly when they already satisfy
the invariant (set-uniqueness from `OrderedSet: TryFrom<Vec>`, the rest from `check_id_constraints`,
whose `HashMap` loops are proved equivalent to the pairwise conditions in `Doc.Gate`) -/
theorem gate_exact (x : Data) (d : Doc) : fromData x = some d ↔ (d.toData = x ∧ Inv d) :=
  fromData_iff x d

/-- every checked mutation keeps the invariant -/
theorem step_preserves_inv (d : Doc) (op : Op) (hwf : op.WF) (h : Inv d) : Inv (step d op).1 :=
  step_inv d op hwf h

/-- **every reachable state**: from any accepted document (deserialised, built or empty) and any finite
sequence of checked mutations -/
theorem reachable_inv (x : Data) (d : Doc) (ops : List Op) (hd : fromData x = some d)
    (hwf : ∀ op ∈ ops, op.WF) : Inv (run d ops) :=
  run_inv ops d hwf ((fromData_iff x d).1 hd).2

/-- **round trip after every step**: the state's own serialisation is accepted again and gives the same
document (model-level content of "serialises to JSON that deserialises to an equal document") -/
theorem reachable_roundtrip (x : Data) (d : Doc) (ops : List Op) (hd : fromData x = some d)
    (hwf : ∀ op ∈ ops, op.WF) : fromData (run d ops).toData = some (run d ops) :=
  (fromData_iff _ _).2 ⟨rfl, reachable_inv x d ops hd hwf⟩

/-- the empty document is accepted -/
theorem empty_accepted (i : Nat) : fromData ⟨i, [], [], [], [], [], [], []⟩ = some ⟨i, [], [], [], [], [], [], []⟩ :=
  rfl

/-- **a refused operation leaves the document unchanged** -/
theorem refused_unchanged (d : Doc) (op : Op) (h : (step d op).2.isErr = true) : (step d op).1 = d :=
  step_refused_unchanged d op h

/-- **resolution = lookup in the set of entries** (full id, no scope): the unique embedded method with
that id, wherever it is embedded -/
theorem resolve_full_id (d : Doc) (k : Id) (hi : Inv d) (hk : k.frag ≠ none) (hd : Distinct d k) :
    resolveMethod d (Query.ofId k) none = (allMethods d).find? (fun x => decide (x.id = k)) :=
  resolve_unscoped d k hi hk hd

/-- … with scope `VerificationMethod` -/
theorem resolve_full_id_vm (d : Doc) (k : Id) (hk : k.frag ≠ none) (hd : Distinct d k) :
    resolveMethod d (Query.ofId k) (some .vm) = d.vm.find? (fun x => decide (x.id = k)) :=
  resolve_vm_scope d k hk hd

/-- … with a relationship scope: the entry of that relationship; a reference resolves to the referenced
general-purpose method -/
theorem resolve_full_id_rel (d : Doc) (k : Id) (r : Rel) (hk : k.frag ≠ none) (hd : Distinct d k) :
    resolveMethod d (Query.ofId k) (some (.rel r)) =
      match (d.getRel r).find? (fun e => decide (e.id = k)) with
      | some (.embed m) => some m
      | some (.refer _) => d.vm.find? (fun x => decide (x.id = k))
      | none => none :=
  resolve_rel_scope d k r hk hd

/-- services -/
theorem resolve_service_full_id (d : Doc) (k : Id) (hk : k.frag ≠ none) (hd : Distinct d k) :
    resolveService d (Query.ofId k) = d.service.find? (fun s => decide (s.id = k)) :=
  resolve_service_spec d k hk hd

/-- a bare fragment resolves like the full id when every method id carries the same DID -/
theorem resolve_by_fragment (d : Doc) (D f : Nat) (s : Option Scope)
    (hv : ∀ v ∈ d.vm, v.id.did = D) (hr : ∀ r, ∀ e ∈ d.getRel r, e.id.did = D) :
    resolveMethod d ⟨none, some f⟩ s = resolveMethod d ⟨some D, some f⟩ s :=
  resolve_fragment_only d D f s hv hr

/-- what was resolved is an embedded method of the document whose id matches the query (no hypotheses) -/
theorem resolve_sound (d : Doc) (q : Query) (s : Option Scope) (m : Method)
    (h : resolveMethod d q s = some m) : m ∈ allMethods d := by
  have hvm : ∀ q', query Method.id d.vm q' = some m → m ∈ allMethods d :=
    fun q' h' => (mem_allMethods d m).2 (Or.inl (query_some_mem _ _ _ _ h').1)
  cases s with
  | none =>
    simp only [resolveMethod, resolveMethodInner] at h
    cases hfr : firstRel d q (relList Gen.C04.resolveOrder) with
    | none => rw [hfr] at h; exact hvm _ h
    | some e =>
      rw [hfr] at h
      obtain ⟨r, _, hq⟩ := firstRel_some d q e _ hfr
      cases e with
      | embed x =>
        simp only [Option.some.injEq] at h
        subst h
        exact (mem_allMethods d x).2 (Or.inr ⟨r, (query_some_mem _ _ _ _ hq).1⟩)
      | refer i => exact hvm _ h
  | some sc =>
    cases sc with
    | vm => exact hvm _ h
    | rel r =>
      simp only [resolveMethod] at h
      cases hq : query MRef.id (d.getRel r) q with
      | none => rw [hq] at h; cases h
      | some e =>
        rw [hq] at h
        cases e with
        | embed x =>
          simp only [resolveMethodRef, Option.some.injEq] at h
          subst h
          exact (mem_allMethods d x).2 (Or.inr ⟨r, (query_some_mem _ _ _ _ hq).1⟩)
        | refer i => exact hvm _ h

/-! ## why the two id-equality clauses of `insert_method` are needed

With only the two lookups the code had before (`resolve_method(id)` and `service().query(id)`), a document
holding a reference that does not resolve admits an insertion whose result is refused by the gate. -/

/-- a legal document: `authentication` holds a reference `did0#1` to a method the document does not contain -/
def danglingDoc : Doc := ⟨0, [], [.refer ⟨0, 0, some 1⟩], [], [], [], [], []⟩

theorem danglingDoc_accepted : fromData danglingDoc.toData = some danglingDoc := by decide

/-- embedding a method with that id under `assertionMethod` passed the old test and yields a document whose
own serialisation is no longer accepted -/
theorem old_insert_guard_breaks_roundtrip :
    let r := insertMethodG true true false false danglingDoc ⟨⟨0, 0, some 1⟩, 7⟩ (.rel .asrt)
    r.2 = .ok ∧ fromData r.1.toData = none := by decide

/-- the current test refuses it -/
theorem insert_guard_refuses_alias :
    (insertMethod danglingDoc ⟨⟨0, 0, some 1⟩, 7⟩ (.rel .asrt)).2 = .errMethodInsertion := by decide

/-- … and still allows the method to be added as a general-purpose method, which makes the reference resolve -/
theorem insert_guard_allows_general :
    (insertMethod danglingDoc ⟨⟨0, 0, some 1⟩, 7⟩ .vm).2 = .ok ∧
    resolveMethod (insertMethod danglingDoc ⟨⟨0, 0, some 1⟩, 7⟩ .vm).1 (Query.ofId ⟨0, 0, some 1⟩) (some (.rel .auth))
      = some ⟨⟨0, 0, some 1⟩, 7⟩ := by decide

/-! ## non-vacuity: a concrete history through every operation kind -/

def m1 : Method := ⟨⟨0, 0, some 1⟩, 11⟩
def m2 : Method := ⟨⟨0, 0, some 2⟩, 12⟩
def s3 : Service := ⟨⟨0, 0, some 3⟩, 13⟩

def demoOps : List Op :=
  [.insertMethod m1 .vm, .insertMethod m2 (.rel .keyAgr), .attach ⟨none, some 1⟩ .auth, .insertService s3,
   .insertMethod ⟨⟨0, 0, some 3⟩, 14⟩ .vm, .detach (Query.ofId m1.id) .auth, .removeMethod m2.id, .removeService s3.id]

example : ∀ op ∈ demoOps, op.WF := by
  intro op hop
  simp only [demoOps, List.mem_cons, List.not_mem_nil, or_false] at hop
  rcases hop with rfl | rfl | rfl | rfl | rfl | rfl | rfl | rfl <;> simp [Op.WF, m1, m2, s3]

example : run ⟨0, [], [], [], [], [], [], []⟩ (demoOps.take 5) =
    ⟨0, [m1], [.refer m1.id], [], [.embed m2], [], [], [s3]⟩ := by decide

example : resolveMethod (run ⟨0, [], [], [], [], [], [], []⟩ (demoOps.take 5)) (Query.ofId m1.id) (some (.rel .auth))
    = some m1 := by decide


/-! ## queries as STRINGS (`DIDUrlQuery`): the three forms a caller can pass denote the abstract queries above

`Doc/QueryStr.lean` transliterates `did_str` / `fragment` / `matches` over byte lists; the prefix that makes a query "a full
DID URL" is regenerated (`Gen.C04.queryPrefix`). -/

section QueryStrings
open QueryStr

/-- `#fragment` -/
theorem matches_hash (f D : List Nat) (g : Option (List Nat)) (hf : cHash ∉ f) :
    matchesStr (cHash :: f) D g = (!f.isEmpty && g == some f) := by
  have h1 : didStr (cHash :: f) = none := by simp [didStr, prefix_head_ne_hash]
  have h2 : fragment (cHash :: f) = if f.isEmpty then none else some f := by
    have := rfind_last cHash [] f hf
    simp only [List.nil_append, List.length_nil] at this
    simp only [fragment, prefix_head_ne_hash, this]
    cases f <;> simp [Option.filter]
  unfold matchesStr
  rw [h1, h2]
  cases f with
  | nil => simp
  | cons a t =>
    cases g with
    | none => simp
    | some v => simp only [Bool.not_false, Bool.true_and, List.isEmpty_cons]; rw [Bool.eq_iff_iff]; simp only [Bool.false_eq_true, if_false, beq_iff_eq, Option.some.injEq]; exact eq_comm

/-- the bare fragment -/
theorem matches_bare (f D : List Nat) (g : Option (List Nat)) (hf : cHash ∉ f) (hp : isFull f = false) :
    matchesStr f D g = (!f.isEmpty && g == some f) := by
  have h1 : didStr f = none := by simp [didStr, hp]
  have h2 : fragment f = if f.isEmpty then none else some f := by
    simp only [fragment, hp, rfind_none cHash f hf]
    cases f <;> simp [Option.filter]
  unfold matchesStr
  rw [h1, h2]
  cases f with
  | nil => simp
  | cons a t =>
    cases g with
    | none => simp
    | some v => simp only [Bool.not_false, Bool.true_and, List.isEmpty_cons]; rw [Bool.eq_iff_iff]; simp only [Bool.false_eq_true, if_false, beq_iff_eq, Option.some.injEq]; exact eq_comm

/-- **resolving by bare fragment**: a non-empty string without `#` that is not itself DID-URL-like (does not start with
`did:`) matches exactly the identifiers whose fragment is that string — whatever their DID.  (With the prefix test of the
pinned commit, `starts_with("did")`, this failed for every fragment that merely begins with the letters d-i-d: found by this
obligation, repaired, see DESIGN §12.3.) -/
theorem bare_fragment_query (f D : List Nat) (g : Option (List Nat)) (hf : cHash ∉ f) (hne : f ≠ [])
    (hp : ([100, 105, 100, 58] : List Nat).isPrefixOf f = false) :
    matchesStr f D g = (g == some f) := by
  have hfull : isFull f = false := hp
  rw [matches_bare f D g hf hfull]
  cases f with
  | nil => exact absurd rfl hne
  | cons a t => simp

/-- the string form of a DID URL: DID, then nothing or a path / query part, then `#fragment` -/
theorem full_parts (D pq f : List Nat) (hD : isFull D = true)
    (h1 : cQmark ∉ D) (h2 : cSlash ∉ D) (h3 : cHash ∉ D)
    (hpq : pq = [] ∨ ∃ t, pq = cSlash :: t ∨ pq = cQmark :: t) (hq : cHash ∉ pq) (hf : cHash ∉ f) :
    didStr (D ++ pq ++ cHash :: f) = some D ∧
    fragment (D ++ pq ++ cHash :: f) = if f.isEmpty then none else some f := by
  have hfull : isFull (D ++ pq ++ cHash :: f) = true := by
    rw [List.append_assoc]; exact isFull_append D _ hD
  constructor
  · unfold didStr
    simp only [hfull, Bool.not_true, Bool.false_eq_true, if_false]
    rw [List.append_assoc, find_append _ _ _ h1, find_append _ _ _ h2, find_append _ _ _ h3]
    have key : ∀ (a b c : Option Nat), (a = some 0 ∨ b = some 0 ∨ c = some 0) →
        min (min (min (D ++ (pq ++ cHash :: f)).length ((a.map (· + D.length)).getD (D ++ (pq ++ cHash :: f)).length))
          ((b.map (· + D.length)).getD (min (D ++ (pq ++ cHash :: f)).length ((a.map (· + D.length)).getD (D ++ (pq ++ cHash :: f)).length))))
          ((c.map (· + D.length)).getD (min (min (D ++ (pq ++ cHash :: f)).length ((a.map (· + D.length)).getD (D ++ (pq ++ cHash :: f)).length))
          ((b.map (· + D.length)).getD (min (D ++ (pq ++ cHash :: f)).length ((a.map (· + D.length)).getD (D ++ (pq ++ cHash :: f)).length))))) = D.length := by
      intro a b c h
      have hl : D.length ≤ (D ++ (pq ++ cHash :: f)).length := by simp
      generalize (D ++ (pq ++ cHash :: f)).length = L at *
      cases a <;> cases b <;> cases c <;> simp at h ⊢ <;> omega
    rw [key]
    · simp
    · rcases hpq with rfl | ⟨t, rfl | rfl⟩
      · right; right; simp [find]
      · right; left; simp [find]
      · left; simp [find]
  · unfold fragment
    simp only [hfull, if_true]
    rw [rfind_last cHash (D ++ pq) f hf]
    have hd : List.drop ((D ++ pq).length + 1) (D ++ pq ++ cHash :: f) = f := by
      rw [List.drop_append]; simp
    simp only [Option.map_some, hd]
    cases f <;> simp [Option.filter]

/-- a full id whose fragment is absent matches nothing -/
theorem full_nofrag (D pq : List Nat) (hD : isFull D = true) (h3 : cHash ∉ D) (hq : cHash ∉ pq) :
    fragment (D ++ pq) = none := by
  unfold fragment
  have hn : cHash ∉ D ++ pq := by simp [h3, hq]
  simp [isFull_append D pq hD, rfind_none cHash _ hn, Option.filter]

/-- how the abstract identifiers of the document model are written as strings: DIDs are full (carry the prefix) and hold no
delimiter, fragments are non-empty, hold no `#` and are not themselves DID-URL-like, the path / query part starts with its
delimiter; different numbers are different strings -/
structure Enc where
  did : Nat → List Nat
  frag : Nat → List Nat
  pq : Nat → List Nat
  did_inj : ∀ a b, did a = did b → a = b
  frag_inj : ∀ a b, frag a = frag b → a = b
  did_full : ∀ d, isFull (did d) = true
  did_clean : ∀ d, cQmark ∉ did d ∧ cSlash ∉ did d ∧ cHash ∉ did d
  frag_clean : ∀ f, cHash ∉ frag f ∧ frag f ≠ []
  frag_notfull : ∀ f, isFull (frag f) = false
  pq_ok : ∀ p, (pq p = [] ∨ ∃ t, pq p = cSlash :: t ∨ pq p = cQmark :: t) ∧ cHash ∉ pq p

def Enc.idStr (E : Enc) (i : Id) : List Nat :=
  match i.frag with
  | some f => E.did i.did ++ E.pq i.pq ++ cHash :: E.frag f
  | none => E.did i.did ++ E.pq i.pq

theorem beq_enc (e : Nat → List Nat) (inj : ∀ a b, e a = e b → a = b) (a b : Nat) :
    (e a == e b) = (a == b) := by
  rw [Bool.eq_iff_iff]; simp only [beq_iff_eq]; exact ⟨inj a b, fun h => h ▸ rfl⟩

/-- **the string form of a DID URL, passed as a query, is the abstract query `Query.ofId`** -/
theorem str_full (E : Enc) (k i : Id) :
    matchesStr (E.idStr k) (E.did i.did) (i.frag.map E.frag) = (Query.ofId k).matches i := by
  obtain ⟨c1, c2, c3⟩ := E.did_clean k.did
  obtain ⟨p1, p2⟩ := E.pq_ok k.pq
  unfold Enc.idStr Query.ofId Query.matches matchesStr
  cases hk : k.frag with
  | none =>
    have hd : ∃ d, didStr (E.did k.did ++ E.pq k.pq) = d := ⟨_, rfl⟩
    simp only [full_nofrag _ _ (E.did_full _) c3 p2]
    cases didStr (E.did k.did ++ E.pq k.pq) <;> cases i.frag <;> simp
  | some f =>
    obtain ⟨f1, f2⟩ := E.frag_clean f
    obtain ⟨a, b⟩ := full_parts _ _ _ (E.did_full k.did) c1 c2 c3 p1 p2 f1
    simp only [a, b]
    have : (E.frag f).isEmpty = false := by cases h : E.frag f <;> simp_all
    simp only [this, Bool.false_eq_true, if_false]
    cases i.frag with
    | none => simp
    | some g =>
      simp only [Option.map_some]
      rw [beq_enc E.did E.did_inj, beq_enc E.frag E.frag_inj]

/-- **`#fragment` and the bare fragment are the abstract query without a DID** -/
theorem str_hash (E : Enc) (f : Nat) (i : Id) :
    matchesStr (cHash :: E.frag f) (E.did i.did) (i.frag.map E.frag) = (Query.mk none (some f)).matches i := by
  obtain ⟨f1, f2⟩ := E.frag_clean f
  rw [matches_hash _ _ _ f1]
  have : (E.frag f).isEmpty = false := by cases h : E.frag f <;> simp_all
  unfold Query.matches
  cases i.frag with
  | none => simp [this]
  | some g =>
    simp only [this, Bool.not_false, Bool.true_and, Option.map_some]
    rw [Bool.eq_iff_iff]; simp only [beq_iff_eq, Option.some.injEq]
    exact ⟨fun h => (E.frag_inj _ _ h).symm, fun h => h ▸ rfl⟩

theorem str_bare (E : Enc) (f : Nat) (i : Id) :
    matchesStr (E.frag f) (E.did i.did) (i.frag.map E.frag) = (Query.mk none (some f)).matches i := by
  obtain ⟨f1, f2⟩ := E.frag_clean f
  rw [matches_bare _ _ _ f1 (E.frag_notfull f)]
  have : (E.frag f).isEmpty = false := by cases h : E.frag f <;> simp_all
  unfold Query.matches
  cases i.frag with
  | none => simp [this]
  | some g =>
    simp only [this, Bool.not_false, Bool.true_and, Option.map_some]
    rw [Bool.eq_iff_iff]; simp only [beq_iff_eq, Option.some.injEq]
    exact ⟨fun h => (E.frag_inj _ _ h).symm, fun h => h ▸ rfl⟩

-- "did-key" (a fragment that merely starts with the letters d i d) is not DID-URL-like under the prefix `did:`
example : isFull [100, 105, 100, 45, 107] = false := by decide
example : matchesStr [100, 105, 100, 45, 107] [100, 105, 100, 58, 109, 58, 97] (some [100, 105, 100, 45, 107]) = true := by decide

/-- the strings of the correspondence run are an instance: DIDs `did:m:a…a`, fragments `k…k` -/
example : Enc where
  did := fun d => [100, 105, 100, 58, 109, 58] ++ List.replicate (d + 1) 97
  frag := fun f => List.replicate (f + 1) 107
  pq := fun _ => []
  did_inj := by
    intro a b h
    have := congrArg List.length h
    simp at this; omega
  frag_inj := by
    intro a b h
    have := congrArg List.length h
    simp at this; omega
  did_full := by intro d; simp [isFull, Gen.C04.queryPrefix, List.isPrefixOf]
  did_clean := by intro d; simp [cQmark, cSlash, cHash, List.mem_replicate]
  frag_clean := by intro f; simp [cHash, List.mem_replicate, List.replicate_succ]
  frag_notfull := by intro f; simp [isFull, Gen.C04.queryPrefix, List.replicate_succ, List.isPrefixOf]
  pq_ok := by intro p; simp [cHash]

end QueryStrings

end IdModel.Props.C04
