//! C15 — shipped key stores honour the key-storage contract over every operation history.
//!
//! Request: `C15 hist <op> …`   one JwkMemStore and one KeyIdMemstore, ops in order
//!   `g:<kt>:<alg>`                    generate; kt = ed | bls | x (unknown), alg = EdDSA | ES256 | X (unknown)
//!   `i:<fam>:<priv>:<alg>:<dok>:<v>`  insert a JWK; fam = ed | e448 | x255 | bls | p256 | oct; priv 0|1 (`d` present);
//!                                     alg = ~ | EdDSA | ES256 | junk; dok: `d` is 1 the 32-byte secret / 0 three bytes /
//!                                     2 secret followed by the public key (64 bytes) / 3 33 bytes; v = 1|2: which
//!                                     of two fixed Ed25519 key pairs (RFC 8037 A.1, RFC 8032 test 2)
//!   `s:<n>:<data>:<fam>:<alg>`        sign `data` with the n-th key id handed out (99: a key id never handed out); the
//!                                     public key argument has the given family and alg (for `ed` the key's own public JWK)
//!   `d:<n>`  `e:<n>`                  delete / exists
//!   `ki:<dg>:<n>` `kg:<dg>` `kd:<dg>` key-id store: insert_key_id / get_key_id / delete_key_id for method digest dg
//!   `kr:<dg>:<t>`                     t threads insert key ids 201.. for one digest at the same time
//!   `dr:<n>:<t>`                      t threads delete the n-th key id at the same time
//! Key ids are printed as the number of the order they were handed out in; key pairs as the key id that generated them
//! (101 / 102 for the two fixed pairs).
//! Implementation-side oracles: the JWK returned by generate has no private member, kid = its RFC 7638 thumbprint
//! (recomputed through a sorted map), alg = the requested one; a signature verifies (EdDSAJwsVerifier) under the public JWK
//! of the key it was made for and under no other stored key's.
use crate::jwtu::b64;
use crate::rng::Rng;
use identity_core::convert::FromJson;
use identity_eddsa_verifier::EdDSAJwsVerifier;
use identity_storage::JwkMemStore;
use identity_storage::JwkStorage;
use identity_storage::KeyId;
use identity_storage::KeyIdMemstore;
use identity_storage::KeyIdStorage;
use identity_storage::KeyStorageErrorKind;
use identity_storage::KeyType;
use identity_storage::MethodDigest;
use identity_verification::jose::jwk::Jwk;
use identity_verification::jose::jws::JwsAlgorithm;
use identity_verification::jose::jws::JwsVerifier;
use identity_verification::jose::jws::VerificationInput;
use identity_verification::VerificationMethod;
use std::io::Write;
use std::sync::Arc;

// RFC 8037 A.1 and RFC 8032 7.1 test 2
const D1: &str = "nWGxne_9WmC6hEr0kuwsxERJxWl7MmkZcDusAxyuf2A";
const X1: &str = "11qYAYKxCrfVS_7TyWQHOg7hcvPapiMlrwIaaPcHURo";
const D2_HEX: &str = "4ccd089b28ff96da9db6c346ec114e0f5b8a319f35aba624da8cf6ed4fb8a6fb";
const X2_HEX: &str = "3d4017c3e843895a92b70aa74d1b7ebc9c982ccf2ec4968cc0cd55f12af4660c";

fn unhex(s: &str) -> Vec<u8> {
  (0..s.len() / 2).map(|i| u8::from_str_radix(&s[2 * i..2 * i + 2], 16).unwrap()).collect()
}
fn crate_b64_dec(t: &str) -> Vec<u8> {
  const T: &[u8] = b"ABCDEFGHIJKLMNOPQRSTUVWXYZabcdefghijklmnopqrstuvwxyz0123456789-_";
  let vals: Vec<u32> = t.bytes().filter_map(|c| T.iter().position(|x| *x == c).map(|p| p as u32)).collect();
  let mut out = vec![];
  for ch in vals.chunks(4) {
    let n = ch.iter().enumerate().fold(0u32, |a, (i, v)| a | v << (18 - 6 * i as u32));
    out.push((n >> 16) as u8);
    if ch.len() > 2 {
      out.push((n >> 8) as u8);
    }
    if ch.len() > 3 {
      out.push(n as u8);
    }
  }
  out
}
fn pair(v: u32) -> (String, String) {
  if v == 1 {
    (D1.to_string(), X1.to_string())
  } else {
    (b64(&unhex(D2_HEX)), b64(&unhex(X2_HEX)))
  }
}

/// dok: 1 = `d` is the 32-byte secret; 0 = three bytes; 2 = 64 bytes (secret followed by the public key); 3 = 33 bytes
fn jwk_json(fam: &str, private: bool, alg: &str, dok: u32, v: u32) -> String {
  let (d, x) = pair(v);
  let raw = |t: &str| crate_b64_dec(t);
  let d = match dok {
    1 => d,
    2 => b64(&[raw(&d), raw(&x)].concat()),
    3 => b64(&[raw(&d), vec![7u8]].concat()),
    _ => "AAAA".to_string(),
  };
  let mut members: Vec<String> = match fam {
    "ed" => vec!["\"kty\":\"OKP\"".into(), "\"crv\":\"Ed25519\"".into(), format!("\"x\":\"{}\"", x)],
    "e448" => vec!["\"kty\":\"OKP\"".into(), "\"crv\":\"Ed448\"".into(), format!("\"x\":\"{}\"", x)],
    "x255" => vec!["\"kty\":\"OKP\"".into(), "\"crv\":\"X25519\"".into(), format!("\"x\":\"{}\"", x)],
    "bls" => vec!["\"kty\":\"EC\"".into(), "\"crv\":\"BLS12381G2\"".into(), format!("\"x\":\"{}\"", x), format!("\"y\":\"{}\"", x)],
    "p256" => vec!["\"kty\":\"EC\"".into(), "\"crv\":\"P-256\"".into(), format!("\"x\":\"{}\"", x), format!("\"y\":\"{}\"", x)],
    _ => vec!["\"kty\":\"oct\"".into(), format!("\"k\":\"{}\"", x)],
  };
  if private && fam != "oct" {
    members.push(format!("\"d\":\"{}\"", d));
  }
  match alg {
    "~" => {}
    a => members.push(format!("\"alg\":\"{}\"", a)),
  }
  format!("{{{}}}", members.join(","))
}

fn kerr(k: &KeyStorageErrorKind, msg: &str) -> &'static str {
  match k {
    KeyStorageErrorKind::UnsupportedKeyType => "unsupportedKeyType",
    KeyStorageErrorKind::KeyAlgorithmMismatch => "keyAlgMismatch",
    KeyStorageErrorKind::UnsupportedSignatureAlgorithm => "unsupportedAlg",
    KeyStorageErrorKind::KeyNotFound => "keyNotFound",
    KeyStorageErrorKind::Unspecified => {
      if msg.contains("all private key components") {
        "notPrivate"
      } else {
        "unspecified"
      }
    }
    _ => "?",
  }
}

fn digest(n: u32) -> MethodDigest {
  let m = VerificationMethod::from_json(&format!(
    r#"{{"id":"did:ex:d0#k{}","controller":"did:ex:d0","type":"Ed25519VerificationKey2018","publicKeyMultibase":"z11"}}"#,
    n
  ))
  .unwrap();
  MethodDigest::new(&m).unwrap()
}

fn thumbprint_input(j: &Jwk) -> Option<String> {
  let p = j.try_okp_params().ok()?;
  let mut m = std::collections::BTreeMap::new();
  m.insert("crv", p.crv.clone());
  m.insert("kty", "OKP".to_string());
  m.insert("x", p.x.clone());
  serde_json::to_string(&m).ok()
}

pub fn run(args: &[&str]) -> String {
  if args.first() != Some(&"hist") {
    return "bad-request".into();
  }
  let rt = tokio::runtime::Builder::new_current_thread().build().unwrap();
  let store = JwkMemStore::new();
  let kids = Arc::new(KeyIdMemstore::new());
  // key ids in the order handed out, with the public JWK and the key pair number of each
  let mut issued: Vec<(KeyId, Jwk, u32)> = vec![];
  let mut out: Vec<String> = vec![];
  let mut fail: Option<String> = None;
  let unknown = KeyId::new("never-handed-out-key-id-00000000");
  for t in &args[1..] {
    let p: Vec<&str> = t.split(':').collect();
    let r: Option<String> = match p.as_slice() {
      ["g", kt, alg] => {
        let key_type = match *kt {
          "ed" => JwkMemStore::ED25519_KEY_TYPE,
          "bls" => JwkMemStore::BLS12381G2_KEY_TYPE,
          _ => KeyType::new("Unknown"),
        };
        let a = match *alg {
          "EdDSA" => JwsAlgorithm::EdDSA,
          "ES256" => JwsAlgorithm::ES256,
          _ => JwsAlgorithm::HS256,
        };
        Some(match rt.block_on(store.generate(key_type, a.clone())) {
          Ok(o) => {
            let n = issued.len() as u32 + 1;
            if fail.is_none() {
              if !o.jwk.is_public() {
                fail = Some(format!("generate-output:{} returned a JWK with private members", t));
              } else if o.jwk.alg() != Some(a.name()) {
                fail = Some(format!("generate-output:{} returned alg {:?}", t, o.jwk.alg()));
              } else if thumbprint_input(&o.jwk).is_none() || o.jwk.thumbprint_hash_input() != thumbprint_input(&o.jwk).unwrap() || o.jwk.kid() != Some(o.jwk.thumbprint_sha256_b64().as_str()) {
                fail = Some(format!("generate-output:{} kid {:?} is not the RFC 7638 thumbprint", t, o.jwk.kid()));
              } else if issued.iter().any(|(k, _, _)| *k == o.key_id) {
                fail = Some(format!("generate-output:{} returned a key id handed out before", t));
              }
            }
            issued.push((o.key_id, o.jwk, n));
            format!("ok:{}", n)
          }
          Err(e) => format!("err:{}", kerr(e.kind(), &e.to_string())),
        })
      }
      ["i", fam, pr, alg, dok, v] => (|| {
        let v: u32 = v.parse().ok()?;
        let j = Jwk::from_json(&jwk_json(fam, *pr == "1", alg, dok.parse().ok()?, v)).ok()?;
        Some(match rt.block_on(store.insert(j.clone())) {
          Ok(id) => {
            let n = issued.len() as u32 + 1;
            let mut pubj = j.to_public().unwrap_or(j);
            if pubj.alg().is_none() {
              pubj.set_alg("EdDSA");
            }
            // the key pair a stored key verifies under is that of its PUBLIC part, whatever `d` holds
            issued.push((id, pubj, 100 + v));
            format!("ok:{}", n)
          }
          Err(e) => format!("err:{}", kerr(e.kind(), &e.to_string())),
        })
      })(),
      ["s", n, data, fam, alg] => (|| {
        let n: usize = n.parse().ok()?;
        let id = issued.get(n.wrapping_sub(1)).map(|x| x.0.clone()).unwrap_or_else(|| unknown.clone());
        let msg = format!("data{}", data).into_bytes();
        let mut pk = if *fam == "ed" {
          issued.get(n.wrapping_sub(1)).map(|x| x.1.clone()).unwrap_or_else(|| Jwk::from_json(&jwk_json("ed", false, "~", 1, 1)).unwrap())
        } else {
          Jwk::from_json(&jwk_json(fam, false, "~", 1, 1)).ok()?
        };
        // the alg of the public key argument
        let pj = {
          let mut v: serde_json::Value = serde_json::to_value(&pk).ok()?;
          let o = v.as_object_mut()?;
          o.remove("alg");
          if *alg != "~" {
            o.insert("alg".into(), serde_json::json!(alg));
          }
          v.to_string()
        };
        pk = Jwk::from_json(&pj).ok()?;
        Some(match rt.block_on(store.sign(&id, &msg, &pk)) {
          Ok(sig) => {
            // which stored keys does it verify under?
            let mut under: Vec<u32> = vec![];
            for (k, j, pairn) in &issued {
              if !rt.block_on(store.exists(k)).unwrap_or(false) {
                continue;
              }
              let mut vj = j.clone();
              vj.set_alg("EdDSA");
              let input = VerificationInput { alg: JwsAlgorithm::EdDSA, signing_input: msg.clone().into(), decoded_signature: sig.clone().into() };
              if EdDSAJwsVerifier::default().verify(input, &vj).is_ok() && !under.contains(pairn) {
                under.push(*pairn);
              }
            }
            let own = issued.get(n.wrapping_sub(1)).map(|x| x.2).unwrap_or(0);
            if fail.is_none() && under != vec![own] {
              fail = Some(format!("signature-binding:{} made for key pair {} verifies under the stored key pairs {:?}", t, own, under));
            }
            format!("ok:{}", own)
          }
          Err(e) => format!("err:{}", kerr(e.kind(), &e.to_string())),
        })
      })(),
      ["d", n] => (|| {
        let n: usize = n.parse().ok()?;
        let id = issued.get(n.wrapping_sub(1)).map(|x| x.0.clone()).unwrap_or_else(|| unknown.clone());
        // is the id stored right now?
        let stored = issued.get(n.wrapping_sub(1)).is_some() && rt.block_on(store.exists(&id)).unwrap_or(false);
        Some(match rt.block_on(store.delete(&id)) {
          Ok(()) => {
            if !stored && fail.is_none() {
              fail = Some(format!("absent-id-deletes:{} reported success for a key id that was {}", t, if n.wrapping_sub(1) < issued.len() { "already deleted" } else { "never handed out" }));
            }
            "ok".to_string()
          }
          Err(e) => format!("err:{}", kerr(e.kind(), &e.to_string())),
        })
      })(),
      ["dr", n, threads] => (|| {
        // t threads delete one key id at the same moment: a stored key is deleted by exactly one of them
        let n: usize = n.parse().ok()?;
        let t: usize = threads.parse().ok()?;
        let id = issued.get(n.wrapping_sub(1)).map(|x| x.0.clone()).unwrap_or_else(|| unknown.clone());
        let barrier = std::sync::Barrier::new(t);
        let store_ref = &store;
        let oks: usize = std::thread::scope(|sc| {
          let hs: Vec<_> = (0..t)
            .map(|_| {
              let id = id.clone();
              let barrier = &barrier;
              sc.spawn(move || {
                let rt = tokio::runtime::Builder::new_current_thread().build().unwrap();
                barrier.wait();
                rt.block_on(store_ref.delete(&id)).is_ok()
              })
            })
            .collect();
          hs.into_iter().map(|h| h.join().unwrap_or(false) as usize).sum()
        });
        Some(format!("ok={};fail={}", oks, t - oks))
      })(),
      ["e", n] => (|| {
        let n: usize = n.parse().ok()?;
        let id = issued.get(n.wrapping_sub(1)).map(|x| x.0.clone()).unwrap_or_else(|| unknown.clone());
        Some(match rt.block_on(store.exists(&id)) {
          Ok(b) => format!("{}", b as u8),
          Err(_) => "err".to_string(),
        })
      })(),
      ["ki", dg, n] => (|| {
        let r = rt.block_on(kids.insert_key_id(digest(dg.parse().ok()?), KeyId::new(format!("kid{}", n))));
        Some(if r.is_ok() { "ok".to_string() } else { "err:alreadyExists".to_string() })
      })(),
      ["kg", dg] => (|| {
        Some(match rt.block_on(kids.get_key_id(&digest(dg.parse().ok()?))) {
          Ok(k) => format!("ok:{}", k.as_str().trim_start_matches("kid")),
          Err(_) => "err:notFound".to_string(),
        })
      })(),
      ["kd", dg] => (|| {
        Some(match rt.block_on(kids.delete_key_id(&digest(dg.parse().ok()?))) {
          Ok(()) => "ok".to_string(),
          Err(_) => "err:notFound".to_string(),
        })
      })(),
      ["kr", dg, threads] => (|| {
        let dgn: u32 = dg.parse().ok()?;
        let n: u32 = threads.parse().ok()?;
        let barrier = Arc::new(std::sync::Barrier::new(n as usize));
        let handles: Vec<_> = (0..n)
          .map(|i| {
            let kids = kids.clone();
            let barrier = barrier.clone();
            // everything but the call itself happens before the barrier, so that the calls really collide
            let dg = digest(dgn);
            let kid = KeyId::new(format!("kid{}", 201 + i));
            std::thread::spawn(move || {
              let rt = tokio::runtime::Builder::new_current_thread().build().unwrap();
              let fut = kids.insert_key_id(dg, kid);
              barrier.wait();
              rt.block_on(fut).is_ok()
            })
          })
          .collect();
        let results: Vec<bool> = handles.into_iter().map(|h| h.join().unwrap_or(false)).collect();
        let oks: Vec<u32> = results.iter().enumerate().filter(|(_, b)| **b).map(|(i, _)| 201 + i as u32).collect();
        let mapped = rt.block_on(kids.get_key_id(&digest(dgn))).ok().map(|k| k.as_str().trim_start_matches("kid").to_string());
        // canonical: number of successes, and whether the digest maps to a thread that reported success
        let consistent = match (&mapped, oks.as_slice()) {
          (Some(m), [w]) => *m == w.to_string(),
          (Some(_), []) => true,
          _ => false,
        };
        Some(format!("ok={};fail={};consistent={}", oks.len(), n as usize - oks.len(), consistent as u8))
      })(),
      _ => None,
    };
    match r {
      Some(x) => out.push(x),
      None => {
        out.push("bad-op".into());
        break;
      }
    }
  }
  let line = out.join(" ");
  match fail {
    Some(f) => format!("{}\t#FAIL:{}", line, f),
    None => line,
  }
}

pub fn gen(thorough: bool, seed: u64, out: &mut impl Write) {
  let mut r = Rng::new(seed ^ 0xC15);
  // (a) argument tables: generate over key types x algs; insert over families x private x alg x decodable d
  for kt in ["ed", "bls", "x"] {
    for alg in ["EdDSA", "ES256", "X"] {
      writeln!(out, "C15 hist g:{}:{} e:1 s:1:5:ed:EdDSA d:1 e:1 s:1:5:ed:EdDSA d:1", kt, alg).unwrap();
    }
  }
  for fam in ["ed", "e448", "x255", "bls", "p256", "oct"] {
    for pr in [0, 1] {
      for alg in ["~", "EdDSA", "ES256", "junk"] {
        for dok in [0, 1, 2, 3] {
          writeln!(out, "C15 hist i:{}:{}:{}:{}:1 e:1 s:1:5:ed:EdDSA d:1 e:1", fam, pr, alg, dok).unwrap();
        }
      }
    }
  }
  // sign: public key argument over families x algs, for a stored and for an unknown key id
  for fam in ["ed", "e448", "x255", "bls", "p256", "oct"] {
    for alg in ["~", "EdDSA", "ES256", "junk"] {
      writeln!(out, "C15 hist g:ed:EdDSA s:1:7:{}:{} s:99:7:{}:{} s:2:7:{}:{}", fam, alg, fam, alg, fam, alg).unwrap();
    }
  }
  // signatures bind to their key: several stored keys incl. the two fixed pairs, the same pair inserted twice
  writeln!(out, "C15 hist g:ed:EdDSA g:ed:EdDSA i:ed:1:EdDSA:1:1 i:ed:1:EdDSA:1:2 i:ed:1:EdDSA:1:1 s:1:1:ed:EdDSA s:2:1:ed:EdDSA s:3:1:ed:EdDSA s:4:1:ed:EdDSA s:5:1:ed:EdDSA d:3 s:5:2:ed:EdDSA s:3:2:ed:EdDSA").unwrap();
  // (b) key-id store: second insert, delete + re-insert, races of 2..16 threads
  writeln!(out, "C15 hist kg:1 ki:1:5 kg:1 ki:1:6 kg:1 ki:2:6 kg:2 kd:1 kg:1 kd:1 ki:1:7 kg:1 kg:2").unwrap();
  for t in 2..=16 {
    writeln!(out, "C15 hist kr:1:{} kg:2 ki:1:9 kr:1:{} kd:1 kr:1:{} ", t, t, t).unwrap();
  }
  // (b') key store: races of 2..12 threads deleting one key id (stored, already deleted, never handed out), repeated: a key
  // is deleted exactly once
  for rep in 0..(if thorough { 40 } else { 8 }) {
    let t = 2 + (rep % 11);
    writeln!(out, "C15 hist g:ed:EdDSA g:ed:EdDSA g:ed:EdDSA dr:1:{} e:1 dr:1:{} dr:2:8 dr:99:{} e:2 e:3 dr:3:12 dr:3:2 s:3:1:ed:EdDSA", t, t, t).unwrap();
  }
  // (c) random histories
  let nh = if thorough { 20000 } else { 1500 };
  for _ in 0..nh {
    let len = 2 + r.below(14);
    let mut ops: Vec<String> = vec![];
    let mut issued = 0u32;
    for _ in 0..len {
      let some_id = |r: &mut Rng, issued: u32| -> u32 {
        if issued == 0 || r.chance(1, 8) {
          99
        } else if r.chance(1, 10) {
          issued + 1
        } else {
          1 + r.below(issued as u64) as u32
        }
      };
      match r.below(12) {
        0..=2 => {
          let kt = *r.pick(&["ed", "ed", "ed", "bls", "x"]);
          let alg = *r.pick(&["EdDSA", "EdDSA", "ES256", "X"]);
          if kt == "ed" && alg == "EdDSA" {
            issued += 1;
          }
          ops.push(format!("g:{}:{}", kt, alg));
        }
        3 => {
          let fam = *r.pick(&["ed", "ed", "e448", "x255", "bls", "p256", "oct"]);
          let pr = *r.pick(&[1, 1, 0]);
          let alg = *r.pick(&["EdDSA", "EdDSA", "~", "ES256", "junk"]);
          let dok = *r.pick(&[1, 1, 1, 0, 2, 3]);
          if fam == "ed" && pr == 1 && alg == "EdDSA" {
            issued += 1;
          }
          ops.push(format!("i:{}:{}:{}:{}:{}", fam, pr, alg, dok, 1 + r.below(2)));
        }
        4..=6 => ops.push(format!("s:{}:{}:{}:{}", some_id(&mut r, issued), r.below(4), r.pick(&["ed", "ed", "ed", "x255", "p256"]), r.pick(&["EdDSA", "EdDSA", "EdDSA", "~", "ES256"]))),
        7 => ops.push(format!("d:{}", some_id(&mut r, issued))),
        8 => ops.push(format!("e:{}", some_id(&mut r, issued))),
        9 => ops.push(format!("ki:{}:{}", r.below(3), r.below(9))),
        10 => ops.push(format!("kg:{}", r.below(3))),
        _ => ops.push(format!("kd:{}", r.below(3))),
      }
    }
    writeln!(out, "C15 hist {}", ops.join(" ")).unwrap();
  }
}
