import IdModel.Status.Lemmas
/-!
# C12 — StatusList2021 behaves as an independent-bit vector with one-way revocation

The byte-level facts are a complete table over (byte, written offset, read offset, value)
(`IdModel.Status.byte_table`, `decide +kernel`) about the bit expressions **regenerated from the
Rust source**; everything here is lifted from it for lists of any length and write sequences of
any length.
-/
namespace IdModel.Props.C12
open IdModel IdModel.Status IdModel.Gen.C12

/-! ## the list is a fixed-length bit vector -/

/-- reading back the entry just written returns the written value -/
theorem get_set_eq (l l' : List Nat) (i : Nat) (v : Bool) (hw : WF l)
    (h : set l i v = .ok l') : get l' i = .ok v := by
  by_cases hi : i < l.length * 8
  · obtain ⟨b, hb, hs⟩ := set_in l i v hi
    rw [hs] at h
    injection h with h; subst h
    have hlen : i < (l.set (i / 8) (writeBit b (i % 8) v)).length * 8 := by simpa using hi
    obtain ⟨b', hb', hg⟩ := get_in _ i hlen
    rw [hg]
    have : b' = writeBit b (i % 8) v := by
      rw [List.getElem?_set_self (by omega)] at hb'
      exact (Option.some.inj hb').symm
    rw [this, readBit_writeBit_eq _ _ _ (wf_get? l _ b hw hb) (Nat.mod_lt _ (by decide))]
  · rw [set_out l i v hi] at h; cases h

/-- writing either value to entry `i` never changes any other entry `j` -/
theorem get_set_ne (l l' : List Nat) (i j : Nat) (v : Bool) (hw : WF l) (hij : i ≠ j)
    (h : set l i v = .ok l') : get l' j = get l j := by
  by_cases hi : i < l.length * 8
  · obtain ⟨b, hb, hs⟩ := set_in l i v hi
    rw [hs] at h
    injection h with h; subst h
    by_cases hj : j < l.length * 8
    · have hlen : j < (l.set (i / 8) (writeBit b (i % 8) v)).length * 8 := by simpa using hj
      obtain ⟨b1, hb1, hg1⟩ := get_in _ j hlen
      obtain ⟨b2, hb2, hg2⟩ := get_in l j hj
      rw [hg1, hg2]
      by_cases hk : i / 8 = j / 8
      · have hoff : i % 8 ≠ j % 8 := by omega
        rw [← hk, List.getElem?_set_self (by omega)] at hb1
        rw [← hk, hb] at hb2
        have e1 : b1 = writeBit b (i % 8) v := (Option.some.inj hb1).symm
        have e2 : b2 = b := (Option.some.inj hb2).symm
        rw [e1, e2, readBit_writeBit_ne b (i % 8) (j % 8) v (wf_get? l _ b hw hb)
          (Nat.mod_lt _ (by decide)) (Nat.mod_lt _ (by decide)) hoff]
      · rw [List.getElem?_set_ne hk, hb2] at hb1
        rw [Option.some.inj hb1]
    · rw [get_out l j hj, get_out _ j (by simpa using hj)]
  · rw [set_out l i v hi] at h; cases h

/-- out-of-range indices are errors for both operations (and never panic) -/
theorem get_oob_err (l : List Nat) (i : Nat) (h : l.length * 8 ≤ i) :
    get l i = .err .indexOutOfBounds := get_out l i (by omega)

theorem set_oob_err (l : List Nat) (i : Nat) (v : Bool) (h : l.length * 8 ≤ i) :
    set l i v = .err .indexOutOfBounds := set_out l i v (by omega)

theorem get_total (l : List Nat) (i : Nat) : (get l i).isPanic = false := by
  by_cases h : i < l.length * 8
  · obtain ⟨b, _, hg⟩ := get_in l i h; rw [hg]; rfl
  · rw [get_out l i h]; rfl

theorem set_total (l : List Nat) (i : Nat) (v : Bool) : (set l i v).isPanic = false := by
  by_cases h : i < l.length * 8
  · obtain ⟨b, _, hg⟩ := set_in l i v h; rw [hg]; rfl
  · rw [set_out l i v h]; rfl

/-- in-range accesses succeed -/
theorem get_in_range_ok (l : List Nat) (i : Nat) (h : i < l.length * 8) : ∃ v, get l i = .ok v := by
  obtain ⟨b, _, hg⟩ := get_in l i h; exact ⟨_, hg⟩

theorem set_len_wf (l l' : List Nat) (i : Nat) (v : Bool) (hw : WF l) (h : set l i v = .ok l') :
    l'.length = l.length ∧ WF l' := by
  by_cases hi : i < l.length * 8
  · obtain ⟨b, hb, hs⟩ := set_in l i v hi
    rw [hs] at h
    injection h with h; subst h
    exact ⟨by simp, wf_set l _ _ hw (writeBit_lt _ _ _ (wf_get? l _ b hw hb) (Nat.mod_lt _ (by decide)))⟩
  · rw [set_out l i v hi] at h; cases h

/-- `new n`: rejected below the minimum size, otherwise at least `n` entries, all unset -/
theorem new_spec (n : Nat) :
    (n < 131072 → new n = .err .invalidListSize) ∧
    (131072 ≤ n → ∃ l, new n = .ok l ∧ WF l ∧ n ≤ len l ∧ len l < n + 8 ∧
      ∀ i, i < len l → get l i = .ok false) := by
  unfold new
  rw [tooSmall_eq]
  refine ⟨fun h => by simp [h], fun h => ?_⟩
  have hn : ¬ n < 131072 := by omega
  refine ⟨List.replicate (byteSize n) 0, by simp [hn], ?_, ?_, ?_, ?_⟩
  · intro b hb; rw [List.mem_replicate] at hb; omega
  · simp only [len, lenOf_eq, List.length_replicate]; exact (byteSize_ge n).1
  · simp only [len, lenOf_eq, List.length_replicate]; exact (byteSize_ge n).2
  · intro i hi
    simp only [len, lenOf_eq, List.length_replicate] at hi
    obtain ⟨b, hb, hg⟩ := get_in (List.replicate (byteSize n) 0) i (by simpa using hi)
    rw [hg]
    have hb0 : b = 0 := by
      have := List.mem_of_getElem? hb
      rw [List.mem_replicate] at this; exact this.2
    rw [hb0]
    exact congrArg _ (readBit_zero ⟨i % 8, Nat.mod_lt _ (by decide)⟩)

/-! ## write sequences: a read returns the last value written to that index -/

/-- apply a sequence of writes; a failing (out-of-range) write leaves the list unchanged -/
def runWrites (l : List Nat) (ws : List (Nat × Bool)) : List Nat :=
  ws.foldl (fun st w => match set st w.1 w.2 with | .ok l' => l' | _ => st) l

/-- the value an abstract bit vector holds at `j` after the writes -/
def lastWrite (init : Bool) (j : Nat) (ws : List (Nat × Bool)) : Bool :=
  ws.foldl (fun cur w => if w.1 = j then w.2 else cur) init

theorem runWrites_len_wf (l : List Nat) (ws : List (Nat × Bool)) (hw : WF l) :
    (runWrites l ws).length = l.length ∧ WF (runWrites l ws) := by
  induction ws generalizing l with
  | nil => exact ⟨rfl, hw⟩
  | cons w ws ih =>
    simp only [runWrites, List.foldl_cons]
    cases h : set l w.1 w.2 with
    | ok l' =>
      obtain ⟨h1, h2⟩ := set_len_wf l l' w.1 w.2 hw h
      have := ih l' h2
      simp only [runWrites] at this
      exact ⟨by rw [this.1, h1], this.2⟩
    | err e => exact ih l hw
    | panic s => exact ih l hw

theorem read_last_write (l : List Nat) (ws : List (Nat × Bool)) (j : Nat) (v0 : Bool)
    (hw : WF l) (hj : j < l.length * 8) (h0 : get l j = .ok v0) :
    get (runWrites l ws) j = .ok (lastWrite v0 j ws) := by
  induction ws generalizing l v0 with
  | nil => simpa [runWrites, lastWrite] using h0
  | cons w ws ih =>
    simp only [runWrites, lastWrite, List.foldl_cons]
    cases h : set l w.1 w.2 with
    | ok l' =>
      obtain ⟨h1, h2⟩ := set_len_wf l l' w.1 w.2 hw h
      by_cases hwj : w.1 = j
      · have := get_set_eq l l' w.1 w.2 hw h
        rw [hwj] at this
        simp only [hwj, ↓reduceIte]
        exact ih l' w.2 h2 (by rw [h1]; exact hj) this
      · have := get_set_ne l l' w.1 j w.2 hw hwj h
        simp only [hwj, ↓reduceIte]
        exact ih l' v0 h2 (by rw [h1]; exact hj) (by rw [this]; exact h0)
    | err e =>
      have hout : ¬ w.1 < l.length * 8 := by
        intro hin; obtain ⟨b, _, hs⟩ := set_in l w.1 w.2 hin; rw [hs] at h; cases h
      have hwj : w.1 ≠ j := by omega
      simp only [hwj, ↓reduceIte]
      exact ih l v0 hw hj h0
    | panic s =>
      have := set_total l w.1 w.2
      rw [h] at this; cases this

/-! ## one-way revocation through the status-list credential -/

theorem setEntry_cases (p : Purpose) (l : List Nat) (i : Nat) (v : Bool) :
    setEntry p l i v =
      if i < l.length * 8 then
        (if p = .revocation ∧ v = false ∧ get l i = .ok true then .err .unreversibleRevocation
         else set l i v)
      else .err .indexOutOfBounds := by
  unfold setEntry
  by_cases hi : i < l.length * 8
  · obtain ⟨b, _, hg⟩ := get_in l i hi
    rw [hg]
    simp only [hi, ↓reduceIte]
    cases p <;> cases v <;> cases readBit b (i % 8) <;> simp
  · rw [get_out l i hi]; simp [hi]

/-- **revocation is one-way**: under purpose `revocation`, an entry that reads `true` reads
`true` after any sequence of `set_entry` calls (whatever their indices, values and outcomes) -/
theorem revocation_monotone (l : List Nat) (ws : List (Nat × Bool)) (j : Nat) (hw : WF l)
    (h : get l j = .ok true) : get (runEntries .revocation l ws) j = .ok true := by
  induction ws generalizing l with
  | nil => simpa [runEntries] using h
  | cons w ws ih =>
    simp only [runEntries, List.foldl_cons]
    cases hs : setEntry .revocation l w.1 w.2 with
    | ok l' =>
      rw [setEntry_cases] at hs
      by_cases hi : w.1 < l.length * 8
      · simp only [hi, ↓reduceIte] at hs
        split at hs
        · cases hs
        · rename_i hno
          obtain ⟨_, h2⟩ := set_len_wf l l' w.1 w.2 hw hs
          by_cases hwj : w.1 = j
          · have hv : w.2 = true := by
              cases hv : w.2 with
              | true => rfl
              | false => exact absurd (by refine ⟨?_, hv, hwj ▸ h⟩; first | rfl | trivial) hno
            have := get_set_eq l l' w.1 w.2 hw hs
            rw [hwj, hv] at this
            exact ih l' h2 this
          · have := get_set_ne l l' w.1 j w.2 hw hwj hs
            exact ih l' h2 (by rw [this]; exact h)
      · simp [hi] at hs
    | err e => exact ih l hw h
    | panic s => exact ih l hw h

/-- a suspension entry can be cleared again -/
theorem suspension_clearable (l : List Nat) (i : Nat) (hw : WF l) (hi : i < l.length * 8) :
    ∃ l', setEntry .suspension l i false = .ok l' ∧ get l' i = .ok false := by
  rw [setEntry_cases]
  simp only [hi, ↓reduceIte, reduceCtorEq, false_and]
  obtain ⟨b, _, hs⟩ := set_in l i false hi
  rw [hs]
  exact ⟨_, rfl, get_set_eq l _ i false hw hs⟩

/-- a revocation entry that is set cannot be cleared: the call fails and (being an error) leaves
the list untouched -/
theorem revocation_unclearable (l : List Nat) (i : Nat) (h : get l i = .ok true) :
    setEntry .revocation l i false = .err .unreversibleRevocation := by
  rw [setEntry_cases]
  have hi : i < l.length * 8 := by
    by_cases hi : i < l.length * 8
    · exact hi
    · rw [get_out l i hi] at h; cases h
  simp [hi, h]

/-- the credential-level call through the encoded list equals the list-level call, given the
codec round trip -/
theorem encoded_refines (c : Codec) (hc : ∀ l, c.dec (c.enc l) = some l) (p : Purpose)
    (l : List Nat) (i : Nat) (v : Bool) :
    setEntryEncoded c p (c.enc l) i v =
      some (match setEntry p l i v with
        | .ok l' => .ok (c.enc l') | .err e => .err e | .panic s => .panic s) := by
  unfold setEntryEncoded
  rw [hc]
  rfl

/-! ## reported status -/

/-- the status reported for an entry is `revoked`/`suspended` exactly when the bit is set, by purpose -/
theorem entry_spec (p : Purpose) (l : List Nat) (i : Nat) (b : Bool) (h : get l i = .ok b) :
    entry p l i = .ok (if b then
      (match p with | .revocation => .revoked | .suspension => .suspended) else .valid) := by
  unfold entry
  rw [h]
  cases b <;> rfl

/-- the validator: full characterisation -/
theorem status_iff (sc : StatusCheck) (st : StatusEntry) (credId : Option String) (p : Purpose)
    (l : List Nat) (hsc : sc ≠ .skipAll) :
    (checkStatus sc (some (some st)) credId p l = .revoked ↔
      (some st.listCredential = credId ∧ st.purpose = p ∧ p = .revocation ∧ get l st.index = .ok true)) ∧
    (checkStatus sc (some (some st)) credId p l = .suspended ↔
      (some st.listCredential = credId ∧ st.purpose = p ∧ p = .suspension ∧ get l st.index = .ok true)) ∧
    (checkStatus sc (some (some st)) credId p l = .ok ↔
      (some st.listCredential = credId ∧ st.purpose = p ∧ get l st.index = .ok false)) ∧
    checkStatus sc (some (some st)) credId p l ≠ .panic := by
  unfold checkStatus entry
  have h1 : (sc == StatusCheck.skipAll) = false := by cases sc <;> simp_all
  simp only [h1, Bool.false_eq_true, ↓reduceIte]
  by_cases hid : some st.listCredential = credId <;> by_cases hp : st.purpose = p
  · by_cases hi : st.index < l.length * 8
    · obtain ⟨b, _, hg⟩ := get_in l st.index hi
      rw [hg]
      cases hb : readBit b (st.index % 8) <;> cases p <;> simp [hid, hp]
    · rw [get_out l st.index hi]; simp [hid, hp]
  all_goals simp [hid, hp]

theorem status_skip_or_absent (sc : StatusCheck) (st : Option (Option StatusEntry))
    (credId : Option String) (p : Purpose) (l : List Nat) :
    checkStatus .skipAll st credId p l = .ok ∧ checkStatus sc none credId p l = .ok := by
  unfold checkStatus
  cases sc <;> simp

/-! ## non-vacuity -/

example : WF [0xE0, 0] ∧ get [0xE0, 0] 1 = .ok true ∧ (10 : Nat) < [0xE0, 0].length * 8 := by
  refine ⟨by intro b hb; simp at hb; omega, by decide, by decide⟩
/-- the former defect's witness now behaves: clearing entry 2 keeps entries 0 and 1 -/
example : (match set [0xE0] 2 false with | .ok l => (get l 0, get l 1, get l 2) | _ => (.err .indexOutOfBounds, .err .indexOutOfBounds, .err .indexOutOfBounds))
    = (.ok true, .ok true, .ok false) := by decide

end IdModel.Props.C12
