import IdModel.Val.Model
import Driver.C04
import Driver.C07
/-! Line-protocol handler for C02 (JWT credential validation). See harness/src/c02.rs for the request grammar. -/
namespace Driver.C02
open IdModel.Doc IdModel.Vc IdModel.Val IdModel.Bitmap

def kvc (t : String) (sep eq : String) : List (String × String) :=
  (t.splitOn sep).filterMap fun p =>
    match p.splitOn eq with
    | k :: v :: rest => some (k, eq.intercalate (v :: rest))
    | _ => none

def get (m : List (String × String)) (k : String) : Option String := (m.find? (·.1 == k)).map (·.2)

/-- a document spec, optionally followed by `;bm=<csv|->` -/
def parseDoc (t : String) : Option (Doc × Option (List Nat)) :=
  let (core, bm) := match t.splitOn ";bm=" with
    | [a, b] => (a, some b)
    | _ => (t, none)
  match C04.parseData (core.drop 0).toString with
  | none => none
  | some x =>
    match fromData x with
    | none => none
    | some d =>
      match bm with
      | none => some (d, none)
      | some "-" => some (d, some [])
      | some b => ((b.splitOn ",").mapM String.toNat?).map fun l => (d, some l)

def parseIssuerW (t : String) : Option (Issuer × Bool) :=
  if t.startsWith "w" then (t.drop 1).toString.toNat?.map fun n => (.url (1000 + n), false)
  else (C07.parseIssuer t).map fun i => (i, true)

def showIssuerW : Issuer → String
  | .url u => if u ≥ 1000 then s!"w{u - 1000}" else s!"u{u}"
  | .obj u p => s!"o{u}.{p}"

def parseClaims (t : String) : Option (Option Claims × Bool) :=
  if t == "J" then some (none, true) else
  let m := kvc t "," "="
  let viss : Option (Option Issuer) := match get m "viss" with
    | none => some none
    | some "~" => some none
    | some v => (parseIssuerW v).map (fun p => some p.1)
  match C07.oint m "exp", (get m "iss").bind parseIssuerW, C07.oint m "iat", C07.oint m "nbf", C07.onat m "jti",
    C07.onat m "sub", C07.onat m "vid", viss, C07.oint m "vnbf", C07.oint m "vexp", C07.onat m "vsub" with
  | some exp, some (iss, isDid), some iat, some nbf, some jti, some sub, some vid, some viss, some vnbf, some vexp, some vsub =>
    some (some ⟨exp, iss, iat, nbf, jti, sub, ⟨vid, viss, vnbf, vexp, vsub, 0⟩, none⟩, isDid)
  | _, _, _, _, _, _, _, _, _, _, _ => none

def parseKid (t : String) : Option (Option (Option Id)) :=
  if t == "~" then some none else if t == "X" then some (some none) else (C04.parseId t).map (fun i => some (some i))

def parseStatus (t : String) : Option (Option StatusView) :=
  if t == "~" then some none
  else if t == "o" then some (some ⟨false, none, [], false⟩)
  else if t.startsWith "b" then (t.drop 1).toString.toNat?.map fun n => some ⟨true, some (some (some n)), [some n], true⟩
  else if t.startsWith "m" then
    match (t.drop 1).toString.splitOn "." with
    | [i, q] => do
      let i ← i.toNat?
      let q ← q.toNat?
      pure (some ⟨true, some (some (some i)), [some q], true⟩)
    | _ => none
  else if t.startsWith "a" then (t.drop 1).toString.toNat?.map fun q => some ⟨true, none, [some q], true⟩
  else none

def onat (m : List (String × String)) (k : String) : Option (Option Nat) :=
  match get m k with
  | none => some none
  | some "~" => some none
  | some v => v.toNat?.map some

def parseToken (t : String) : Option Token :=
  let m := kvc t ";" ":"
  match (get m "kid").bind parseKid, onat m "hn", (get m "sig").bind String.toNat?, (get m "cl").bind parseClaims,
    get m "ctx", get m "typ", get m "spe", get m "nt", (get m "st").bind parseStatus with
  | some kid, some hn, some sig, some (cl, isDid), some ctx, some typ, some spe, some nt, some st =>
    some ⟨kid, hn, sig, cl, isDid, ctx == "1" || ctx == "3", typ == "1" || typ == "3", spe == "1",
      (if nt == "~" then none else some (nt == "1")), st, get m "sd" != some "0"⟩
  | _, _, _, _, _, _, _, _, _ => none

def parseScopeOpt (t : String) : Option (Option Scope) :=
  if t == "~" then some none else (C04.parseScope t).map some

def parseSh (t : String) : Option (Option (Nat × Relationship)) :=
  if t == "~" then some none else
  match t.splitOn "." with
  | [h, r] =>
    match h.toNat?, r with
    | some h, "a" => some (some (h, .alwaysSubject))
    | some h, "n" => some (some (h, .subjectOnNonTransferable))
    | some h, "y" => some (some (h, .any))
    | _, _ => none
  | _ => none

def parseStc (t : String) : Option StatusCheck :=
  if t == "strict" then some .strict else if t == "skipu" then some .skipUnsupported
  else if t == "skipall" then some .skipAll else none

def parseOpts (t : String) : Option VOpts :=
  let m := kvc t ";" ":"
  let mid : Option (Option Id) := match get m "mid" with
    | none => some none
    | some "~" => some none
    | some v => (C04.parseId v).map some
  -- `N<unix>`: the bound was left unset and the validator read the clock, which showed about <unix>
  let bound (v : String) : Option Int := if v.startsWith "N" then (v.drop 1).toString.toInt? else v.toInt?
  match onat m "n", mid, (get m "sc").bind parseScopeOpt, (get m "ee").bind bound, (get m "li").bind bound,
    (get m "sh").bind parseSh, (get m "stc").bind parseStc, get m "ff" with
  | some n, some mid, some sc, some ee, some li, some sh, some stc, some ff =>
    some ⟨n, mid, sc, ee, li, sh, stc, ff == "1"⟩
  | _, _, _, _, _, _, _, _ => none

def showVRes : VRes → String
  | .ok => "ok" | .invalidStatus => "invalidStatus" | .documentMismatch => "documentMismatch"
  | .serviceLookup => "serviceLookup" | .revoked => "revoked"

def showVErr : VErr → String
  | .nonce => "nonce" | .kidMissing => "kidMissing" | .kidParse => "kidParse" | .documentMismatch => "documentMismatch"
  | .methodLookup => "methodLookup" | .signature => "signature" | .claimsJson => "claimsJson"
  | .sdDecode => "sdDecode" | .claims e => "claims:" ++ C07.showCErr e | .signerUrl => "signerUrl" | .identifierMismatch => "identifierMismatch"
  | .issuanceDate => "issuanceDate" | .expirationDate => "expirationDate" | .structure => "structure"
  | .subjectHolder => "subjectHolder" | .status v => "status:" ++ showVRes v

def showCred (c : Cred) : String :=
  s!"id={C07.so c.id};iss={showIssuerW c.issuer};nbf={c.issuance};exp={C07.so c.expiration};sub={C07.so c.subjectId}"

def handle (args : List String) : String :=
  match args with
  | [cmd, docs, tok, opts] =>
    match (docs.splitOn "/").mapM parseDoc, parseToken (tok.drop 2).toString, parseOpts (opts.drop 2).toString with
    | some ds, some t, some o =>
      if cmd == "val" then
        match ds with
        | [(d, svc)] =>
          match validate [d] t o svc with
          | .ok c => "ok:" ++ showCred c
          | .error es => "err:" ++ ",".intercalate (es.map showVErr)
        | _ => "bad-request"
      else if cmd == "ver" then
        match verifySignature (ds.map (·.1)) t o with
        | .ok c => "ok:" ++ showCred c
        | .error e => "err:" ++ showVErr e
      else "bad-request"
    | _, _, _ => "bad-request"
  | _ => "bad-request"

end Driver.C02
