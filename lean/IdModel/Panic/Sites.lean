import IdModel.Gen.C05
/-!
Dispositions of the panic-capable sites of the library's non-test source (the files property C05 is anchored in and, since
the fourth session, every other source file of the library crates).  The inventory itself is regenerated
from the source on every run (`IdModel.Gen.C05.sites`); this table is written by hand and says, for each site, why it
cannot be reached with externally supplied data — or that it could (`repaired`: the site is gone from the inventory
since the `fix:` commit; the entry stays as a record and matches nothing).
-/
namespace IdModel.Panic.Sites

inductive Disp
  /-- a theorem of this development shows that the modelled function has no reachable panic branch -/
  | proved (thm : String)
  /-- guarded by a check a few lines above in the same function (read off the source, exercised by the fuzz streams) -/
  | guarded (why : String)
  /-- operates on a value whose type invariant excludes the failing case; the invariant is established by a checked
  constructor (exercised by the accessor walk over every accepted value) -/
  | invariant (why : String)
  /-- not reachable from externally supplied data (constructor from trusted parts, clock) -/
  | internal (why : String)
  /-- was reachable: a defect found by this check and repaired by a `fix:` commit; kept under test -/
  | repaired (what : String)
  deriving Repr

abbrev Site := String × String × String × Nat

def table : List (Site × Disp) := [
  (("did/did.rs", "method_id_scan_overruns", "index", 1), .guarded "index i + 2 is compared with the length first; C10.parse_never_panics covers the parser this guard protects"),
  (("did/did_url.rs", "from", "expect", 1), .invariant "a DIDUrl prints as a valid RFC 3986 URI (C10 parse_print theorems); the url crate accepts any did: URI"),
  (("did/did_url.rs", "is_valid_url_segment", "index", 1), .guarded "byte indices i + 1, i + 2 are compared with the length before they are read"),
  (("did/did_jwk.rs", "jwk", "expect", 1), .invariant "DIDJwk is only built by TryFrom<CoreDID>, which decodes the same method id with the same function"),
  (("core/timestamp.rs", "now_utc", "expect", 1), .internal "the system clock, truncated to seconds"),
  (("core/timestamp.rs", "to_rfc3339", "expect", 1), .proved "C13.format_total with C13.parse_total_in_range / fromUnix_iff_range: every constructible Timestamp is in the formattable range"),
  (("jose/jwk_ext.rs", "try_from", "unreachable", 1), .repaired "TryFrom<JwkExt> for Jwk reached unreachable!() for an OKP key of the third-party JWK type"),
  (("document/core_document.rs", "map_unchecked", "expect", 1), .internal "documented as unchecked: the caller promises id-preserving maps"),
  (("iota_core/iota_did.rs", "denormalized_components", "index", 1), .proved "C17 model (IotaDid.parseDid): the split has at most three segments and is indexed after the length test"),
  (("iota_core/iota_did.rs", "from", "expect", 1), .invariant "an IotaDID prints as a valid DID (C17 theorems)"),
  (("iota_core/iota_did.rs", "from_alias_id", "expect", 1), .internal "built from a hex tag and a validated network name"),
  (("iota_core/iota_did.rs", "new", "expect", 1), .internal "built from 32 bytes and a validated network name"),
  (("iota_core/iota_did.rs", "normalize", "expect", 1), .proved "C17 model: normalisation of a checked DID re-parses"),
  (("credential/status_list.rs", "default", "unwrap", 1), .internal "constant minimum size"),
  (("credential/status_list.rs", "get_unchecked", "index", 1), .proved "C12.get_total"),
  (("credential/status_list.rs", "into_encoded_str", "index", 1), .internal "slice of an in-memory buffer by its own length"),
  (("credential/status_list.rs", "into_encoded_str", "unwrap", 2), .internal "gzip into a Vec cannot fail"),
  (("credential/status_list.rs", "set_unchecked", "index", 2), .proved "C12.set_total"),
  (("credential/status_list.rs", "try_from_encoded_str", "index", 1), .internal "range over the decoder's own output buffer"),
  (("credential/revocation_bitmap_status.rs", "new", "expect", 1), .internal "constructor from a DID URL value: setting a query on a valid DID URL"),
  (("credential/token.rs", "issuer_metadata", "unwrap", 1), .repaired "SdJwtVc::issuer_metadata unwrapped the URL built from the iss claim's origin; an iss with an opaque origin (did:, urn:, data:) panicked"),
  (("credential/token.rs", "validate_key_binding", "expect", 1), .invariant "the string form of an SD-JWT always contains '~'"),
  (("credential/token.rs", "validate_key_binding", "index", 1), .guarded "slice up to the index rfind just returned"),
  (("credential/token.rs", "validate_key_binding", "unwrap", 2), .invariant "a Jwk serialises to a JSON object"),
  (("credential/token.rs", "vct_to_url", "unwrap", 1), .guarded "only reached for the https scheme, whose origin is a tuple origin"),
  (("credential/token.rs", "verify_signature", "unwrap", 1), .invariant "the string form of an SD-JWT always contains '~'"),
  (("credential/integrity.rs", "alg", "unwrap", 1), .proved "C05.integrity_accessors_total"),
  (("credential/integrity.rs", "digest", "unwrap", 1), .proved "C05.integrity_accessors_total"),
  (("credential/integrity.rs", "digest_bytes", "unwrap", 1), .proved "C05.integrity_accessors_total"),
  (("storage/method_digest.rs", "unpack", "index", 2), .proved "C05.digest_never_panics"),
  -- every other non-test source file of the library crates (inventoried since the fourth session)
  (("core/common/one_or_many.rs", "from", "expect", 1), .guarded "pop after the test len() == 1"),
  (("core/common/one_or_many.rs", "push", "unreachable", 1), .guarded "the value just matched as One is replaced and matched again; C19 op histories exercise push from every state"),
  (("core/common/one_or_set.rs", "append", "unreachable", 1), .guarded "the value just matched as One is replaced and matched again; C19 op histories exercise append from every state"),
  (("core/common/one_or_set.rs", "map", "expect", 1), .guarded "pop after the test len() == 1 (C19: map / try_map of every reachable value)"),
  (("core/common/one_or_set.rs", "new_set", "expect", 1), .guarded "pop after the test len() == 1 (C19 constructor paths)"),
  (("core/common/one_or_set.rs", "try_map", "expect", 1), .guarded "pop after the test len() == 1"),
  (("credential/credential/linked_domain_service.rs", "domains", "expect", 1), .proved "C05.linked_domain_total"),
  (("credential/credential/linked_domain_service.rs", "domains", "unreachable", 1), .proved "C05.linked_domain_total"),
  (("credential/credential/linked_domain_service.rs", "new", "expect", 1), .proved "C05.linked_domain_new"),
  (("credential/credential/linked_verifiable_presentation_service.rs", "new", "expect", 1), .proved "C05.linked_vp_new"),
  (("credential/credential/linked_verifiable_presentation_service.rs", "verifiable_presentation_urls", "unreachable", 1), .proved "C05.linked_vp_total"),
  (("credential/revocation/status_list_2021/entry.rs", "from", "unwrap", 2), .invariant "a StatusList2021Entry serialises to a JSON object with a URL id and a type string, which is what Status deserialises from (entry `slentry` converts every accepted entry)"),
  (("credential/sd_jwt_vc/builder.rs", "default", "unwrap", 1), .internal "builder over the constant empty JSON object"),
  (("credential/sd_jwt_vc/builder.rs", "finish", "expect", 1), .internal "issuer side: inserting a serde_json Value as a claim"),
  (("credential/sd_jwt_vc/builder.rs", "new_from_credential", "expect", 2), .internal "issuer side: the JWT claims of a credential serialise to an object with a vc member (C07 model: toClaims always has vc)"),
  (("credential/sd_jwt_vc/builder.rs", "new_from_credential", "unreachable", 1), .internal "issuer side: the vc member of serialised claims is an object"),
  (("credential/sd_jwt_vc/claims.rs", "from", "unwrap", 1), .internal "serialising a Status value into a JSON value cannot fail"),
  (("credential/sd_jwt_vc/metadata/vc_type.rs", "validate_credential_impl", "unreachable", 1), .guarded "reached only when is_immediate is false, i.e. the schema is present and is not the Object variant; TypeSchema has the two variants Uri and Object"),
  (("credential/sd_jwt_vc/metadata/vc_type.rs", "validate_credential_impl", "unwrap", 1), .guarded "is_immediate is true when the schema is absent (unwrap_or(true)), and this branch requires it to be false"),
  (("iota_core/document/iota_document.rs", "new_with_id", "expect", 1), .internal "building an empty document around an id"),
  (("iota_core/document/iota_document.rs", "set_controller", "expect", 1), .guarded "new_set of a set that was just tested to be non-empty"),
  (("storage/key_storage/bls.rs", "encode_bls_jwk", "expect", 1), .internal "non-default feature jpt-bbs-plus; projection of a freshly encoded EC key"),
  (("storage/key_storage/ed25519.rs", "expand_secret_jwk", "unwrap", 1), .invariant "in the default build every stored JWK is an Ed25519 OKP key: generate encodes one and insert refuses every other key type / algorithm (C15 model, insert_spec); with the non-default feature jpt-bbs-plus a BLS key can be stored and this invariant is NOT claimed"),
  (("storage/key_storage/memstore.rs", "generate", "expect", 1), .internal "projection of a freshly encoded OKP key (to_public is None only for oct)"),
  (("storage/key_storage/memstore.rs", "sign_bbs", "expect", 1), .internal "non-default feature jpt-bbs-plus"),
  (("storage/key_storage/memstore.rs", "update_signature", "expect", 1), .internal "non-default feature jpt-bbs-plus"),
  (("storage/storage/timeframe_revocation_ext.rs", "update", "unwrap", 4), .internal "non-default feature jpt-bbs-plus; serialising a Duration"),
  (("ecdsa_verifier/secp256k1.rs", "verify", "unwrap", 1), .guarded "the CtOption was just tested with is_none (the length panic above it, not a lexical site, was found by the key walk and repaired: b8f3b91)"),
  (("ecdsa_verifier/secp256r1.rs", "verify", "unwrap", 1), .guarded "the CtOption was just tested with is_none (same repair)"),
  (("stronghold/ed25519.rs", "expand_secret_jwk", "unwrap", 1), .invariant "only called from insert after the key type was checked to be Ed25519 (C15 Stronghold variant)"),
  (("stronghold/storage/mod.rs", "get_stronghold", "unreachable", 1), .internal "the only constructor wraps SecretManager::Stronghold")
]

def disposition (s : Site) : Option Disp := (table.find? (fun e => e.1 == s)).map (·.2)

end IdModel.Panic.Sites
