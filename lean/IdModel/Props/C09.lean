import IdModel.Store.Lemmas
import IdModel.Store.Fragment
import IdModel.Props.C10
/-!
# C09 — storage-backed method generation / purge is all-or-nothing under storage faults

Property theorems only; helper lemmas are in `IdModel.Store.Lemmas` and `IdModel.Doc.*`.

`IdModel.Store.Model` transliterates `generate_method` / `purge_method` (the macro bodies in
`jwk_document_ext.rs`) over the C04 document model and two memstore-like stores, every storage call being
allowed to fail without effect (`Faults`).  Which undo steps the source performs is regenerated from the source
on every run (`IdModel.Gen.C09`); the theorems use those flags through `rfl`, so removing an undo step breaks
them.
-/
namespace IdModel.Props.C09
open IdModel.Store IdModel.Doc IdModel.OSet

/-- well-formed state: key numbers were handed out by the counter, stores have unique keys, the document is one
the library accepts -/
structure WF (s : St) : Prop where
  fresh : ∀ x ∈ s.keys, x ≤ s.next
  inv : Inv s.doc

/-- document, key store and key-id store are observably the same -/
def Unchanged (s' s : St) : Prop :=
  s'.doc = s.doc ∧ s'.keys = s.keys ∧ ∀ dg, lookupKid s'.kids dg = lookupKid s.kids dg

theorem undo_fresh (f : Faults) (keys : List Nat) (k : Nat) (src : Err) (h : k ∉ keys) :
    undoKeyGeneration true f (keys ++ [k]) k src = if f.deleteKey then (keys ++ [k], .undoFailed) else (keys, src) := by
  unfold undoKeyGeneration deleteKey
  simp only [Gen.C09.undoDeletesKey, Bool.and_self, ↓reduceIte]
  cases f.deleteKey
  · have hc : (keys ++ [k]).contains k = true := by simp
    simp only [Bool.false_or, hc, Bool.not_true, Bool.false_eq_true, ↓reduceIte, filter_append_fresh keys k h]
  · simp

theorem insertMethod_ok_mem (d : Doc) (m : Method) (sc : Scope) (h : (insertMethod d m sc).2.isErr = false) :
    m ∈ allMethods (insertMethod d m sc).1 := by
  unfold insertMethod insertMethodG at h ⊢
  cases hg : insertRefusedG Gen.C04.insertChecksResolve Gen.C04.insertChecksService
      Gen.C04.insertChecksEmbeddedIds Gen.C04.insertChecksRelationshipIds d m sc with
  | true => rw [hg] at h; simp [Res.isErr] at h
  | false =>
    simp only [Bool.false_eq_true, ↓reduceIte]
    unfold insertRefusedG at hg
    simp only [Gen.C04.insertChecksResolve, Gen.C04.insertChecksService, Gen.C04.insertChecksEmbeddedIds,
      Gen.C04.insertChecksRelationshipIds, Bool.true_and, Bool.or_eq_false_iff] at hg
    obtain ⟨⟨_, g3⟩, g4⟩ := hg
    rw [List.any_eq_false] at g3
    cases sc with
    | vm =>
      simp only
      rw [mem_allMethods]
      left
      have hc : OSet.contains Method.id d.vm (Method.id m) = false := by
        rw [contains_false_iff]
        intro hmem
        obtain ⟨x, hx, hxk⟩ := List.mem_map.1 hmem
        exact g3 x ((mem_allMethods d x).2 (Or.inl hx)) (by simp [hxk])
      simp [OSet.append, hc]
    | rel r =>
      simp only
      rw [mem_allMethods]
      right
      refine ⟨r, ?_⟩
      have hne : (Scope.rel r != Scope.vm) = true := by cases r <;> rfl
      rw [hne, Bool.true_and, List.any_eq_false] at g4
      have hc : OSet.contains MRef.id (d.getRel r) (MRef.id (.embed m)) = false := by
        rw [contains_false_iff]
        intro hmem
        obtain ⟨x, hx, hxk⟩ := List.mem_map.1 hmem
        exact g4 x ((mem_relationships d x).2 ⟨r, hx⟩) (by simpa [MRef.id] using hxk)
      simp [OSet.append, hc]

/-- **`generate_method` is all-or-nothing, for every pattern of failing storage calls**: it either completes —
the method is in the document, its key exists, its key id is recorded — or fails with document and both stores
observably unchanged; the only other outcome is the error that explicitly reports a failed undo step -/
theorem generate_all_or_nothing (s : St) (f : Faults) (frag : Option (Option Nat)) (scope : Scope) (hw : WF s) :
    match generate s f frag scope with
    | (s', .ok fr) =>
        (⟨⟨s.doc.id, 0, some fr⟩, 1000 + (s.next + 1)⟩ : Method) ∈ allMethods s'.doc ∧
        (s.next + 1) ∈ s'.keys ∧
        lookupKid s'.kids (some fr, 1000 + (s.next + 1)) = some (s.next + 1) ∧
        (∀ x ∈ s.keys, x ∈ s'.keys) ∧
        (∀ dg, dg ≠ (some fr, 1000 + (s.next + 1)) → lookupKid s'.kids dg = lookupKid s.kids dg)
    | (_, .error .undoFailed) => True
    | (s', .error _) => Unchanged s' s := by
  have hfresh : s.next + 1 ∉ s.keys := fun h => by have := hw.fresh _ h; omega
  unfold generate
  cases hg : f.generate with
  | true => simp [Unchanged]
  | false =>
    simp only [Bool.false_eq_true, ↓reduceIte]
    cases frag with
    | none =>
      simp only [Gen.C09.undoOnConstruction, undo_fresh f s.keys (s.next + 1) _ hfresh]
      cases f.deleteKey <;> simp [Unchanged]
    | some fr =>
      simp only
      cases hins : (insertMethod s.doc ⟨⟨s.doc.id, 0, some (fr.getD (100 + (s.next + 1)))⟩, 1000 + (s.next + 1)⟩ scope).2.isErr with
      | true =>
        simp only [↓reduceIte, Gen.C09.undoOnInsert, undo_fresh f s.keys (s.next + 1) _ hfresh]
        cases f.deleteKey <;> simp [Unchanged]
      | false =>
        simp only [Bool.false_eq_true, ↓reduceIte]
        cases hk : insertKid f.insertKid s.kids (some (fr.getD (100 + (s.next + 1))), 1000 + (s.next + 1)) (s.next + 1) with
        | none =>
          simp only [Gen.C09.generateRestoresBackup, Gen.C09.undoOnKeyId, ↓reduceIte, undo_fresh f s.keys (s.next + 1) _ hfresh]
          cases f.deleteKey <;> simp [Unchanged]
        | some kids' =>
          simp only
          unfold insertKid at hk
          split at hk
          · cases hk
          · rename_i hcond
            simp only [Bool.or_eq_true, not_or, Bool.not_eq_true] at hcond
            injection hk with hk
            subst hk
            have hnone : lookupKid s.kids (some (fr.getD (100 + (s.next + 1))), 1000 + (s.next + 1)) = none := by
              cases hh : lookupKid s.kids (some (fr.getD (100 + (s.next + 1))), 1000 + (s.next + 1)) with
              | none => rfl
              | some _ => rw [hh] at hcond; simp at hcond
            refine ⟨insertMethod_ok_mem _ _ _ hins, by simp, ?_, fun x hx => by simp [hx], ?_⟩
            · rw [lookup_append, hnone]
              simp [lookupKid]
            · intro dg hdg
              rw [lookup_append]
              have : lookupKid [((some (fr.getD (100 + (s.next + 1))), 1000 + (s.next + 1)), s.next + 1)] dg = none := by
                unfold lookupKid
                have hb : (((some (fr.getD (100 + (s.next + 1))), 1000 + (s.next + 1)) : Digest) == dg) = false :=
                  beq_false_of_ne (fun e => hdg e.symm)
                simp [hb]
              rw [this, Option.or_none]

/-- **`purge_method` is all-or-nothing, for every pattern of failing storage calls**: it either completes — no
method and no reference with that id is left in the document, the key and the key id are gone — or fails with
document (methods, their scopes and positions, references) and both stores observably unchanged; the only other
outcome is the error that explicitly reports a failed undo step -/
theorem purge_all_or_nothing (s : St) (f : Faults) (k : Id) (hw : WF s) :
    match purge s f k with
    | (s', .ok ()) =>
        (∀ m ∈ allMethods s'.doc, m.id ≠ k) ∧ (∀ r, ∀ e ∈ s'.doc.getRel r, e.id ≠ k) ∧
        ∃ m ∈ allMethods s.doc, m.id = k ∧ ∃ dg kid, digestOf m = some dg ∧ lookupKid s.kids dg = some kid ∧
          kid ∉ s'.keys ∧ lookupKid s'.kids dg = none ∧
          (∀ x ∈ s.keys, x ≠ kid → x ∈ s'.keys) ∧ (∀ dg', dg' ≠ dg → lookupKid s'.kids dg' = lookupKid s.kids dg')
    | (_, .error .undoFailed) => True
    | (s', .error _) => Unchanged s' s := by
  unfold purge
  simp only [Gen.C09.purgeLooksUpFirst, ↓reduceIte]
  cases hfind : (allMethods s.doc).find? (fun m => decide (m.id = k)) with
  | none => simp [Unchanged]
  | some m =>
    simp only
    have hm : m ∈ allMethods s.doc := List.mem_of_find?_eq_some hfind
    have hmk : m.id = k := of_decide_eq_true (List.find?_some (p := fun m : Method => decide (m.id = k)) hfind)
    cases hdg : digestOf m with
    | none => simp [Unchanged]
    | some dg =>
      simp only
      cases hget : getKid f.getKid s.kids dg with
      | none => simp [Unchanged]
      | some kid =>
        simp only
        have hlook : lookupKid s.kids dg = some kid := by
          unfold getKid at hget
          split at hget
          · cases hget
          · exact hget
        unfold purgeStores
        cases hdk : deleteKey f.deleteKey s.keys kid with
        | none =>
          cases hdi : deleteKid f.deleteKid s.kids dg with
          | none => simp [Unchanged]
          | some kids' =>
            simp only [Gen.C09.purgeReinsertsKeyId, ↓reduceIte]
            cases hri : insertKid f.insertKid kids' dg kid with
            | none => simp
            | some kids'' =>
              simp only
              refine ⟨rfl, rfl, ?_⟩
              intro dg'
              -- kids'' = (kids without dg) ++ [(dg, kid)]
              unfold deleteKid at hdi
              split at hdi
              · cases hdi
              · injection hdi with hdi
                subst hdi
                unfold insertKid at hri
                split at hri
                · cases hri
                · injection hri with hri
                  subst hri
                  rw [lookup_append]
                  by_cases he : dg' = dg
                  · subst he
                    rw [lookup_filter_self, hlook]
                    simp [lookupKid]
                  · rw [lookup_filter_ne _ _ _ he]
                    have : lookupKid [(dg, kid)] dg' = none := by
                      unfold lookupKid
                      have hb : (dg == dg') = false := beq_false_of_ne (fun e => he e.symm)
                      simp [List.find?_cons, hb]
                    rw [this, Option.or_none]
        | some keys' =>
          have hkeys : keys' = s.keys.filter (fun x => !(x == kid)) := by
            unfold deleteKey at hdk
            split at hdk
            · cases hdk
            · injection hdk with hdk; exact hdk.symm
          cases hdi : deleteKid f.deleteKid s.kids dg with
          | none => simp
          | some kids' =>
            simp only
            have hkids : kids' = s.kids.filter (fun e => !(e.1 == dg)) := by
              unfold deleteKid at hdi
              split at hdi
              · cases hdi
              · injection hdi with hdi; exact hdi.symm
            obtain ⟨g1, g2⟩ := removeMethod_gone s.doc k hw.inv
            refine ⟨?_, g1, m, hm, hmk, dg, kid, hdg, hlook, ?_, ?_, ?_, ?_⟩
            · intro x hx
              rcases (mem_allMethods _ x).1 hx with hv | ⟨r, hr⟩
              · exact g2 x hv
              · exact g1 r _ hr
            · rw [hkeys]; simp
            · rw [hkids]; exact lookup_filter_self _ _
            · intro x hx hne; rw [hkeys]; simp [hx, hne]
            · intro dg' hne; rw [hkids]; exact lookup_filter_ne _ _ _ hne

/-! ## histories: the state stays well formed, so the two theorems apply at every step -/

theorem generate_wf (s : St) (f : Faults) (frag : Option (Option Nat)) (scope : Scope) (hw : WF s) :
    WF (generate s f frag scope).1 := by
  have hfresh : s.next + 1 ∉ s.keys := fun h => by have := hw.fresh _ h; omega
  have hk1 : ∀ x ∈ s.keys ++ [s.next + 1], x ≤ s.next + 1 := by
    intro x hx
    rcases List.mem_append.1 hx with h | h
    · have := hw.fresh x h; omega
    · simp at h; omega
  have hk2 : ∀ x ∈ s.keys, x ≤ s.next + 1 := fun x hx => by have := hw.fresh x hx; omega
  have hundo : ∀ src, ∀ x ∈ (undoKeyGeneration true f (s.keys ++ [s.next + 1]) (s.next + 1) src).1, x ≤ s.next + 1 := by
    intro src x hx
    rw [undo_fresh f s.keys (s.next + 1) src hfresh] at hx
    cases hd : f.deleteKey
    · rw [hd] at hx; exact hk2 x hx
    · rw [hd] at hx; exact hk1 x hx
  unfold generate
  simp only [Gen.C09.undoOnConstruction, Gen.C09.undoOnInsert, Gen.C09.undoOnKeyId]
  cases f.generate with
  | true => exact hw
  | false =>
    simp only [Bool.false_eq_true, ↓reduceIte]
    cases frag with
    | none => exact ⟨hundo _, hw.inv⟩
    | some fr =>
      simp only
      split
      · exact ⟨hundo _, hw.inv⟩
      · split
        · exact ⟨hundo _, by simp only [Gen.C09.generateRestoresBackup, ↓reduceIte]; exact hw.inv⟩
        · exact ⟨hk1, insertMethod_inv _ _ _ hw.inv (by simp)⟩

theorem purge_wf (s : St) (f : Faults) (k : Id) (hw : WF s) : WF (purge s f k).1 := by
  have hrm : Inv (removeMethod s.doc k).1 := inv_of_sub (removeMethod_sub s.doc k) hw.inv
  unfold purge
  simp only [Gen.C09.purgeLooksUpFirst, ↓reduceIte]
  split
  · exact hw
  · split
    · exact hw
    · split
      · exact hw
      · rename_i kid _
        unfold purgeStores
        have hfil : ∀ keys', deleteKey f.deleteKey s.keys kid = some keys' → ∀ x ∈ keys', x ≤ s.next := by
          intro keys' h x hx
          unfold deleteKey at h
          split at h
          · cases h
          · injection h with h
            subst h
            exact hw.fresh x (List.mem_filter.1 hx).1
        split
        · rename_i keys' _ h1 _; exact ⟨hfil keys' h1, hrm⟩
        · rename_i keys' h1 _; exact ⟨hfil keys' h1, hrm⟩
        · simp only [Gen.C09.purgeReinsertsKeyId, ↓reduceIte]
          split <;> exact ⟨hw.fresh, hw.inv⟩
        · exact ⟨hw.fresh, hw.inv⟩

/-- operations of the storage-backed API, each with its own fault pattern -/
inductive SOp
  | generate (f : Faults) (frag : Option (Option Nat)) (scope : Scope)
  | purge (f : Faults) (k : Id)

def sstep (s : St) : SOp → St
  | .generate f fr sc => (generate s f fr sc).1
  | .purge f k => (purge s f k).1

/-- **every reachable state is well formed** — so `generate_all_or_nothing` and `purge_all_or_nothing` hold at
every step of every history, whatever failed before (including reported undo failures) -/
theorem reachable_wf (ops : List SOp) : ∀ s, WF s → WF (ops.foldl sstep s) := by
  induction ops with
  | nil => intro s h; exact h
  | cons op t ih =>
    intro s h
    rw [List.foldl_cons]
    apply ih
    cases op with
    | generate f fr sc => exact generate_wf s f fr sc h
    | purge f k => exact purge_wf s f k h

/-! ## the fragment of a generated method (through the DID URL model of C10) -/

open IdModel.Did IdModel.Props.C10 in
/-- whatever string is given as the fragment (or taken from the JWK's `kid`): either constructing the method fails —
and then the theorems above say nothing is left behind — or the method's fragment is a non-empty, syntactically
valid DID URL fragment; deciding it never panics. -/
theorem methodFragment_wf (did given f : Str) (h : methodFragment did given = some f) :
    f ≠ [] ∧ Syntax (fun c => IsPChar c ∨ c = 47 ∨ c = 63) f := by
  unfold methodFragment at h
  cases hb : parseUrl did with
  | panic m => simp [hb] at h
  | err e => simp [hb] at h
  | ok base =>
    simp only [hb] at h
    cases hj : join base (fragmentSegment given) with
    | panic m => simp [hj] at h
    | err e => simp [hj] at h
    | ok u =>
      simp only [hj] at h
      have wf := join_wf base (fragmentSegment given) u hj
      cases hf : u.fragment with
      | none => simp [hf] at h
      | some fr =>
        obtain ⟨t, ht, hne, hs⟩ := wf.fragment fr hf
        subst ht
        have hstrip : stripPrefix1 35 (35 :: t) = t := by simp [stripPrefix1]
        simp only [hf, Option.map_some, hstrip] at h
        by_cases he : t.isEmpty = true
        · simp [he] at h
        · simp only [he, Bool.false_eq_true, ↓reduceIte, Option.some.injEq] at h
          subst h; exact ⟨hne, hs⟩

open IdModel.Did in
/-- a fragment given with or without the leading `#` is the same fragment; a doubled `#` is none -/
example : methodFragment ("did:ex:d0".toUTF8.toList.map (·.toNat)) [107, 49] = some [107, 49] ∧
    methodFragment ("did:ex:d0".toUTF8.toList.map (·.toNat)) [35, 107, 49] = some [107, 49] ∧
    methodFragment ("did:ex:d0".toUTF8.toList.map (·.toNat)) [35, 35, 107, 49] = none ∧
    methodFragment ("did:ex:d0".toUTF8.toList.map (·.toNat)) [] = none := by
  decide +kernel

/-! ## non-vacuity -/

def noFaults : Faults := ⟨false, false, false, false, false⟩
def s0 : St := ⟨⟨0, [], [], [], [], [], [], []⟩, [], [], 0⟩

example : WF s0 := ⟨by simp [s0], (Doc.fromData_iff _ _).1 (by decide : fromData s0.doc.toData = some s0.doc) |>.2⟩

/-- generate, then purge, without faults: back to empty stores and an empty document -/
example : (purge (generate s0 noFaults (some (some 1)) .vm).1 noFaults ⟨0, 0, some 1⟩) =
    (⟨⟨0, [], [], [], [], [], [], []⟩, [], [], 1⟩, .ok ()) := by rfl

/-- a key-store failure during purge after the key id was deleted: key id re-inserted, error, nothing lost -/
example : (purge (generate s0 noFaults (some (some 1)) (.rel .auth)).1 ⟨false, true, false, false, false⟩ ⟨0, 0, some 1⟩).2
    = .error .keyStorage := by rfl


/-! ## generate, then purge: a round trip -/

/-- **a fault-free `generate_method` followed by a fault-free `purge_method` of the generated method is the identity** on the
document, the key store and the key-id store (only the key counter has moved), whenever the fragment was free: no method
and no relationship entry carried that id, and no key id was recorded for that digest -/
theorem generate_then_purge (s : St) (fr : Nat) (hw : WF s)
    (hins : insertRefused s.doc ⟨⟨s.doc.id, 0, some fr⟩, 1000 + (s.next + 1)⟩ .vm = false)
    (hvm : ∀ m ∈ allMethods s.doc, m.id ≠ ⟨s.doc.id, 0, some fr⟩)
    (hrel : ∀ r, ∀ e ∈ s.doc.getRel r, e.id ≠ ⟨s.doc.id, 0, some fr⟩)
    (hkid : lookupKid s.kids (some fr, 1000 + (s.next + 1)) = none) :
    (generate s noFaults (some (some fr)) .vm).2 = .ok fr ∧
    purge (generate s noFaults (some (some fr)) .vm).1 noFaults ⟨s.doc.id, 0, some fr⟩ =
      ({ s with next := s.next + 1 }, .ok ()) := by
  have hfresh : s.next + 1 ∉ s.keys := fun h => by have := hw.fresh _ h; omega
  have hvm' : ∀ m ∈ s.doc.vm, m.id ≠ ⟨s.doc.id, 0, some fr⟩ :=
    fun m hm => hvm m (by unfold allMethods; exact List.mem_append_left _ hm)
  -- the document after the insertion
  have hcont : OSet.contains Method.id s.doc.vm (⟨s.doc.id, 0, some fr⟩ : Id) = false := by
    rw [contains_false_iff]
    intro hmem
    obtain ⟨m, hm, e⟩ := List.mem_map.1 hmem
    exact hvm' m hm e
  have hdoc : insertMethod s.doc ⟨⟨s.doc.id, 0, some fr⟩, 1000 + (s.next + 1)⟩ .vm =
      ({ s.doc with vm := s.doc.vm ++ [⟨⟨s.doc.id, 0, some fr⟩, 1000 + (s.next + 1)⟩] }, .ok) := by
    unfold insertMethod insertMethodG
    unfold insertRefused at hins
    simp only [hins, Bool.false_eq_true, ↓reduceIte, OSet.append, hcont]
  -- the generated state
  have hgen : generate s noFaults (some (some fr)) .vm =
      ({ s with doc := { s.doc with vm := s.doc.vm ++ [⟨⟨s.doc.id, 0, some fr⟩, 1000 + (s.next + 1)⟩] },
                keys := s.keys ++ [s.next + 1], next := s.next + 1,
                kids := s.kids ++ [((some fr, 1000 + (s.next + 1)), s.next + 1)] }, .ok fr) := by
    unfold generate
    simp only [noFaults, Bool.false_eq_true, ↓reduceIte, Option.getD_some, hdoc, Res.isErr, insertKid, Bool.false_or, hkid,
      Option.isSome_none]
  refine ⟨by rw [hgen], ?_⟩
  rw [hgen]
  -- purge finds the method, its digest and its key id
  have hfind : (allMethods { s.doc with vm := s.doc.vm ++ [⟨⟨s.doc.id, 0, some fr⟩, 1000 + (s.next + 1)⟩] }).find?
      (fun m => decide (m.id = ⟨s.doc.id, 0, some fr⟩)) = some ⟨⟨s.doc.id, 0, some fr⟩, 1000 + (s.next + 1)⟩ := by
    unfold allMethods
    simp only [List.append_assoc, List.find?_append]
    have : s.doc.vm.find? (fun m => decide (m.id = (⟨s.doc.id, 0, some fr⟩ : Id))) = none := by
      rw [List.find?_eq_none]; intro x hx; simpa using hvm' x hx
    rw [this]; simp
  have hrm : removeMethod { s.doc with vm := s.doc.vm ++ [⟨⟨s.doc.id, 0, some fr⟩, 1000 + (s.next + 1)⟩] } ⟨s.doc.id, 0, some fr⟩ =
      (s.doc, .removedMethod (some (⟨⟨s.doc.id, 0, some fr⟩, 1000 + (s.next + 1)⟩, Scope.vm))) := by
    unfold removeMethod
    have hr := removeRels_absent ⟨s.doc.id, 0, some fr⟩ (relList Gen.C04.removeOrder)
      { s.doc with vm := s.doc.vm ++ [⟨⟨s.doc.id, 0, some fr⟩, 1000 + (s.next + 1)⟩] }
      (by intro r e he; exact hrel r e (by cases r <;> exact he))
    simp only [hr]
    have hl := remove_last Method.id s.doc.vm ⟨⟨s.doc.id, 0, some fr⟩, 1000 + (s.next + 1)⟩ hvm'
    simp only [hl, Option.map_some]
  unfold purge
  simp only [Gen.C09.purgeLooksUpFirst, ↓reduceIte, hfind, digestOf, getKid, noFaults, Bool.false_eq_true,
    lookup_append, hkid, Option.or]
  have h1000 : ¬ (1000 + (s.next + 1) = 0) := by omega
  simp only [h1000, ↓reduceIte]
  unfold purgeStores deleteKey deleteKid
  simp only [Bool.false_or, lookup_append, hkid, hrm]
  have hk1 : (s.keys ++ [s.next + 1]).contains (s.next + 1) = true := by simp
  have hkf := filter_append_fresh s.keys (s.next + 1) hfresh
  have hlk : lookupKid [((some fr, 1000 + (s.next + 1)), s.next + 1)] (some fr, 1000 + (s.next + 1)) = some (s.next + 1) := by
    simp [lookupKid]
  have hkids : (s.kids ++ [((some fr, 1000 + (s.next + 1)), s.next + 1)]).filter (fun e => !(e.1 == ((some fr, 1000 + (s.next + 1)) : Digest))) = s.kids := by
    rw [List.filter_append]
    have : s.kids.filter (fun e => !(e.1 == ((some fr, 1000 + (s.next + 1)) : Digest))) = s.kids := by
      apply List.filter_eq_self.2
      intro a ha
      unfold lookupKid at hkid
      have hn : s.kids.find? (fun e => e.1 == ((some fr, 1000 + (s.next + 1)) : Digest)) = none := by
        cases hf : s.kids.find? (fun e => e.1 == ((some fr, 1000 + (s.next + 1)) : Digest)) with
        | none => rfl
        | some x => rw [hf] at hkid; cases hkid
      have := List.find?_eq_none.1 hn a ha
      simpa using this
    rw [this]; simp
  simp only [hlk, Option.or, Option.isNone_some, hk1, Bool.not_true, Bool.false_eq_true, ↓reduceIte, hkf, hkids]


-- the hypotheses of `generate_then_purge` are satisfiable (the empty start state, fragment 1)
example : insertRefused s0.doc ⟨⟨s0.doc.id, 0, some 1⟩, 1000 + (s0.next + 1)⟩ .vm = false ∧
    (∀ m ∈ allMethods s0.doc, m.id ≠ ⟨s0.doc.id, 0, some 1⟩) ∧
    (∀ r, ∀ e ∈ s0.doc.getRel r, e.id ≠ ⟨s0.doc.id, 0, some 1⟩) ∧
    lookupKid s0.kids (some 1, 1000 + (s0.next + 1)) = none := by
  refine ⟨by decide, ?_, ?_, by decide⟩
  · intro m hm
    have : allMethods s0.doc = [] := by decide
    rw [this] at hm; cases hm
  · intro r e he; cases r <;> simp [s0, Doc.getRel] at he

end IdModel.Props.C09
