import IdModel.Panic.Model
import IdModel.Did.Model
import IdModel.IotaDid.Model
import IdModel.Time.Model
import Driver.Util
/-! Line-protocol handler for C05: outcome class of the modelled entry points; `u` for the others. See harness/src/c05.rs. -/
namespace Driver.C05
open IdModel IdModel.Panic

def cls {ε α : Type} : Outcome ε α → String
  | .ok _ => "ok" | .err _ => "err" | .panic _ => "panic"

def modelled (name : String) (bs aux : List Nat) : Option String :=
  if name == "did" then some (cls (Did.parseDid bs))
  else if name == "url" then some (cls (Did.parseUrl bs))
  else if name == "iota" then some (cls (IotaDid.parseLower aux))
  else if name == "ts" then some (cls (Time.parse bs))
  else if name == "unpack" then some (match unframeP bs with | .ok _ => "framed" | .err _ => "err" | .panic _ => "panic")
  else if name == "mdigest" then some (match unpackDigest bs with | .ok (_, x) => s!"ok:{x}" | .err _ => "err" | .panic _ => "panic")
  else if name == "integrity" then
    some (match parseIntegrity bs with
      | .ok _ =>
        -- the accessors that follow an accepted value
        if (alg bs).isPanic || (digest bs).isPanic || (digestBytes bs).isPanic then "panic" else "ok"
      | .err _ => "err"
      | .panic _ => "panic")
  else none

def handle : List String → String
  | [name, h] =>
    match unhex h with
    | some bs => (modelled name bs []).getD "u"
    | none => "bad-request"
  | [name, h, a] =>
    match unhex h, unhex a with
    | some bs, some aux => (modelled name bs aux).getD "u"
    | _, _ => "bad-request"
  | _ => "bad-request"

end Driver.C05
