import IdModel.Core.Outcome
import IdModel.Gen.C05
/-!
Panic-aware models of the two service wrappers of `identity_credential::credential` whose accessors carry
`unreachable!` / `expect`: `LinkedDomainService` (`check_structure`, `new`, `domains`) and
`LinkedVerifiablePresentationService` (`check_structure`, `new`, `verifiable_presentation_urls`).
A service is reduced to what these functions read: the list of type names and the endpoint shape; a URL is reduced to the
two facts the checks read (`scheme() == "https"`, `url_only_includes_origin`).  The arms of the two `match`es that refuse
an endpoint shape are regenerated flags (`Gen.C05.ld*`, `Gen.C05.lvp*`).  Import-free; executable.
-/
namespace IdModel.Panic.Linked
open IdModel

/-- what the checks read of a URL -/
structure U where
  https : Bool
  /-- `path == "/"`, no query, no fragment -/
  originOnly : Bool
  /-- identifies the URL in replies -/
  tag : Nat
  deriving Repr, DecidableEq

inductive Endpoint
  | one (u : U)
  | set (us : List U)
  | map (m : List (String × List U))
  deriving Repr

structure Svc where
  types : List String
  ep : Endpoint
  deriving Repr

def lookup (m : List (String × List U)) (k : String) : Option (List U) :=
  (m.find? (fun e => e.1 == k)).map (·.2)

def okUrl (u : U) : Bool := u.https && u.originOnly

/-! ## LinkedDomainService -/

/-- `LinkedDomainService::check_structure` -/
def ldCheck (s : Svc) : Outcome Unit Unit :=
  if s.types.length != 1 then .err () else
  match s.types[0]? with
  | none => .err ()
  | some t =>
    if t != "LinkedDomains" then .err () else
    match s.ep with
    | .one u => if okUrl u then .ok () else .err ()
    | .set _ => if Gen.C05.ldSetRefused then .err () else .ok ()
    | .map m =>
      if Gen.C05.ldEmptyMapRefused && m.isEmpty then .err () else
      match lookup m "origins" with
      | none => if Gen.C05.ldOriginsRequired then .err () else .ok ()
      | some os => if os.all okUrl then .ok () else .err ()

/-- `LinkedDomainService::domains` on a service that was wrapped -/
def ldDomains (s : Svc) : Outcome Unit (List U) :=
  match s.ep with
  | .one u => .ok [u]
  | .set _ => .panic "linked_domain_service.rs:domains:unreachable(set)"
  | .map m =>
    match lookup m "origins" with
    | none => .panic "linked_domain_service.rs:domains:expect(origins)"
    | some os => .ok os

/-- `LinkedDomainService::new` from a duplicate-free list of domains: the wrapped service, or an error -/
def ldNew (ds : List U) : Outcome Unit Svc :=
  if !ds.all (·.https) then .err () else
  if ds.length == 1 then
    match ds.head? with
    | none => .panic "linked_domain_service.rs:new:expect(len 1)"
    | some u => .ok { types := ["LinkedDomains"], ep := .one u }
  else .ok { types := ["LinkedDomains"], ep := .map [("origins", ds)] }

/-! ## LinkedVerifiablePresentationService -/

def lvpCheck (s : Svc) : Outcome Unit Unit :=
  if s.types.length != 1 then .err () else
  match s.types[0]? with
  | none => .err ()
  | some t =>
    if t != "LinkedVerifiablePresentation" then .err () else
    match s.ep with
    | .one _ => .ok ()
    | .set _ => .ok ()
    | .map _ => if Gen.C05.lvpMapRefused then .err () else .ok ()

def lvpUrls (s : Svc) : Outcome Unit (List U) :=
  match s.ep with
  | .one u => .ok [u]
  | .set us => .ok us
  | .map _ => .panic "linked_verifiable_presentation_service.rs:verifiable_presentation_urls:unreachable(map)"

def lvpNew (us : List U) : Outcome Unit Svc :=
  if us.length == 1 then
    match us.head? with
    | none => .panic "linked_verifiable_presentation_service.rs:new:expect(element 0)"
    | some u => .ok { types := ["LinkedVerifiablePresentation"], ep := .one u }
  else .ok { types := ["LinkedVerifiablePresentation"], ep := .set us }

/-- the reply of the line protocol: `<check>/<accessor>` for both wrappers; the accessor is only run on an accepted service -/
def showO : Outcome Unit (List U) → String
  | .ok l => "n" ++ String.intercalate "," (l.map (fun u => toString u.tag))
  | .err _ => "err"
  | .panic _ => "panic"

def reply (s : Svc) : String :=
  let ld := match ldCheck s with
    | .ok _ => "ok/" ++ showO (ldDomains s)
    | .err _ => "err"
    | .panic _ => "panic"
  let lvp := match lvpCheck s with
    | .ok _ => "ok/" ++ showO (lvpUrls s)
    | .err _ => "err"
    | .panic _ => "panic"
  "ld:" ++ ld ++ " lvp:" ++ lvp

def replyNew (ldKind : Bool) (us : List U) : String :=
  if ldKind then
    match ldNew us with
    | .ok s => "ok/" ++ showO (ldDomains s) ++ "/" ++ (match ldCheck s with | .ok _ => "ok" | .err _ => "err" | .panic _ => "panic")
    | .err _ => "err"
    | .panic _ => "panic"
  else
    match lvpNew us with
    | .ok s => "ok/" ++ showO (lvpUrls s) ++ "/" ++ (match lvpCheck s with | .ok _ => "ok" | .err _ => "err" | .panic _ => "panic")
    | .err _ => "err"
    | .panic _ => "panic"

end IdModel.Panic.Linked
