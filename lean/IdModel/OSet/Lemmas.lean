import IdModel.OSet.Model
/-! Helper lemmas for C19 (ordered set). Core Lean only. -/
namespace IdModel.OSet

set_option linter.unusedSectionVars false
variable {α κ : Type} [DecidableEq κ]

/-- The invariant: keys are pairwise distinct. -/
def Uniq (key : α → κ) (s : List α) : Prop := (s.map key).Nodup

theorem contains_iff (key : α → κ) (s : List α) (k : κ) :
    contains key s k = true ↔ k ∈ s.map key := by
  unfold contains
  induction s with
  | nil => simp
  | cons y ys ih =>
    simp only [List.any_cons, Bool.or_eq_true, decide_eq_true_eq, ih, List.map_cons, List.mem_cons]
    constructor
    · rintro (h | h)
      · exact Or.inl h.symm
      · exact Or.inr h
    · rintro (h | h)
      · exact Or.inl h.symm
      · exact Or.inr h

theorem contains_false_iff (key : α → κ) (s : List α) (k : κ) :
    contains key s k = false ↔ k ∉ s.map key := by
  rw [← contains_iff]; cases contains key s k <;> simp

theorem change_fst_of_not_any (f : α → Bool) (d : α) (s : List α) (h : s.any f = false) :
    change f d s = (s, false) := by
  induction s with
  | nil => rfl
  | cons y ys ih =>
    simp only [List.any_cons, Bool.or_eq_false_iff] at h
    simp [change, h.1, ih h.2]

theorem change_snd (f : α → Bool) (d : α) (s : List α) : (change f d s).2 = s.any f := by
  induction s with
  | nil => rfl
  | cons y ys ih =>
    by_cases hy : f y <;> simp [change, hy, ih]

/-- The structural `change` is the literal transliteration. -/
theorem change_eq_changeT (f : α → Bool) (d : α) (s : List α) : change f d s = changeT f d s := by
  induction s with
  | nil => simp [change, changeT]
  | cons y ys ih =>
    by_cases hy : f y
    · simp [change, changeT, hy, List.findIdx?_cons]
    · simp only [change, hy, Bool.false_eq_true, ↓reduceIte, ih]
      simp only [changeT, List.findIdx?_cons, hy]
      cases h : List.findIdx? f ys <;> simp

/-- Survivors keep their relative order: removing everything `f` matches from the result gives
the same list as removing it from the input (when `f data`). -/
theorem change_filter (f : α → Bool) (d : α) (hd : f d = true) (s : List α) :
    (change f d s).1.filter (fun y => !f y) = s.filter (fun y => !f y) := by
  induction s with
  | nil => simp [change]
  | cons y ys ih =>
    by_cases hy : f y
    · simp [change, hy, hd, List.filter_filter]
    · simp [change, hy, ih]

theorem change_mem (f : α → Bool) (d : α) (s : List α) (h : s.any f = true) (z : α) :
    z ∈ (change f d s).1 ↔ z = d ∨ (z ∈ s ∧ f z = false) := by
  induction s with
  | nil => simp at h
  | cons y ys ih =>
    by_cases hy : f y
    · simp only [change, hy, ↓reduceIte, List.mem_cons, List.mem_filter, Bool.not_eq_eq_eq_not,
        Bool.not_true]
      constructor
      · rintro (h1 | h1)
        · exact Or.inl h1
        · exact Or.inr ⟨Or.inr h1.1, h1.2⟩
      · rintro (h1 | ⟨h1 | h1, h2⟩)
        · exact Or.inl h1
        · subst h1; simp [hy] at h2
        · exact Or.inr ⟨h1, h2⟩
    · have h' : ys.any f = true := by simpa [List.any_cons, hy] using h
      simp only [change, hy, Bool.false_eq_true, ↓reduceIte, List.mem_cons, ih h']
      constructor
      · rintro (h1 | h1 | h1)
        · subst h1; exact Or.inr ⟨Or.inl rfl, by simpa using hy⟩
        · exact Or.inl h1
        · exact Or.inr ⟨Or.inr h1.1, h1.2⟩
      · rintro (h1 | ⟨h1 | h1, h2⟩)
        · exact Or.inr (Or.inl h1)
        · exact Or.inl h1
        · exact Or.inr (Or.inr ⟨h1, h2⟩)

/-- `change` preserves the invariant when `f` matches at least everything with `data`'s key. -/
theorem change_inv (key : α → κ) (f : α → Bool) (d : α)
    (hf : ∀ y, key y = key d → f y = true) (s : List α) (h : Uniq key s) :
    Uniq key (change f d s).1 := by
  unfold Uniq at *
  induction s with
  | nil => simp [change]
  | cons y ys ih =>
    rw [List.map_cons, List.nodup_cons] at h
    by_cases hy : f y
    · simp only [change, hy, ↓reduceIte, List.map_cons, List.nodup_cons]
      refine ⟨?_, ?_⟩
      · intro hm
        rcases List.mem_map.1 hm with ⟨z, hz, hk⟩
        have := (List.mem_filter.1 hz).2
        simp [hf z hk] at this
      · exact (h.2.sublist ((List.filter_sublist).map key))
    · simp only [change, hy, Bool.false_eq_true, ↓reduceIte, List.map_cons, List.nodup_cons]
      refine ⟨?_, ih h.2⟩
      intro hm
      rcases List.mem_map.1 hm with ⟨z, hz, hk⟩
      by_cases hany : ys.any f = true
      · rcases (change_mem f d ys hany z).1 hz with h1 | h1
        · subst h1; exact hy (hf y hk.symm)
        · exact h.1 (List.mem_map.2 ⟨z, h1.1, hk⟩)
      · have : change f d ys = (ys, false) := change_fst_of_not_any f d ys (by simpa using hany)
        rw [this] at hz
        exact h.1 (List.mem_map.2 ⟨z, hz, hk⟩)

theorem remove_eq (key : α → κ) (s : List α) (k : κ) (h : Uniq key s) :
    remove key s k = (s.filter (fun y => !decide (key y = k)), s.find? (fun y => decide (key y = k))) := by
  unfold Uniq at h
  induction s with
  | nil => simp [remove]
  | cons y ys ih =>
    rw [List.map_cons, List.nodup_cons] at h
    by_cases hy : key y = k
    · have : ys.filter (fun y => !decide (key y = k)) = ys := by
        apply List.filter_eq_self.2
        intro z hz
        have : key z ≠ k := by
          intro hk; exact h.1 (hy ▸ hk ▸ List.mem_map.2 ⟨z, hz, rfl⟩)
        simp [this]
      simp [remove, hy, this]
    · simp [remove, hy, ih h.2]

theorem remove_inv (key : α → κ) (s : List α) (k : κ) (h : Uniq key s) :
    Uniq key (remove key s k).1 := by
  rw [remove_eq key s k h]
  exact h.sublist ((List.filter_sublist).map key)

theorem append_inv (key : α → κ) (s : List α) (x : α) (h : Uniq key s) :
    Uniq key (append key s x).1 := by
  unfold append
  cases hc : contains key s (key x)
  · have hn := (contains_false_iff key s (key x)).1 hc
    simp only [Bool.false_eq_true, ↓reduceIte]
    unfold Uniq at *
    rw [List.map_append, List.nodup_append]
    refine ⟨h, by simp, ?_⟩
    intro a ha b hb
    simp at hb; subst hb
    intro hab; subst hab; exact hn ha
  · simpa using h

theorem prepend_inv (key : α → κ) (s : List α) (x : α) (h : Uniq key s) :
    Uniq key (prepend key s x).1 := by
  unfold prepend
  cases hc : contains key s (key x)
  · have hn := (contains_false_iff key s (key x)).1 hc
    simp only [Bool.false_eq_true, ↓reduceIte]
    unfold Uniq at *
    rw [List.map_cons, List.nodup_cons]
    exact ⟨hn, h⟩
  · simpa using h

end IdModel.OSet
