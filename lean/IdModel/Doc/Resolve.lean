import IdModel.Doc.Lemmas
/-! Resolution against the abstract set of entries (C04): under the invariant, and for an id that is not
confusable with another id of the document (same DID and fragment, different path/query), resolving by
full id is a lookup by key in the set of entries. -/
namespace IdModel.Doc
open IdModel.OSet

theorem matches_ofId (k i : Id) :
    (Query.ofId k).matches i = true ↔ (i.did = k.did ∧ i.frag = k.frag ∧ k.frag ≠ none) := by
  unfold Query.matches Query.ofId
  cases hk : k.frag with
  | none => simp
  | some f =>
    cases hi : i.frag with
    | none => simp
    | some g => simp only [beq_iff_eq, Bool.and_eq_true, Option.some.injEq]; constructor
                · rintro ⟨a, b⟩; exact ⟨a.symm, b.symm, by simp⟩
                · rintro ⟨a, b, _⟩; exact ⟨a.symm, b.symm⟩

/-- `k` cannot be confused with another id in the collection -/
def DistinctIn {α : Type} (key : α → Id) (s : List α) (k : Id) : Prop :=
  ∀ e ∈ s, (key e).did = k.did → (key e).frag = k.frag → key e = k

structure Distinct (d : Doc) (k : Id) : Prop where
  vm : DistinctIn Method.id d.vm k
  rel : ∀ r, DistinctIn MRef.id (d.getRel r) k
  svc : DistinctIn Service.id d.service k

theorem find?_congr' {α : Type} {p q : α → Bool} : ∀ (l : List α), (∀ x ∈ l, p x = q x) → l.find? p = l.find? q := by
  intro l
  induction l with
  | nil => intro _; rfl
  | cons x t ih =>
    intro h
    rw [List.find?_cons, List.find?_cons, h x List.mem_cons_self, ih (fun y hy => h y (List.mem_cons_of_mem _ hy))]

theorem query_eq_find {α : Type} (key : α → Id) (s : List α) (k : Id) (hk : k.frag ≠ none)
    (hd : DistinctIn key s k) : query key s (Query.ofId k) = s.find? (fun e => decide (key e = k)) := by
  unfold query
  apply find?_congr'
  intro e he
  by_cases h : key e = k
  · rw [h, matches_ofId_self k hk]; simp
  · have : (Query.ofId k).matches (key e) = false := by
      cases hm : (Query.ofId k).matches (key e) with
      | false => rfl
      | true =>
        obtain ⟨a, b, _⟩ := (matches_ofId k (key e)).1 hm
        exact absurd (hd e he a b) h
    rw [this]; simp [h]

theorem uniq_eq {α : Type} (key : α → Id) : ∀ (s : List α), Uniq key s → ∀ a ∈ s, ∀ b ∈ s, key a = key b → a = b := by
  intro s
  induction s with
  | nil => intro _ a ha; cases ha
  | cons x t ih =>
    intro hu a ha b hb hab
    unfold Uniq at hu ih
    rw [List.map_cons, List.nodup_cons] at hu
    rcases List.mem_cons.1 ha with ha | ha <;> rcases List.mem_cons.1 hb with hb | hb
    · rw [ha, hb]
    · exact absurd (List.mem_map.2 ⟨b, hb, by rw [← hab, ha]⟩) hu.1
    · exact absurd (List.mem_map.2 ⟨a, ha, by rw [hab, hb]⟩) hu.1
    · exact ih hu.2 a ha b hb hab

theorem find_unique {α : Type} (p : α → Bool) : ∀ (l : List α) (m : α), m ∈ l → p m = true →
    (∀ x ∈ l, p x = true → x = m) → l.find? p = some m := by
  intro l
  induction l with
  | nil => intro m hm; cases hm
  | cons x t ih =>
    intro m hm hp hu
    rw [List.find?_cons]
    cases hx : p x with
    | true => rw [hu x List.mem_cons_self hx]
    | false =>
      simp only
      rcases List.mem_cons.1 hm with hm | hm
      · rw [hm, hx] at hp; cases hp
      · exact ih m hm hp (fun y hy => hu y (List.mem_cons_of_mem _ hy))

theorem firstRel_some (d : Doc) (q : Query) (e : MRef) : ∀ (L : List Rel), firstRel d q L = some e →
    ∃ r ∈ L, query MRef.id (d.getRel r) q = some e := by
  intro L
  induction L with
  | nil => intro h; cases h
  | cons r rs ih =>
    intro h
    unfold firstRel at h
    cases hq : query MRef.id (d.getRel r) q with
    | some e' => rw [hq] at h; simp only [Option.some.injEq] at h; subst h; exact ⟨r, List.mem_cons_self, hq⟩
    | none =>
      rw [hq] at h
      obtain ⟨r', hr', h'⟩ := ih h
      exact ⟨r', List.mem_cons_of_mem _ hr', h'⟩

theorem firstRel_none (d : Doc) (q : Query) : ∀ (L : List Rel), firstRel d q L = none →
    ∀ r ∈ L, query MRef.id (d.getRel r) q = none := by
  intro L
  induction L with
  | nil => intro _ r hr; cases hr
  | cons r rs ih =>
    intro h r' hr'
    unfold firstRel at h
    cases hq : query MRef.id (d.getRel r) q with
    | some e' => rw [hq] at h; cases h
    | none =>
      rw [hq] at h
      rcases List.mem_cons.1 hr' with hr' | hr'
      · rw [hr']; exact hq
      · exact ih h r' hr'

/-- no embedded relationship entry has id `k` -/
theorem embeds_find_none (d : Doc) (k : Id) (h : ∀ r, ∀ x, MRef.embed x ∈ d.getRel r → x.id ≠ k) :
    ((relList Gen.C04.allMethodsOrder).flatMap (fun r => (d.getRel r).filterMap MRef.embedded?)).find?
      (fun x => decide (x.id = k)) = none := by
  rw [List.find?_eq_none]
  intro x hx
  rw [List.mem_flatMap] at hx
  obtain ⟨r, _, hx⟩ := hx
  rw [List.mem_filterMap] at hx
  obtain ⟨e, he, hm⟩ := hx
  cases e with
  | refer i => cases hm
  | embed y =>
    simp only [MRef.embedded?, Option.some.injEq] at hm
    subst hm
    simpa using h r y he

/-- scope `VerificationMethod`: lookup by key among the general-purpose methods -/
theorem resolve_vm_scope (d : Doc) (k : Id) (hk : k.frag ≠ none) (hd : Distinct d k) :
    resolveMethod d (Query.ofId k) (some .vm) = d.vm.find? (fun x => decide (x.id = k)) := by
  simp only [resolveMethod]
  exact query_eq_find _ _ _ hk hd.vm

/-- relationship scope: the entry of that relationship with key `k`; a reference resolves to the
general-purpose method with that id -/
theorem resolve_rel_scope (d : Doc) (k : Id) (r : Rel) (hk : k.frag ≠ none) (hd : Distinct d k) :
    resolveMethod d (Query.ofId k) (some (.rel r)) =
      match (d.getRel r).find? (fun e => decide (e.id = k)) with
      | some (.embed m) => some m
      | some (.refer _) => d.vm.find? (fun x => decide (x.id = k))
      | none => none := by
  simp only [resolveMethod]
  rw [query_eq_find _ _ _ hk (hd.rel r)]
  cases hf : (d.getRel r).find? (fun e => decide (e.id = k)) with
  | none => rfl
  | some e =>
    cases e with
    | embed m => rfl
    | refer i =>
      have h0 : decide ((MRef.refer i).id = k) = true :=
        List.find?_some (p := fun e : MRef => decide (e.id = k)) hf
      have : i = k := of_decide_eq_true h0
      subst this
      simp only [resolveMethodRef]
      exact query_eq_find _ _ _ hk hd.vm

/-- no scope: the unique embedded method (general-purpose or inside a relationship) with id `k` -/
theorem resolve_unscoped (d : Doc) (k : Id) (hi : Inv d) (hk : k.frag ≠ none) (hd : Distinct d k) :
    resolveMethod d (Query.ofId k) none = (allMethods d).find? (fun x => decide (x.id = k)) := by
  simp only [resolveMethod, resolveMethodInner]
  have key_of_match : ∀ r, ∀ e ∈ d.getRel r, (Query.ofId k).matches e.id = true → e.id = k := by
    intro r e he hm
    obtain ⟨a, b, _⟩ := (matches_ofId k e.id).1 hm
    exact hd.rel r e he a b
  cases hfr : firstRel d (Query.ofId k) (relList Gen.C04.resolveOrder) with
  | none =>
    simp only
    have hn := firstRel_none d _ _ hfr
    have hno : ∀ r, ∀ x, MRef.embed x ∈ d.getRel r → x.id ≠ k := by
      intro r x hx heq
      have := query_none _ _ _ (hn r (mem_resolveOrder r)) _ hx
      simp only [MRef.id] at this
      rw [heq, matches_ofId_self k hk] at this
      cases this
    rw [query_eq_find _ _ _ hk hd.vm]
    unfold allMethods
    rw [List.find?_append, embeds_find_none d k hno, Option.or_none]
  | some e =>
    obtain ⟨r, _, hq⟩ := firstRel_some d _ e _ hfr
    obtain ⟨he, hm⟩ := query_some_mem _ _ _ _ hq
    have hek := key_of_match r e he hm
    cases e with
    | embed m =>
      simp only
      simp only [MRef.id] at hek
      symm
      apply find_unique
      · exact (mem_allMethods d m).2 (Or.inr ⟨r, he⟩)
      · simpa using hek
      · intro x hx hxk
        have hxk : x.id = k := by simpa using hxk
        rcases (mem_allMethods d x).1 hx with hv | ⟨r', hr'⟩
        · exact absurd (hek.trans hxk.symm) (hi.vmEmb x hv r _ he rfl)
        · by_cases hrr : r' = r
          · subst hrr
            have := uniq_eq MRef.id _ (hi.uRel r') _ hr' _ he (by simp only [MRef.id]; rw [hxk, hek])
            injection this
          · have := hi.cross r' r hrr _ hr' _ he (by simp only [MRef.id]; rw [hxk, hek])
            cases this.1
    | refer i =>
      simp only
      simp only [MRef.id] at hek
      subst hek
      rw [query_eq_find _ _ _ hk hd.vm]
      have hno : ∀ r', ∀ x, MRef.embed x ∈ d.getRel r' → x.id ≠ i := by
        intro r' x hx heq
        by_cases hrr : r' = r
        · subst hrr
          have := uniq_eq MRef.id _ (hi.uRel r') _ hx _ he (by simp only [MRef.id]; exact heq)
          cases this
        · have := hi.cross r' r hrr _ hx _ he (by simp only [MRef.id]; exact heq)
          cases this.1
      unfold allMethods
      rw [List.find?_append, embeds_find_none d i hno, Option.or_none]

/-- services: lookup by key -/
theorem resolve_service_spec (d : Doc) (k : Id) (hk : k.frag ≠ none) (hd : Distinct d k) :
    resolveService d (Query.ofId k) = d.service.find? (fun s => decide (s.id = k)) :=
  query_eq_find _ _ _ hk hd.svc

/-! ### fragment-only queries -/

theorem query_congr {α : Type} (key : α → Id) (s : List α) (q q' : Query)
    (h : ∀ e ∈ s, q.matches (key e) = q'.matches (key e)) : query key s q = query key s q' :=
  find?_congr' s h

theorem firstRel_congr (d : Doc) (q q' : Query)
    (h : ∀ r, ∀ e ∈ d.getRel r, q.matches e.id = q'.matches e.id) :
    ∀ L, firstRel d q L = firstRel d q' L := by
  intro L
  induction L with
  | nil => rfl
  | cons r rs ih =>
    unfold firstRel
    rw [query_congr MRef.id _ q q' (h r), ih]

/-- in a document all of whose method ids carry the DID `D`, a bare fragment resolves like the full id -/
theorem resolve_fragment_only (d : Doc) (D f : Nat) (s : Option Scope)
    (hv : ∀ v ∈ d.vm, v.id.did = D) (hr : ∀ r, ∀ e ∈ d.getRel r, e.id.did = D) :
    resolveMethod d ⟨none, some f⟩ s = resolveMethod d ⟨some D, some f⟩ s := by
  have m1 : ∀ i : Id, i.did = D → (Query.mk none (some f)).matches i = (Query.mk (some D) (some f)).matches i := by
    intro i hi
    unfold Query.matches
    simp [hi]
  have hq : query Method.id d.vm ⟨none, some f⟩ = query Method.id d.vm ⟨some D, some f⟩ :=
    query_congr _ _ _ _ (fun e he => m1 _ (hv e he))
  cases s with
  | none =>
    simp only [resolveMethod, resolveMethodInner]
    rw [firstRel_congr d _ _ (fun r e he => m1 _ (hr r e he)), hq]
  | some sc =>
    cases sc with
    | vm => simp only [resolveMethod]; exact hq
    | rel r =>
      simp only [resolveMethod]
      rw [query_congr MRef.id _ _ _ (fun e he => m1 _ (hr r e he))]

end IdModel.Doc
