#!/bin/bash
# phase B (serial): store each confirmed seed and run ./check against /repo with the patch applied
for P in "$@"; do
for d in /tmp/seed-$P/out/*/; do
  n=$(basename $d); [ -f $d/confirmed ] || continue
  [ -f /verif/seeded/$P-$n/meta.json ] && continue
  crate=$(sed -n 1p $d/crate.txt | tr -d '\r' | awk '{print $1}')
  extra=$(sed -n 2p $d/crate.txt | tr -d '\r')
  echo "== $P-$n"
  SEED_PHASE=check /verif/tools/seed_confirm.sh $P $n $crate $extra 2>&1 | tail -4
done
done
