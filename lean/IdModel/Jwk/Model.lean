import IdModel.Gen.C18
/-!
Model of `identity_jose::jwk::{Jwk, JwkParams*}` (property C18).  Member lists, the `invert`
table, the untagged resolution order and the two behaviour flags come from `IdModel.Gen.C18`
(regenerated from the Rust source on every run).

A key carries its declared `kty`, the family of the parameter struct it holds, and the members
of that struct that are present (required members always, optional = private ones when `Some`).
-/
namespace IdModel.Jwk
open IdModel.Gen.C18

inductive Family | ec | rsa | oct | okp
  deriving Repr, DecidableEq

def Family.ktyName : Family → String
  | .ec => "EC" | .rsa => "RSA" | .oct => "oct" | .okp => "OKP"

def Family.tag : Family → String
  | .ec => "ec" | .rsa => "rsa" | .oct => "oct" | .okp => "okp"

def required : Family → List String
  | .ec => ecRequired | .rsa => rsaRequired | .oct => octRequired | .okp => okpRequired

/-- optional members of the parameter struct (all of them private key material) -/
def optional : Family → List String
  | .ec => ecPrivate | .rsa => rsaPrivate | .oct => octPrivate | .okp => okpPrivate

/-- members copied by `to_public` of the parameter struct -/
def kept : Family → List String
  | .ec => ecKept | .rsa => rsaKept | .oct => [] | .okp => okpKept

/-- members `is_public` tests for absence -/
def publicTest : Family → List String
  | .ec => ecPublicTest | .rsa => rsaPublicTest | .oct => [] | .okp => okpPublicTest

/-- members `is_private` requires -/
def privateTest : Family → List String
  | .ec => ecPrivateTest | .rsa => rsaPrivateTest | .oct => [] | .okp => okpPrivateTest

structure Jwk where
  kty : Family
  family : Family
  members : List (String × String)
  use_ : Option String := none
  keyOps : Option (List String) := none
  alg : Option String := none
  kid : Option String := none
  deriving Repr, DecidableEq

def Jwk.has (j : Jwk) (n : String) : Bool := (j.members.map (·.1)).contains n

/-- `JwkParams::is_public` (`JwkParamsOct::is_public` is `false`) -/
def isPublic (j : Jwk) : Bool :=
  j.family != .oct && (publicTest j.family).all fun n => !j.has n

/-- `Jwk::is_private` -/
def isPrivate (j : Jwk) : Bool :=
  j.family == .oct || (privateTest j.family).all fun n => j.has n

def invertOp (op : String) : String := (invertTable.lookup op).getD op

/-- `Jwk::to_public` -/
def toPublic (j : Jwk) : Option Jwk :=
  if j.family == .oct then none
  else some {
    kty := j.family                -- `Jwk::from_params`: `kty = params.kty()`
    family := j.family
    members := j.members.filter fun m => (kept j.family).contains m.1
    use_ := if toPublicCopies.contains "use_" then j.use_ else none
    keyOps := if toPublicCopies.contains "key_ops" then
        j.keyOps.map fun ops => if invertOnlyIfPrivate && isPublic j then ops else ops.map invertOp
      else none
    alg := if toPublicCopies.contains "alg" then j.alg else none
    kid := if toPublicCopies.contains "kid" then j.kid else none }

/-- `thumbprint_hash_input`: the (member, value) pairs, in order; `kty` is the declared type -/
def thumbprintInput (j : Jwk) : List (String × String) :=
  ((thumbprintMembers.lookup j.family.tag).getD []).map fun n =>
    if n == "kty" then (n, j.kty.ktyName) else (n, (j.members.lookup n).getD "")

/-- `Jwk::new(kty)` -/
def new (k : Family) : Jwk :=
  { kty := k, family := k, members := (required k).map fun n => (n, "") }

/-- `Jwk::from_params` -/
def fromParams (f : Family) (members : List (String × String)) : Jwk :=
  { kty := f, family := f, members := members }

/-- `Jwk::set_kty`: the parameters are reset to the new type's empty ones (`setKtyResetsToNewType`, regenerated: the
new type is assigned first; otherwise the reset uses the OLD declared type) -/
def setKty (j : Jwk) (k : Family) : Jwk :=
  let fam := if setKtyResetsToNewType then k else j.kty
  { j with kty := k, family := fam, members := (required fam).map fun n => (n, "") }

/-- `Jwk::set_params`: the parameters are stored exactly for the (declared type, family) pairs of the regenerated match
arms; every other pair is refused and nothing is stored (the result is the key and whether the call succeeded) -/
def setParamsFull (j : Jwk) (f : Family) (members : List (String × String)) : Jwk × Bool :=
  if setParamsArms.contains (j.kty.tag, f.tag) then ({ j with family := f, members := members }, true) else (j, false)

def setParams (j : Jwk) (f : Family) (members : List (String × String)) : Option Jwk :=
  let r := setParamsFull j f members
  if r.2 then some r.1 else none

def familyOfTag (t : String) : Option Family :=
  if t == "ec" then some .ec else if t == "rsa" then some .rsa else if t == "oct" then some .oct
  else if t == "okp" then some .okp else none

/-- serde's untagged resolution: the first variant (in declaration order) all of whose required
members are present in the JSON object; its optional members are taken when present -/
def resolveFamily (present : List String) : Option Family :=
  (untaggedOrder.filterMap familyOfTag).find? fun f => (required f).all fun n => present.contains n

/-- `Jwk::from_json` on an object with string-valued members: `kty` (if a known type name) and the
parameter members; `none` = rejected -/
def fromJson (kty : Option Family) (obj : List (String × String)) : Option Jwk :=
  match kty, resolveFamily (obj.map (·.1)) with
  | some k, some f =>
    if deserializeChecksKty && k != f then none
    else some { kty := k, family := f,
                members := obj.filter fun m => (required f).contains m.1 || (optional f).contains m.1 }
  | _, _ => none

/-- `VerificationMethod` builder guard: a JWK with private material is refused -/
def methodFromJwk (j : Jwk) : Option Jwk := if isPublic j then some j else none

end IdModel.Jwk
