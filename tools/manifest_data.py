NOTES = "Technique family: machine-checked proof in Lean 4. Each check = theorems (lake build + #print axioms audit) + regenerated fragments + correspondence run against /repo's working tree. See DESIGN.md."
NOT_YET = {}
CLAIMED = {
    "C19": {
        "text": "Lean 4 theorems for every element/key type and every operation sequence: per-operation specs of append/prepend/update/replace/remove against the duplicate-free list, key-uniqueness invariant for every reachable state (induction over the op list), try_from accepts iff keys are distinct, from_iter keeps first occurrences, OneOrSet/OneOrMany shape and JSON round-trip theorems. The model is tied to the code by differential correspondence on exhaustive short and random long histories and on the full table of small JSON inputs.",
        "design_ref": "DESIGN.md §7.19",
        "note": "Trusted: Lean kernel (+propext, Classical.choice, Quot.sound), the correspondence harness, serde glue (validated by the JSON stream, not proved).",
        "technique": "Lean 4 proof (induction over operation lists) + model/implementation correspondence",
    },
}
