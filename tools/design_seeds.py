#!/usr/bin/env python3
"""Regenerates the table of seeded changes in DESIGN.md (between the SEEDS-TABLE markers) from seeded/*/meta.json and
seeded/REGRESSION.json: one row per seed — what was changed (first line of the sub-agent's notes), how the current check
reports it, and, where the first run missed it or reported it weakly, what was strengthened."""
import json, os, re, glob
ROOT = os.path.dirname(os.path.dirname(os.path.abspath(__file__)))
reg = json.load(open(os.path.join(ROOT, "seeded", "REGRESSION.json"))) if os.path.exists(os.path.join(ROOT, "seeded", "REGRESSION.json")) else {}
rows = []
misses = 0
for d in sorted(glob.glob(os.path.join(ROOT, "seeded", "C*-*"))):
    sid = os.path.basename(d)
    m = json.load(open(os.path.join(d, "meta.json")))
    notes = [x.strip() for x in open(os.path.join(d, "notes.txt")).read().splitlines() if x.strip() and not set(x.strip()) <= set("=-")]
    what = notes[0] if notes else ""
    what = re.sub(r"^(Seed(ed)?( change)?|Change)\s*[\w-]*\s*(\([^)]*\))?\s*[-—:–]+\s*", "", what, flags=re.I)
    what = what.replace("|", "/")[:150]
    v = (reg.get(sid, {}).get("verdict") or m["check"].get("verdict_lines") or [""])
    first = next((l for l in v if not l.startswith("KNOWN-FINDING")), v[0] if v else "")
    if "oracle failed" in first:
        how = "oracle `" + (re.search(r"key=(\S+)", first).group(1) if re.search(r"key=(\S+)", first) else "?")[:60] + "`"
    elif "correspondence broken" in first:
        how = "model ≠ implementation: `" + (re.search(r"shrunk\): (C\d\d \S+)", first).group(1) if re.search(r"shrunk\): (C\d\d \S+)", first) else "?") + " …`"
    elif "no longer checks" in first:
        how = "proof obligation " + (re.search(r"theorem (\S+)", first).group(1) if re.search(r"theorem (\S+)", first) else "")
    else:
        how = first[:60].replace("|", "/")
    hist = m.get("history", "")
    if hist:
        misses += 1
        hist = hist.replace("|", "/").replace("\n", " ")
        hist = hist[:420] + ("…" if len(hist) > 420 else "")
    rows.append("| %s | %s | %s | %s |" % (sid, what, how, hist))
table = ["| seed | change (sub-agent's words) | how the current check reports it | first run, and what was strengthened |", "|---|---|---|---|"] + rows
text = "\n".join(table)
p = os.path.join(ROOT, "DESIGN.md")
s = open(p).read()
b, e = "<!-- SEEDS-TABLE-BEGIN -->", "<!-- SEEDS-TABLE-END -->"
head = "%d seeded changes; %d carry a first-run note (missed, reported without a failing input, or caught more weakly than possible)." % (len(rows), misses)
if b in s and e in s:
    s = s[:s.index(b) + len(b)] + "\n" + head + "\n\n" + text + "\n" + s[s.index(e):]
    open(p, "w").write(s)
    print(head)
else:
    print("markers not found")
