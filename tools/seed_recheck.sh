#!/bin/bash
# seed_recheck.sh <Cxx-n> "<what the first run did and what was strengthened>"
# re-runs a kept seed against the current check, and records the first-run note when it is now detected
S=$1; T=$2; P=${S%%-*}
cd /verif
git -C /repo apply /verif/seeded/$S/patch.diff || exit 2
./check $P > seeded/$S/check2.out 2>&1; R=$?
git -C /repo checkout -- .
python3 tools/translate.py all > /dev/null 2>&1   # the fragments regenerated from the patched tree must not stay behind
grep -E "^VIOLATION|oracle failed|correspondence broken|^OK property" seeded/$S/check2.out | cut -c1-300 | head -4
if [ $R -eq 1 ]; then python3 tools/seed_history.py $S "$T"; else echo "STILL MISSED rc=$R"; rm -f seeded/$S/check2.out; fi
