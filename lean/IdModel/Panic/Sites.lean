import IdModel.Gen.C05
/-!
Dispositions of the panic-capable sites of the files property C05 is anchored in.  The inventory itself is regenerated
from the source on every run (`IdModel.Gen.C05.sites`); this table is written by hand and says, for each site, why it
cannot be reached with externally supplied data — or that it could (`repaired`: the site is gone from the inventory
since the `fix:` commit; the entry stays as a record and matches nothing).
-/
namespace IdModel.Panic.Sites

inductive Disp
  /-- a theorem of this development shows that the modelled function has no reachable panic branch -/
  | proved (thm : String)
  /-- guarded by a check a few lines above in the same function (read off the source, exercised by the fuzz streams) -/
  | guarded (why : String)
  /-- operates on a value whose type invariant excludes the failing case; the invariant is established by a checked
  constructor (exercised by the accessor walk over every accepted value) -/
  | invariant (why : String)
  /-- not reachable from externally supplied data (constructor from trusted parts, clock) -/
  | internal (why : String)
  /-- was reachable: a defect found by this check and repaired by a `fix:` commit; kept under test -/
  | repaired (what : String)
  deriving Repr

abbrev Site := String × String × String × Nat

def table : List (Site × Disp) := [
  (("did/did.rs", "method_id_scan_overruns", "index", 1), .guarded "index i + 2 is compared with the length first; C10.parse_never_panics covers the parser this guard protects"),
  (("did/did_url.rs", "from", "expect", 1), .invariant "a DIDUrl prints as a valid RFC 3986 URI (C10 parse_print theorems); the url crate accepts any did: URI"),
  (("did/did_url.rs", "is_valid_url_segment", "index", 1), .guarded "byte indices i + 1, i + 2 are compared with the length before they are read"),
  (("did/did_jwk.rs", "jwk", "expect", 1), .invariant "DIDJwk is only built by TryFrom<CoreDID>, which decodes the same method id with the same function"),
  (("core/timestamp.rs", "now_utc", "expect", 1), .internal "the system clock, truncated to seconds"),
  (("core/timestamp.rs", "to_rfc3339", "expect", 1), .proved "C13.format_total with C13.parse_total_in_range / fromUnix_iff_range: every constructible Timestamp is in the formattable range"),
  (("jose/jwk_ext.rs", "try_from", "unreachable", 1), .repaired "TryFrom<JwkExt> for Jwk reached unreachable!() for an OKP key of the third-party JWK type"),
  (("document/core_document.rs", "map_unchecked", "expect", 1), .internal "documented as unchecked: the caller promises id-preserving maps"),
  (("iota_core/iota_did.rs", "denormalized_components", "index", 1), .proved "C17 model (IotaDid.parseDid): the split has at most three segments and is indexed after the length test"),
  (("iota_core/iota_did.rs", "from", "expect", 1), .invariant "an IotaDID prints as a valid DID (C17 theorems)"),
  (("iota_core/iota_did.rs", "from_alias_id", "expect", 1), .internal "built from a hex tag and a validated network name"),
  (("iota_core/iota_did.rs", "new", "expect", 1), .internal "built from 32 bytes and a validated network name"),
  (("iota_core/iota_did.rs", "normalize", "expect", 1), .proved "C17 model: normalisation of a checked DID re-parses"),
  (("credential/status_list.rs", "default", "unwrap", 1), .internal "constant minimum size"),
  (("credential/status_list.rs", "get_unchecked", "index", 1), .proved "C12.get_total"),
  (("credential/status_list.rs", "into_encoded_str", "index", 1), .internal "slice of an in-memory buffer by its own length"),
  (("credential/status_list.rs", "into_encoded_str", "unwrap", 2), .internal "gzip into a Vec cannot fail"),
  (("credential/status_list.rs", "set_unchecked", "index", 2), .proved "C12.set_total"),
  (("credential/status_list.rs", "try_from_encoded_str", "index", 1), .internal "range over the decoder's own output buffer"),
  (("credential/revocation_bitmap_status.rs", "new", "expect", 1), .internal "constructor from a DID URL value: setting a query on a valid DID URL"),
  (("credential/token.rs", "issuer_metadata", "unwrap", 1), .repaired "SdJwtVc::issuer_metadata unwrapped the URL built from the iss claim's origin; an iss with an opaque origin (did:, urn:, data:) panicked"),
  (("credential/token.rs", "validate_key_binding", "expect", 1), .invariant "the string form of an SD-JWT always contains '~'"),
  (("credential/token.rs", "validate_key_binding", "index", 1), .guarded "slice up to the index rfind just returned"),
  (("credential/token.rs", "validate_key_binding", "unwrap", 2), .invariant "a Jwk serialises to a JSON object"),
  (("credential/token.rs", "vct_to_url", "unwrap", 1), .guarded "only reached for the https scheme, whose origin is a tuple origin"),
  (("credential/token.rs", "verify_signature", "unwrap", 1), .invariant "the string form of an SD-JWT always contains '~'"),
  (("credential/integrity.rs", "alg", "unwrap", 1), .proved "C05.integrity_accessors_total"),
  (("credential/integrity.rs", "digest", "unwrap", 1), .proved "C05.integrity_accessors_total"),
  (("credential/integrity.rs", "digest_bytes", "unwrap", 1), .proved "C05.integrity_accessors_total"),
  (("storage/method_digest.rs", "unpack", "index", 2), .proved "C05.digest_never_panics")
]

def disposition (s : Site) : Option Disp := (table.find? (fun e => e.1 == s)).map (·.2)

end IdModel.Panic.Sites
