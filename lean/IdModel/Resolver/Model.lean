import IdModel.Doc.Model
import IdModel.Gen.C20
/-!
Model of `identity_resolver::Resolver` (property C20): a handler table keyed by DID method, single resolution, and
`resolve_multiple` as de-duplication followed by collecting the results in completion order (`try_collect` stops at the
first error).  A DID is (method, id); a handler is a function from the id to a result, with a name so that calls can
be logged.  The did:jwk expansion is a document of the C04 model.
-/
namespace IdModel.Resolver
open IdModel.Doc

structure Did where
  method : Nat
  id : Nat
  deriving DecidableEq, Repr

inductive RErr
  | unsupported (method : Nat)
  | parse (d : Did)
  | handler (d : Did)
  deriving DecidableEq, Repr

/-- what a handler does with an id: the handler's DID type may refuse the string, the handler may fail, or it
returns a document (abstract: a number) -/
inductive HRes
  | parseError | fail | doc (n : Nat)
  deriving DecidableEq, Repr

structure Handler where
  name : Nat
  run : Nat → HRes

abbrev Table := List (Nat × Handler)

def Table.get (t : Table) (m : Nat) : Option Handler := (t.find? (fun e => e.1 == m)).map (·.2)

/-- `attach_handler`: a later handler for the same method replaces the earlier one (`HashMap::insert`) -/
def Table.attach (t : Table) (m : Nat) (h : Handler) : Table := (m, h) :: t.filter (fun e => !(e.1 == m))

/-- a logged call: handler name and the DID it was given -/
abbrev Call := Nat × Did

/-- `Resolver::resolve`: result and the handler calls made -/
def resolve (t : Table) (d : Did) : Except RErr Nat × List Call :=
  match t.get d.method with
  | none => (.error (.unsupported d.method), [])
  | some h =>
    match h.run d.id with
    | .parseError => (.error (.parse d), [])
    | .fail => (.error (.handler d), [(h.name, d)])
    | .doc n => (.ok n, [(h.name, d)])

def dedup : List Did → List Did
  | [] => []
  | d :: t => if t.contains d then dedup t else d :: dedup t

/-- collecting in completion order: the first error ends it -/
def collect (t : Table) : List Did → Except RErr (List (Did × Nat))
  | [] => .ok []
  | d :: ds =>
    match (resolve t d).1 with
    | .error e => .error e
    | .ok n =>
      match collect t ds with
      | .error e => .error e
      | .ok r => .ok ((d, n) :: r)

/-- `Resolver::resolve_multiple`: `order` is the order in which the futures of the distinct DIDs complete -/
def resolveMultiple (t : Table) (order : List Did) : Except RErr (List (Did × Nat)) := collect t order

/-- `CoreDocument::expand_did_jwk`: DID `did`, the key `key` it encodes -/
def expandDidJwk (did key : Nat) : Doc :=
  let mid : Id := ⟨did, 0, some 0⟩
  let r (n : Nat) : List MRef := if Gen.C20.didJwkRelationships.contains n then [.refer mid] else []
  ⟨did, [⟨mid, key⟩], r 0, r 1, r 2, r 3, r 4, []⟩

end IdModel.Resolver
