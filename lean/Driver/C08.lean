import IdModel.Jose.Jws
import Driver.Util
import Driver.C11
import Driver.C01
namespace Driver.C08
open IdModel IdModel.Jose

/-- serialisation table entries `S=<Hspec>=<hex json>` (spec may contain `=`; the hex is last) -/
def parseSTable (ts : List String) : Option (List (Hdr × Bytes)) :=
  ts.mapM fun t =>
    match t.splitOn "=" with
    | "S" :: rest =>
      match rest.reverse with
      | h :: specRev =>
        match unhex h, Driver.C11.parseHdr ("=".intercalate specRev.reverse) with
        | some b, some (some hd) => some (hd, b)
        | _, _ => none
      | [] => none
    | _ => none

def mkS (tab : List (Hdr × Bytes)) (h : Hdr) : Bytes := ((tab.find? (·.1 == h)).map (·.2)).getD []
def mkP (tab : List (Hdr × Bytes)) (b : Bytes) : Option Hdr := (tab.find? (·.2 == b)).map (·.1)

def showIt (o : Option Item) : String :=
  match o with
  | none => "undecodable"
  | some it =>
    let alg := match it.prot.bind (·.alg) with | some a => a | none => "-"
    s!"dec:{hex it.signingInput}:{hex it.signature}:{hex it.claims}:{alg}"

def ho (o : Option Bytes) : String := match o with | none => "~" | some b => hex b

def triples : List String → Option (List (Option Hdr × Option Hdr × Bytes))
  | [] => some []
  | p :: u :: s :: r =>
    match Driver.C11.parseHdr p, Driver.C11.parseHdr u, unhex s, triples r with
    | some p, some u, some s, some t => some ((p, u, s) :: t)
    | _, _, _, _ => none
  | _ => none

def handle : List String → String
  | "compact" :: pl :: h :: opts :: sg :: tab =>
    match unhex pl, Driver.C11.parseHdr h, unhex sg, parseSTable tab with
    | some pl, some (some h), some sg, some tab =>
      let o? : Option CompactOpts :=
        if opts == "det" then some .detached else if opts == "nd-default" then some (.nonDetached .default)
        else if opts == "nd-url" then some (.nonDetached .urlSafe) else none
      match o? with
      | none => "bad-request"
      | some o =>
        match compactNew (mkS tab) pl h o with
        | none => "err"
        | some e =>
          let tok := compactIntoJws e sg
          let det := if opts == "det" then some (maybeEncode pl (some h)) else none
          s!"tok:{hex tok}:{hex e.signingInput}:{showIt (decodeCompact (mkP tab) tok det)}"
    | _, _, _, _ => "bad-request"
  | "flat" :: pl :: p :: u :: det :: u8 :: sg :: tab =>
    match unhex pl, Driver.C11.parseHdr p, Driver.C11.parseHdr u, unhex sg, parseSTable tab with
    | some pl, some p, some u, some sg, some tab =>
      match flatNew (mkS tab) (fun _ => u8 == "1") pl p u (det == "1") with
      | none => "err"
      | some e =>
        let (mp, m) := flatIntoJws e sg
        let d := if det == "1" then some (maybeEncode pl p) else none
        s!"m:{ho mp}:{ho m.prot}:{hex m.signature}:{hex e.signingInput}:{showIt (decodeFlattened (mkP tab) mp m d)}"
    | _, _, _, _, _ => "bad-request"
  | "general" :: pl :: det :: u8 :: rest =>
    match unhex pl with
    | some pl =>
      let (recs, tab) := rest.partition (fun t => !t.startsWith "S=")
      match triples recs, parseSTable tab with
      | some rs, some tab =>
        match generalEncode (mkS tab) pl (det == "1") rs with
        | .error i => s!"err@{i}"
        | .ok (mp, sigs) =>
          let p0 := match rs with | (p, _, _) :: _ => p | [] => none
          -- `into_jws`: a non-detached payload must be valid UTF-8 (it is only checked there)
          if det != "1" && !extractB64 p0 && u8 != "1" then "err-into-jws" else
          let d := if det == "1" then some (maybeEncode pl p0) else none
          let decs := match decodeGeneral (mkP tab) mp sigs d with
            | none => "undecodable"
            | some items => " ".intercalate (items.map showIt)
          let sis := " ".intercalate (rs.map fun r => hex (generalSigningInput (mkS tab) pl p0 r.1))
          s!"g:{ho mp}:{",".intercalate (sigs.map fun m => ho m.prot ++ "/" ++ hex m.signature)}:{sis} {decs}"
      | _, _ => "bad-request"
    | none => "bad-request"
  | "doc" :: _ => "impl-only"
  | _ => "bad-request"

end Driver.C08
