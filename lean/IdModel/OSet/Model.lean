/-
Model of `identity_core::common::{OrderedSet, OneOrSet, OneOrMany}` (property C19).
Import-free, executable.  Every function is a transliteration of the Rust method of the same
name; `&mut self` methods return the new contents together with the Rust return value.
-/
namespace IdModel.OSet

variable {α κ : Type} [DecidableEq κ]

/-- `OrderedSet::contains` : `self.0.iter().any(|other| other.key() == item.key())`. -/
def contains (key : α → κ) (s : List α) (k : κ) : Bool :=
  s.any (fun o => decide (key o = k))

/-- `OrderedSet::append`. -/
def append (key : α → κ) (s : List α) (x : α) : List α × Bool :=
  if contains key s (key x) then (s, false) else (s ++ [x], true)

/-- `OrderedSet::prepend`. -/
def prepend (key : α → κ) (s : List α) (x : α) : List α × Bool :=
  if contains key s (key x) then (s, false) else (x :: s, true)

/-- `OrderedSet::change`, literal transliteration:
`position` → `drain(index..).filter(!f)` → `extend(keep)` → `insert(index, data)`. -/
def changeT (f : α → Bool) (data : α) (s : List α) : List α × Bool :=
  match s.findIdx? f with
  | some i => (s.take i ++ data :: (s.drop i).filter (fun y => !f y), true)
  | none => (s, false)

/-- `OrderedSet::change` as a structural recursion (proved equal to `changeT` in `Lemmas`). -/
def change (f : α → Bool) (data : α) : List α → List α × Bool
  | [] => ([], false)
  | y :: ys =>
    if f y then (data :: ys.filter (fun z => !f z), true)
    else ((y :: (change f data ys).1), (change f data ys).2)

/-- `OrderedSet::update`. -/
def update (key : α → κ) (s : List α) (x : α) : List α × Bool :=
  change (fun it => decide (key it = key x)) x s

/-- `OrderedSet::replace(current, update)`. -/
def replace (key : α → κ) (s : List α) (cur : κ) (x : α) : List α × Bool :=
  change (fun it => decide (key it = cur) || decide (key it = key x)) x s

/-- `OrderedSet::remove`: remove the first element with the given key. -/
def remove (key : α → κ) : List α → κ → List α × Option α
  | [], _ => ([], none)
  | y :: ys, k =>
    if key y = k then (ys, some y)
    else ((y :: (remove key ys k).1), (remove key ys k).2)

/-- `FromIterator`: append every item, ignoring duplicates. -/
def fromIter (key : α → κ) (xs : List α) : List α :=
  xs.foldl (fun acc x => (append key acc x).1) []

/-- `TryFrom<Vec<T>>`: `none` = `Error::OrderedSetDuplicate`. -/
def tryFromVecAux (key : α → κ) : List α → List α → Option (List α)
  | acc, [] => some acc
  | acc, x :: xs => if contains key acc (key x) then none else tryFromVecAux key (acc ++ [x]) xs

def tryFromVec (key : α → κ) (xs : List α) : Option (List α) := tryFromVecAux key [] xs

/-- Operations of the history model. -/
inductive Op (α κ : Type)
  | append (x : α) | prepend (x : α) | update (x : α) | replace (cur : κ) (x : α) | remove (k : κ)

/-- Observable result of one step. -/
inductive Res (α : Type)
  | flag (b : Bool) | removed (o : Option α)

def step (key : α → κ) (s : List α) : Op α κ → List α × Res α
  | .append x => let r := append key s x; (r.1, .flag r.2)
  | .prepend x => let r := prepend key s x; (r.1, .flag r.2)
  | .update x => let r := update key s x; (r.1, .flag r.2)
  | .replace c x => let r := replace key s c x; (r.1, .flag r.2)
  | .remove k => let r := remove key s k; (r.1, .removed r.2)

def run (key : α → κ) (s : List α) (ops : List (Op α κ)) : List α :=
  ops.foldl (fun st op => (step key st op).1) s

/-! ### OneOrSet / OneOrMany -/

/-- `OneOrSet<T>`; the `Set` variant carries the `OrderedSet` contents. -/
inductive OneOrSet (α : Type)
  | one (x : α) | set (xs : List α)
  deriving DecidableEq, Repr

/-- `OneOrSet::new_set`; `none` = `Error::OneOrSetEmpty`. -/
def OneOrSet.newSet (s : List α) : Option (OneOrSet α) :=
  match s with
  | [] => none
  | [x] => some (.one x)
  | _ => some (.set s)

def OneOrSet.toList : OneOrSet α → List α
  | .one x => [x]
  | .set xs => xs

/-- `OneOrSet::append`. -/
def OneOrSet.append (key : α → κ) : OneOrSet α → α → OneOrSet α × Bool
  | .one y, x => if key y = key x then (.one y, false) else (.set (fromIter key [y, x]), true)
  | .set xs, x => let r := OSet.append key xs x; (.set r.1, r.2)

/-- `OneOrSet::map` (`key'` is the key function of the target type). -/
def OneOrSet.map {β κ' : Type} [DecidableEq κ'] (key' : β → κ') (f : α → β) : OneOrSet α → OneOrSet β
  | .one x => .one (f x)
  | .set xs =>
    match fromIter key' (xs.map f) with
    | [y] => .one y
    | ys => .set ys

/-- `OneOrSet::try_from(Vec<T>)`: `OrderedSet::try_from` then `new_set`. -/
def OneOrSet.tryFromVec (key : α → κ) (xs : List α) : Option (OneOrSet α) :=
  match OSet.tryFromVec key xs with
  | none => none
  | some s => OneOrSet.newSet s

/-- `OneOrMany<T>`. -/
inductive OneOrMany (α : Type)
  | one (x : α) | many (xs : List α)
  deriving DecidableEq, Repr

def OneOrMany.toList : OneOrMany α → List α
  | .one x => [x]
  | .many xs => xs

/-- `OneOrMany::push`. -/
def OneOrMany.push : OneOrMany α → α → OneOrMany α
  | .one y, x => .many [y, x]
  | .many [], x => .one x
  | .many (y :: ys), x => .many ((y :: ys) ++ [x])

/-- `From<Vec<T>>`. -/
def OneOrMany.fromVec : List α → OneOrMany α
  | [x] => .one x
  | xs => .many xs

/-- `FromIterator` (both branches of the size-hint test give this result). -/
def OneOrMany.fromIter (xs : List α) : OneOrMany α := OneOrMany.fromVec xs

/-! ### JSON shape (serde untagged: try `One` first, then the collection) -/

/-- The JSON values offered to the deserialisers, for an element type that deserialises exactly
from a JSON string (the harness uses `String`): a string, an array, or anything else. -/
inductive JV
  | str (s : String) | arr (xs : List JV) | other
  deriving Repr

def JV.asStr? : JV → Option String
  | .str s => some s
  | _ => none

def JV.asStrs? : List JV → Option (List String)
  | [] => some []
  | x :: xs => match x.asStr?, JV.asStrs? xs with
    | some s, some r => some (s :: r)
    | _, _ => none

/-- `OrderedSet<String>` from JSON (`try_from = "Vec<T>"`). -/
def osetFromJ : JV → Option (List String)
  | .arr xs => match JV.asStrs? xs with
    | some ss => tryFromVec id ss
    | none => none
  | _ => none

/-- `OneOrSet<String>` from JSON. -/
def oneOrSetFromJ : JV → Option (OneOrSet String)
  | .str s => some (.one s)
  | v => match osetFromJ v with
    | some [] => none
    | some s => some (.set s)
    | none => none

/-- `OneOrMany<String>` from JSON. -/
def oneOrManyFromJ : JV → Option (OneOrMany String)
  | .str s => some (.one s)
  | .arr xs => match JV.asStrs? xs with
    | some ss => some (.many ss)
    | none => none
  | .other => none

def oneOrSetToJ : OneOrSet String → JV
  | .one x => .str x
  | .set xs => .arr (xs.map .str)

def oneOrManyToJ : OneOrMany String → JV
  | .one x => .str x
  | .many xs => .arr (xs.map .str)

end IdModel.OSet
