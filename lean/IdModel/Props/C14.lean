import IdModel.Meta.Total
/-!
# C14 — IOTA state-metadata packing round-trips and rewrites only self-references

Property theorems only; helper lemmas are in `IdModel.Meta.{Lemmas,InvMap}`.

`IdModel.Meta.Model` transliterates `From<IotaDocument> for StateMetadataDocument`, `into_iota_document`
(`CoreDocumentData::try_map` — including the silent de-duplication of `collect::<OrderedSet>` and the collapse of
`OneOrSet::try_map` — followed by the id-constraint gate of C04) and the byte framing of `pack` / `unpack`.
Marker, version and encoding discriminants, the accepted version and the length bound are regenerated from the
source on every run (`IdModel.Gen.C14`).  JSON is a parameter: any `enc`/`dec` with `dec (enc x) = some x`.
-/
namespace IdModel.Props.C14
open IdModel.Meta IdModel.Doc IdModel.OSet

deriving instance DecidableEq for Except

/-! ## framing -/

theorem len_split (n : Nat) : n % 256 + 256 * (n / 256) = n := by omega

/-- **framing round trip, trailing bytes ignored**: whatever follows the prefixed length is not looked at -/
theorem unframe_frame (data extra bs : List Nat) (h : frame data = some bs) : unframe (bs ++ extra) = .ok data := by
  unfold frame at h
  split at h
  · rename_i hlen
    injection h with h
    subst h
    simp only [Gen.C14.marker, Gen.C14.currentVersion, Gen.C14.jsonEncoding, Gen.C14.maxLen] at *
    unfold unframe
    simp only [Gen.C14.marker, Gen.C14.versions, Gen.C14.acceptedVersion, Gen.C14.encodings,
      List.cons_append, List.nil_append, List.length_cons, List.length_append]
    have h1 : ¬ (data.length + extra.length + 1 + 1 + 1 + 1 + 1 + 1 + 1 < 3) := by omega
    simp only [h1, ↓reduceIte, List.take_succ_cons, List.take_zero, ne_eq, not_true_eq_false,
      List.getElem?_cons_succ, List.getElem?_cons_zero, List.contains_cons, List.contains_nil, BEq.rfl, Bool.or_false,
      Bool.not_true, Bool.false_eq_true, List.drop_succ_cons, List.drop_zero]
    rw [len_split]
    have h2 : 7 + data.length ≤ data.length + extra.length + 1 + 1 + 1 + 1 + 1 + 1 + 1 := by omega
    simp only [h2, ↓reduceIte]
    rw [List.take_append_of_le_length (Nat.le_refl _), List.take_length]
  · cases h

/-- **too large to pack**: exactly the payloads longer than the 16-bit bound are refused -/
theorem frame_none_iff (data : List Nat) : frame data = none ↔ 65535 < data.length := by
  unfold frame
  have hm : Gen.C14.maxLen = 65535 := rfl
  by_cases h : data.length ≤ Gen.C14.maxLen
  · rw [if_pos h]
    rw [hm] at h
    constructor
    · intro h'; cases h'
    · intro h'; omega
  · rw [if_neg h]
    rw [hm] at h
    constructor
    · intro _; omega
    · intro _; rfl

/-- the frame is `D I D`, version 1, encoding 0, little-endian length, payload -/
theorem frame_shape (data bs : List Nat) (h : frame data = some bs) :
    bs = [68, 73, 68, 1, 0, data.length % 256, data.length / 256] ++ data := by
  unfold frame at h
  split at h
  · injection h with h; rw [← h]; rfl
  · cases h

/-- **wrong marker** -/
theorem unframe_wrong_marker (bs : List Nat) (h : bs.take 3 ≠ [68, 73, 68]) : ∃ e, unframe bs = .error e := by
  unfold unframe
  by_cases h1 : bs.length < 3
  · exact ⟨_, by rw [if_pos h1]⟩
  · rw [if_neg h1, if_pos (by simpa [Gen.C14.marker] using h)]; exact ⟨_, rfl⟩

/-- **wrong version byte** -/
theorem unframe_wrong_version (bs : List Nat) (v : Nat) (h : bs[3]? = some v) (hv : v ≠ 1) :
    ∃ e, unframe bs = .error e := by
  unfold unframe
  by_cases h1 : bs.length < 3
  · exact ⟨_, by rw [if_pos h1]⟩
  · rw [if_neg h1]
    by_cases h2 : bs.take 3 ≠ Gen.C14.marker
    · exact ⟨_, by rw [if_pos h2]⟩
    · rw [if_neg h2, h]
      simp only [Gen.C14.versions, Gen.C14.acceptedVersion]
      by_cases h3 : (![1].contains v) = true
      · exact ⟨_, by rw [if_pos h3]⟩
      · rw [if_neg h3, if_pos hv]; exact ⟨_, rfl⟩

/-- **wrong encoding byte** -/
theorem unframe_wrong_encoding (bs : List Nat) (e : Nat) (h : bs[4]? = some e) (he : e ≠ 0) :
    ∃ x, unframe bs = .error x := by
  unfold unframe
  by_cases h1 : bs.length < 3
  · exact ⟨_, by rw [if_pos h1]⟩
  · rw [if_neg h1]
    by_cases h2 : bs.take 3 ≠ Gen.C14.marker
    · exact ⟨_, by rw [if_pos h2]⟩
    · rw [if_neg h2]
      cases h3 : bs[3]? with
      | none => exact ⟨_, rfl⟩
      | some v =>
        simp only
        by_cases h4 : (!Gen.C14.versions.contains v) = true
        · exact ⟨_, by rw [if_pos h4]⟩
        · rw [if_neg h4]
          by_cases h5 : v ≠ Gen.C14.acceptedVersion
          · exact ⟨_, by rw [if_pos h5]⟩
          · rw [if_neg h5, h]
            simp only
            have : (!Gen.C14.encodings.contains e) = true := by simp [Gen.C14.encodings, he]
            rw [if_pos this]; exact ⟨_, rfl⟩

/-- **length prefix exceeding the data** -/
theorem unframe_short (bs : List Nat) (lo hi : Nat) (h5 : bs[5]? = some lo) (h6 : bs[6]? = some hi)
    (hs : bs.length < 7 + (lo + 256 * hi)) : ∃ x, unframe bs = .error x := by
  unfold unframe
  by_cases h1 : bs.length < 3
  · exact ⟨_, by rw [if_pos h1]⟩
  · rw [if_neg h1]
    by_cases h2 : bs.take 3 ≠ Gen.C14.marker
    · exact ⟨_, by rw [if_pos h2]⟩
    · rw [if_neg h2]
      cases h3 : bs[3]? with
      | none => exact ⟨_, rfl⟩
      | some v =>
        simp only
        by_cases h4 : (!Gen.C14.versions.contains v) = true
        · exact ⟨_, by rw [if_pos h4]⟩
        · rw [if_neg h4]
          by_cases h5' : v ≠ Gen.C14.acceptedVersion
          · exact ⟨_, by rw [if_pos h5']⟩
          · rw [if_neg h5']
            cases h7 : bs[4]? with
            | none => exact ⟨_, rfl⟩
            | some e =>
              simp only
              by_cases h8 : (!Gen.C14.encodings.contains e) = true
              · exact ⟨_, by rw [if_pos h8]⟩
              · rw [if_neg h8, h5, h6]
                simp only
                rw [if_neg (by omega)]
                exact ⟨_, rfl⟩

/-- whatever is accepted is the prefixed number of bytes after a well-formed 7-byte header -/
theorem unframe_ok (bs p : List Nat) (h : unframe bs = .ok p) :
    bs.take 3 = [68, 73, 68] ∧ bs[3]? = some 1 ∧ bs[4]? = some 0 ∧
    ∃ lo hi, bs[5]? = some lo ∧ bs[6]? = some hi ∧ 7 + (lo + 256 * hi) ≤ bs.length ∧
      p = (bs.drop 7).take (lo + 256 * hi) := by
  unfold unframe at h
  by_cases h1 : bs.length < 3
  · rw [if_pos h1] at h; cases h
  · rw [if_neg h1] at h
    by_cases h2 : bs.take 3 ≠ Gen.C14.marker
    · rw [if_pos h2] at h; cases h
    · rw [if_neg h2] at h
      have hm : bs.take 3 = [68, 73, 68] := by simpa [Gen.C14.marker] using h2
      cases h3 : bs[3]? with
      | none => rw [h3] at h; cases h
      | some v =>
        rw [h3] at h
        simp only at h
        by_cases h4 : (!Gen.C14.versions.contains v) = true
        · rw [if_pos h4] at h; cases h
        · rw [if_neg h4] at h
          by_cases h5 : v ≠ Gen.C14.acceptedVersion
          · rw [if_pos h5] at h; cases h
          · rw [if_neg h5] at h
            have hv1 : v = 1 := by simpa [Gen.C14.acceptedVersion] using h5
            cases h6 : bs[4]? with
            | none => rw [h6] at h; cases h
            | some e =>
              rw [h6] at h
              simp only at h
              by_cases h7 : (!Gen.C14.encodings.contains e) = true
              · rw [if_pos h7] at h; cases h
              · rw [if_neg h7] at h
                have he0 : e = 0 := by simpa [Gen.C14.encodings] using h7
                cases h8 : bs[5]? with
                | none => rw [h8] at h; cases h
                | some lo =>
                  cases h9 : bs[6]? with
                  | none => rw [h8, h9] at h; cases h
                  | some hi =>
                    rw [h8, h9] at h
                    simp only at h
                    by_cases h10 : 7 + (lo + 256 * hi) ≤ bs.length
                    · rw [if_pos h10] at h
                      injection h with h
                      exact ⟨hm, by rw [hv1], by rw [he0], lo, hi, rfl, rfl, h10, h.symm⟩
                    · rw [if_neg h10] at h; cases h

/-! ## rewriting -/

/-- rebasing: every occurrence of the DID `s` becomes `t`; every other DID, and everything that is not a DID, is
left as it is -/
def rebase (s t : Nat) (d : IDoc) : IDoc := d.mapP (fun x => if x = s then t else x)

theorem rebase_self (s : Nat) (d : IDoc) : rebase s s d = d := by
  unfold rebase
  rw [mapP_congr _ (fun x => x) d (fun x _ => by by_cases h : x = s <;> simp [h]), mapP_id]

/-- what can be packed: a well-formed IOTA document that does not itself mention the placeholder -/
structure Packable (isIota : Nat → Bool) (P : Nat) (d : IDoc) : Prop where
  wf : WFI d
  noP : P ∉ d.dids
  ctlIota : ∀ x ∈ ctlDids d.controller, isIota x = true

theorem pack_doc (isIota : Nat → Bool) (P : Nat) (d : IDoc) (hp : Packable isIota P d) :
    toPlaceholder P d = some { d.mapP (fun x => if x = d.id then P else x) with addrs := false } := by
  unfold toPlaceholder
  simp only
  have hi : InjOn (fun x => if x = d.id then P else x) d.dids := by
    intro x hx y hy hxy
    simp only at hxy
    by_cases h1 : x = d.id <;> by_cases h2 : y = d.id
    · rw [h1, h2]
    · rw [if_pos h1, if_neg h2] at hxy; exact absurd (hxy ▸ hy) hp.noP
    · rw [if_neg h1, if_pos h2] at hxy; exact absurd (hxy ▸ hx) hp.noP
    · rw [if_neg h1, if_neg h2] at hxy; exact hxy
  rw [dataTryMap_pure _ _ _ _ (fun x => if x = d.id then P else x) d hp.wf hi rfl (fun _ _ => rfl) (fun _ _ => rfl)
    (fun _ _ => rfl)]
  rfl

/-- **unpacking what was packed, for any target DID that the document does not mention as a foreign DID**, gives
the document with exactly its self-references rewritten to the target (ledger addresses unset) -/
theorem unpack_rebase (isIota : Nat → Bool) (P t : Nat) (d d1 : IDoc) (hp : Packable isIota P d)
    (ht : t = d.id ∨ t ∉ d.dids) (hpack : toPlaceholder P d = some d1) :
    intoIota isIota P t d1 = .ok (rebase d.id t { d with addrs := false }) := by
  rw [pack_doc isIota P d hp] at hpack
  injection hpack with hpack
  subst hpack
  let g1 : Nat → Nat := fun x => if x = d.id then P else x
  let g2 : Nat → Nat := fun x => if x = P then t else x
  have hi1 : InjOn g1 d.dids := by
    intro x hx y hy hxy
    simp only [g1] at hxy
    by_cases h1 : x = d.id <;> by_cases h2 : y = d.id
    · rw [h1, h2]
    · rw [if_pos h1, if_neg h2] at hxy; exact absurd (hxy ▸ hy) hp.noP
    · rw [if_neg h1, if_pos h2] at hxy; exact absurd (hxy ▸ hx) hp.noP
    · rw [if_neg h1, if_neg h2] at hxy; exact hxy
  have hcomp : ∀ x ∈ d.dids, g2 (g1 x) = if x = d.id then t else x := by
    intro x hx
    simp only [g1, g2]
    by_cases h1 : x = d.id
    · simp [h1]
    · have : x ≠ P := fun e => hp.noP (e ▸ hx)
      simp [h1, this]
  have hi : InjOn (fun x => if x = d.id then t else x) d.dids := by
    intro x hx y hy hxy
    simp only at hxy
    rcases ht with ht | ht
    · subst ht
      have e1 : (if x = d.id then d.id else x) = x := by split <;> simp_all
      have e2 : (if y = d.id then d.id else y) = y := by split <;> simp_all
      rw [e1, e2] at hxy; exact hxy
    · by_cases h1 : x = d.id <;> by_cases h2 : y = d.id
      · rw [h1, h2]
      · rw [if_pos h1, if_neg h2] at hxy; exact absurd (hxy ▸ hy) ht
      · rw [if_neg h1, if_pos h2] at hxy; exact absurd (hxy ▸ hx) ht
      · rw [if_neg h1, if_neg h2] at hxy; exact hxy
  -- the packed document
  let dp : IDoc := { d.mapP g1 with addrs := false }
  have hwp : WFI dp := wfi_addrs _ false (wfi_mapP g1 d hp.wf hi1)
  have hdids : ∀ y ∈ dp.dids, ∃ x ∈ d.dids, y = g1 x := fun y hy => mem_dids_mapP g1 d y hy
  have hi2 : InjOn g2 dp.dids := by
    intro a ha b hb hab
    obtain ⟨x, hx, rfl⟩ := hdids a ha
    obtain ⟨y, hy, rfl⟩ := hdids b hb
    rw [hcomp x hx, hcomp y hy] at hab
    rw [hi x hx y hy hab]
  have hstrict : ∀ y, (y = P ∨ isIota y = true) →
      (fun x => if x = P then some t else if (Gen.C14.idAndControllerChecked && !isIota x) = true then none else some x) y
        = some (g2 y) := by
    intro y hy
    simp only [g2]
    by_cases h1 : y = P
    · simp [h1]
    · rcases hy with hy | hy
      · exact absurd hy h1
      · simp [h1, hy]
  have hid : dp.id = P := by simp [dp, IDoc.mapP, g1]
  unfold intoIota intoIotaG
  simp only
  rw [dataTryMap_pure _ _ _ _ g2 dp hwp hi2 (hstrict _ (Or.inl hid)) ?_ (fun _ _ => rfl) (fun _ _ => rfl)]
  · simp only
    have hsz : (Gen.C14.tryMapChecksSizes && (dp.mapP g2).sizes != dp.sizes) = false := by
      simp [IDoc.sizes, IDoc.mapP]
    rw [if_neg (by rw [hsz]; simp)]
    have hgate : Meta.gate (dp.mapP g2) = some (dp.mapP g2) := by
      unfold Meta.gate
      rw [if_pos (inv_check _ (inv_mapP g2 dp hwp hi2))]
    rw [hgate]
    simp only
    congr 1
    show ({ d.mapP g1 with addrs := false } : IDoc).mapP g2 = rebase d.id t { d with addrs := false }
    have e1 : ({ d.mapP g1 with addrs := false } : IDoc) = ({ d with addrs := false } : IDoc).mapP g1 := rfl
    rw [e1, mapP_comp]
    unfold rebase
    apply mapP_congr
    intro x hx
    exact hcomp x hx
  · -- controllers of the packed document are the placeholder or IOTA DIDs
    intro y hy
    apply hstrict
    have : y ∈ (ctlDids d.controller).map g1 := by
      have := ctlDids_mapP g1 d
      simp only [dp] at hy
      rw [show ({ d.mapP g1 with addrs := false } : IDoc).controller = (d.mapP g1).controller from rfl, this] at hy
      exact hy
    obtain ⟨x, hx, rfl⟩ := List.mem_map.1 this
    simp only [g1]
    by_cases h1 : x = d.id
    · left; simp [h1]
    · right; simp [h1, hp.ctlIota x hx]

/-- **round trip for the same DID**: an equal document and metadata, ledger address fields excepted -/
theorem unpack_same (isIota : Nat → Bool) (P : Nat) (d d1 : IDoc) (hp : Packable isIota P d)
    (hpack : toPlaceholder P d = some d1) : intoIota isIota P d.id d1 = .ok { d with addrs := false } := by
  rw [unpack_rebase isIota P d.id d d1 hp (Or.inl rfl) hpack]
  have : ({ d with addrs := false } : IDoc).id = d.id := rfl
  rw [show rebase d.id d.id { d with addrs := false } = { d with addrs := false } from by
    have := rebase_self d.id { d with addrs := false }
    exact this]

/-- foreign DIDs are untouched by a rebase, and the own DID becomes the target -/
theorem rebase_points (s t x : Nat) : (if x = s then t else x) = (if x = s then t else x) ∧
    (x ≠ s → (fun y => if y = s then t else y) x = x) ∧ (fun y => if y = s then t else y) s = t := by
  refine ⟨rfl, fun h => by simp [h], by simp⟩

/-- an id that is neither the placeholder nor an IOTA DID is refused when unpacking -/
theorem unpack_rejects_foreign_id (isIota : Nat → Bool) (P t : Nat) (d : IDoc) (h1 : d.id ≠ P)
    (h2 : isIota d.id = false) : intoIota isIota P t d = .error .notIota := by
  unfold intoIota intoIotaG
  simp only [dataTryMap, h1, ↓reduceIte, Gen.C14.idAndControllerChecked, h2, Bool.not_false, Bool.and_self]

/-! ## end to end, over an arbitrary JSON codec -/

/-- `IotaDocument::pack` -/
def packBytes (P : Nat) (enc : IDoc → List Nat) (d : IDoc) : Option (List Nat) :=
  match toPlaceholder P d with
  | some x => frame (enc x)
  | none => none

inductive UnpackErr
  | frame (e : FErr) | json | rewrite (e : UErr)
  deriving DecidableEq

/-- `StateMetadataDocument::unpack` then `into_iota_document`; deserialising the `CoreDocument` inside applies the
id-constraint gate -/
def unpackBytes (isIota : Nat → Bool) (P : Nat) (dec : List Nat → Option IDoc) (t : Nat) (bs : List Nat) :
    Except UnpackErr IDoc :=
  match unframe bs with
  | .error e => .error (.frame e)
  | .ok payload =>
    match dec payload with
    | none => .error .json
    | some x =>
      match Meta.gate x with
      | none => .error .json
      | some x' =>
        match intoIota isIota P t x' with
        | .error e => .error (.rewrite e)
        | .ok d => .ok d

/-- **the property, end to end**: for every packable document whose JSON fits the 16-bit length, packing
succeeds, and unpacking those bytes — followed by arbitrary further bytes — for any target DID not mentioned as a
foreign DID yields the rebased document; for the document's own DID, the document itself -/
theorem pack_unpack (isIota : Nat → Bool) (P t : Nat) (enc : IDoc → List Nat) (dec : List Nat → Option IDoc)
    (hcodec : ∀ x, dec (enc x) = some x) (d : IDoc) (hp : Packable isIota P d)
    (hlen : ∀ x, toPlaceholder P d = some x → (enc x).length ≤ 65535) (ht : t = d.id ∨ t ∉ d.dids) :
    ∃ bs, packBytes P enc d = some bs ∧
      ∀ extra, unpackBytes isIota P dec t (bs ++ extra) = .ok (rebase d.id t { d with addrs := false }) := by
  have hpd := pack_doc isIota P d hp
  have hl := hlen _ hpd
  have hfr : ∃ bs, frame (enc { d.mapP (fun x => if x = d.id then P else x) with addrs := false }) = some bs := by
    cases hf : frame (enc { d.mapP (fun x => if x = d.id then P else x) with addrs := false }) with
    | some bs => exact ⟨bs, rfl⟩
    | none => have := (frame_none_iff _).1 hf; omega
  obtain ⟨bs, hbs⟩ := hfr
  refine ⟨bs, ?_, ?_⟩
  · unfold packBytes; rw [hpd]; exact hbs
  · intro extra
    unfold unpackBytes
    rw [unframe_frame _ extra bs hbs]
    simp only [hcodec]
    have hi1 : InjOn (fun x => if x = d.id then P else x) d.dids := by
      intro x hx y hy hxy
      simp only at hxy
      by_cases h1 : x = d.id <;> by_cases h2 : y = d.id
      · rw [h1, h2]
      · rw [if_pos h1, if_neg h2] at hxy; exact absurd (hxy ▸ hy) hp.noP
      · rw [if_neg h1, if_pos h2] at hxy; exact absurd (hxy ▸ hx) hp.noP
      · rw [if_neg h1, if_neg h2] at hxy; exact hxy
    have hg : Meta.gate { d.mapP (fun x => if x = d.id then P else x) with addrs := false }
        = some { d.mapP (fun x => if x = d.id then P else x) with addrs := false } := by
      unfold Meta.gate
      rw [if_pos (inv_check _ (wfi_addrs _ false (wfi_mapP _ d hp.wf hi1)).inv)]
    rw [hg]
    simp only
    rw [unpack_rebase isIota P t d _ hp ht hpd]

/-! ## why the target must not be mentioned as a foreign DID

The collections are rebuilt with `collect::<OrderedSet>`, which silently keeps the first of two entries with one key. -/

/-- document 0 with its own method `#1` and a method `1#1` of DID 1 -/
def clashDoc : IDoc :=
  ⟨0, none, [⟨⟨0, 0, some 1⟩, 0, 11⟩, ⟨⟨1, 0, some 1⟩, 1, 12⟩], [], [], [], [], [], [], false, 0⟩

/-- before `CoreDocument::try_map` compared collection sizes: unpacked for DID 1, both methods get the id `1#1`
and the second was dropped without an error -/
theorem rebase_onto_mentioned_did_dropped_an_entry :
    (toPlaceholder 99 clashDoc).map (intoIotaG false (fun _ => true) 99 1) =
      some (.ok ⟨1, none, [⟨⟨1, 0, some 1⟩, 1, 11⟩], [], [], [], [], [], [], false, 0⟩) := by decide

/-- now it is refused -/
theorem rebase_onto_mentioned_did_is_refused :
    (toPlaceholder 99 clashDoc).map (intoIota (fun _ => true) 99 1) = some (.error .gate) := by decide

/-- **any target DID whatsoever**: unpacking what was packed either fails or yields the document with every
self-reference rewritten to the target, no entry lost and nothing else changed (a controller *set* is
de-duplicated, as sets are) — it is never silently something else -/
theorem unpack_any_target (isIota : Nat → Bool) (P t : Nat) (d d1 : IDoc) (hp : Packable isIota P d)
    (hpack : toPlaceholder P d = some d1) :
    (∃ e, intoIota isIota P t d1 = .error e) ∨
    intoIota isIota P t d1 = .ok (({ d with addrs := false } : IDoc).mapC (fun x => if x = d.id then t else x)) := by
  rw [pack_doc isIota P d hp] at hpack
  injection hpack with hpack
  subst hpack
  let g1 : Nat → Nat := fun x => if x = d.id then P else x
  let g2 : Nat → Nat := fun x => if x = P then t else x
  have hi1 : InjOn g1 d.dids := by
    intro x hx y hy hxy
    simp only [g1] at hxy
    by_cases h1 : x = d.id <;> by_cases h2 : y = d.id
    · rw [h1, h2]
    · rw [if_pos h1, if_neg h2] at hxy; exact absurd (hxy ▸ hy) hp.noP
    · rw [if_neg h1, if_pos h2] at hxy; exact absurd (hxy ▸ hx) hp.noP
    · rw [if_neg h1, if_neg h2] at hxy; exact hxy
  have hcomp : ∀ x ∈ d.dids, g2 (g1 x) = if x = d.id then t else x := by
    intro x hx
    simp only [g1, g2]
    by_cases h1 : x = d.id
    · simp [h1]
    · have : x ≠ P := fun e => hp.noP (e ▸ hx)
      simp [h1, this]
  let dp : IDoc := { d.mapP g1 with addrs := false }
  have hstrict : ∀ y, (y = P ∨ isIota y = true) →
      (fun x => if x = P then some t else if (Gen.C14.idAndControllerChecked && !isIota x) = true then none else some x) y
        = some (g2 y) := by
    intro y hy
    simp only [g2]
    by_cases h1 : y = P
    · simp [h1]
    · rcases hy with hy | hy
      · exact absurd hy h1
      · simp [h1, hy]
  have hid : dp.id = P := by simp [dp, IDoc.mapP, g1]
  have hctl : ∀ y ∈ ctlDids dp.controller,
      (fun x => if x = P then some t else if (Gen.C14.idAndControllerChecked && !isIota x) = true then none else some x) y
        = some (g2 y) := by
    intro y hy
    apply hstrict
    have : y ∈ (ctlDids d.controller).map g1 := by
      have := ctlDids_mapP g1 d
      rw [show dp.controller = (d.mapP g1).controller from rfl, this] at hy
      exact hy
    obtain ⟨x, hx, rfl⟩ := List.mem_map.1 this
    simp only [g1]
    by_cases h1 : x = d.id
    · left; simp [h1]
    · right; simp [h1, hp.ctlIota x hx]
  unfold intoIota intoIotaG
  simp only
  rw [dataTryMap_total _ _ _ _ g2 dp (hstrict _ (Or.inl hid)) hctl (fun _ _ => rfl) (fun _ _ => rfl)]
  simp only [Gen.C14.tryMapChecksSizes, Bool.true_and]
  by_cases hs : (dp.mapD g2).sizes = dp.sizes
  · have hne : ((dp.mapD g2).sizes != dp.sizes) = false := by simp [hs]
    rw [hne]
    simp only [Bool.false_eq_true, ↓reduceIte]
    rw [mapD_eq_of_sizes g2 dp hs]
    cases hg : Meta.gate (dp.mapC g2) with
    | none => left; exact ⟨_, rfl⟩
    | some x =>
      right
      unfold Meta.gate at hg
      split at hg
      · injection hg with hg
        subst hg
        simp only
        congr 1
        -- dp.mapC g2 = ({d with addrs := false}).mapC (g2 ∘ g1) = … g
        have e1 : dp = ({ d with addrs := false } : IDoc).mapP g1 := rfl
        unfold IDoc.mapC
        rw [e1, mapP_comp]
        have hc : (({ d with addrs := false } : IDoc).mapP g1).controller.map (oosMapC g2)
            = d.controller.map (oosMapC (g2 ∘ g1)) := by
          show (d.controller.map (oosMapP g1)).map (oosMapC g2) = _
          rw [Option.map_map]
          cases hcc : d.controller with
          | none => rfl
          | some c =>
            simp only [Option.map_some, Function.comp_apply, Option.some.injEq]
            exact oosMapC_comp_inj g1 g2 c (hp.wf.ctl c hcc)
              (fun x hx y hy => hi1 x (mem_dids_ctl d x (by rw [hcc]; exact hx)) y (mem_dids_ctl d y (by rw [hcc]; exact hy)))
        rw [hc]
        have hd : ({ d with addrs := false } : IDoc).dids = d.dids := rfl
        rw [mapP_congr (g2 ∘ g1) (fun x => if x = d.id then t else x) _ (fun x hx => hcomp x (hd ▸ hx))]
        have : d.controller.map (oosMapC (g2 ∘ g1)) = d.controller.map (oosMapC (fun x => if x = d.id then t else x)) := by
          cases hcc : d.controller with
          | none => rfl
          | some c =>
            simp only [Option.map_some, Option.some.injEq]
            exact oosMapC_congr _ _ c (fun x hx => hcomp x (mem_dids_ctl d x (by rw [hcc]; exact hx)))
        rw [this]
      · cases hg
  · have hne : ((dp.mapD g2).sizes != dp.sizes) = true := by simp [hs]
    rw [hne]
    left; exact ⟨_, rfl⟩

/-! ## non-vacuity -/

def demo : IDoc :=
  ⟨0, some (.set [0, 2]), [⟨⟨0, 0, some 1⟩, 0, 11⟩, ⟨⟨3, 0, some 1⟩, 3, 12⟩], [.refer ⟨0, 0, some 1⟩, .embed ⟨⟨0, 0, some 2⟩, 2, 13⟩],
   [], [], [], [.refer ⟨3, 0, some 9⟩], [⟨⟨0, 0, some 5⟩, 14⟩], true, 7⟩

example : (toPlaceholder 99 demo).map (intoIota (fun x => x < 50) 99 0) = some (.ok { demo with addrs := false }) := by
  decide

example : (toPlaceholder 99 demo).map (intoIota (fun x => x < 50) 99 4) =
    some (.ok ⟨4, some (.set [4, 2]), [⟨⟨4, 0, some 1⟩, 4, 11⟩, ⟨⟨3, 0, some 1⟩, 3, 12⟩],
      [.refer ⟨4, 0, some 1⟩, .embed ⟨⟨4, 0, some 2⟩, 2, 13⟩], [], [], [], [.refer ⟨3, 0, some 9⟩],
      [⟨⟨4, 0, some 5⟩, 14⟩], false, 7⟩) := by decide

example : unframe ([68, 73, 68, 1, 0, 2, 0, 5, 6, 7, 8]) = .ok [5, 6] := by decide

end IdModel.Props.C14
