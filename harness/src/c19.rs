//! C19 — OrderedSet / OneOrSet / OneOrMany against the Lean model `IdModel.OSet`.
use crate::rng::Rng;
use identity_core::common::KeyComparable;
use identity_core::common::OneOrMany;
use identity_core::common::OneOrSet;
use identity_core::common::OrderedSet;
use std::io::Write;

#[derive(Clone, Copy, Debug, PartialEq, Eq, serde::Serialize, serde::Deserialize)]
struct S {
  key: u8,
  val: u8,
}
impl KeyComparable for S {
  type Key = u8;
  fn key(&self) -> &u8 {
    &self.key
  }
}

/// element with key `k mod n`
#[derive(Clone, Copy, Debug, PartialEq, Eq)]
struct M {
  key: u8,
  val: u8,
}
impl KeyComparable for M {
  type Key = u8;
  fn key(&self) -> &u8 {
    &self.key
  }
}

fn pe(t: &str) -> Option<S> {
  let mut it = t.split(':');
  let k = it.next()?.parse().ok()?;
  let v = it.next()?.parse().ok()?;
  if it.next().is_some() {
    return None;
  }
  Some(S { key: k, val: v })
}
fn se(e: &S) -> String {
  format!("{}:{}", e.key, e.val)
}
fn sl(l: &[S]) -> String {
  format!("[{}]", l.iter().map(se).collect::<Vec<_>>().join(","))
}
fn uniq(l: &[S]) -> bool {
  for i in 0..l.len() {
    for j in 0..i {
      if l[i].key == l[j].key {
        return false;
      }
    }
  }
  true
}

/// every read-only view of an `OrderedSet` must agree with `as_slice` (the order the model predicts)
fn obs_oset(set: &OrderedSet<S>, what: &str) -> Option<String> {
  let sl_ = set.as_slice();
  let bad = |v: &str| Some(format!("observer-inconsistent:OrderedSet::{} after {} contents {}", v, what, sl(sl_)));
  if set.len() != sl_.len() {
    return bad("len");
  }
  if set.is_empty() != sl_.is_empty() {
    return bad("is_empty");
  }
  if set.head() != sl_.first() {
    return bad("head");
  }
  if set.tail() != sl_.last() {
    return bad("tail");
  }
  if set.iter().copied().collect::<Vec<S>>() != sl_ {
    return bad("iter");
  }
  if set.clone().into_vec() != sl_ {
    return bad("into_vec");
  }
  if set.clone().into_iter().collect::<Vec<S>>() != sl_ {
    return bad("into_iter");
  }
  if (&**set) != sl_ {
    return bad("deref");
  }
  for k in 0u8..8 {
    if set.contains(&S { key: k, val: 9 }) != sl_.iter().any(|e| e.key == k) {
      return bad("contains");
    }
  }
  let mut c = set.clone();
  if c.head_mut().map(|e| *e) != sl_.first().copied() || c.tail_mut().map(|e| *e) != sl_.last().copied() {
    return bad("head_mut/tail_mut");
  }
  if c.iter_mut_unchecked().map(|e| *e).collect::<Vec<S>>() != sl_ {
    return bad("iter_mut_unchecked");
  }
  c.clear();
  if !c.is_empty() || c.len() != 0 {
    return bad("clear");
  }
  match serde_json::to_value(set).ok().and_then(|j| serde_json::from_value::<OrderedSet<S>>(j).ok()) {
    Some(back) if &back == set => {}
    _ => return bad("json-roundtrip"),
  }
  None
}

fn obs_oos(r: &OneOrSet<S>, what: &str) -> Option<String> {
  let sl_ = r.as_slice();
  let bad = |v: &str| Some(format!("observer-inconsistent:OneOrSet::{} after {} contents {}", v, what, sl(sl_)));
  if r.len() != sl_.len() {
    return bad("len");
  }
  for i in 0..sl_.len() + 2 {
    if r.get(i) != sl_.get(i) {
      return bad("get");
    }
  }
  if r.iter().copied().collect::<Vec<S>>() != sl_ {
    return bad("iter");
  }
  if r.clone().into_vec() != sl_ || Vec::<S>::from(r.clone()) != sl_ {
    return bad("into_vec");
  }
  if OrderedSet::<S>::from(r.clone()).as_slice() != sl_ {
    return bad("into OrderedSet");
  }
  if (&**r) != sl_ || AsRef::<[S]>::as_ref(r) != sl_ {
    return bad("deref/as_ref");
  }
  for k in 0u8..8 {
    if r.contains(&S { key: k, val: 9 }) != sl_.iter().any(|e| e.key == k) {
      return bad("contains");
    }
  }
  // the fallible map with a closure that never fails is the plain map; with one that fails it is an error
  let a = r.clone().map(|e| M { key: e.key, val: e.val });
  match r.clone().try_map(|e| Ok::<M, ()>(M { key: e.key, val: e.val })) {
    Ok(b) if b == a && format!("{:?}", a) == format!("{:?}", b) => {}
    _ => return bad("try_map(ok) != map"),
  }
  for i in 0..sl_.len() {
    let mut n = 0;
    let res = r.clone().try_map(|e| {
      n += 1;
      if n == i + 1 {
        Err(())
      } else {
        Ok(M { key: e.key, val: e.val })
      }
    });
    if res.is_ok() {
      return bad("try_map(err) accepted");
    }
  }
  None
}

fn obs_oom(r: &OneOrMany<S>, what: &str) -> Option<String> {
  let sl_ = r.as_slice();
  let bad = |v: &str| Some(format!("observer-inconsistent:OneOrMany::{} after {} contents {}", v, what, sl(sl_)));
  if r.len() != sl_.len() || r.is_empty() != sl_.is_empty() {
    return bad("len/is_empty");
  }
  let mut c = r.clone();
  for i in 0..sl_.len() + 2 {
    if r.get(i) != sl_.get(i) || c.get_mut(i).map(|e| *e) != sl_.get(i).copied() {
      return bad("get");
    }
  }
  if r.iter().copied().collect::<Vec<S>>() != sl_ {
    return bad("iter");
  }
  if r.clone().into_vec() != sl_ || Vec::<S>::from(r.clone()) != sl_ {
    return bad("into_vec");
  }
  if r.clone().into_iter().collect::<Vec<S>>() != sl_ {
    return bad("into_iter");
  }
  if (&**r) != sl_ || AsRef::<[S]>::as_ref(r) != sl_ {
    return bad("deref/as_ref");
  }
  for k in 0u8..6 {
    for v in 0u8..3 {
      let e = S { key: k, val: v };
      if r.contains(&e) != sl_.contains(&e) {
        return bad("contains");
      }
    }
  }
  None
}

fn split<'a>(args: &'a [&'a str]) -> (&'a [&'a str], &'a [&'a str]) {
  match args.iter().position(|t| *t == "|") {
    Some(i) => (&args[..i], &args[i + 1..]),
    None => (args, &[]),
  }
}

fn run_oset(args: &[&str]) -> String {
  let (es, ops) = split(args);
  let es: Option<Vec<S>> = es.iter().map(|t| pe(t)).collect();
  let Some(es) = es else { return "bad-request".into() };
  // start contents are given duplicate-free by the generator; build through the checked ctor
  let Ok(mut set) = OrderedSet::try_from(es) else { return "bad-request".into() };
  let mut out = vec![];
  let mut fail: Option<String> = obs_oset(&set, "try_from");
  for op in ops {
    let p: Vec<&str> = op.split(':').collect();
    let n = |i: usize| -> Option<u8> { p.get(i)?.parse().ok() };
    let flag = match p[0] {
      "a" => (|| Some(if set.append(S { key: n(1)?, val: n(2)? }) { "T".to_string() } else { "F".to_string() }))(),
      "p" => (|| Some(if set.prepend(S { key: n(1)?, val: n(2)? }) { "T".to_string() } else { "F".to_string() }))(),
      "u" => (|| Some(if set.update(S { key: n(1)?, val: n(2)? }) { "T".to_string() } else { "F".to_string() }))(),
      "r" => (|| {
        let cur = S { key: n(1)?, val: 0 };
        Some(if set.replace(&cur, S { key: n(2)?, val: n(3)? }) { "T".to_string() } else { "F".to_string() })
      })(),
      "d" => (|| {
        let cur = S { key: n(1)?, val: 0 };
        Some(match set.remove(&cur) {
          Some(e) => se(&e),
          None => "N".to_string(),
        })
      })(),
      _ => None,
    };
    let Some(flag) = flag else { return "bad-request".into() };
    if !uniq(set.as_slice()) && fail.is_none() {
      fail = Some(format!("duplicate-key:after {} contents {}", op, sl(set.as_slice())));
    }
    if fail.is_none() {
      fail = obs_oset(&set, op);
    }
    out.push(format!("{}{}", flag, sl(set.as_slice())));
  }
  let mut s = out.join(" ");
  if let Some(f) = fail {
    s.push_str(&format!("\t#FAIL:{}", f));
  }
  s
}

fn show_oos(r: &OneOrSet<S>) -> String {
  // distinguish the variants by their JSON shape (bare value vs array)
  let j = serde_json::to_value(r).unwrap();
  if j.is_array() {
    format!("set{}", sl(r.as_slice()))
  } else {
    format!("one({})", se(&r.as_slice()[0]))
  }
}
fn show_oos_m(r: &OneOrSet<M>) -> String {
  let v: Vec<S> = r.as_slice().iter().map(|m| S { key: m.key, val: m.val }).collect();
  // OneOrSet<M> is not Serialize; Debug prints a set with braces, a single value without
  let d = format!("{:?}", r);
  if d.starts_with('{') {
    format!("set{}", sl(&v))
  } else {
    format!("one({})", se(&v[0]))
  }
}

fn run_oos(args: &[&str]) -> String {
  let (es, ops) = split(args);
  let es: Option<Vec<S>> = es.iter().map(|t| pe(t)).collect();
  let Some(es) = es else { return "bad-request".into() };
  let single = es.len() == 1;
  // every constructor path must give the same value (and the same shape)
  let mut fail: Option<String> = None;
  {
    let same = |a: &Result<OneOrSet<S>, identity_core::Error>, b: &Result<OneOrSet<S>, identity_core::Error>| match (a, b) {
      (Ok(x), Ok(y)) => x == y && serde_json::to_value(x).unwrap() == serde_json::to_value(y).unwrap(),
      (Err(_), Err(_)) => true,
      _ => false,
    };
    let a = OneOrSet::try_from(es.clone());
    if let Ok(set) = OrderedSet::try_from(es.clone()) {
      let b = OneOrSet::new_set(set.clone());
      let c = OneOrSet::try_from(set.clone());
      if !same(&a, &b) || !same(&a, &c) {
        fail = Some(format!("ctor-paths-differ:OneOrSet try_from(vec) / new_set / try_from(set) on {}", sl(&es)));
      }
      if es.is_empty() && (a.is_ok() || b.is_ok() || c.is_ok()) {
        fail = Some("one-or-set-empty:constructor".into());
      }
      if let Ok(b) = &b {
        if b.as_slice() != es.as_slice() {
          fail = Some(format!("ctor-paths-differ:OneOrSet::new_set contents on {}", sl(&es)));
        }
      }
    } else if a.is_ok() {
      fail = Some(format!("duplicate-accepted:OneOrSet::try_from on {}", sl(&es)));
    }
    if single {
      for (n, v) in [("new_one", OneOrSet::new_one(es[0])), ("from", OneOrSet::from(es[0]))] {
        if !same(&a, &Ok(v.clone())) || serde_json::to_value(&v).unwrap().is_array() {
          fail = Some(format!("singleton-not-bare:OneOrSet::{}", n));
        }
      }
    }
  }
  let Ok(mut r) = OneOrSet::try_from(es) else {
    return match fail {
      Some(f) => format!("err\t#FAIL:{}", f),
      None => "err".into(),
    };
  };
  fn chk(r: &OneOrSet<S>, what: &str) -> Option<String> {
    if r.len() == 0 {
      return Some(format!("one-or-set-empty:{}", what));
    }
    if !uniq(r.as_slice()) {
      return Some(format!("one-or-set-duplicate:{}", what));
    }
    let j = serde_json::to_string(r).unwrap();
    match serde_json::from_str::<OneOrSet<S>>(&j) {
      Ok(back) if &back == r => obs_oos(r, what),
      _ => Some(format!("one-or-set-json-roundtrip:{} {}", what, j)),
    }
  }
  fail = fail.or(chk(&r, "ctor"));
  if single && serde_json::to_value(&r).unwrap().is_array() && fail.is_none() {
    fail = Some("singleton-not-bare:OneOrSet::try_from(vec![x])".into());
  }
  let mut out = vec![show_oos(&r)];
  let mut ops = ops.iter();
  while let Some(op) = ops.next() {
    let p: Vec<&str> = op.split(':').collect();
    match p[0] {
      "a" => {
        let (Some(k), Some(v)) = (p.get(1).and_then(|x| x.parse().ok()), p.get(2).and_then(|x| x.parse().ok())) else {
          return "bad-request".into();
        };
        let b = r.append(S { key: k, val: v });
        fail = fail.clone().or(chk(&r, op));
        out.push(format!("{}{}", if b { "T" } else { "F" }, show_oos(&r)));
      }
      "m" => {
        let Some(n) = p.get(1).and_then(|x| x.parse::<u8>().ok()) else { return "bad-request".into() };
        let m: OneOrSet<M> = r.clone().map(|e| M { key: e.key % n, val: e.val });
        out.push(format!("M{}", show_oos_m(&m)));
        if m.len() == 0 && fail.is_none() {
          fail = Some("one-or-set-empty:map".into());
        }
        // continue with the mapped value re-typed as S
        let v: Vec<S> = m.as_slice().iter().map(|m| S { key: m.key, val: m.val }).collect();
        let Ok(r2) = OneOrSet::try_from(v) else {
          fail.get_or_insert("one-or-set-duplicate:map".into());
          break;
        };
        // try_from normalises a singleton; keep the shape the library produced for printing only
        r = r2;
        if ops.len() > 0 {
          // the generator puts `m` last; anything after would see the normalised value
        }
      }
      _ => return "bad-request".into(),
    }
  }
  let mut s = out.join(" ");
  if let Some(f) = fail {
    s.push_str(&format!("\t#FAIL:{}", f));
  }
  s
}

fn show_oom(r: &OneOrMany<S>) -> String {
  match r {
    OneOrMany::One(x) => format!("one({})", se(x)),
    OneOrMany::Many(xs) => format!("many{}", sl(xs)),
  }
}

fn run_oom(args: &[&str]) -> String {
  let (es, ops) = split(args);
  let es: Option<Vec<S>> = es.iter().map(|t| pe(t)).collect();
  let Some(es) = es else { return "bad-request".into() };
  let mut fail: Option<String> = None;
  let from_iter: OneOrMany<S> = es.iter().copied().collect();
  let single = es.len() == 1;
  let mut r: OneOrMany<S> = OneOrMany::from(es);
  if from_iter != r {
    fail = Some("one-or-many-from-iter-differs-from-vec:".into());
  }
  // iterators with other size hints: (0, Some(n)) from a filter, the adapter behind collect::<Result<_, _>>(), and
  // hints that under- / over-report
  {
    struct Hint<I>(I, (usize, Option<usize>));
    impl<I: Iterator> Iterator for Hint<I> {
      type Item = I::Item;
      fn next(&mut self) -> Option<I::Item> {
        self.0.next()
      }
      fn size_hint(&self) -> (usize, Option<usize>) {
        self.1
      }
    }
    let src = r.as_slice().to_vec();
    let mut variants: Vec<(&str, OneOrMany<S>)> = vec![
      ("filter", src.iter().copied().filter(|_| true).collect()),
      ("filter_map", src.iter().copied().filter_map(Some).collect()),
      ("skip_while", src.iter().copied().skip_while(|_| false).collect()),
      ("chain", src.iter().copied().chain(std::iter::empty()).collect()),
    ];
    if let Ok(v) = src.iter().copied().map(Ok::<S, ()>).collect::<Result<OneOrMany<S>, ()>>() {
      variants.push(("collect::<Result<_, _>>", v));
    } else {
      fail = Some("one-or-many-from-iter-differs-from-vec:collect::<Result<_, _>> of Ok items fails".into());
    }
    for h in [(0, None), (0, Some(0)), (0, Some(1)), (1, Some(1)), (1, None), (0, Some(src.len())), (src.len(), Some(src.len()))] {
      variants.push(("size hint", Hint(src.clone().into_iter(), h).collect()));
    }
    for (name, v) in variants {
      if v != r && fail.is_none() {
        fail = Some(format!("one-or-many-from-iter-differs-from-vec:{} gives {} for {}", name, show_oom(&v), sl(&src)));
      }
    }
    let os: OrderedSet<S> = src.iter().copied().filter(|_| true).collect();
    let os2: OrderedSet<S> = src.iter().copied().collect();
    let os3: OrderedSet<S> = Hint(src.clone().into_iter(), (0, Some(1))).collect();
    // iterators without an upper bound (str::split, flatten, from_fn, …) or with a huge one (take_while over a large range);
    // every hint is a TRUE bound of the iterator
    for h in [(0, None), (src.len(), None), (0, Some(src.len())), (0, Some(usize::MAX)), (src.len(), Some(usize::MAX / 2)), (0, Some(src.len() + 1))] {
      let osh: OrderedSet<S> = Hint(src.clone().into_iter(), h).collect();
      if osh != os2 && fail.is_none() {
        fail = Some(format!("duplicate-key:OrderedSet::from_iter with size hint {:?} gives {} elements of {}", h, osh.len(), sl(&src)));
      }
    }
    let flat: OrderedSet<S> = vec![src.clone()].into_iter().flatten().collect();
    let mut it = src.clone().into_iter();
    let from_fn: OrderedSet<S> = std::iter::from_fn(move || it.next()).collect();
    if (flat != os2 || from_fn != os2) && fail.is_none() {
      fail = Some("duplicate-key:OrderedSet::from_iter of an unbounded iterator differs from that of a Vec".into());
    }
    if (os != os2 || os != os3) && fail.is_none() {
      fail = Some("duplicate-key:OrderedSet::from_iter depends on the iterator's size hint".into());
    }
  }
  if single && !matches!(r, OneOrMany::One(_)) {
    fail = Some("singleton-not-bare:OneOrMany::from(vec![x])".into());
  }
  if single && (OneOrMany::from(r.as_slice()[0]) != r || !matches!(OneOrMany::from(r.as_slice()[0]), OneOrMany::One(_))) {
    fail = Some("singleton-not-bare:OneOrMany::from(x)".into());
  }
  if OneOrMany::<S>::default() != OneOrMany::Many(vec![]) {
    fail = Some("ctor-paths-differ:OneOrMany::default".into());
  }
  let mut chk = |r: &OneOrMany<S>| {
    let j = serde_json::to_string(r).unwrap();
    match serde_json::from_str::<OneOrMany<S>>(&j) {
      Ok(back) if &back == r => {
        if let Some(f) = obs_oom(r, "push") {
          fail.get_or_insert(f);
        }
      }
      _ => {
        fail.get_or_insert(format!("one-or-many-json-roundtrip:{}", j));
      }
    }
  };
  chk(&r);
  let mut out = vec![show_oom(&r)];
  // the same value reached through other allocation states (an empty `Many` whose vector has spare capacity, one that was
  // filled and cleared, a deserialised one): every push must lead them through the same values
  let mut alts: Vec<(&str, OneOrMany<S>)> = vec![];
  if r.is_empty() {
    alts.push(("with_capacity", OneOrMany::from(Vec::<S>::with_capacity(8))));
    let mut v = vec![S { key: 1, val: 1 }, S { key: 2, val: 2 }];
    v.clear();
    alts.push(("cleared", OneOrMany::Many(v)));
  } else {
    let mut v = Vec::with_capacity(r.len() + 7);
    v.extend_from_slice(r.as_slice());
    alts.push(("with_capacity", OneOrMany::from(v)));
  }
  if let Ok(b) = serde_json::from_str::<OneOrMany<S>>(&serde_json::to_string(&r).unwrap()) {
    alts.push(("deserialised", b));
  }
  let mut alt_fail: Option<String> = None;
  for op in ops {
    let Some(e) = pe(op) else { return "bad-request".into() };
    r.push(e);
    chk(&r);
    for (name, a) in alts.iter_mut() {
      a.push(e);
      if *a != r && alt_fail.is_none() {
        alt_fail = Some(format!("ctor-paths-differ:after the same pushes a OneOrMany that started `{}` is {} and not {}", name, show_oom(a), show_oom(&r)));
      }
    }
    out.push(show_oom(&r));
  }
  if fail.is_none() {
    fail = alt_fail;
  }
  let mut s = out.join(" ");
  if let Some(f) = fail {
    s.push_str(&format!("\t#FAIL:{}", f));
  }
  s
}

fn jv(args: &[&str], i: &mut usize) -> Option<serde_json::Value> {
  let t = *args.get(*i)?;
  *i += 1;
  if t == "n" {
    return Some(serde_json::json!(7));
  }
  if t == "[" {
    let mut v = vec![];
    loop {
      if *args.get(*i)? == "]" {
        *i += 1;
        return Some(serde_json::Value::Array(v));
      }
      v.push(jv(args, i)?);
    }
  }
  // `w:<text>`: a string in which `_` stands for a space and `^` for a tab (white space is part of a string's key)
  if let Some(w) = t.strip_prefix("w:") {
    return Some(serde_json::Value::String(w.replace('_', " ").replace('^', "\t")));
  }
  t.strip_prefix("s:").map(|s| serde_json::Value::String(s.to_string()))
}

fn run_json(args: &[&str]) -> String {
  let Some(ty) = args.first() else { return "bad-request".into() };
  let mut i = 1;
  let Some(v) = jv(args, &mut i) else { return "bad-request".into() };
  if i != args.len() {
    return "bad-request".into();
  }
  let ss = |l: &[String]| format!("[{}]", l.join(","));
  match *ty {
    "oset" => match serde_json::from_value::<OrderedSet<String>>(v) {
      Ok(s) => {
        let back: Result<OrderedSet<String>, _> = serde_json::from_value(serde_json::to_value(&s).unwrap());
        let f = if back.ok().as_ref() == Some(&s) { "" } else { "\t#FAIL:oset-json-roundtrip:" };
        format!("set{}{}", ss(s.as_slice()), f)
      }
      Err(_) => "err".into(),
    },
    "oos" => match serde_json::from_value::<OneOrSet<String>>(v) {
      Ok(s) => {
        let j = serde_json::to_value(&s).unwrap();
        let back: Result<OneOrSet<String>, _> = serde_json::from_value(j.clone());
        let mut f = if back.ok().as_ref() == Some(&s) { "".to_string() } else { "\t#FAIL:one-or-set-json-roundtrip:".to_string() };
        if s.len() == 0 {
          f = "\t#FAIL:one-or-set-empty:deserialised".into();
        }
        if j.is_array() {
          format!("set{}{}", ss(s.as_slice()), f)
        } else {
          format!("one({}){}", s.as_slice()[0], f)
        }
      }
      Err(_) => "err".into(),
    },
    "oom" => match serde_json::from_value::<OneOrMany<String>>(v) {
      Ok(s) => {
        let back: Result<OneOrMany<String>, _> = serde_json::from_value(serde_json::to_value(&s).unwrap());
        let f = if back.ok().as_ref() == Some(&s) { "" } else { "\t#FAIL:one-or-many-json-roundtrip:" };
        match &s {
          OneOrMany::One(x) => format!("one({}){}", x, f),
          OneOrMany::Many(xs) => format!("many{}{}", ss(xs), f),
        }
      }
      Err(_) => "err".into(),
    },
    _ => "bad-request".into(),
  }
}

pub fn run(args: &[&str]) -> String {
  match args.first().copied() {
    Some("oset") => run_oset(&args[1..]),
    Some("fromiter") => {
      let es: Option<Vec<S>> = args[1..].iter().map(|t| pe(t)).collect();
      let Some(es) = es else { return "bad-request".into() };
      let set: OrderedSet<S> = es.into_iter().collect();
      let f = if uniq(set.as_slice()) { "" } else { "\t#FAIL:duplicate-key:from_iter" };
      format!("{}{}", sl(set.as_slice()), f)
    }
    Some("tryfrom") => {
      let es: Option<Vec<S>> = args[1..].iter().map(|t| pe(t)).collect();
      let Some(es) = es else { return "bad-request".into() };
      let dup = !uniq(&es);
      match OrderedSet::try_from(es) {
        Ok(set) => {
          let f = if dup { "\t#FAIL:duplicate-accepted:try_from" } else { "" };
          format!("{}{}", sl(set.as_slice()), f)
        }
        Err(_) => {
          if dup {
            "err".into()
          } else {
            "err\t#FAIL:unique-rejected:try_from".into()
          }
        }
      }
    }
    Some("oos") => run_oos(&args[1..]),
    Some("oom") => run_oom(&args[1..]),
    Some("json") => run_json(&args[1..]),
    _ => "bad-request".into(),
  }
}

// ------------------------------------------------------------------------------------------------
// generation

fn all_ops(keys: &[u8], vals: &[u8]) -> Vec<String> {
  let mut v = vec![];
  for &k in keys {
    for &x in vals {
      v.push(format!("a:{}:{}", k, x));
      v.push(format!("p:{}:{}", k, x));
      v.push(format!("u:{}:{}", k, x));
      for &c in keys {
        v.push(format!("r:{}:{}:{}", c, k, x));
      }
    }
    v.push(format!("d:{}", k));
  }
  v
}

fn rand_op(r: &mut Rng, nk: u64) -> String {
  let k = r.below(nk);
  let v = r.below(3);
  match r.below(5) {
    0 => format!("a:{}:{}", k, v),
    1 => format!("p:{}:{}", k, v),
    2 => format!("u:{}:{}", k, v),
    3 => format!("r:{}:{}:{}", r.below(nk), k, v),
    _ => format!("d:{}", k),
  }
}

pub fn gen(thorough: bool, seed: u64, out: &mut impl Write) {
  let keys = [1u8, 2, 3];
  let vals = [0u8, 1];
  let ops = all_ops(&keys, &vals);
  // stream 2: exhaustive operation sequences from every duplicate-free start of size <= 2 (+ one of size 3)
  let mut starts: Vec<String> = vec!["".into()];
  for &a in &keys {
    starts.push(format!("{}:0", a));
    for &b in &keys {
      if a != b {
        starts.push(format!("{}:0 {}:1", a, b));
      }
    }
  }
  starts.push("1:0 2:0 3:0".into());
  let depth = if thorough { 3 } else { 2 };
  for st in &starts {
    let mut idx = vec![0usize; depth];
    loop {
      let seq: Vec<&str> = idx.iter().map(|&i| ops[i].as_str()).collect();
      writeln!(out, "C19 oset {} | {}", st, seq.join(" ")).unwrap();
      let mut p = depth;
      loop {
        if p == 0 {
          break;
        }
        p -= 1;
        idx[p] += 1;
        if idx[p] < ops.len() {
          break;
        }
        idx[p] = 0;
        if p == 0 {
          p = usize::MAX;
          break;
        }
      }
      if p == usize::MAX {
        break;
      }
    }
  }
  // a deeper exhaustive slice (length 3 quick / 4 thorough) over 2 keys, 1 value
  let ops2 = all_ops(&[1, 2], &[0]);
  let d2 = if thorough { 4 } else { 3 };
  let total = ops2.len().pow(d2 as u32);
  for st in ["", "1:1", "2:1 1:1"] {
    for mut n in 0..total {
      let mut seq = vec![];
      for _ in 0..d2 {
        seq.push(ops2[n % ops2.len()].as_str());
        n /= ops2.len();
      }
      writeln!(out, "C19 oset {} | {}", st, seq.join(" ")).unwrap();
    }
  }
  // stream 3: random histories
  let mut r = Rng::new(seed);
  let nrand = if thorough { 50_000 } else { 3_000 };
  for _ in 0..nrand {
    let nk = 2 + r.below(5);
    let len = 1 + r.below(50);
    let seq: Vec<String> = (0..len).map(|_| rand_op(&mut r, nk)).collect();
    writeln!(out, "C19 oset | {}", seq.join(" ")).unwrap();
  }
  // constructors from lists: every list of length <= 4 (5 thorough) over 3 keys x 2 values
  let elems: Vec<String> = keys.iter().flat_map(|k| vals.iter().map(move |v| format!("{}:{}", k, v))).collect();
  let maxlen = if thorough { 5 } else { 4 };
  for len in 0..=maxlen {
    let total = elems.len().pow(len as u32);
    for mut n in 0..total {
      let mut l = vec![];
      for _ in 0..len {
        l.push(elems[n % elems.len()].as_str());
        n /= elems.len();
      }
      let l = l.join(" ");
      writeln!(out, "C19 fromiter {}", l).unwrap();
      writeln!(out, "C19 tryfrom {}", l).unwrap();
      if len <= 3 {
        // one-or-set / one-or-many built from the list, then every single op, then a map
        for e in &elems {
          for n in [1, 2, 3] {
            writeln!(out, "C19 oos {} | a:{} m:{}", l, e, n).unwrap();
          }
          writeln!(out, "C19 oom {} | {} {}", l, e, elems[0]).unwrap();
        }
        writeln!(out, "C19 oos {} |", l).unwrap();
        writeln!(out, "C19 oom {} |", l).unwrap();
      }
    }
  }
  // strings that differ in surrounding white space only are different keys
  {
    let atoms = ["s:a", "w:a_", "w:_a", "w:a__", "w:a^", "w:_"];
    for ty in ["oset", "oos", "oom"] {
      for len in 1..=3usize {
        let total = atoms.len().pow(len as u32);
        for mut n in 0..total {
          let mut l = vec![];
          for _ in 0..len {
            l.push(atoms[n % atoms.len()]);
            n /= atoms.len();
          }
          writeln!(out, "C19 json {} [ {} ]", ty, l.join(" ")).unwrap();
        }
      }
    }
  }
  // JSON offered for deserialisation: bare values, all arrays of length <= 4 over {a,b,c}, nesting, non-strings
  let atoms = ["s:a", "s:b", "s:c", "n", "[ s:a ]", "[ ]"];
  for ty in ["oset", "oos", "oom"] {
    for a in &atoms {
      writeln!(out, "C19 json {} {}", ty, a).unwrap();
    }
    let maxlen = if thorough { 5 } else { 4 };
    for len in 0..=maxlen {
      let total = atoms.len().pow(len as u32);
      for mut n in 0..total {
        let mut l = vec![];
        for _ in 0..len {
          l.push(atoms[n % atoms.len()]);
          n /= atoms.len();
        }
        writeln!(out, "C19 json {} [ {} ]", ty, l.join(" ")).unwrap();
      }
    }
  }
}
