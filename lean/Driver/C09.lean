import IdModel.Store.Model
import IdModel.Store.Fragment
import Driver.C04
/-! Line-protocol handler for C09 (storage-backed generate / purge histories with fault masks).
See harness/src/c09.rs for the request grammar. -/
namespace Driver.C09
open IdModel.Doc IdModel.Store

def parseMask (t : String) : Option Faults :=
  -- an optional ninth character selects the KIND of error the failing calls return; the model's outcome does not depend on it
  match t.toList.take 8 with
  | [a, b, c, d, e, x, y, z] =>
    -- the last three (exists, sign, insert) name calls the modelled operations do not make
    -- `2`: the fault fires on the first occurrence of the call only; the modelled operations make no call twice
    let bit (ch : Char) : Option Bool := if ch == '1' || ch == '2' then some true else if ch == '0' then some false else none
    do
      let _ ← bit x; let _ ← bit y; let _ ← bit z
      pure ⟨← bit a, ← bit b, ← bit c, ← bit d, ← bit e⟩
  | _ => none

def parseFragArg (t : String) : Option (Option (Option Nat)) :=
  -- `S<hex>`: the fragment string itself; whether it is a fragment, and which, is decided by the C10 model of
  -- `DIDUrl::join` behind `VerificationMethod::new_from_jwk` (the base DID of the stream has no `%`, path, query)
  if t.startsWith "S" then
    match Driver.unhex (t.drop 1).toString with
    | some bs =>
      match methodFragment ("did:ex:d0".toUTF8.toList.map (·.toNat)) bs with
      | none => some none
      | some f => some (some (some (fragmentNumber f)))
    | none => none
  else
  if t == "X" || (t.length == 2 && t.startsWith "X") then some none  -- `X<n>`: other strings that are no fragment
  else if t == "~" then some (some none)
  else t.toNat?.map (fun n => some (some n))

def showErr : Err → String
  | .keyStorage => "keyStorage" | .construction => "construction" | .fragmentExists => "fragmentExists"
  | .keyIdStorage => "keyIdStorage" | .methodNotFound => "methodNotFound" | .digest => "digest"
  | .undoFailed => "undoFailed"

def insertSorted (x : Nat) : List Nat → List Nat
  | [] => [x]
  | y :: ys => if x ≤ y then x :: y :: ys else y :: insertSorted x ys

def sortNat (l : List Nat) : List Nat := l.foldr insertSorted []

def kidKey (e : Digest × Nat) : Nat := (e.1.1.getD 0) * 100000 + e.1.2

def insertKidSorted (x : Digest × Nat) : List (Digest × Nat) → List (Digest × Nat)
  | [] => [x]
  | y :: ys => if kidKey x ≤ kidKey y then x :: y :: ys else y :: insertKidSorted x ys

def showState (s : St) : String :=
  let ks := ",".intercalate ((sortNat s.keys).map toString)
  let is := ",".intercalate ((s.kids.foldr insertKidSorted []).map fun e =>
    s!"{C04.showFrag e.1.1}.{e.1.2}>{e.2}")
  s!"{C04.showDoc s.doc}|K={ks}|I={is}"

def runOps (s : St) : List String → List String
  | [] => []
  | t :: ts =>
    if t == "S" then showState s :: runOps s ts
    else match t.splitOn ":" with
      | ["gen", sc, fr, mask] =>
        match C04.parseScope sc, parseFragArg fr, parseMask mask with
        | some sc, some fr, some f =>
          let r := generate s f fr sc
          (match r.2 with
           | .ok n => s!"ok:{n}"
           | .error e => "err:" ++ showErr e) :: runOps r.1 ts
        | _, _, _ => ["bad-op"]
      | ["purge", i, mask] =>
        match C04.parseId i, parseMask mask with
        | some i, some f =>
          let r := purge s f i
          (match r.2 with
           | .ok _ => "ok"
           | .error e => "err:" ++ showErr e) :: runOps r.1 ts
        | _, _ => ["bad-op"]
      | _ =>
        match C04.parseOp t with
        | some op => let r := step s.doc op; C04.showRes r.2 :: runOps { s with doc := r.1 } ts
        | none => ["bad-op"]

def handle (args : List String) : String :=
  match args with
  | "hist" :: doc :: ops =>
    let ops := match ops with
      | "|" :: r => r
      | r => r
    match C04.parseData (doc.drop 1).toString with
    | none => "bad-request"
    | some x =>
      match fromData x with
      | none => "start:reject"
      | some d => " ".intercalate ("start:ok" :: runOps ⟨d, [], [], 0⟩ ops)
  | _ => "bad-request"

end Driver.C09
