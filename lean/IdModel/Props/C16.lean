import IdModel.Val.KbModel
import IdModel.Props.C02
import IdModel.Props.C07
/-!
# C16 — SD-JWT credentials and key-binding JWTs are accepted only when fully bound

Property theorems only.  The SD-JWT credential path is the C02 model (`IdModel.Val.Model`) with its disclosure flag:
the theorems of C02 apply verbatim and additionally yield `sdOk`.  The key-binding JWT is `IdModel.Val.KbModel`.
Whether a failed KB signature is an error (and not an `unwrap`), and the order of the claim checks, is regenerated
from the source (`IdModel.Gen.C16`).
-/
namespace IdModel.Props.C16
open IdModel.Val IdModel.Doc IdModel.Vc IdModel.Time

/-- **an SD-JWT credential is accepted only under the conditions of a plain JWT credential, and only if the disclosure
decoder accepted every supplied disclosure against the signed claims** -/
theorem sd_accepted_sound (docs : List Doc) (tok : Token) (o : VOpts) (service : Option (List Nat)) (c : Cred)
    (h : validate docs tok o service = .ok c) :
    C02.Verified docs tok o c ∧ C02.UnitsHold docs tok c o service ∧ tok.sdOk = true := by
  obtain ⟨hv, hu⟩ := C02.accepted_sound docs tok o service c h
  obtain ⟨mid, doc, m, cl, v⟩ := hv
  exact ⟨⟨mid, doc, m, cl, v⟩, hu, v.sd⟩

/-- a disclosure the decoder refuses makes the credential unacceptable, whatever else holds -/
theorem sd_rejects_bad_disclosure (docs : List Doc) (tok : Token) (o : VOpts) (service : Option (List Nat))
    (h : tok.sdOk = false) : ∃ e, validate docs tok o service = .error e := by
  cases hr : validate docs tok o service with
  | error e => exact ⟨e, rfl⟩
  | ok c =>
    have := (sd_accepted_sound docs tok o service c hr).2.2
    rw [h] at this; cases this

theorem firstErr_none (digest : Nat) (c : KbClaims) (o : KbOpts) (l : List String) (h : firstErr digest c o l = none) :
    ∀ n ∈ l, kbClaimCheck digest c o n = none := by
  induction l with
  | nil => intro n hn; cases hn
  | cons x t ih =>
    unfold firstErr at h
    cases hx : kbClaimCheck digest c o x with
    | some e => rw [hx] at h; cases h
    | none =>
      rw [hx] at h
      intro n hn
      rcases List.mem_cons.1 hn with hn | hn
      · rw [hn]; exact hx
      · exact ih h n hn

/-- **a key-binding JWT is accepted only when fully bound** -/
theorem kb_accepted_sound (doc : Doc) (digest : Nat) (tok : KbTok) (o : KbOpts) (c : KbClaims)
    (h : validateKb doc digest tok o = .ok c) :
    tok.present = true ∧ tok.hasherOk = true ∧ tok.typ = some true ∧
    (∃ mid m, (o.methodId = some mid ∨ (o.methodId = none ∧ tok.kid = some (some mid))) ∧
      resolveMethod doc (Query.ofId mid) o.scope = some m ∧ m ∈ allMethods doc ∧ m.body ≠ 0 ∧ m.body = tok.sigKey) ∧
    tok.claims = some c ∧
    c.sdHash = digest ∧
    (∀ n, o.nonce = some n → c.nonce = n) ∧
    (∀ a, o.aud = some a → c.aud = a) ∧
    (MIN ≤ c.iat ∧ c.iat ≤ MAX) ∧
    (∀ e, o.earliest = some e → e ≤ c.iat) ∧
    (∀ l, o.latest = some l → c.iat ≤ l) ∧
    (o.latest = none → c.iat ≤ o.now) := by
  unfold validateKb at h
  by_cases h1 : (!tok.present) = true
  · rw [if_pos h1] at h; cases h
  · rw [if_neg h1] at h
    by_cases h2 : (!tok.hasherOk) = true
    · rw [if_pos h2] at h; cases h
    · rw [if_neg h2] at h
      by_cases h3 : tok.typ ≠ some true
      · rw [if_pos h3] at h; cases h
      · rw [if_neg h3] at h
        cases hm : kbMethodId tok o with
        | error e => rw [hm] at h; cases h
        | ok mid =>
          rw [hm] at h
          simp only at h
          have hsrc : o.methodId = some mid ∨ (o.methodId = none ∧ tok.kid = some (some mid)) := by
            unfold kbMethodId at hm
            cases ho : o.methodId with
            | some x => rw [ho] at hm; injection hm with hm; left; rw [hm]
            | none =>
              rw [ho] at hm
              right
              refine ⟨rfl, ?_⟩
              cases hk : tok.kid with
              | none => rw [hk] at hm; cases hm
              | some kk =>
                rw [hk] at hm
                cases kk with
                | none => cases hm
                | some i => injection hm with hm; rw [hm]
          cases hr : resolveMethod doc (Query.ofId mid) o.scope with
          | none => rw [hr] at h; cases h
          | some m =>
            rw [hr] at h
            simp only at h
            by_cases hb : m.body = 0
            · rw [if_pos hb] at h; cases h
            · rw [if_neg hb] at h
              by_cases hs : m.body ≠ tok.sigKey
              · rw [if_pos hs] at h
                split at h <;> cases h
              · rw [if_neg hs] at h
                cases hc : tok.claims with
                | none => rw [hc] at h; cases h
                | some c' =>
                  rw [hc] at h
                  simp only at h
                  cases hf : firstErr digest c' o Gen.C16.kbChecks with
                  | some e => rw [hf] at h; cases h
                  | none =>
                    rw [hf] at h
                    injection h with h
                    subst h
                    have hall := firstErr_none digest c' o _ hf
                    have k1 := hall "digest" (by decide)
                    have k2 := hall "nonce" (by decide)
                    have k3 := hall "aud" (by decide)
                    have k4 := hall "iat" (by decide)
                    have k5 := hall "earliest" (by decide)
                    have k6 := hall "latest" (by decide)
                    simp only [kbClaimCheck] at k1 k2 k3 k4 k5 k6
                    refine ⟨by simpa using h1, by simpa using h2, by simpa using h3,
                      ⟨mid, m, hsrc, hr, C02.resolve_embedded doc _ o.scope m hr, hb, by simpa using hs⟩, rfl, ?_, ?_, ?_,
                      ?_, ?_, ?_, ?_⟩
                    · by_cases hd : c'.sdHash = digest
                      · exact hd
                      · simp [hd] at k1
                    · intro n hn
                      rw [hn] at k2
                      by_cases hd : n = c'.nonce
                      · exact hd.symm
                      · simp [hd] at k2
                    · intro a ha
                      rw [ha] at k3
                      by_cases hd : a = c'.aud
                      · exact hd.symm
                      · simp [hd] at k3
                    · by_cases hr' : C07.InRange c'.iat
                      · exact hr'
                      · rw [(C13.fromUnix_iff_range c'.iat).2 hr'] at k4; cases k4
                    · intro e he
                      rw [he] at k5
                      by_cases hd : c'.iat < e
                      · simp [hd] at k5
                      · omega
                    · intro l hl
                      rw [hl] at k6
                      by_cases hd : l < c'.iat
                      · simp [hd] at k6
                      · omega
                    · intro hl
                      rw [hl] at k6
                      by_cases hd : o.now < c'.iat
                      · simp [hd] at k6
                      · omega

/-- **never a crash**: every failure of the key-binding validation is an error value -/
theorem kb_never_panics (doc : Doc) (digest : Nat) (tok : KbTok) (o : KbOpts) :
    validateKb doc digest tok o ≠ .error .panic := by
  unfold validateKb
  intro h
  by_cases h1 : (!tok.present) = true
  · rw [if_pos h1] at h; cases h
  · rw [if_neg h1] at h
    by_cases h2 : (!tok.hasherOk) = true
    · rw [if_pos h2] at h; cases h
    · rw [if_neg h2] at h
      by_cases h3 : tok.typ ≠ some true
      · rw [if_pos h3] at h; cases h
      · rw [if_neg h3] at h
        cases hm : kbMethodId tok o with
        | error e =>
          rw [hm] at h
          unfold kbMethodId at hm
          cases ho : o.methodId with
          | some x => rw [ho] at hm; cases hm
          | none =>
            rw [ho] at hm
            cases hk : tok.kid with
            | none => rw [hk] at hm; injection hm with hm; subst hm; cases h
            | some kk =>
              rw [hk] at hm
              cases kk with
              | none => injection hm with hm; subst hm; cases h
              | some i => cases hm
        | ok mid =>
          rw [hm] at h
          simp only at h
          cases hr : resolveMethod doc (Query.ofId mid) o.scope with
          | none => rw [hr] at h; cases h
          | some m =>
            rw [hr] at h
            simp only at h
            by_cases hb : m.body = 0
            · rw [if_pos hb] at h; cases h
            · rw [if_neg hb] at h
              by_cases hs : m.body ≠ tok.sigKey
              · rw [if_pos hs] at h
                simp only [Gen.C16.kbSignatureIsError, ↓reduceIte] at h
                cases h
              · rw [if_neg hs] at h
                cases hc : tok.claims with
                | none => rw [hc] at h; cases h
                | some c' =>
                  rw [hc] at h
                  simp only at h
                  cases hf : firstErr digest c' o Gen.C16.kbChecks with
                  | none => rw [hf] at h; cases h
                  | some e =>
                    rw [hf] at h
                    injection h with h
                    subst h
                    -- no claim check produces `panic`
                    have : ∀ l, firstErr digest c' o l ≠ some .panic := by
                      intro l
                      induction l with
                      | nil => intro hh; cases hh
                      | cons x t ih =>
                        unfold firstErr
                        cases hx : kbClaimCheck digest c' o x with
                        | none => exact ih
                        | some e' =>
                          intro hh
                          injection hh with hh
                          subst hh
                          unfold kbClaimCheck at hx
                          split at hx <;> (try split at hx) <;> (try split at hx) <;> simp_all
                    exact this _ hf

/-! ## completeness: a key-binding JWT that meets every condition IS accepted -/

/-- the converse of `kb_accepted_sound`: present, supported hash algorithm, typed as expected, the method found by the
configured method id (else the kid) within the scope holds the key that signed, the claims deserialise, the digest is
the one over the presented token, nonce / audience equal the expected ones when configured, the issuance time is a valid
instant inside the configured window (not after the clock when no upper bound is configured) — then the key-binding
JWT is accepted and its claims are handed back -/
theorem kb_accepted_complete (doc : Doc) (digest : Nat) (tok : KbTok) (o : KbOpts) (c : KbClaims) (mid : Id) (m : Method)
    (hp : tok.present = true) (hh : tok.hasherOk = true) (ht : tok.typ = some true)
    (hmid : o.methodId = some mid ∨ (o.methodId = none ∧ tok.kid = some (some mid)))
    (hr : resolveMethod doc (Query.ofId mid) o.scope = some m) (hb : m.body ≠ 0) (hs : m.body = tok.sigKey)
    (hc : tok.claims = some c) (hd : c.sdHash = digest)
    (hn : ∀ n, o.nonce = some n → c.nonce = n) (ha : ∀ a, o.aud = some a → c.aud = a)
    (hrange : MIN ≤ c.iat ∧ c.iat ≤ MAX)
    (he : ∀ e, o.earliest = some e → e ≤ c.iat) (hl : ∀ l, o.latest = some l → c.iat ≤ l)
    (hnow : o.latest = none → c.iat ≤ o.now) :
    validateKb doc digest tok o = .ok c := by
  have hkm : kbMethodId tok o = .ok mid := by
    unfold kbMethodId
    rcases hmid with h | ⟨h1, h2⟩
    · simp [h]
    · simp [h1, h2]
  have hchecks : Gen.C16.kbChecks = ["digest", "nonce", "aud", "iat", "earliest", "latest"] := rfl
  have hfu : fromUnix c.iat = .ok c.iat := ((Props.C13.fromUnix_iff_range c.iat).1).2 hrange
  have hfirst : firstErr digest c o Gen.C16.kbChecks = none := by
    rw [hchecks]
    have c1 : kbClaimCheck digest c o "digest" = none := by simp [kbClaimCheck, hd]
    have c2 : kbClaimCheck digest c o "nonce" = none := by
      unfold kbClaimCheck
      cases hon : o.nonce with
      | none => rfl
      | some n => simp [(hn n hon)]
    have c3 : kbClaimCheck digest c o "aud" = none := by
      unfold kbClaimCheck
      cases hoa : o.aud with
      | none => rfl
      | some a => simp [(ha a hoa)]
    have c4 : kbClaimCheck digest c o "iat" = none := by simp [kbClaimCheck, hfu]
    have c5 : kbClaimCheck digest c o "earliest" = none := by
      unfold kbClaimCheck
      cases hoe : o.earliest with
      | none => rfl
      | some e => have := he e hoe; simp; omega
    have c6 : kbClaimCheck digest c o "latest" = none := by
      unfold kbClaimCheck
      cases hol : o.latest with
      | none => have := hnow hol; simp; omega
      | some l => have := hl l hol; simp; omega
    simp [firstErr, c1, c2, c3, c4, c5, c6]
  have hb' : ¬ tok.sigKey = 0 := hs ▸ hb
  unfold validateKb
  simp [hp, hh, ht, hkm, hr, hb, hb', hs, hc, hfirst]

/-! ## non-vacuity -/

def holder : Doc := ⟨2, [⟨⟨2, 0, some 1⟩, 21⟩], [], [], [], [], [], []⟩
def kbTok : KbTok := ⟨true, true, some true, some (some ⟨2, 0, some 1⟩), 21, some ⟨1, 7, 4, 100⟩⟩
def kbOpts : KbOpts := ⟨none, none, some 7, some 4, some 50, some 150, 0⟩

deriving instance DecidableEq for Except

example : validateKb holder 1 kbTok kbOpts = .ok ⟨1, 7, 4, 100⟩ := by decide +kernel
example : validateKb holder 2 kbTok kbOpts = .error .digest := by decide +kernel
example : validateKb holder 1 { kbTok with sigKey := 22 } kbOpts = .error .signature := by decide +kernel
example : validateKb holder 1 kbTok { kbOpts with latest := none } = .error .future := by decide +kernel

end IdModel.Props.C16
