//! hxs — the C15 histories of harness/src/c15.rs against the Stronghold-backed stores (`StrongholdStorage` implements both
//! `JwkStorage` and `KeyIdStorage`).  Same request lines, same reply tokens, except that error KINDS are collapsed to `err`
//! (Stronghold reports most failures as `Unspecified`; the property only distinguishes success from failure there).
//! The implementation-side oracles are the same: generated JWK is public-only with thumbprint kid and the requested alg,
//! a signature verifies under the public key of the pair it was made for and under no other stored key.
use identity_eddsa_verifier::EdDSAJwsVerifier;
use identity_storage::JwkStorage;
use identity_storage::KeyId;
use identity_storage::KeyIdStorage;
use identity_storage::KeyStorageErrorKind;
use identity_storage::KeyType;
use identity_storage::MethodDigest;
use identity_stronghold::StrongholdStorage;
use identity_verification::jose::jwk::Jwk;
use identity_verification::jose::jws::JwsAlgorithm;
use identity_verification::jose::jws::JwsVerifier;
use identity_verification::jose::jws::VerificationInput;
use identity_verification::VerificationMethod;
use iota_sdk::client::secret::stronghold::StrongholdSecretManager;
use iota_sdk::client::Password;
use std::io::BufRead;
use std::io::Write;
use std::sync::Arc;

fn b64(b: &[u8]) -> String {
  const T: &[u8] = b"ABCDEFGHIJKLMNOPQRSTUVWXYZabcdefghijklmnopqrstuvwxyz0123456789-_";
  let mut s = String::new();
  for ch in b.chunks(3) {
    let n = (ch[0] as u32) << 16 | (*ch.get(1).unwrap_or(&0) as u32) << 8 | *ch.get(2).unwrap_or(&0) as u32;
    s.push(T[(n >> 18) as usize & 63] as char);
    s.push(T[(n >> 12) as usize & 63] as char);
    if ch.len() > 1 {
      s.push(T[(n >> 6) as usize & 63] as char);
    }
    if ch.len() > 2 {
      s.push(T[n as usize & 63] as char);
    }
  }
  s
}

trait FromJsonStr: Sized {
  fn from_json(s: &str) -> Result<Self, serde_json::Error>;
}
impl FromJsonStr for Jwk {
  fn from_json(s: &str) -> Result<Self, serde_json::Error> {
    serde_json::from_str(s)
  }
}
impl FromJsonStr for VerificationMethod {
  fn from_json(s: &str) -> Result<Self, serde_json::Error> {
    serde_json::from_str(s)
  }
}

static COUNTER: std::sync::atomic::AtomicU64 = std::sync::atomic::AtomicU64::new(0);
fn new_store(dir: &std::path::Path) -> StrongholdStorage {
  let n = COUNTER.fetch_add(1, std::sync::atomic::Ordering::SeqCst);
  let file = dir.join(format!("s{}-{}.stronghold", std::process::id(), n));
  let _ = std::fs::remove_file(&file);
  let sm = StrongholdSecretManager::builder().password(Password::from("pw".to_owned())).build(&file).unwrap();
  StrongholdStorage::new(sm)
}

// RFC 8037 A.1 and RFC 8032 7.1 test 2
const D1: &str = "nWGxne_9WmC6hEr0kuwsxERJxWl7MmkZcDusAxyuf2A";
const X1: &str = "11qYAYKxCrfVS_7TyWQHOg7hcvPapiMlrwIaaPcHURo";
const D2_HEX: &str = "4ccd089b28ff96da9db6c346ec114e0f5b8a319f35aba624da8cf6ed4fb8a6fb";
const X2_HEX: &str = "3d4017c3e843895a92b70aa74d1b7ebc9c982ccf2ec4968cc0cd55f12af4660c";

fn unhex(s: &str) -> Vec<u8> {
  (0..s.len() / 2).map(|i| u8::from_str_radix(&s[2 * i..2 * i + 2], 16).unwrap()).collect()
}
fn crate_b64_dec(t: &str) -> Vec<u8> {
  const T: &[u8] = b"ABCDEFGHIJKLMNOPQRSTUVWXYZabcdefghijklmnopqrstuvwxyz0123456789-_";
  let vals: Vec<u32> = t.bytes().filter_map(|c| T.iter().position(|x| *x == c).map(|p| p as u32)).collect();
  let mut out = vec![];
  for ch in vals.chunks(4) {
    let n = ch.iter().enumerate().fold(0u32, |a, (i, v)| a | v << (18 - 6 * i as u32));
    out.push((n >> 16) as u8);
    if ch.len() > 2 {
      out.push((n >> 8) as u8);
    }
    if ch.len() > 3 {
      out.push(n as u8);
    }
  }
  out
}
fn pair(v: u32) -> (String, String) {
  if v == 1 {
    (D1.to_string(), X1.to_string())
  } else {
    (b64(&unhex(D2_HEX)), b64(&unhex(X2_HEX)))
  }
}

/// dok: 1 = `d` is the 32-byte secret; 0 = three bytes; 2 = 64 bytes (secret followed by the public key); 3 = 33 bytes
fn jwk_json(fam: &str, private: bool, alg: &str, dok: u32, v: u32) -> String {
  let (d, x) = pair(v);
  let raw = |t: &str| crate_b64_dec(t);
  let d = match dok {
    1 => d,
    2 => b64(&[raw(&d), raw(&x)].concat()),
    3 => b64(&[raw(&d), vec![7u8]].concat()),
    _ => "AAAA".to_string(),
  };
  let mut members: Vec<String> = match fam {
    "ed" => vec!["\"kty\":\"OKP\"".into(), "\"crv\":\"Ed25519\"".into(), format!("\"x\":\"{}\"", x)],
    "e448" => vec!["\"kty\":\"OKP\"".into(), "\"crv\":\"Ed448\"".into(), format!("\"x\":\"{}\"", x)],
    "x255" => vec!["\"kty\":\"OKP\"".into(), "\"crv\":\"X25519\"".into(), format!("\"x\":\"{}\"", x)],
    "bls" => vec!["\"kty\":\"EC\"".into(), "\"crv\":\"BLS12381G2\"".into(), format!("\"x\":\"{}\"", x), format!("\"y\":\"{}\"", x)],
    "p256" => vec!["\"kty\":\"EC\"".into(), "\"crv\":\"P-256\"".into(), format!("\"x\":\"{}\"", x), format!("\"y\":\"{}\"", x)],
    _ => vec!["\"kty\":\"oct\"".into(), format!("\"k\":\"{}\"", x)],
  };
  if private && fam != "oct" {
    members.push(format!("\"d\":\"{}\"", d));
  }
  match alg {
    "~" => {}
    a => members.push(format!("\"alg\":\"{}\"", a)),
  }
  format!("{{{}}}", members.join(","))
}

#[allow(dead_code)]
fn kerr_full(k: &KeyStorageErrorKind, msg: &str) -> &'static str {
  match k {
    KeyStorageErrorKind::UnsupportedKeyType => "unsupportedKeyType",
    KeyStorageErrorKind::KeyAlgorithmMismatch => "keyAlgMismatch",
    KeyStorageErrorKind::UnsupportedSignatureAlgorithm => "unsupportedAlg",
    KeyStorageErrorKind::KeyNotFound => "keyNotFound",
    KeyStorageErrorKind::Unspecified => {
      if msg.contains("all private key components") {
        "notPrivate"
      } else {
        "unspecified"
      }
    }
    _ => "?",
  }
}

fn digest(n: u32) -> MethodDigest {
  let m = VerificationMethod::from_json(&format!(
    r#"{{"id":"did:ex:d0#k{}","controller":"did:ex:d0","type":"Ed25519VerificationKey2018","publicKeyMultibase":"z11"}}"#,
    n
  ))
  .unwrap();
  MethodDigest::new(&m).unwrap()
}

fn thumbprint_input(j: &Jwk) -> Option<String> {
  let p = j.try_okp_params().ok()?;
  let mut m = std::collections::BTreeMap::new();
  m.insert("crv", p.crv.clone());
  m.insert("kty", "OKP".to_string());
  m.insert("x", p.x.clone());
  serde_json::to_string(&m).ok()
}

/// error kinds are collapsed
fn kerr(_k: &KeyStorageErrorKind, _msg: &str) -> &'static str {
  "-"
}

pub fn run(args: &[&str], dir: &std::path::Path) -> String {
  if args.first() != Some(&"shist") {
    return "bad-request".into();
  }
  let rt = tokio::runtime::Builder::new_current_thread().enable_all().build().unwrap();
  let both = Arc::new(new_store(dir));
  let store = both.clone();
  let kids = both.clone();
  // key ids in the order handed out, with the public JWK and the key pair number of each
  let mut issued: Vec<(KeyId, Jwk, u32)> = vec![];
  let mut out: Vec<String> = vec![];
  let mut fail: Option<String> = None;
  let unknown = KeyId::new("never-handed-out-key-id-00000000");
  for t in &args[1..] {
    let p: Vec<&str> = t.split(':').collect();
    let r: Option<String> = match p.as_slice() {
      ["g", kt, alg] => {
        let key_type = match *kt {
          "ed" => KeyType::new("Ed25519"),
          "bls" => KeyType::new("BLS12381G2"),
          _ => KeyType::new("Unknown"),
        };
        let a = match *alg {
          "EdDSA" => JwsAlgorithm::EdDSA,
          "ES256" => JwsAlgorithm::ES256,
          _ => JwsAlgorithm::HS256,
        };
        Some(match rt.block_on(store.generate(key_type, a.clone())) {
          Ok(o) => {
            let n = issued.len() as u32 + 1;
            if fail.is_none() {
              if !o.jwk.is_public() {
                fail = Some(format!("generate-output:{} returned a JWK with private members", t));
              } else if o.jwk.alg() != Some(a.name()) {
                fail = Some(format!("generate-output:{} returned alg {:?}", t, o.jwk.alg()));
              } else if thumbprint_input(&o.jwk).is_none() || o.jwk.thumbprint_hash_input() != thumbprint_input(&o.jwk).unwrap() || o.jwk.kid() != Some(o.jwk.thumbprint_sha256_b64().as_str()) {
                fail = Some(format!("generate-output:{} kid {:?} is not the RFC 7638 thumbprint", t, o.jwk.kid()));
              } else if issued.iter().any(|(k, _, _)| *k == o.key_id) {
                fail = Some(format!("generate-output:{} returned a key id handed out before", t));
              }
            }
            issued.push((o.key_id, o.jwk, n));
            format!("ok:{}", n)
          }
          Err(e) => { let _ = kerr(e.kind(), ""); "err".to_string() },
        })
      }
      ["i", fam, pr, alg, dok, v] => (|| {
        let v: u32 = v.parse().ok()?;
        let j = Jwk::from_json(&jwk_json(fam, *pr == "1", alg, dok.parse().ok()?, v)).ok()?;
        Some(match rt.block_on(store.insert(j.clone())) {
          Ok(id) => {
            let n = issued.len() as u32 + 1;
            let mut pubj = j.to_public().unwrap_or(j);
            if pubj.alg().is_none() {
              pubj.set_alg("EdDSA");
            }
            // the key pair a stored key verifies under is that of its PUBLIC part, whatever `d` holds
            issued.push((id, pubj, 100 + v));
            format!("ok:{}", n)
          }
          Err(e) => { let _ = kerr(e.kind(), ""); "err".to_string() },
        })
      })(),
      ["s", n, data, fam, alg] => (|| {
        let n: usize = n.parse().ok()?;
        let id = issued.get(n.wrapping_sub(1)).map(|x| x.0.clone()).unwrap_or_else(|| unknown.clone());
        let msg = format!("data{}", data).into_bytes();
        let mut pk = if *fam == "ed" {
          issued.get(n.wrapping_sub(1)).map(|x| x.1.clone()).unwrap_or_else(|| Jwk::from_json(&jwk_json("ed", false, "~", 1, 1)).unwrap())
        } else {
          Jwk::from_json(&jwk_json(fam, false, "~", 1, 1)).ok()?
        };
        // the alg of the public key argument
        let pj = {
          let mut v: serde_json::Value = serde_json::to_value(&pk).ok()?;
          let o = v.as_object_mut()?;
          o.remove("alg");
          if *alg != "~" {
            o.insert("alg".into(), serde_json::json!(alg));
          }
          v.to_string()
        };
        pk = Jwk::from_json(&pj).ok()?;
        Some(match rt.block_on(store.sign(&id, &msg, &pk)) {
          Ok(sig) => {
            // which stored keys does it verify under?
            let mut under: Vec<u32> = vec![];
            for (k, j, pairn) in &issued {
              if !rt.block_on(store.exists(k)).unwrap_or(false) {
                continue;
              }
              let mut vj = j.clone();
              vj.set_alg("EdDSA");
              let input = VerificationInput { alg: JwsAlgorithm::EdDSA, signing_input: msg.clone().into(), decoded_signature: sig.clone().into() };
              if EdDSAJwsVerifier::default().verify(input, &vj).is_ok() && !under.contains(pairn) {
                under.push(*pairn);
              }
            }
            let own = issued.get(n.wrapping_sub(1)).map(|x| x.2).unwrap_or(0);
            if fail.is_none() && under != vec![own] {
              fail = Some(format!("signature-binding:{} made for key pair {} verifies under the stored key pairs {:?}", t, own, under));
            }
            format!("ok:{}", own)
          }
          Err(e) => { let _ = kerr(e.kind(), ""); "err".to_string() },
        })
      })(),
      ["d", n] => (|| {
        let n: usize = n.parse().ok()?;
        let id = issued.get(n.wrapping_sub(1)).map(|x| x.0.clone()).unwrap_or_else(|| unknown.clone());
        // is the id stored right now?
        let stored = issued.get(n.wrapping_sub(1)).is_some() && rt.block_on(store.exists(&id)).unwrap_or(false);
        Some(match rt.block_on(store.delete(&id)) {
          Ok(()) => {
            if !stored && fail.is_none() {
              fail = Some(format!("absent-id-deletes:{} reported success for a key id that was {}", t, if n.wrapping_sub(1) < issued.len() { "already deleted" } else { "never handed out" }));
            }
            "ok".to_string()
          }
          Err(e) => { let _ = kerr(e.kind(), ""); "err".to_string() },
        })
      })(),
      ["e", n] => (|| {
        let n: usize = n.parse().ok()?;
        let id = issued.get(n.wrapping_sub(1)).map(|x| x.0.clone()).unwrap_or_else(|| unknown.clone());
        Some(match rt.block_on(store.exists(&id)) {
          Ok(b) => format!("{}", b as u8),
          Err(_) => "err".to_string(),
        })
      })(),
      ["ki", dg, n] => (|| {
        let r = rt.block_on(kids.insert_key_id(digest(dg.parse().ok()?), KeyId::new(format!("kid{}", n))));
        Some(if r.is_ok() { "ok".to_string() } else { "err".to_string() })
      })(),
      ["kg", dg] => (|| {
        Some(match rt.block_on(kids.get_key_id(&digest(dg.parse().ok()?))) {
          Ok(k) => format!("ok:{}", k.as_str().trim_start_matches("kid")),
          Err(_) => "err".to_string(),
        })
      })(),
      ["kd", dg] => (|| {
        Some(match rt.block_on(kids.delete_key_id(&digest(dg.parse().ok()?))) {
          Ok(()) => "ok".to_string(),
          Err(_) => "err".to_string(),
        })
      })(),
      ["kr", dg, threads] => (|| {
        let dgn: u32 = dg.parse().ok()?;
        let n: u32 = threads.parse().ok()?;
        let barrier = Arc::new(std::sync::Barrier::new(n as usize));
        let handles: Vec<_> = (0..n)
          .map(|i| {
            let kids = kids.clone();
            let barrier = barrier.clone();
            // everything but the call itself happens before the barrier
            let dg = digest(dgn);
            let kid = KeyId::new(format!("kid{}", 201 + i));
            std::thread::spawn(move || {
              let rt = tokio::runtime::Builder::new_current_thread().enable_all().build().unwrap();
              let fut = kids.insert_key_id(dg, kid);
              barrier.wait();
              let r = rt.block_on(fut);
              if std::env::var("HXS_DEBUG").is_ok() {
                eprintln!("thread {} -> {:?}", i, r);
              }
              r.is_ok()
            })
          })
          .collect();
        let results: Vec<bool> = handles.into_iter().map(|h| h.join().unwrap_or(false)).collect();
        let oks: Vec<u32> = results.iter().enumerate().filter(|(_, b)| **b).map(|(i, _)| 201 + i as u32).collect();
        let mapped = rt.block_on(kids.get_key_id(&digest(dgn))).ok().map(|k| k.as_str().trim_start_matches("kid").to_string());
        // canonical: number of successes, and whether the digest maps to a thread that reported success
        let consistent = match (&mapped, oks.as_slice()) {
          (Some(m), [w]) => *m == w.to_string(),
          (Some(_), []) => true,
          _ => false,
        };
        Some(format!("ok={};fail={};consistent={}", oks.len(), n as usize - oks.len(), consistent as u8))
      })(),
      _ => None,
    };
    match r {
      Some(x) => out.push(x),
      None => {
        out.push("bad-op".into());
        break;
      }
    }
  }
  let line = out.join(" ");
  match fail {
    Some(f) => format!("{}\t#FAIL:{}", line, f),
    None => line,
  }
}


fn main() {
  let args: Vec<String> = std::env::args().collect();
  if args.len() < 3 || args[1] != "run" {
    eprintln!("usage: hxs run <scratch dir>");
    std::process::exit(2);
  }
  let dir = std::path::PathBuf::from(&args[2]);
  std::fs::create_dir_all(&dir).unwrap();
  iota_stronghold::engine::snapshot::try_set_encrypt_work_factor(0).unwrap();
  std::panic::set_hook(Box::new(|_| {}));
  let stdout = std::io::stdout();
  let mut out = std::io::BufWriter::new(stdout.lock());
  for line in std::io::stdin().lock().lines() {
    let line = line.unwrap();
    let toks: Vec<&str> = line.split_whitespace().collect();
    let reply = if toks.first() != Some(&"C15") {
      "bad-request".to_string()
    } else {
      let d = dir.clone();
      match std::panic::catch_unwind(std::panic::AssertUnwindSafe(|| run(&toks[1..], &d))) {
        Ok(s) => s,
        Err(_) => "PANIC\t#FAIL:panic:implementation panicked".to_string(),
      }
    };
    writeln!(out, "{}", reply).unwrap();
    out.flush().unwrap();
    // the snapshot files of this request are no longer needed
    if let Ok(rd) = std::fs::read_dir(&dir) {
      for e in rd.flatten() {
        let _ = std::fs::remove_file(e.path());
      }
    }
  }
  out.flush().unwrap();
}
