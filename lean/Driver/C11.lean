import IdModel.Jose.Header
import Driver.Util
namespace Driver.C11
open IdModel.Jose

def csv (s : String) : List String := if s == "-" then [] else s.splitOn ","

/-- `H:<alg>:<b64>:<crit>:<fields>:<custom>` or `_` -/
def parseHdr (t : String) : Option (Option Hdr) :=
  if t == "_" then some none else
  match t.splitOn ":" with
  | ["H", a, b, c, f, x] =>
    let b64? : Option (Option Bool) :=
      if b == "-" then some none else if b == "t" then some (some true) else if b == "f" then some (some false) else none
    match b64? with
    | none => none
    | some b64 =>
      some (some { alg := if a == "-" then none else some a, b64 := b64,
                   crit := if c == "-" then none else if c == "=" then some [] else some (c.splitOn ","),
                   fields := csv f, custom := csv x })
  | _ => none

def pairs : List (Option Hdr) → Option (List (Option Hdr × Option Hdr))
  | [] => some []
  | p :: u :: r => (pairs r).map ((p, u) :: ·)
  | _ => none

def okErr : Except HErr Unit → String
  | .ok _ => "ok" | .error _ => "err"

def gate (p : Option Hdr) : String :=
  match verifyGate p with
  | .callVerifier _ => "ok:verified"
  | _ => "ok:verify-err"

def decodeOne (p u : Option Hdr) : String :=
  match decodeHeaders p u with
  | .ok _ => gate p
  | .error _ => "err"

/-- algorithm names `JwsAlgorithm` deserialises (default features) -/
def knownAlgs : List String :=
  ["HS256", "HS384", "HS512", "RS256", "RS384", "RS512", "PS256", "PS384", "PS512", "ES256", "ES384", "ES512", "ES256K", "none", "EdDSA"]

/-- the header parser `P` of the run: a header naming another algorithm does not deserialise -/
def decodable (p : Option Hdr) : Bool :=
  match p with
  | none => true
  | some h => match h.alg with
    | none => true
    | some a => knownAlgs.contains a

/-- the general encoder's verdict does not depend on the payload (`generale` / `generaled`: the empty payload) -/
def general (hs : List String) : String :=
  match (hs.mapM parseHdr).bind pairs with
  | some rs => match generalEncoder rs with
    | none => "ok"
    | some i => s!"err@{i}"
  | none => "bad-request"

def handle : List String → String
  | ["flat", p, u] =>
    match parseHdr p, parseHdr u with
    | some p, some u => okErr (validateRecipient p u)
    | _, _ => "bad-request"
  | ["compact", p] =>
    match parseHdr p with
    | some (some p) => okErr (validateCompact p)
    | _ => "bad-request"
  | "generale" :: hs => general hs
  | "generaled" :: hs => general hs
  | "general" :: hs => general hs
  | ["dflat", p, u] =>
    match parseHdr p, parseHdr u with
    | some p, some u => decodeOne p u
    | _, _ => "bad-request"
  | ["dcompact", p] =>
    match parseHdr p with
    | some (some p) => decodeOne (some p) none
    | _ => "bad-request"
  | "dgeneral" :: hs =>
    match (hs.mapM parseHdr).bind pairs with
    | some rs =>
      -- a protected header that does not deserialise (unknown algorithm name) takes no part in the agreement test
      -- (`Jose.decodeGeneral`: `filterMap sigB64`) and is an error of its own
      if generalDecoderAgree true (rs.filter fun r => decodable r.1) then
        " ".intercalate (rs.map fun r => if decodable r.1 then decodeOne r.1 r.2 else "err")
      else "err"
    | none => "bad-request"
  | _ => "bad-request"

end Driver.C11
