import IdModel.Val.KbModel
import Driver.C02
/-! Line-protocol handler for C16 (SD-JWT credentials and key-binding JWTs). See harness/src/c16.rs. -/
namespace Driver.C16
open IdModel.Doc IdModel.Val

def cred (doc tok opts : String) : String :=
  let m := C02.kvc (tok.drop 2).toString ";" ":"
  match C02.parseDoc doc, C02.parseToken (tok.drop 2).toString, C02.parseOpts (opts.drop 2).toString with
  | some (d, svc), some t, some o =>
    -- the reconstructed subject has properties iff at least one disclosure of a property was presented
    let t : Token := { t with sdOk := C02.get m "sd" != some "0", subjPropsEmpty := C02.get m "sdspe" == some "1" }
    match validate [d] t o svc with
    | .ok c => "ok:" ++ C02.showCred c
    | .error es => "err:" ++ ",".intercalate (es.map C02.showVErr)
  | _, _, _ => "bad-request"

def ver (docs tok opts : String) : String :=
  let m := C02.kvc (tok.drop 2).toString ";" ":"
  match (docs.splitOn "/").mapM C02.parseDoc, C02.parseToken (tok.drop 2).toString, C02.parseOpts (opts.drop 2).toString with
  | some ds, some t, some o =>
    let t : Token := { t with sdOk := C02.get m "sd" != some "0", subjPropsEmpty := C02.get m "sdspe" == some "1" }
    match verifySignature (ds.map (·.1)) t o with
    | .ok c => "ok:" ++ C02.showCred c
    | .error e => "err:" ++ C02.showVErr e
  | _, _, _ => "bad-request"

def oint (m : List (String × String)) (k : String) : Option (Option Int) :=
  match C02.get m k with
  | none => some none
  | some "~" => some none
  | some v => v.toInt?.map some

def parseKbClaims (t : String) : Option (Option KbClaims) :=
  if t == "J" then some none else
  let c := C02.kvc t "," "="
  match (C02.get c "h").bind String.toNat?, (C02.get c "n").bind String.toNat?, (C02.get c "a").bind String.toNat?,
    (C02.get c "iat").bind String.toInt? with
  | some h, some n, some a, some iat => some (some ⟨h, n, a, iat⟩)
  | _, _, _, _ => none

def showKbErr : KbErr → String
  | .missing => "missing" | .hasher => "hasher" | .typ => "typ" | .kidMissing => "kidMissing" | .kidParse => "kidParse"
  | .methodLookup => "methodLookup" | .signature => "signature" | .panic => "PANIC" | .deser => "deser"
  | .digest => "digest" | .nonce => "nonce" | .aud => "aud" | .iatRange => "iatRange" | .tooEarly => "tooEarly"
  | .tooLate => "tooLate" | .future => "future"

/-- `E`: the expected value is the empty string; no key-binding JWT of the stream carries it (number 1000000) -/
def emptyExpected (om : List (String × String)) : List (String × String) :=
  om.map fun (k, v) => if (k == "n" || k == "a") && v == "E" then (k, "1000000") else (k, v)

def kb (doc ktok opts : String) : String :=
  let m := C02.kvc (ktok.drop 2).toString ";" ":"
  let om := emptyExpected (C02.kvc (opts.drop 2).toString ";" ":")
  let typ : Option (Option Bool) := match C02.get m "typ" with
    | some "k" => some (some true)
    | some "s" => some (some false)
    | some "x" => some (some false)
    | some "~" => some none
    | _ => none
  let mid : Option (Option Id) := match C02.get om "mid" with
    | none => some none
    | some "~" => some none
    | some v => (C04.parseId v).map some
  match C02.parseDoc doc, C02.get m "p", C02.get m "alg", typ, (C02.get m "kid").bind C02.parseKid,
    (C02.get m "sig").bind String.toNat?, (C02.get m "cl").bind parseKbClaims, mid,
    (C02.get om "sc").bind C02.parseScopeOpt, C02.onat om "n", C02.onat om "a", oint om "e", oint om "l",
    (C02.get om "now").bind String.toInt? with
  | some (d, _), some p, some alg, some typ, some kid, some sig, some cl, some mid, some sc, some n, some a, some e,
    some l, some now =>
    let tok : KbTok := ⟨p == "1", alg == "1", typ, kid, sig, cl⟩
    let o : KbOpts := ⟨mid, sc, n, a, e, l, now⟩
    -- the digest over the presented token is number 1
    match validateKb d 1 tok o with
    | .ok c => s!"ok:h={c.sdHash};n={c.nonce};a={c.aud};iat={c.iat}"
    | .error e => "err:" ++ showKbErr e
  | _, _, _, _, _, _, _, _, _, _, _, _, _, _ => "bad-request"

def handle (args : List String) : String :=
  match args with
  | ["cred", doc, tok, opts] => cred doc tok opts
  | ["ver", docs, tok, opts] => ver docs tok opts
  | ["kb", doc, tok, opts] => kb doc tok opts
  | _ => "bad-request"

end Driver.C16
