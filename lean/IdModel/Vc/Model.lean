import IdModel.Time.Model
import IdModel.Gen.C07
/-!
Model of the credential / presentation ↔ JWT claims conversion (`jwt_serialization.rs`, property C07).

URLs are abstract numbers; `Issuer` is a URL or an object with an id; everything the conversion copies verbatim
(context, types, subject properties, status, schema, refresh service, terms of use, evidence, nonTransferable, extra
properties, proof) is the opaque `rest`.  A `Timestamp` is its unix second (`IdModel.Time`), numeric dates in claims
are arbitrary integers.  Which members are omitted from `vc`/`vp` and which consistency checks are made is
regenerated from the source (`IdModel.Gen.C07`).
-/
namespace IdModel.Vc
open IdModel IdModel.Time

inductive Issuer
  | url (u : Nat)
  | obj (u : Nat) (props : Nat)
  deriving DecidableEq, Repr

structure Cred where
  id : Option Nat
  issuer : Issuer
  issuance : Int
  expiration : Option Int
  subjectId : Option Nat
  rest : Nat
  deriving DecidableEq, Repr

/-- the `vc` member -/
structure Inner where
  id : Option Nat
  issuer : Option Issuer
  issuanceDate : Option Int
  expirationDate : Option Int
  subjectId : Option Nat
  rest : Nat
  deriving DecidableEq, Repr

structure Claims where
  exp : Option Int
  iss : Issuer
  iat : Option Int
  nbf : Option Int
  jti : Option Nat
  sub : Option Nat
  vc : Inner
  custom : Option Nat
  deriving DecidableEq, Repr

inductive CErr
  | timestamp | issuer | issuanceDate | expirationDate | id | subjectMissing | subjectMismatch
  deriving DecidableEq, Repr

def omitIf {α : Type} (name : String) (l : List String) (v : Option α) : Option α := if l.contains name then none else v

/-- `CredentialJwtClaims::new` (single subject) -/
def toClaims (c : Cred) (custom : Option Nat) : Claims :=
  { exp := c.expiration,
    iss := c.issuer,
    iat := if Gen.C07.issuanceWritesNbf then none else some c.issuance,
    nbf := if Gen.C07.issuanceWritesNbf then some c.issuance else none,
    jti := c.id,
    sub := c.subjectId,
    vc := { id := omitIf "id" Gen.C07.vcOmitted c.id,
            issuer := omitIf "issuer" Gen.C07.vcOmitted (some c.issuer),
            issuanceDate := omitIf "issuance_date" Gen.C07.vcOmitted (some c.issuance),
            expirationDate := omitIf "expiration_date" Gen.C07.vcOmitted c.expiration,
            subjectId := if Gen.C07.vcSubjectIdOmitted then none else c.subjectId,
            rest := c.rest },
    custom := custom }

def ts (u : Int) : Except CErr Int :=
  match fromUnix u with
  | .ok v => .ok v
  | _ => .error .timestamp

/-- `IssuanceDateClaims::to_issuance_date` -/
def toIssuanceDate (iat nbf : Option Int) : Except CErr Int :=
  let first := if Gen.C07.issuancePrefersNbf then nbf else iat
  let second := if Gen.C07.issuancePrefersNbf then iat else nbf
  match first with
  | some n => ts n
  | none =>
    match second with
    | some i => ts i
    | none => .error .timestamp

/-- the checks are made in order; the first one that fails decides the error -/
def firstFailure {ε : Type} : List (Bool × ε) → Except ε Unit
  | [] => .ok ()
  | (b, e) :: t => if b then firstFailure t else .error e

/-- a check the source does not make always passes -/
def has (name : String) : Bool := Gen.C07.credentialChecks.contains name

def okIssuer (cl : Claims) : Bool := match cl.vc.issuer with
  | some v => v == cl.iss
  | none => true
def okIssuance (cl : Claims) (d : Int) : Bool := match cl.vc.issuanceDate with
  | some v => v == d
  | none => true
def okExpiration (cl : Claims) : Bool := match cl.vc.expirationDate with
  | some v => (match cl.exp with | some e => e == v | none => false)
  | none => true
def okId (cl : Claims) : Bool := match cl.vc.id with
  | some v => (match cl.jti with | some j => j == v | none => false)
  | none => true
def subjectCheck (cl : Claims) : Except CErr Unit := match cl.vc.subjectId with
  | none => .ok ()
  | some s =>
    match cl.sub with
    | none => .error .subjectMissing
    | some x => if x == s then .ok () else .error .subjectMismatch

/-- `CredentialJwtClaims::check_consistency` -/
def checkConsistency (cl : Claims) : Except CErr Unit :=
  match firstFailure [(!has "issuer" || okIssuer cl, .issuer)] with
  | .error e => .error e
  | .ok _ =>
    match toIssuanceDate cl.iat cl.nbf with
    | .error e => .error e
    | .ok d =>
      match firstFailure [(!has "issuanceDate" || okIssuance cl d, .issuanceDate),
          (!has "expirationDate" || okExpiration cl, .expirationDate), (!has "id" || okId cl, .id)] with
      | .error e => .error e
      | .ok _ => if has "credentialSubject" then subjectCheck cl else .ok ()

/-- `CredentialJwtClaims::try_into_credential` -/
def tryIntoCredential (cl : Claims) : Except CErr Cred :=
  match checkConsistency cl with
  | .error e => .error e
  | .ok _ =>
    match toIssuanceDate cl.iat cl.nbf with
    | .error e => .error e
    | .ok d =>
      match (match cl.exp with
             | none => Except.ok none
             | some e => (ts e).map some) with
      | .error e => .error e
      | .ok ex => .ok { id := cl.jti, issuer := cl.iss, issuance := d, expiration := ex, subjectId := cl.sub, rest := cl.vc.rest }

/-! ### presentations -/

structure Pres where
  id : Option Nat
  holder : Nat
  rest : Nat
  deriving DecidableEq, Repr

/-- `JwtPresentationOptions` -/
structure POpts where
  expiration : Option Int
  issuance : Option Int
  audience : Option Nat
  custom : Option Nat
  deriving DecidableEq, Repr

structure PInner where
  id : Option Nat
  holder : Option Nat
  rest : Nat
  deriving DecidableEq, Repr

structure PClaims where
  exp : Option Int
  iss : Nat
  iat : Option Int
  nbf : Option Int
  jti : Option Nat
  aud : Option Nat
  vp : PInner
  custom : Option Nat
  deriving DecidableEq, Repr

inductive PErr
  | id | holder | timestamp
  deriving DecidableEq, Repr

/-- `PresentationJwtClaims::new` -/
def toPClaims (p : Pres) (o : POpts) : PClaims :=
  { exp := o.expiration, iss := p.holder,
    iat := if Gen.C07.issuanceWritesNbf then none else o.issuance,
    nbf := if Gen.C07.issuanceWritesNbf then o.issuance else none,
    jti := p.id, aud := o.audience,
    vp := { id := omitIf "id" Gen.C07.vpOmitted p.id, holder := omitIf "holder" Gen.C07.vpOmitted (some p.holder), rest := p.rest },
    custom := o.custom }

def pHas (name : String) : Bool := Gen.C07.presentationChecks.contains name
def okPId (cl : PClaims) : Bool := match cl.vp.id with
  | some v => (match cl.jti with | some j => j == v | none => false)
  | none => true
def okPHolder (cl : PClaims) : Bool := match cl.vp.holder with
  | some v => cl.iss == v
  | none => true

/-- `PresentationJwtClaims::check_consistency` -/
def pCheck (cl : PClaims) : Except PErr Unit :=
  firstFailure [(!pHas "id" || okPId cl, PErr.id), (!pHas "holder" || okPHolder cl, PErr.holder)]

/-- `try_into_presentation` -/
def tryIntoPresentation (cl : PClaims) : Except PErr Pres :=
  match pCheck cl with
  | .error e => .error e
  | .ok _ => .ok { id := cl.jti, holder := cl.iss, rest := cl.vp.rest }

/-- what `JwtPresentationValidator` reads back next to the presentation: expiry, issuance, audience, custom claims -/
def decodePOpts (cl : PClaims) : Except PErr POpts :=
  match (match cl.exp with
         | none => Except.ok none
         | some e => (match fromUnix e with | .ok v => Except.ok (some v) | _ => .error PErr.timestamp)) with
  | .error e => .error e
  | .ok ex =>
    match (match cl.iat, cl.nbf with
           | none, none => Except.ok none
           | i, n => (match toIssuanceDate i n with | .ok d => Except.ok (some d) | .error _ => .error PErr.timestamp)) with
    | .error e => .error e
    | .ok is => .ok { expiration := ex, issuance := is, audience := cl.aud, custom := cl.custom }

end IdModel.Vc
