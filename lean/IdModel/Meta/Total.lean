import IdModel.Meta.InvMap
/-! C14, any target: without injectivity the rebuilt collections may lose entries; the size comparison of
`CoreDocument::try_map` turns every such loss into an error. -/
namespace IdModel.Meta
open IdModel.Doc IdModel.OSet

/-- `OneOrSet::try_map` with a total function: de-duplicated, collapsed to `one` when a single element is left -/
def oosMapC (h : Nat → Nat) : OneOrSet Nat → OneOrSet Nat
  | .one x => .one (h x)
  | .set xs =>
    match fromIter id (xs.map h) with
    | [y] => .one y
    | zs => .set zs

/-- the document rebuilt by `CoreDocumentData::try_map` with a total function -/
def IDoc.mapD (h : Nat → Nat) (d : IDoc) : IDoc :=
  { d with id := h d.id, controller := d.controller.map (oosMapC h),
           vm := fromIter Mth.id (d.vm.map (Mth.mapP h)),
           auth := fromIter MR.id (d.auth.map (MR.mapP h)), asrt := fromIter MR.id (d.asrt.map (MR.mapP h)),
           keyAgr := fromIter MR.id (d.keyAgr.map (MR.mapP h)), capDel := fromIter MR.id (d.capDel.map (MR.mapP h)),
           capInv := fromIter MR.id (d.capInv.map (MR.mapP h)),
           service := fromIter Service.id (d.service.map (svcMapP h)) }

/-- all identifiers rewritten, no entry lost; only the controller *set* is de-duplicated -/
def IDoc.mapC (h : Nat → Nat) (d : IDoc) : IDoc :=
  { d.mapP h with controller := d.controller.map (oosMapC h) }

theorem collect_total {α κ : Type} [DecidableEq κ] (key : α → κ) (g : α → Option α) (gp : α → α) (l : List α)
    (hg : ∀ a ∈ l, g a = some (gp a)) : collect key g l = some (fromIter key (l.map gp)) := by
  unfold collect
  rw [optMap_pure g gp l hg]
  rfl

theorem oosTryMap_total (f : Nat → Option Nat) (h : Nat → Nat) (c : OneOrSet Nat)
    (hf : ∀ x ∈ c.toList, f x = some (h x)) : oosTryMap f c = some (oosMapC h c) := by
  cases c with
  | one x =>
    simp only [oosTryMap, oosMapC]
    rw [hf x (by simp [OneOrSet.toList])]
    rfl
  | set xs =>
    simp only [oosTryMap, oosMapC]
    rw [optMap_pure f h xs (by simpa [OneOrSet.toList] using hf)]
    simp only
    split
    · rename_i heq; rw [heq]
    · rename_i hne
      split
      · rename_i y heq; exact absurd heq (hne y)
      · rfl

theorem collect_rel_total (f : Nat → Option Nat) (h : Nat → Nat) (d : IDoc) (l : List MR) (hl : ∀ e ∈ l, e ∈ d.rels)
    (hf : ∀ x ∈ d.dids, f x = some (h x)) :
    collect MR.id (MR.tryMap f) l = some (fromIter MR.id (l.map (MR.mapP h))) :=
  collect_total _ _ _ _ (fun e he => MR.tryMap_pure f h e (fun x hx => hf x (mem_dids_rel d e (hl e he) x hx)))

theorem dataTryMap_total (fid fc fm fs : Nat → Option Nat) (h : Nat → Nat) (d : IDoc)
    (h1 : fid d.id = some (h d.id)) (h2 : ∀ x ∈ ctlDids d.controller, fc x = some (h x))
    (h3 : ∀ x ∈ d.dids, fm x = some (h x)) (h4 : ∀ x ∈ d.dids, fs x = some (h x)) :
    dataTryMap fid fc fm fs d = some (d.mapD h) := by
  unfold dataTryMap
  rw [h1]
  simp only
  have hctl : ctlTryMap fc d.controller = some (d.controller.map (oosMapC h)) := by
    cases hc : d.controller with
    | none => rfl
    | some c =>
      simp only [ctlTryMap, Option.map_some]
      rw [oosTryMap_total fc h c (fun x hx => h2 x (by rw [hc]; exact hx))]
      rfl
  rw [hctl]
  simp only
  have cvm : collect Mth.id (Mth.tryMap fm) d.vm = some (fromIter Mth.id (d.vm.map (Mth.mapP h))) :=
    collect_total _ _ _ _ (fun m hm => Mth.tryMap_pure fm h m (h3 _ (mem_dids_vm d m hm).1) (h3 _ (mem_dids_vm d m hm).2))
  have csv : collect Service.id (svcTryMap fs) d.service = some (fromIter Service.id (d.service.map (svcMapP h))) :=
    collect_total _ _ _ _ (fun s hs => by simp [svcTryMap, mapId, h4 _ (mem_dids_svc d s hs), svcMapP, mapIdP])
  rw [cvm, collect_rel_total fm h d d.auth (fun e he => (mem_rels d e).2 (Or.inl he)) h3,
    collect_rel_total fm h d d.asrt (fun e he => (mem_rels d e).2 (Or.inr (Or.inl he))) h3,
    collect_rel_total fm h d d.keyAgr (fun e he => (mem_rels d e).2 (Or.inr (Or.inr (Or.inl he)))) h3,
    collect_rel_total fm h d d.capDel (fun e he => (mem_rels d e).2 (Or.inr (Or.inr (Or.inr (Or.inl he))))) h3,
    collect_rel_total fm h d d.capInv (fun e he => (mem_rels d e).2 (Or.inr (Or.inr (Or.inr (Or.inr he))))) h3, csv]
  rfl

/-! ### a rebuilt collection of unchanged length lost nothing -/

theorem foldl_append_sublist {α κ : Type} [DecidableEq κ] (key : α → κ) : ∀ (t acc : List α),
    ∃ t', t'.Sublist t ∧ t.foldl (fun a x => (append key a x).1) acc = acc ++ t' := by
  intro t
  induction t with
  | nil => intro acc; exact ⟨[], List.Sublist.refl _, by simp⟩
  | cons x t ih =>
    intro acc
    rw [List.foldl_cons]
    cases hc : contains key acc (key x) with
    | true =>
      have : (append key acc x).1 = acc := by simp [append, hc]
      rw [this]
      obtain ⟨t', hs, he⟩ := ih acc
      exact ⟨t', hs.cons x, he⟩
    | false =>
      have : (append key acc x).1 = acc ++ [x] := by simp [append, hc]
      rw [this]
      obtain ⟨t', hs, he⟩ := ih (acc ++ [x])
      exact ⟨x :: t', hs.cons_cons x, by rw [he]; simp⟩

theorem fromIter_sublist {α κ : Type} [DecidableEq κ] (key : α → κ) (l : List α) : (fromIter key l).Sublist l := by
  unfold fromIter
  obtain ⟨t', hs, he⟩ := foldl_append_sublist key l []
  rw [he]
  simpa using hs

theorem fromIter_eq_of_length {α κ : Type} [DecidableEq κ] (key : α → κ) (l : List α)
    (h : (fromIter key l).length = l.length) : fromIter key l = l :=
  (fromIter_sublist key l).eq_of_length h

theorem fromIter_length_le {α κ : Type} [DecidableEq κ] (key : α → κ) (l : List α) :
    (fromIter key l).length ≤ l.length := (fromIter_sublist key l).length_le

/-- if no collection shrank, the rebuilt document is the plain map (controller set aside) -/
theorem mapD_eq_of_sizes (h : Nat → Nat) (d : IDoc) (hs : (d.mapD h).sizes = d.sizes) : d.mapD h = d.mapC h := by
  simp only [IDoc.sizes, IDoc.mapD, List.cons.injEq, and_true] at hs
  obtain ⟨s1, s2, s3, s4, s5, s6, s7⟩ := hs
  unfold IDoc.mapD IDoc.mapC IDoc.mapP
  rw [fromIter_eq_of_length _ _ (by simpa using s1), fromIter_eq_of_length _ _ (by simpa using s2),
    fromIter_eq_of_length _ _ (by simpa using s3), fromIter_eq_of_length _ _ (by simpa using s4),
    fromIter_eq_of_length _ _ (by simpa using s5), fromIter_eq_of_length _ _ (by simpa using s6),
    fromIter_eq_of_length _ _ (by simpa using s7)]

theorem oosMapC_congr (h h' : Nat → Nat) (c : OneOrSet Nat) (he : ∀ x ∈ c.toList, h x = h' x) :
    oosMapC h c = oosMapC h' c := by
  cases c with
  | one x => simp [oosMapC, he x (by simp [OneOrSet.toList])]
  | set xs =>
    have : xs.map h = xs.map h' := List.map_congr_left (fun x hx => he x (by simpa [OneOrSet.toList] using hx))
    simp only [oosMapC, this]

theorem oosMapC_comp_inj (g1 g2 : Nat → Nat) (c : OneOrSet Nat) (hw : OosWF c) (hi : InjOn g1 c.toList) :
    oosMapC g2 (oosMapP g1 c) = oosMapC (g2 ∘ g1) c := by
  cases c with
  | one x => rfl
  | set xs => simp [oosMapC, oosMapP, List.map_map]

theorem mapC_congr (h h' : Nat → Nat) (d : IDoc) (he : ∀ x ∈ d.dids, h x = h' x) : d.mapC h = d.mapC h' := by
  unfold IDoc.mapC
  rw [mapP_congr h h' d he]
  have : d.controller.map (oosMapC h) = d.controller.map (oosMapC h') := by
    cases hc : d.controller with
    | none => rfl
    | some c =>
      simp only [Option.map_some, Option.some.injEq]
      exact oosMapC_congr h h' c (fun x hx => he x (mem_dids_ctl d x (by rw [hc]; exact hx)))
  rw [this]

end IdModel.Meta
