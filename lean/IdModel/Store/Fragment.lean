import IdModel.Did.Model
/-!
`VerificationMethod::new_from_jwk` (identity_verification/src/verification_method/method.rs) as used by
`generate_method`: the id of the new method is `did.to_url().join(fragment)` — a `#` is put in front of the given
fragment unless it already starts with one — and `MethodBuilder::build` then needs an id that HAS a non-empty
fragment.  This connects the storage model of C09 (where "the fragment is no fragment" was a request flag) to the DID URL
model of C10 (`IdModel.Did.join`, the transliterated third-party parser behind it): whether a given string is accepted
as a fragment, and which fragment the method gets, is computed by that model.
-/
namespace IdModel.Store
open IdModel IdModel.Did

/-- the segment handed to `DIDUrl::join` -/
def fragmentSegment (given : Str) : Str := if given.head? == some 35 then given else 35 :: given

/-- the fragment of the method `new_from_jwk` builds for `did` and the given fragment string; `none`: construction
fails (`DIDUrlConstructionError` or `InvalidMethod("empty id fragment")`) -/
def methodFragment (did given : Str) : Option Str :=
  match parseUrl did with
  | .ok base =>
    match join base (fragmentSegment given) with
    | .ok u =>
      -- the model's `DidUrl.fragment` keeps the delimiter (as the library's field does); `fragment()` drops it
      match u.fragment.map (stripPrefix1 35) with
      | some f => if f.isEmpty then none else some f
      | none => none
    | _ => none
  | _ => none

/-- the number the correspondence uses for a fragment name: `k<digits>` ↦ the number, anything else ↦ 900 + a checksum
(the harness registers the same numbers) -/
def fragmentNumber (f : Str) : Nat :=
  let digits := f.drop 1
  if f.head? == some 107 && !digits.isEmpty && digits.all (fun c => 48 ≤ c && c ≤ 57) && digits.length ≤ 6 then
    digits.foldl (fun a c => a * 10 + (c - 48)) 0
  else 900 + (f.foldl (fun a c => (a * 31 + c) % 97) 0)

end IdModel.Store
