import IdModel.Resolver.Model
import Driver.Util
/-! Line-protocol handler for C20 (resolver). See harness/src/c20.rs for the request grammar. -/
namespace Driver.C20
open IdModel.Resolver IdModel.Doc

def behaves (name n : Nat) : Bool :=
  if name == 1 then n < 50 else if name == 2 || name == 4 then n % 2 == 0 else true

/-- handler `name` attached for method `m`; method 4's handler takes an IOTA DID and refuses odd ids -/
def mkHandler (m name : Nat) : Handler :=
  ⟨name, fun n => if m == 4 && n % 2 == 1 then .parseError else if behaves name n then .doc name else .fail⟩

def parseTable (h : String) : Option Table :=
  if h == "-" then some [] else
  (h.splitOn ",").foldl (fun acc e =>
    match acc, e.splitOn ":" with
    | some t, [m, n] =>
      (match m.toNat?, n.toNat? with
       | some m, some n => some (t.attach m (mkHandler m n))
       | _, _ => none)
    | _, _ => none) (some [])

def parseDid (t : String) : Option Did :=
  match t.splitOn "." with
  | [m, n] => (match m.toNat?, n.toNat? with | some m, some n => some ⟨m, n⟩ | _, _ => none)
  | _ => none

def showDid (d : Did) : String := s!"{d.method}.{d.id}"
def showErr : RErr → String
  | .unsupported _ => "unsupported" | .parse _ => "parse" | .handler d => "handler:" ++ showDid d

def firstOcc : List (Did × Nat) → List Did → List (Did × Nat)
  | [], _ => []
  | (d, r) :: t, seen => if seen.contains d then firstOcc t seen else (d, r) :: firstOcc t (d :: seen)

def insertSorted (x : String) : List String → List String
  | [] => [x]
  | y :: t => if x < y then x :: y :: t else y :: insertSorted x t

def handle (args : List String) : String :=
  match args with
  | ["res", h, d] =>
    match parseTable (h.drop 2).toString, parseDid (d.drop 2).toString with
    | some t, some d =>
      let r := resolve t d
      let calls := "+".intercalate (r.2.map (fun c => s!"{c.1}:{showDid c.2}"))
      (match r.1 with
       | .ok n => s!"ok:{n}:{showDid d} calls={calls}"
       | .error e => s!"err:{showErr e} calls={calls}")
    | _, _ => "bad-request"
  | ["multi", h, ds, rk] =>
    match parseTable (h.drop 2).toString with
    | none => "bad-request"
    | some t =>
      let dids := ((ds.drop 2).toString.splitOn ",").map parseDid
      let ranks := ((rk.drop 2).toString.splitOn ",").map String.toNat?
      if dids.any Option.isNone || ranks.any Option.isNone || dids.length != ranks.length then "bad-request" else
      let pairs := firstOcc ((dids.filterMap id).zip (ranks.filterMap id)) []
      -- resolutions that never reach a handler complete first, then the handlers in the requested order
      let reaches (d : Did) : Bool :=
        match t.get d.method with
        | none => false
        | some hd => (match hd.run d.id with | .parseError => false | _ => true)
      let imm := (pairs.filter (fun p => !reaches p.1)).map (·.1)
      let waiters := ((pairs.filter (fun p => reaches p.1)).mergeSort (fun a b => a.2 ≤ b.2)).map (·.1)
      match resolveMultiple t (imm ++ waiters) with
      | .ok r =>
        let entries := r.foldl (fun acc e => insertSorted s!"{showDid e.1}>{e.2}:{showDid e.1}" acc) []
        "ok:" ++ ",".intercalate entries
      | .error (.handler d) => "err:handler:" ++ showDid d
      | .error _ => "err:immediate"
  | ["jwkmulti", n] =>
    -- n (at most five) textually different DIDs of one key, one DID of another key, a literal duplicate of the first: the
    -- did:jwk handler (method 7, always succeeds) is called per distinct DID; one entry per distinct DID
    match n.toNat? with
    | none => "bad-request"
    | some n =>
      let t : Table := Table.attach [] 7 ⟨7, fun k => .doc k⟩
      let ds : List Did := ((List.range (min n 5)).map fun i => (⟨7, i⟩ : Did)) ++ [⟨7, 99⟩, ⟨7, 0⟩]
      (match resolveMultiple t (firstOcc (ds.map fun d => (d, 0)) []).unzip.1 with
       | .ok r => s!"ok:{r.length}"
       | .error _ => "err:handler")
  | ["jwk", v] =>
    if v == "priv" then "err:handler" else if v == "garbage" then "err:parse" else
    if !(["ed", "edalg", "edx5", "p256", "rsa", "edchain", "p256alg", "p384alg", "p521alg", "p521", "k256alg", "x25519"].contains v) then "bad-request" else
    let doc := expandDidJwk 1 77
    let mid : Id := ⟨1, 0, some 0⟩
    let key := match doc.vm with | [m] => m.body == 77 && m.id == mid | _ => false
    let rels := [doc.auth, doc.asrt, doc.keyAgr, doc.capDel, doc.capInv]
    let idx := (List.range 5).filter (fun i => rels[i]! == [MRef.refer mid])
    let other := rels.any (fun l => l != [] && l != [MRef.refer mid])
    s!"ok:id=1;vm={doc.vm.length};frag={IdModel.Gen.C20.didJwkFragment};key={if key then 1 else 0};rels={"+".intercalate (idx.map toString)};other={if other then 1 else 0};rt=1"
  | _ => "bad-request"

end Driver.C20
