//! C11 — JOSE header policy against the Lean model `IdModel.Jose.Header`.
use crate::jose_util::*;
use crate::rng::Rng;
use identity_jose::jws::{
  CharSet, CompactJwsEncoder, CompactJwsEncodingOptions, Decoder, FlattenedJwsEncoder, GeneralJwsEncoder, JwsVerifierFn, Recipient, VerificationInput,
};
use identity_jose::jwk::Jwk;
use std::io::Write;

fn fail(obs: String, f: Option<String>) -> String {
  match f {
    Some(f) => format!("{}\t#FAIL:{}", obs, f),
    None => obs,
  }
}

fn judge(accepted: bool, p: &Option<HSpec>, u: &Option<HSpec>, what: &str) -> Option<String> {
  match policy_ok(p, u) {
    Some(true) if !accepted && !(p.is_none() && u.is_none()) => Some(format!("policy-rejects-allowed:{} rejected a header set violating no rule", what)),
    Some(false) if accepted => Some(format!("policy-accepts-forbidden:{} accepted a header set the policy forbids", what)),
    _ => None,
  }
}

fn recipient<'a>(p: &'a Option<identity_jose::jws::JwsHeader>, u: &'a Option<identity_jose::jws::JwsHeader>) -> Recipient<'a> {
  let mut r = Recipient::new();
  if let Some(p) = p {
    r = r.protected(p);
  }
  if let Some(u) = u {
    r = r.unprotected(u);
  }
  r
}

fn sig_json(p: &Option<HSpec>, u: &Option<HSpec>) -> serde_json::Map<String, serde_json::Value> {
  let mut m = serde_json::Map::new();
  if let Some(p) = p {
    m.insert("protected".into(), serde_json::json!(b64url(header_json(p).to_string().as_bytes())));
  }
  if let Some(u) = u {
    m.insert("header".into(), header_json(u));
  }
  m.insert("signature".into(), serde_json::json!(b64url(b"sig")));
  m
}

fn verify_all(item: identity_jose::jws::JwsValidationItem<'_>) -> &'static str {
  let verifier = JwsVerifierFn::from(|_input: VerificationInput, _key: &Jwk| Ok(()));
  match item.verify(&verifier, &sample_jwk()) {
    Ok(_) => "ok:verified",
    Err(_) => "ok:verify-err",
  }
}

/// the same item verified with a key that pins an algorithm: such a key must not stand in for a missing `alg` of the
/// protected header
fn pinned_verifies(item: identity_jose::jws::JwsValidationItem<'_>) -> bool {
  let verifier = JwsVerifierFn::from(|_input: VerificationInput, _key: &Jwk| Ok(()));
  let no_alg = item.protected_header().map(|h| h.alg().is_none()).unwrap_or(true);
  let mut pinned = sample_jwk();
  pinned.set_alg("EdDSA");
  no_alg && item.verify(&verifier, &pinned).is_ok()
}

pub fn run(args: &[&str]) -> String {
  let hs: Option<Vec<Option<HSpec>>> = args[1..].iter().map(|t| parse_hspec(t)).collect();
  let Some(hs) = hs else { return "bad-request".into() };
  let built: Option<Vec<Option<identity_jose::jws::JwsHeader>>> =
    hs.iter().map(|h| h.as_ref().map(|h| build_header(h)).map_or(Some(None), |x| x.map(Some))).collect();
  match args[0] {
    "flat" if hs.len() == 2 => {
      let Some(b) = built else { return "bad-request".into() };
      let ok = FlattenedJwsEncoder::new(b"payload", recipient(&b[0], &b[1]), false).is_ok();
      fail(if ok { "ok" } else { "err" }.into(), judge(ok, &hs[0], &hs[1], "FlattenedJwsEncoder::new"))
    }
    "compact" if hs.len() == 1 && hs[0].is_some() => {
      let Some(b) = built else { return "bad-request".into() };
      let ok = CompactJwsEncoder::new(b"payload", b[0].as_ref().unwrap()).is_ok();
      // the header policy does not depend on the encoding options (the payload passes both character sets)
      let mut f = judge(ok, &hs[0], &None, "CompactJwsEncoder::new");
      for (name, o) in [
        ("Detached", CompactJwsEncodingOptions::Detached),
        ("NonDetached/Default", CompactJwsEncodingOptions::NonDetached { charset_requirements: CharSet::Default }),
        ("NonDetached/UrlSafe", CompactJwsEncodingOptions::NonDetached { charset_requirements: CharSet::UrlSafe }),
      ] {
        let ok2 = CompactJwsEncoder::new_with_options(b"payload", b[0].as_ref().unwrap(), o).is_ok();
        f = f.or(judge(ok2, &hs[0], &None, &format!("CompactJwsEncoder::new_with_options({})", name)));
        if ok2 != ok && f.is_none() {
          f = Some(format!("policy-depends-on-encoding-options:new_with_options({}) {} the header CompactJwsEncoder::new {}", name, if ok2 { "accepts" } else { "rejects" }, if ok { "accepts" } else { "rejects" }));
        }
      }
      fail(if ok { "ok" } else { "err" }.into(), f)
    }
    // `generale` / `generaled`: the same with the EMPTY payload, attached / detached (the header rules do not depend on the payload)
    "general" | "generale" | "generaled" if hs.len() % 2 == 0 && hs.len() >= 2 => {
      let Some(b) = built else { return "bad-request".into() };
      let n = hs.len() / 2;
      let mut f = None;
      let payload: &[u8] = if args[0] == "general" { b"payload" } else { b"" };
      let mut enc = match GeneralJwsEncoder::new(payload, recipient(&b[0], &b[1]), args[0] == "generaled") {
        Ok(e) => e,
        Err(_) => return fail("err@0".into(), judge(false, &hs[0], &hs[1], "GeneralJwsEncoder::new")),
      };
      f = f.or(judge(true, &hs[0], &hs[1], "GeneralJwsEncoder::new"));
      for i in 1..n {
        let ready = enc.set_signature(b"sig");
        match ready.add_recipient(recipient(&b[2 * i], &b[2 * i + 1])) {
          Ok(e) => {
            enc = e;
            f = f.or(judge(true, &hs[2 * i], &hs[2 * i + 1], "GeneralJwsEncoder::add_recipient"));
            if eff_b64(&hs[2 * i]) != eff_b64(&hs[0]) {
              f = f.or(Some("general-b64-disagree:encoder accepted recipients that disagree on b64".into()));
            }
          }
          Err(_) => {
            let ff = if eff_b64(&hs[2 * i]) == eff_b64(&hs[0]) { judge(false, &hs[2 * i], &hs[2 * i + 1], "GeneralJwsEncoder::add_recipient") } else { None };
            return fail(format!("err@{}", i), f.or(ff));
          }
        }
      }
      fail("ok".into(), f)
    }
    "dflat" if hs.len() == 2 => {
      let mut m = sig_json(&hs[0], &hs[1]);
      m.insert("payload".into(), serde_json::json!(b64url(b"payload")));
      let tok = serde_json::Value::Object(m).to_string();
      match Decoder::new().decode_flattened_serialization(tok.as_bytes(), None) {
        Ok(item) => {
          let f = judge(true, &hs[0], &hs[1], "decode_flattened_serialization");
          let v = verify_all(item);
          let v = if Decoder::new().decode_flattened_serialization(tok.as_bytes(), None).map(pinned_verifies).unwrap_or(false) { "ok:verified-through-the-key's-alg" } else { v };
          let f = f.or(if v == "ok:verified" && hs[0].as_ref().and_then(|h| h.alg.clone()).is_none() {
            Some("verify-without-protected-alg:verified without alg in the protected header".into())
          } else {
            None
          });
          fail(v.into(), f)
        }
        Err(_) => fail("err".into(), judge(false, &hs[0], &hs[1], "decode_flattened_serialization")),
      }
    }
    "dcompact" if hs.len() == 1 && hs[0].is_some() => {
      let tok = format!(
        "{}.{}.{}",
        b64url(header_json(hs[0].as_ref().unwrap()).to_string().as_bytes()),
        if eff_b64(&hs[0]) { b64url(b"payload") } else { "payload".to_string() },
        b64url(b"sig")
      );
      match Decoder::new().decode_compact_serialization(tok.as_bytes(), None) {
        Ok(item) => {
          let f = judge(true, &hs[0], &None, "decode_compact_serialization");
          let v = verify_all(item);
          let v = if Decoder::new().decode_compact_serialization(tok.as_bytes(), None).map(pinned_verifies).unwrap_or(false) { "ok:verified-through-the-key's-alg" } else { v };
          let f = f.or(if v == "ok:verified" && hs[0].as_ref().and_then(|h| h.alg.clone()).is_none() {
            Some("verify-without-protected-alg:verified without alg in the protected header".into())
          } else {
            None
          });
          fail(v.into(), f)
        }
        Err(_) => fail("err".into(), judge(false, &hs[0], &None, "decode_compact_serialization")),
      }
    }
    "dgeneral" if hs.len() % 2 == 0 && hs.len() >= 2 => {
      let n = hs.len() / 2;
      let sigs: Vec<serde_json::Value> = (0..n).map(|i| serde_json::Value::Object(sig_json(&hs[2 * i], &hs[2 * i + 1]))).collect();
      // a payload that is valid both as base64url text and as raw text
      let tok = serde_json::json!({"payload": b64url(b"payload"), "signatures": sigs}).to_string();
      // a protected header naming an algorithm the library does not know does not deserialise: that signature is an error of
      // its own and takes no part in the comparison of the others
      const KNOWN: [&str; 15] = ["HS256", "HS384", "HS512", "RS256", "RS384", "RS512", "PS256", "PS384", "PS512", "ES256", "ES384", "ES512", "ES256K", "none", "EdDSA"];
      let decodable = |h: &Option<HSpec>| h.as_ref().and_then(|h| h.alg.as_ref()).map(|a| KNOWN.contains(&a.as_str())).unwrap_or(true);
      let dec: Vec<usize> = (0..n).filter(|i| decodable(&hs[2 * i])).collect();
      let agree = dec.iter().all(|i| eff_b64(&hs[2 * i]) == eff_b64(&hs[2 * dec[0]]));
      match Decoder::new().decode_general_serialization(tok.as_bytes(), None) {
        Ok(iter) => {
          let mut out = vec![];
          let mut f = None;
          let mut accepted = 0;
          for (i, r) in iter.enumerate() {
            match r {
              Ok(item) => {
                accepted += 1;
                if decodable(&hs[2 * i]) {
                  f = f.or(judge(true, &hs[2 * i], &hs[2 * i + 1], "decode_general_serialization"));
                } else {
                  f = f.or(Some("policy-accepts-forbidden:decode_general_serialization accepted a signature whose protected header names an unknown algorithm".into()));
                }
                out.push(verify_all(item).to_string());
              }
              Err(_) => {
                if decodable(&hs[2 * i]) {
                  f = f.or(judge(false, &hs[2 * i], &hs[2 * i + 1], "decode_general_serialization"));
                }
                out.push("err".to_string());
              }
            }
          }
          if !agree && accepted >= 1 {
            f = Some("general-b64-disagree:decoder accepted a token whose signatures disagree on b64".into());
          }
          fail(out.join(" "), f)
        }
        Err(_) => fail("err".into(), if agree { Some("policy-rejects-allowed:decode_general_serialization rejected a token whose signatures agree on b64".into()) } else { None }),
      }
    }
    _ => "bad-request".into(),
  }
}

fn hdr_tok(alg: &str, b64: &str, crit: &str, fields: &str, custom: &str) -> String {
  format!("H:{}:{}:{}:{}:{}", alg, b64, crit, fields, custom)
}

pub fn gen(thorough: bool, seed: u64, out: &mut impl Write) {
  let algs = ["-", "EdDSA"];
  let b64s = ["-", "t", "f"];
  let crits = ["-", "=", "b64", "b64,b64", "alg", "exp", "x-unknown", "x5t#S256", "kid", "b64,exp", "nonce", "B64", "b64,B64", "ALG", "x5t#s256"];
  let shared = [("-", "-"), ("kid", "-"), ("-", "x"), ("typ,nonce", "-"), ("x5t_s256", "y")];
  // full decision table: protected x unprotected
  let mut prot = vec!["_".to_string()];
  for a in algs {
    for b in b64s {
      for c in crits {
        for (f, x) in [("-", "-"), ("kid", "-"), ("kid", "x"), ("nonce,typ", "-"), ("-", "B64")] {
          prot.push(hdr_tok(a, b, c, f, x));
        }
      }
    }
  }
  let mut unprot = vec!["_".to_string()];
  for a in algs {
    for b in b64s {
      for c in ["-", "=", "b64"] {
        for (f, x) in shared {
          unprot.push(hdr_tok(a, b, c, f, x));
        }
      }
    }
  }
  for p in &prot {
    if p != "_" {
      writeln!(out, "C11 compact {}", p).unwrap();
      writeln!(out, "C11 dcompact {}", p).unwrap();
    }
    for u in &unprot {
      writeln!(out, "C11 flat {} {}", p, u).unwrap();
      writeln!(out, "C11 dflat {} {}", p, u).unwrap();
    }
  }
  // custom names shadowing a declared parameter of the OTHER header (encoders only: via set_custom)
  for k in ["kid", "typ", "nonce", "crit", "x5t#S256", "url", "alg", "b64"] {
    for (f, a) in [("kid", "-"), ("typ", "-"), ("nonce", "-"), ("x5t_s256", "-"), ("url", "-"), ("-", "EdDSA"), ("-", "-")] {
      writeln!(out, "C11 flat {} {}", hdr_tok("EdDSA", "-", "-", "-", k), hdr_tok("-", "-", "-", f, "-")).unwrap();
      writeln!(out, "C11 flat {} {}", hdr_tok(a, "-", "-", f, "-"), hdr_tok("-", "-", "-", "-", k)).unwrap();
      writeln!(out, "C11 flat {} {}", hdr_tok("EdDSA", "-", "-", "-", k), hdr_tok("-", "-", "-", "-", k)).unwrap();
    }
  }
  // general serialization: 2..3 recipients mixing b64
  let rec = [
    ("H:EdDSA:-:-:-:-", "_"),
    ("H:EdDSA:t:b64:-:-", "_"),
    ("H:EdDSA:f:b64:-:-", "_"),
    ("H:EdDSA:f:b64:kid:-", "H:-:-:-:typ:-"),
    ("H:EdDSA:-:-:kid:-", "H:-:-:-:kid:-"),
    ("_", "H:EdDSA:-:-:-:-"),
    ("_", "_"),
    ("H:EdDSA:f:-:-:-", "_"),
    ("H:-:-:-:kid:-", "_"),
  ];
  for a in rec {
    for b in rec {
      writeln!(out, "C11 general {} {} {} {}", a.0, a.1, b.0, b.1).unwrap();
      writeln!(out, "C11 generale {} {} {} {}", a.0, a.1, b.0, b.1).unwrap();
      writeln!(out, "C11 generaled {} {} {} {}", a.0, a.1, b.0, b.1).unwrap();
      writeln!(out, "C11 dgeneral {} {} {} {}", a.0, a.1, b.0, b.1).unwrap();
      if thorough {
        for c in rec {
          writeln!(out, "C11 general {} {} {} {} {} {}", a.0, a.1, b.0, b.1, c.0, c.1).unwrap();
          writeln!(out, "C11 dgeneral {} {} {} {} {} {}", a.0, a.1, b.0, b.1, c.0, c.1).unwrap();
        }
      }
    }
  }
  // three and four signatures with one whose protected header does not deserialise (an algorithm of another signer) before,
  // between and after signatures that agree / disagree on b64
  {
    let und = ("H:XYZ:-:-:-:-", "_");
    let pool = [("H:EdDSA:-:-:-:-", "_"), ("H:EdDSA:t:b64:-:-", "_"), ("H:EdDSA:f:b64:-:-", "_"), ("H:ES256:f:b64:kid:-", "_"), ("_", "H:EdDSA:-:-:-:-")];
    for a in pool {
      for b in pool {
        for pos in 0..3 {
          let mut v = vec![a, b];
          v.insert(pos, und);
          let t: Vec<String> = v.iter().map(|x| format!("{} {}", x.0, x.1)).collect();
          writeln!(out, "C11 dgeneral {}", t.join(" ")).unwrap();
        }
        let t: Vec<String> = [und, a, und, b].iter().map(|x| format!("{} {}", x.0, x.1)).collect();
        writeln!(out, "C11 dgeneral {}", t.join(" ")).unwrap();
      }
    }
    writeln!(out, "C11 dgeneral {} {} {} {}", und.0, und.1, und.0, und.1).unwrap();
    writeln!(out, "C11 dgeneral {} {}", und.0, und.1).unwrap();
  }
  // random header pairs over all fields
  let mut r = Rng::new(seed ^ 0xC11);
  let fields = ["jku", "jwk", "kid", "x5u", "x5c", "x5t", "x5t_s256", "typ", "cty", "url", "nonce"];
  let customs = ["x", "y", "exp", "kid", "x5t#S256", "crit", "B64", "Kid"];
  let n = if thorough { 40_000 } else { 4_000 };
  let mut rh = |r: &mut Rng, prot: bool| -> String {
    if r.chance(1, 10) {
      return "_".into();
    }
    let a = if r.chance(if prot { 4 } else { 1 }, 5) { *r.pick(&["EdDSA", "ES256"]) } else { "-" };
    let b = if r.chance(if prot { 1 } else { 0 } + 1, 4) { *r.pick(&["t", "f"]) } else { "-" };
    let c = if r.chance(1, 3) { *r.pick(&crits) } else { "-" };
    let fs: Vec<&str> = fields.iter().filter(|_| r.chance(1, 5)).copied().collect();
    let xs: Vec<&str> = customs.iter().filter(|_| r.chance(1, 8)).copied().collect();
    let fs = if fs.is_empty() { "-".to_string() } else { fs.join(",") };
    // a custom name must not repeat a member of the same header (serde would emit a duplicate key)
    let xs: Vec<&str> = xs
      .into_iter()
      .filter(|x| !(fs.split(',').any(|f| json_name(f) == *x) || (*x == "crit" && c != "-")))
      .collect();
    let xs = if xs.is_empty() { "-".to_string() } else { xs.join(",") };
    hdr_tok(a, b, c, &fs, &xs)
  };
  for _ in 0..n {
    let p = rh(&mut r, true);
    let u = rh(&mut r, false);
    writeln!(out, "C11 flat {} {}", p, u).unwrap();
  }
}
