import IdModel.OSet.Model
import Driver.Util
namespace Driver.C19
open IdModel.OSet

abbrev E := Nat × Nat

def parseE (t : String) : Option E :=
  match t.splitOn ":" with
  | [k, v] => do pure ((← k.toNat?), (← v.toNat?))
  | _ => none

def showE (e : E) : String := s!"{e.1}:{e.2}"
def showL (l : List E) : String := "[" ++ ",".intercalate (l.map showE) ++ "]"

def parseOp (t : String) : Option (Op E Nat) :=
  match t.splitOn ":" with
  | ["a", k, v] => do pure (.append ((← k.toNat?), (← v.toNat?)))
  | ["p", k, v] => do pure (.prepend ((← k.toNat?), (← v.toNat?)))
  | ["u", k, v] => do pure (.update ((← k.toNat?), (← v.toNat?)))
  | ["r", c, k, v] => do pure (.replace (← c.toNat?) ((← k.toNat?), (← v.toNat?)))
  | ["d", k] => do pure (.remove (← k.toNat?))
  | _ => none

def showRes : Res E → String
  | .flag true => "T" | .flag false => "F"
  | .removed none => "N" | .removed (some e) => showE e

def runOps (s : List E) : List (Op E Nat) → List String
  | [] => []
  | op :: ops => let (s', r) := step Prod.fst s op; (showRes r ++ showL s') :: runOps s' ops

def showOOS : Option (OneOrSet E) → String
  | none => "err"
  | some (.one x) => s!"one({showE x})"
  | some (.set xs) => "set" ++ showL xs

def showOOM : OneOrMany E → String
  | .one x => s!"one({showE x})"
  | .many xs => "many" ++ showL xs

/-- OneOrSet ops: `a:k:v` append, `m:n` map `(k,v) ↦ (k % n, v)` -/
def runOOS (r : OneOrSet E) : List String → List String
  | [] => []
  | t :: ts =>
    match t.splitOn ":" with
    | ["a", k, v] =>
      match k.toNat?, v.toNat? with
      | some k, some v =>
        let (r', b) := OneOrSet.append Prod.fst r (k, v)
        ((if b then "T" else "F") ++ showOOS (some r')) :: runOOS r' ts
      | _, _ => ["bad-op"]
    | ["m", n] =>
      match n.toNat? with
      | some n =>
        let r' := OneOrSet.map Prod.fst (fun (e : E) => (e.1 % n, e.2)) r
        ("M" ++ showOOS (some r')) :: runOOS r' ts
      | none => ["bad-op"]
    | _ => ["bad-op"]

def runOOM (r : OneOrMany E) : List String → List String
  | [] => []
  | t :: ts =>
    match parseE t with
    | some e => let r' := OneOrMany.push r e; showOOM r' :: runOOM r' ts
    | none => ["bad-op"]

/-- JSON value tokens: `s:<str>`, `n`, `[` … `]` -/
partial def parseJV : List String → Option (JV × List String)
  | "n" :: r => some (.other, r)
  | "[" :: r =>
    let rec items (acc : List JV) (r : List String) : Option (JV × List String) :=
      match r with
      | "]" :: r' => some (.arr acc.reverse, r')
      | _ => match parseJV r with
        | some (v, r') => items (v :: acc) r'
        | none => none
    items [] r
  | t :: r =>
    if t.startsWith "s:" then some (.str (t.drop 2).toString, r)
    -- `w:<text>`: `_` stands for a space, `^` for a tab
    else if t.startsWith "w:" then
      some (.str (String.ofList ((t.drop 2).toString.toList.map fun c => if c == '_' then ' ' else if c == '^' then '\t' else c)), r)
    else none
  | [] => none

def showStrs (l : List String) : String := "[" ++ ",".intercalate l ++ "]"

def handle : List String → String
  | "oset" :: rest =>
    let (es, ops) := splitAt "|" rest
    match es.mapM parseE, ops.mapM parseOp with
    | some s, some ops => " ".intercalate (runOps s ops)
    | _, _ => "bad-request"
  | "fromiter" :: es =>
    match es.mapM parseE with
    | some xs => showL (fromIter Prod.fst xs)
    | none => "bad-request"
  | "tryfrom" :: es =>
    match es.mapM parseE with
    | some xs => match tryFromVec Prod.fst xs with
      | some s => showL s
      | none => "err"
    | none => "bad-request"
  | "oos" :: rest =>
    let (es, ops) := splitAt "|" rest
    match es.mapM parseE with
    | some xs =>
      match OneOrSet.tryFromVec Prod.fst xs with
      | none => "err"
      | some r => " ".intercalate (showOOS (some r) :: runOOS r ops)
    | none => "bad-request"
  | "oom" :: rest =>
    let (es, ops) := splitAt "|" rest
    match es.mapM parseE with
    | some xs => let r := OneOrMany.fromVec xs; " ".intercalate (showOOM r :: runOOM r ops)
    | none => "bad-request"
  | "json" :: ty :: rest =>
    match parseJV rest with
    | some (v, []) =>
      match ty with
      | "oset" => match osetFromJ v with
        | some s => "set" ++ showStrs s
        | none => "err"
      | "oos" => match oneOrSetFromJ v with
        | some (.one x) => s!"one({x})"
        | some (.set xs) => "set" ++ showStrs xs
        | none => "err"
      | "oom" => match oneOrManyFromJ v with
        | some (.one x) => s!"one({x})"
        | some (.many xs) => "many" ++ showStrs xs
        | none => "err"
      | _ => "bad-request"
    | _ => "bad-request"
  | _ => "bad-request"

end Driver.C19
