import IdModel.Store.Model
import IdModel.Doc.Lemmas
/-! Helper lemmas for C09 (stores as association lists, effect of `remove_method_and_scope`). -/
namespace IdModel.Store
open IdModel.Doc IdModel.OSet

theorem lookup_append (a b : List (Digest × Nat)) (dg : Digest) :
    lookupKid (a ++ b) dg = (lookupKid a dg).or (lookupKid b dg) := by
  unfold lookupKid
  rw [List.find?_append]
  cases List.find? (fun e => e.1 == dg) a <;> rfl

theorem lookup_filter_self (kids : List (Digest × Nat)) (dg : Digest) :
    lookupKid (kids.filter (fun e => !(e.1 == dg))) dg = none := by
  unfold lookupKid
  have : List.find? (fun e => e.1 == dg) (kids.filter (fun e => !(e.1 == dg))) = none := by
    rw [List.find?_eq_none]
    intro x hx
    have := (List.mem_filter.1 hx).2
    simpa using this
  rw [this]; rfl

theorem lookup_filter_ne (kids : List (Digest × Nat)) (dg dg' : Digest) (h : dg' ≠ dg) :
    lookupKid (kids.filter (fun e => !(e.1 == dg))) dg' = lookupKid kids dg' := by
  unfold lookupKid
  induction kids with
  | nil => rfl
  | cons x t ih =>
    rw [List.filter_cons]
    by_cases hx : x.1 = dg
    · have h1 : (!(x.1 == dg)) = false := by simp [hx]
      have h2 : (x.1 == dg') = false := by
        rw [hx]; exact beq_false_of_ne (fun e => h e.symm)
      simp only [h1, Bool.false_eq_true, ↓reduceIte, List.find?_cons, h2]
      exact ih
    · have h1 : (!(x.1 == dg)) = true := by simp [hx]
      simp only [h1, ↓reduceIte, List.find?_cons]
      cases x.1 == dg'
      · exact ih
      · rfl

theorem filter_append_fresh (keys : List Nat) (k : Nat) (h : k ∉ keys) :
    (keys ++ [k]).filter (fun x => !(x == k)) = keys := by
  rw [List.filter_append]
  have h1 : keys.filter (fun x => !(x == k)) = keys := by
    apply List.filter_eq_self.2
    intro a ha
    have : a ≠ k := fun e => h (e ▸ ha)
    simp [this]
  rw [h1]; simp

/-! ### what `remove_method_and_scope` leaves behind -/

theorem remove_gone {α : Type} (key : α → Id) (s : List α) (k : Id) (h : Uniq key s) :
    ∀ e ∈ (remove key s k).1, key e ≠ k := by
  rw [remove_eq key s k h]
  intro e he
  simpa using (List.mem_filter.1 he).2

theorem removeRels_gone (k : Id) (L : List Rel) : ∀ d : Doc, (∀ r, Uniq MRef.id (d.getRel r)) →
    ∀ r ∈ L, ∀ e ∈ (removeRels d k L).1.getRel r, e.id ≠ k := by
  induction L with
  | nil => intro _ _ r hr; cases hr
  | cons r0 rs ih =>
    intro d hu r hr e he
    rw [removeRels_fst] at he
    have hu' : ∀ r, Uniq MRef.id ((d.setRel r0 (remove MRef.id (d.getRel r0) k).1).getRel r) := by
      intro r'
      rw [getRel_setRel]
      split
      · exact remove_inv _ _ _ (hu r0)
      · exact hu r'
    by_cases hin : r ∈ rs
    · exact ih _ hu' r hin e he
    · have hr0 : r = r0 := by
        rcases List.mem_cons.1 hr with h | h
        · exact h
        · exact absurd h hin
      subst hr0
      have hsub := (removeRels_sub k rs (d.setRel r (remove MRef.id (d.getRel r) k).1)).rel r
      have := hsub.subset he
      rw [getRel_setRel_same] at this
      exact remove_gone MRef.id _ k (hu r) e this

theorem removeRels_vm (k : Id) (L : List Rel) : ∀ d : Doc, (removeRels d k L).1.vm = d.vm := by
  induction L with
  | nil => intro d; rfl
  | cons r rs ih => intro d; rw [removeRels_fst, ih]; simp

/-- if the first loop found an embedded method, a relationship held one with that id -/
theorem removeRels_found (k : Id) (L : List Rel) : ∀ (d : Doc) (m : Method) (r : Rel),
    (removeRels d k L).2 = some (m, r) → ∃ r', MRef.embed m ∈ d.getRel r' ∧ m.id = k := by
  induction L with
  | nil => intro d m r h; cases h
  | cons r0 rs ih =>
    intro d m r h
    rw [removeRels] at h
    have hfind : ∀ x, (remove MRef.id (d.getRel r0) k).2 = some x → x ∈ d.getRel r0 ∧ x.id = k := by
      intro x hx
      generalize d.getRel r0 = l at hx
      induction l with
      | nil => cases hx
      | cons y ys ihl =>
        unfold remove at hx
        by_cases hy : y.id = k
        · rw [if_pos hy] at hx
          simp only [Option.some.injEq] at hx
          subst hx; exact ⟨List.mem_cons_self, hy⟩
        · rw [if_neg hy] at hx
          obtain ⟨a, b⟩ := ihl hx
          exact ⟨List.mem_cons_of_mem _ a, b⟩
    split at h
    · rename_i m' heq
      simp only [Option.some.injEq, Prod.mk.injEq] at h
      obtain ⟨h1, _⟩ := h
      subst h1
      obtain ⟨a, b⟩ := hfind _ heq
      exact ⟨r0, a, b⟩
    · obtain ⟨r', hr', hk⟩ := ih _ m r h
      rw [getRel_setRel] at hr'
      split at hr'
      · rename_i hrr; subst hrr
        exact ⟨r', (remove_sublist _ _ _).subset hr', hk⟩
      · exact ⟨r', hr', hk⟩

/-- after `remove_method_and_scope(k)` no entry of the document carries the id `k` -/
theorem removeMethod_gone (d : Doc) (k : Id) (hi : Inv d) :
    (∀ r, ∀ e ∈ (removeMethod d k).1.getRel r, e.id ≠ k) ∧ (∀ v ∈ (removeMethod d k).1.vm, v.id ≠ k) := by
  have hrel := removeRels_gone k (relList Gen.C04.removeOrder) d hi.uRel
  unfold removeMethod
  simp only
  split
  · rename_i m r hfound
    refine ⟨fun r' e he => hrel r' (mem_removeOrder r') e he, ?_⟩
    intro v hv hvk
    rw [removeRels_vm] at hv
    obtain ⟨r', hr', hmk⟩ := removeRels_found k _ d m r hfound
    exact hi.vmEmb v hv r' _ hr' rfl (hmk.trans hvk.symm)
  · refine ⟨?_, ?_⟩
    · intro r' e he
      have : e ∈ (removeRels d k (relList Gen.C04.removeOrder)).1.getRel r' := by
        cases r' <;> exact he
      exact hrel r' (mem_removeOrder r') e this
    · intro v hv
      have hu : Uniq Method.id (removeRels d k (relList Gen.C04.removeOrder)).1.vm := by
        rw [removeRels_vm]; exact hi.uVm
      exact remove_gone Method.id _ k hu v hv

/-! ### removing an id nothing carries; removing the entry appended last -/

theorem remove_absent {α : Type} (key : α → Id) (l : List α) (k : Id) (h : ∀ y ∈ l, key y ≠ k) :
    OSet.remove key l k = (l, none) := by
  induction l with
  | nil => rfl
  | cons y ys ih =>
    have hy : key y ≠ k := h y List.mem_cons_self
    simp [OSet.remove, hy, ih (fun z hz => h z (List.mem_cons_of_mem _ hz))]

theorem remove_last {α : Type} (key : α → Id) (l : List α) (m : α) (h : ∀ y ∈ l, key y ≠ key m) :
    OSet.remove key (l ++ [m]) (key m) = (l, some m) := by
  induction l with
  | nil => simp [OSet.remove]
  | cons y ys ih =>
    have hy : key y ≠ key m := h y List.mem_cons_self
    simp [OSet.remove, hy, ih (fun z hz => h z (List.mem_cons_of_mem _ hz))]

theorem removeRels_absent (k : Id) (L : List Rel) : ∀ d : Doc, (∀ r, ∀ e ∈ d.getRel r, e.id ≠ k) →
    removeRels d k L = (d, none) := by
  induction L with
  | nil => intro d _; rfl
  | cons r rs ih =>
    intro d h
    unfold removeRels
    simp only [remove_absent MRef.id (d.getRel r) k (h r), setRel_getRel, ih d h]


end IdModel.Store
