import IdModel.Core.Outcome
import IdModel.Core.B64
import IdModel.Gen.C05
import IdModel.Meta.Model
/-!
Panic-aware models of the byte-level decoders property C05 names that are not modelled for another property:
`MethodDigest::unpack`, the framing of `StateMetadataDocument::unpack` with every read either bounds-checked or a raw
index (as the regenerated flags say), and `IntegrityMetadata` (parse + the accessors that `unwrap`).
Bytes and characters are `Nat`.  Import-free apart from the base64 model and the regenerated flags; executable.
-/
namespace IdModel.Panic
open IdModel

/-! ## `MethodDigest::unpack` -/

/-- little-endian value of a byte list -/
def leValue : List Nat → Nat
  | [] => 0
  | b :: r => b + 256 * leValue r

def beValue (l : List Nat) : Nat := leValue l.reverse

/-- `bytes[lo..hi]`: panics when `hi` exceeds the length (or `lo > hi`) -/
def slice (bs : List Nat) (lo hi : Nat) (site : String) : Outcome Unit (List Nat) :=
  if lo ≤ hi ∧ hi ≤ bs.length then .ok ((bs.drop lo).take (hi - lo)) else .panic site

/-- `MethodDigest::unpack`: version and value -/
def unpackDigest (bs : List Nat) : Outcome Unit (Nat × Nat) :=
  if Gen.C05.digestLenChecked && bs.length != 9 then .err () else
  match bs[0]? with
  | none => .panic "method_digest.rs:unpack:bytes[0]"
  | some v =>
    if Gen.C05.digestVersion.isSome && Gen.C05.digestVersion != some v then .err () else
    match slice bs Gen.C05.digestValueLo Gen.C05.digestValueHi "method_digest.rs:unpack:bytes[1..9]" with
    | .panic s => .panic s
    | .err e => .err e
    | .ok val =>
      -- `try_into::<[u8; 8]>()` is an error for any other length
      if val.length != 8 then .err () else
      .ok (v, if Gen.C05.digestLittleEndian then leValue val else beValue val)

/-- `MethodDigest::pack` -/
def leBytes : Nat → Nat → List Nat
  | 0, _ => []
  | n + 1, v => v % 256 :: leBytes n (v / 256)

def packDigest (version value : Nat) : List Nat := version :: leBytes 8 value

/-! ## `StateMetadataDocument::unpack`, framing -/

/-- read `i` (0 marker, 1 version, 2 encoding, 3 length, 4 payload) is bounds-checked (`.get(..).ok_or(..)`) -/
def flag (i : Nat) : Bool := Gen.C05.unpackChecked.getD i false && Gen.C05.unpackRawIndexing == 0

/-- what an out-of-range read does: an error if it is bounds-checked, a panic if it is a raw index -/
def oob (i : Nat) (e : Meta.FErr) (site : String) : Outcome Meta.FErr (List Nat) :=
  if flag i then .err e else .panic site

/-- the header parsing of `unpack` (the C14 model `Meta.unframe`), with a panic branch wherever the source reads the
input without a bounds check -/
def unframeP (bs : List Nat) : Outcome Meta.FErr (List Nat) :=
  if bs.length < 3 then oob 0 .noMarker "document.rs:unpack:marker"
  else if bs.take 3 ≠ Gen.C14.marker then .err .marker
  else match bs[3]? with
    | none => oob 1 .noVersion "document.rs:unpack:version"
    | some v =>
      if !Gen.C14.versions.contains v then .err .version
      else if v ≠ Gen.C14.acceptedVersion then .err .version
      else match bs[4]? with
        | none => oob 2 .noEncoding "document.rs:unpack:encoding"
        | some e =>
          if !Gen.C14.encodings.contains e then .err .encoding
          else match bs[5]?, bs[6]? with
            | some lo, some hi =>
              let n := lo + 256 * hi
              if 7 + n ≤ bs.length then .ok ((bs.drop 7).take n) else oob 4 .short "document.rs:unpack:payload"
            | _, _ => oob 3 .noLength "document.rs:unpack:length"

/-! ## `IntegrityMetadata` -/

/-- the part before the first `-`, and what follows that `-` if there is one -/
def cut : List Nat → List Nat × Option (List Nat)
  | [] => ([], none)
  | c :: r => if c = 45 then ([], some r) else ((c :: (cut r).1), (cut r).2)

/-- `str::split('-')` -/
def splitDash : List Nat → List (List Nat)
  | [] => [[]]
  | c :: r =>
    if c = 45 then [] :: splitDash r
    else match splitDash r with
      | h :: t => (c :: h) :: t
      | [] => [[c]]

def splitn3Rest (a r : List Nat) : List (List Nat) :=
  match (cut r).2 with
  | none => [a, (cut r).1]
  | some q => [a, (cut r).1, q]

/-- `str::splitn(3, '-')` -/
def splitn3 (s : List Nat) : List (List Nat) :=
  match (cut s).2 with
  | none => [(cut s).1]
  | some r => splitn3Rest (cut s).1 r

/-- standard-alphabet base64 without padding, through the url-alphabet model -/
def decStd (cs : List Nat) : Option (List Nat) :=
  if cs.any (fun c => c = 45 ∨ c = 95) then none
  else B64.dec (cs.map fun c => if c = 43 then 45 else if c = 47 then 95 else c)

def decoder (base : String) : List Nat → Option (List Nat) :=
  if base == "Base64" then decStd else if base == "Base64Url" then B64.dec else fun _ => none

/-- `TryFrom<String> for IntegrityMetadata` -/
def checkParts (s : List Nat) : List (List Nat) → Outcome Unit (List Nat)
  | _ :: d :: _ =>
    if Gen.C05.integrityParseBase == "" then .ok s
    else if (decoder Gen.C05.integrityParseBase d).isSome then .ok s else .err ()
  | _ => .err ()

def parseIntegrity (s : List Nat) : Outcome Unit (List Nat) :=
  checkParts s (if Gen.C05.integritySplitsN3 then splitn3 s else splitDash s)

/-- `alg`: `split_once('-').unwrap().0` -/
def alg (s : List Nat) : Outcome Unit (List Nat) :=
  match (cut s).2 with
  | some _ => .ok (cut s).1
  | none => if Gen.C05.integrityAlgIsSplitOnce then .panic "integrity.rs:alg" else .ok (cut s).1

/-- `digest`: `split('-').nth(1).unwrap()` -/
def digest (s : List Nat) : Outcome Unit (List Nat) :=
  match (splitDash s)[1]? with
  | some d => .ok d
  | none => .panic "integrity.rs:digest"

/-- `digest_bytes`: `BaseEncoding::decode(self.digest(), base).unwrap()` -/
def digestBytes (s : List Nat) : Outcome Unit (List Nat) :=
  (digest s).bind fun d =>
    match decoder Gen.C05.integrityDigestBytesBase d with
    | some b => .ok b
    | none => .panic "integrity.rs:digest_bytes"

/-- `options`: `splitn(3, '-').nth(2)` -/
def options (s : List Nat) : Option (List Nat) := (splitn3 s)[2]?

end IdModel.Panic
