import IdModel.Jose.Header
/-! Helper lemmas for C11: the regenerated tables are consistent with the JSON member names, and
`has` / `isDisjoint` compute membership / disjointness of the sets of member names. -/
namespace IdModel.Jose
open IdModel.Gen.C11

/-- JSON member name of each `JwtHeader` field (serde renames), written independently of `has`. -/
def jsonName : List (String × String) :=
  [("jku", "jku"), ("jwk", "jwk"), ("kid", "kid"), ("x5u", "x5u"), ("x5c", "x5c"), ("x5t", "x5t"),
   ("x5t_s256", "x5t#S256"), ("typ", "typ"), ("cty", "cty"), ("crit", "crit"), ("url", "url"),
   ("nonce", "nonce")]

def knownFields : List String := jsonName.map (·.1)

/-- the header-parameter names a header carries (what its JSON object has as members) -/
def names (h : Hdr) : List String :=
  (if h.alg.isSome then ["alg"] else []) ++ (if h.b64.isSome then ["b64"] else []) ++
    h.allFields.filterMap (jsonName.lookup ·) ++ h.custom

/-- well-formed policy view: the set fields are `JwtHeader` fields and the custom map does not
shadow the two JWS-level parameters -/
structure WF (h : Hdr) : Prop where
  fields_known : ∀ f ∈ h.fields, f ∈ knownFields
  custom_not_alg : "alg" ∉ h.custom
  custom_not_b64 : "b64" ∉ h.custom

/-- per-field table facts (closed, checked by evaluation): the regenerated `has` table maps the
field's JSON name back to the field, the name is neither `alg` nor `b64`, and the regenerated
`is_disjoint` compares the field -/
def fieldOk (f : String) : Bool :=
  match jsonName.lookup f with
  | some c => commonHas.lookup c == some f && c != "alg" && c != "b64" && commonDisjoint.contains f
  | none => false

theorem known_ok : ∀ f ∈ knownFields, fieldOk f = true := by decide

/-- every row of the regenerated `has` table is a row of the JSON-name table -/
theorem has_rows : ∀ r ∈ commonHas, jsonName.lookup r.2 = some r.1 ∧ r.2 ∈ knownFields := by decide

theorem lookup_mem {α β : Type} [BEq α] [LawfulBEq α] (l : List (α × β)) (a : α) (b : β)
    (h : l.lookup a = some b) : (a, b) ∈ l := by
  induction l with
  | nil => simp at h
  | cons x xs ih =>
    obtain ⟨k, v⟩ := x
    simp only [List.lookup_cons] at h
    by_cases hk : a == k
    · simp only [hk] at h
      have : a = k := by simpa using hk
      subst this
      have : v = b := by simpa using h
      subst this
      exact List.mem_cons_self
    · simp only [hk] at h
      exact List.mem_cons_of_mem _ (ih h)

theorem allFields_known (h : Hdr) (hw : WF h) : ∀ f ∈ h.allFields, f ∈ knownFields := by
  intro f hf
  unfold Hdr.allFields at hf
  rcases List.mem_append.1 hf with h1 | h1
  · split at h1
    · simp at h1; subst h1; decide
    · simp at h1
  · exact hw.fields_known f h1

/-- names of the set declared common fields -/
def fieldNames (h : Hdr) : List String := h.allFields.filterMap (jsonName.lookup ·)

theorem commonHasClaim_iff (h : Hdr) (hw : WF h) (n : String) :
    commonHasClaim h n = true ↔ n ∈ fieldNames h := by
  unfold commonHasClaim fieldNames
  constructor
  · intro hc
    cases hl : commonHas.lookup n with
    | none => simp [hl] at hc
    | some f =>
      simp only [hl, List.contains_iff_mem] at hc
      have := has_rows (n, f) (lookup_mem _ _ _ hl)
      exact List.mem_filterMap.2 ⟨f, hc, this.1⟩
  · intro hm
    rcases List.mem_filterMap.1 hm with ⟨f, hf, hn⟩
    have hk := known_ok f (allFields_known h hw f hf)
    unfold fieldOk at hk
    rw [hn] at hk
    simp only [Bool.and_eq_true, beq_iff_eq] at hk
    rw [hk.1.1.1]
    simpa using hf

theorem fieldNames_not_alg_b64 (h : Hdr) (hw : WF h) (n : String) (hn : n ∈ fieldNames h) :
    n ≠ "alg" ∧ n ≠ "b64" := by
  rcases List.mem_filterMap.1 hn with ⟨f, hf, hc⟩
  have hk := known_ok f (allFields_known h hw f hf)
  unfold fieldOk at hk
  rw [hc] at hk
  simp only [Bool.and_eq_true, bne_iff_ne, ne_eq] at hk
  exact ⟨hk.1.1.2, hk.1.2⟩

theorem mem_names (h : Hdr) (n : String) :
    n ∈ names h ↔ (n = "alg" ∧ h.alg.isSome) ∨ (n = "b64" ∧ h.b64.isSome) ∨ n ∈ fieldNames h ∨
      n ∈ h.custom := by
  unfold names fieldNames
  simp only [List.mem_append]
  constructor
  · rintro (((h1 | h1) | h1) | h1)
    · split at h1
      · simp at h1; exact Or.inl ⟨h1, by assumption⟩
      · simp at h1
    · split at h1
      · simp at h1; exact Or.inr (Or.inl ⟨h1, by assumption⟩)
      · simp at h1
    · exact Or.inr (Or.inr (Or.inl h1))
    · exact Or.inr (Or.inr (Or.inr h1))
  · rintro (⟨h1, h2⟩ | ⟨h1, h2⟩ | h1 | h1)
    · exact Or.inl (Or.inl (Or.inl (by simp [h1, h2])))
    · exact Or.inl (Or.inl (Or.inr (by simp [h1, h2])))
    · exact Or.inl (Or.inr h1)
    · exact Or.inr h1

/-- `has` decides membership in the header's set of parameter names -/
theorem has_iff_names (h : Hdr) (hw : WF h) (n : String) : has h n = true ↔ n ∈ names h := by
  rw [mem_names]
  unfold has
  by_cases ha : n = "alg"
  · subst ha
    simp only [beq_self_eq_true, ↓reduceIte, true_and]
    constructor
    · intro h1; exact Or.inl h1
    · rintro (h1 | ⟨h1, _⟩ | h1 | h1)
      · exact h1
      · exact absurd h1 (by decide)
      · exact absurd rfl (fieldNames_not_alg_b64 h hw _ h1).1
      · exact absurd h1 hw.custom_not_alg
  · by_cases hb : n = "b64"
    · subst hb
      simp only [show ("b64" == "alg") = false by decide, Bool.false_eq_true, ↓reduceIte,
        beq_self_eq_true, true_and]
      constructor
      · intro h1; exact Or.inr (Or.inl h1)
      · rintro (⟨h1, _⟩ | h1 | h1 | h1)
        · exact absurd h1 (by decide)
        · exact h1
        · exact absurd rfl (fieldNames_not_alg_b64 h hw _ h1).2
        · exact absurd h1 hw.custom_not_b64
    · have e1 : (n == "alg") = false := by simpa using ha
      have e2 : (n == "b64") = false := by simpa using hb
      simp only [e1, e2, Bool.false_eq_true, ↓reduceIte, Bool.or_eq_true, commonHasClaim_iff h hw,
        List.contains_iff_mem, ha, hb, false_and, false_or]

/-- the declared (non-custom) names -/
def declared (h : Hdr) : List String :=
  (if h.alg.isSome then ["alg"] else []) ++ (if h.b64.isSome then ["b64"] else []) ++ fieldNames h

theorem mem_declared (h : Hdr) (n : String) :
    n ∈ declared h ↔ (n = "alg" ∧ h.alg.isSome) ∨ (n = "b64" ∧ h.b64.isSome) ∨ n ∈ fieldNames h := by
  have := mem_names { h with custom := [] } n
  simpa [names, declared, fieldNames, Hdr.allFields] using this

theorem fieldName_inj (a b : Hdr) (ha : WF a) (hb : WF b) (n : String)
    (h1 : n ∈ fieldNames a) (h2 : n ∈ fieldNames b) :
    ∃ f, f ∈ a.allFields ∧ f ∈ b.allFields ∧ f ∈ commonDisjoint := by
  rcases List.mem_filterMap.1 h1 with ⟨f, hf, hc⟩
  rcases List.mem_filterMap.1 h2 with ⟨g, hg, hd⟩
  have hkf := known_ok f (allFields_known a ha f hf)
  have hkg := known_ok g (allFields_known b hb g hg)
  unfold fieldOk at hkf hkg
  rw [hc] at hkf; rw [hd] at hkg
  simp only [Bool.and_eq_true, beq_iff_eq, List.contains_iff_mem] at hkf hkg
  have : f = g := by
    have e1 := hkf.1.1.1
    have e2 := hkg.1.1.1
    rw [e1] at e2; exact Option.some.inj e2
  subst this
  exact ⟨f, hf, hg, hkf.2⟩

/-- the declared parts are disjoint exactly when the code's duplicate tests find nothing -/
theorem declared_disjoint_iff (a b : Hdr) (ha : WF a) (hb : WF b) :
    ((a.alg.isSome && b.alg.isSome || a.b64.isSome && b.b64.isSome) = false ∧
      commonIsDisjoint a b = true) ↔ ∀ n ∈ declared a, n ∉ declared b := by
  constructor
  · rintro ⟨hdup, hcom⟩ n hna hnb
    rw [mem_declared] at hna hnb
    simp only [Bool.or_eq_false_iff, Bool.and_eq_false_iff] at hdup
    rcases hna with ⟨h1, h2⟩ | ⟨h1, h2⟩ | h1
    · rcases hnb with ⟨_, h4⟩ | ⟨h3, _⟩ | h3
      · rcases hdup.1 with h | h <;> simp_all
      · rw [h1] at h3; exact absurd h3 (by decide)
      · exact (fieldNames_not_alg_b64 b hb n h3).1 h1
    · rcases hnb with ⟨h3, _⟩ | ⟨_, h4⟩ | h3
      · rw [h1] at h3; exact absurd h3 (by decide)
      · rcases hdup.2 with h | h <;> simp_all
      · exact (fieldNames_not_alg_b64 b hb n h3).2 h1
    · rcases hnb with ⟨h3, _⟩ | ⟨h3, _⟩ | h3
      · exact (fieldNames_not_alg_b64 a ha n h1).1 h3
      · exact (fieldNames_not_alg_b64 a ha n h1).2 h3
      · obtain ⟨f, hf, hg, hd⟩ := fieldName_inj a b ha hb n h1 h3
        unfold commonIsDisjoint at hcom
        simp only [Bool.not_eq_true', List.any_eq_false, Bool.and_eq_true, List.contains_iff_mem,
          not_and] at hcom
        exact hcom f hd hf hg
  · intro hdis
    refine ⟨?_, ?_⟩
    · simp only [Bool.or_eq_false_iff, Bool.and_eq_false_iff]
      constructor
      · by_cases h1 : a.alg.isSome = true
        · right
          cases h2 : b.alg.isSome with
          | false => rfl
          | true =>
            exact absurd ((mem_declared b "alg").2 (Or.inl ⟨rfl, h2⟩))
              (hdis "alg" ((mem_declared a "alg").2 (Or.inl ⟨rfl, h1⟩)))
        · left; simpa using h1
      · by_cases h1 : a.b64.isSome = true
        · right
          cases h2 : b.b64.isSome with
          | false => rfl
          | true =>
            exact absurd ((mem_declared b "b64").2 (Or.inr (Or.inl ⟨rfl, h2⟩)))
              (hdis "b64" ((mem_declared a "b64").2 (Or.inr (Or.inl ⟨rfl, h1⟩))))
        · left; simpa using h1
    · unfold commonIsDisjoint
      simp only [Bool.not_eq_true', List.any_eq_false, Bool.and_eq_true, List.contains_iff_mem,
        not_and]
      intro f _ hfa hfb
      have hk := known_ok f (allFields_known a ha f hfa)
      unfold fieldOk at hk
      cases hc : jsonName.lookup f with
      | none => simp [hc] at hk
      | some c =>
        have m1 : c ∈ fieldNames a := List.mem_filterMap.2 ⟨f, hfa, hc⟩
        have m2 : c ∈ fieldNames b := List.mem_filterMap.2 ⟨f, hfb, hc⟩
        exact hdis c ((mem_declared a c).2 (Or.inr (Or.inr m1))) ((mem_declared b c).2 (Or.inr (Or.inr m2)))

theorem names_eq (h : Hdr) : names h = declared h ++ h.custom := rfl

theorem customVsDeclared_eq : customVsDeclared = true := rfl

theorem isDisjoint_eq (a b : Hdr) : isDisjoint a b = true ↔
    (((a.alg.isSome && b.alg.isSome || a.b64.isSome && b.b64.isSome) = false ∧
      commonIsDisjoint a b = true) ∧ (∀ n ∈ a.custom, n ∉ b.custom) ∧
      (∀ n ∈ a.custom, has b n = false) ∧ (∀ n ∈ b.custom, has a n = false)) := by
  unfold isDisjoint customDisjoint
  rw [customVsDeclared_eq]
  simp only [↓reduceIte, Bool.and_eq_true, Bool.not_eq_true', List.any_eq_false,
    List.contains_iff_mem, Bool.not_eq_true]

/-- `is_disjoint` decides disjointness of the two sets of parameter names -/
theorem isDisjoint_iff (a b : Hdr) (ha : WF a) (hb : WF b) :
    isDisjoint a b = true ↔ ∀ n ∈ names a, n ∉ names b := by
  rw [isDisjoint_eq]
  have hd := declared_disjoint_iff a b ha hb
  constructor
  · rintro ⟨hdc, hcc, hab, hba⟩ n hna hnb
    rw [names_eq, List.mem_append] at hna hnb
    rcases hna with h1 | h1
    · rcases hnb with h2 | h2
      · exact (hd.1 hdc) n h1 h2
      · have := hba n h2
        have hn : n ∈ names a := by rw [names_eq]; exact List.mem_append_left _ h1
        rw [(has_iff_names a ha n).2 hn] at this; cases this
    · have := hab n h1
      have hn : n ∈ names b := by rw [names_eq]; exact List.mem_append.2 hnb
      rw [(has_iff_names b hb n).2 hn] at this; cases this
  · intro hdis
    have h1 : ∀ n ∈ declared a, n ∉ declared b := by
      intro n hna hnb
      exact hdis n (by rw [names_eq]; exact List.mem_append_left _ hna)
        (by rw [names_eq]; exact List.mem_append_left _ hnb)
    refine ⟨hd.2 h1, ?_, ?_, ?_⟩
    · intro n hn hn2
      exact hdis n (by rw [names_eq]; exact List.mem_append_right _ hn)
        (by rw [names_eq]; exact List.mem_append_right _ hn2)
    · intro n hn
      cases hh : has b n with
      | false => rfl
      | true =>
        exact absurd ((has_iff_names b hb n).1 hh)
          (hdis n (by rw [names_eq]; exact List.mem_append_right _ hn))
    · intro n hn
      cases hh : has a n with
      | false => rfl
      | true =>
        exact absurd (by rw [names_eq]; exact List.mem_append_right _ hn)
          (hdis n ((has_iff_names a ha n).1 hh))

end IdModel.Jose
