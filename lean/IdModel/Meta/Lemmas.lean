import IdModel.Meta.Model
import IdModel.Doc.Lemmas
/-! Helper lemmas for C14: a DID rewrite that is injective on the DIDs a document mentions is a plain structural map,
keeps every collection duplicate-free and keeps the id constraints. -/
namespace IdModel.Meta
open IdModel.Doc IdModel.OSet

/-! ### the plain structural map -/

def mapIdP (h : Nat → Nat) (i : Id) : Id := { i with did := h i.did }
def Mth.mapP (h : Nat → Nat) (m : Mth) : Mth := ⟨mapIdP h m.id, h m.controller, m.body⟩
def MR.mapP (h : Nat → Nat) : MR → MR
  | .embed m => .embed (m.mapP h)
  | .refer i => .refer (mapIdP h i)
def svcMapP (h : Nat → Nat) (s : Service) : Service := ⟨mapIdP h s.id, s.body⟩
def oosMapP (h : Nat → Nat) : OneOrSet Nat → OneOrSet Nat
  | .one x => .one (h x)
  | .set xs => .set (xs.map h)

/-- every DID of the document goes through `h`; nothing else changes -/
def IDoc.mapP (h : Nat → Nat) (d : IDoc) : IDoc :=
  { d with id := h d.id, controller := d.controller.map (oosMapP h), vm := d.vm.map (Mth.mapP h),
           auth := d.auth.map (MR.mapP h), asrt := d.asrt.map (MR.mapP h), keyAgr := d.keyAgr.map (MR.mapP h),
           capDel := d.capDel.map (MR.mapP h), capInv := d.capInv.map (MR.mapP h),
           service := d.service.map (svcMapP h) }

def Mth.dids (m : Mth) : List Nat := [m.id.did, m.controller]
def MR.dids : MR → List Nat
  | .embed m => m.dids
  | .refer i => [i.did]
def ctlDids : Option (OneOrSet Nat) → List Nat
  | none => []
  | some c => c.toList
def IDoc.rels (d : IDoc) : List MR := d.auth ++ d.asrt ++ d.keyAgr ++ d.capDel ++ d.capInv

/-- every DID the document mentions -/
def IDoc.dids (d : IDoc) : List Nat :=
  d.id :: ctlDids d.controller ++ d.vm.flatMap Mth.dids ++ d.rels.flatMap MR.dids ++ d.service.map (·.id.did)

def InjOn (h : Nat → Nat) (S : List Nat) : Prop := ∀ x ∈ S, ∀ y ∈ S, h x = h y → x = y

theorem mapIdP_inj (h : Nat → Nat) (S : List Nat) (hi : InjOn h S) (i j : Id) (hi1 : i.did ∈ S) (hj : j.did ∈ S)
    (e : mapIdP h i = mapIdP h j) : i = j := by
  cases i; cases j
  simp only [mapIdP, Id.mk.injEq] at e
  simp only [Id.mk.injEq]
  exact ⟨hi _ hi1 _ hj e.1, e.2.1, e.2.2⟩

/-! ### fallible map that never fails = plain map -/

theorem optMap_pure {α β : Type} (g : α → Option β) (gp : α → β) : ∀ (l : List α),
    (∀ a ∈ l, g a = some (gp a)) → optMap g l = some (l.map gp) := by
  intro l
  induction l with
  | nil => intro _; rfl
  | cons a t ih =>
    intro h
    unfold optMap
    rw [h a List.mem_cons_self, ih (fun b hb => h b (List.mem_cons_of_mem _ hb))]
    rfl

theorem fromIter_of_uniq {α κ : Type} [DecidableEq κ] (key : α → κ) (l : List α) (h : Uniq key l) :
    fromIter key l = l := by
  unfold fromIter
  have : ∀ (t acc : List α), Uniq key (acc ++ t) → t.foldl (fun a x => (append key a x).1) acc = acc ++ t := by
    intro t
    induction t with
    | nil => intro acc _; simp
    | cons x t ih =>
      intro acc hu
      rw [List.foldl_cons]
      have hnot : contains key acc (key x) = false := by
        rw [contains_false_iff]
        intro hm
        unfold Uniq at hu
        rw [List.map_append, List.map_cons, List.nodup_append] at hu
        exact hu.2.2 _ hm _ List.mem_cons_self rfl
      have : (append key acc x).1 = acc ++ [x] := by simp [append, hnot]
      rw [this, ih (acc ++ [x]) (by simpa using hu)]
      simp
  simpa using this l [] (by simpa using h)

theorem collect_pure {α κ : Type} [DecidableEq κ] (key : α → κ) (g : α → Option α) (gp : α → α) (l : List α)
    (hg : ∀ a ∈ l, g a = some (gp a)) (hu : Uniq key (l.map gp)) : collect key g l = some (l.map gp) := by
  unfold collect
  rw [optMap_pure g gp l hg]
  simp only [Option.map_some]
  rw [fromIter_of_uniq key _ hu]

/-- mapping keeps a collection duplicate-free when the rewrite is injective on its DIDs -/
theorem uniq_map {α : Type} (key : α → Id) (gp : α → α) (h : Nat → Nat) (S : List Nat) (l : List α)
    (hu : Uniq key l) (hk : ∀ a ∈ l, key (gp a) = mapIdP h (key a)) (hs : ∀ a ∈ l, (key a).did ∈ S)
    (hi : InjOn h S) : Uniq key (l.map gp) := by
  unfold Uniq List.Nodup at *
  rw [List.pairwise_map] at hu ⊢
  rw [List.pairwise_map]
  refine List.Pairwise.imp_of_mem ?_ hu
  intro a b ha hb hne heq
  rw [hk a ha, hk b hb] at heq
  exact hne (mapIdP_inj h S hi _ _ (hs a ha) (hs b hb) heq)

theorem nodup_map_inj (h : Nat → Nat) (l : List Nat) (hn : l.Nodup) (hi : InjOn h l) : (l.map h).Nodup := by
  unfold List.Nodup at *
  rw [List.pairwise_map]
  refine List.Pairwise.imp_of_mem ?_ hn
  intro a b ha hb hne heq
  exact hne (hi a ha b hb heq)

/-- the `OneOrSet` invariant -/
def OosWF : OneOrSet Nat → Prop
  | .one _ => True
  | .set xs => xs.Nodup ∧ 2 ≤ xs.length

theorem oosTryMap_pure (f : Nat → Option Nat) (h : Nat → Nat) (c : OneOrSet Nat) (hw : OosWF c)
    (hf : ∀ x ∈ c.toList, f x = some (h x)) (hi : InjOn h c.toList) : oosTryMap f c = some (oosMapP h c) := by
  cases c with
  | one x =>
    simp only [oosTryMap, oosMapP]
    rw [hf x (by simp [OneOrSet.toList])]
    rfl
  | set xs =>
    simp only [oosTryMap, oosMapP]
    rw [optMap_pure f h xs (by simpa [OneOrSet.toList] using hf)]
    simp only
    have hn : (xs.map h).Nodup := nodup_map_inj h xs hw.1 (by simpa [OneOrSet.toList] using hi)
    have : fromIter id (xs.map h) = xs.map h := fromIter_of_uniq id _ (by simpa [Uniq] using hn)
    rw [this]
    have hl : 2 ≤ (xs.map h).length := by simpa using hw.2
    generalize xs.map h = ys at hl
    match ys, hl with
    | a :: b :: r, _ => rfl

/-! ### membership in `dids` -/

theorem mem_dids_id (d : IDoc) : d.id ∈ d.dids := by simp [IDoc.dids]

theorem mem_dids_ctl (d : IDoc) (x : Nat) (h : x ∈ ctlDids d.controller) : x ∈ d.dids := by
  simp [IDoc.dids, h]

theorem mem_dids_vm (d : IDoc) (m : Mth) (h : m ∈ d.vm) : m.id.did ∈ d.dids ∧ m.controller ∈ d.dids := by
  constructor
  · simp only [IDoc.dids, List.mem_cons, List.mem_append, List.mem_flatMap]
    exact Or.inl (Or.inl (Or.inr ⟨m, h, by simp [Mth.dids]⟩))
  · simp only [IDoc.dids, List.mem_cons, List.mem_append, List.mem_flatMap]
    exact Or.inl (Or.inl (Or.inr ⟨m, h, by simp [Mth.dids]⟩))

theorem mem_dids_rel (d : IDoc) (e : MR) (h : e ∈ d.rels) (x : Nat) (hx : x ∈ e.dids) : x ∈ d.dids := by
  simp only [IDoc.dids, List.mem_cons, List.mem_append, List.mem_flatMap]
  exact Or.inl (Or.inr ⟨e, h, hx⟩)

theorem mem_dids_svc (d : IDoc) (s : Service) (h : s ∈ d.service) : s.id.did ∈ d.dids := by
  simp only [IDoc.dids, List.mem_cons, List.mem_append, List.mem_map]
  exact Or.inr ⟨s, h, rfl⟩

theorem mem_rels (d : IDoc) (e : MR) :
    e ∈ d.rels ↔ (e ∈ d.auth ∨ e ∈ d.asrt ∨ e ∈ d.keyAgr ∨ e ∈ d.capDel ∨ e ∈ d.capInv) := by
  simp [IDoc.rels, or_assoc]


/-! ### well-formed IOTA documents -/

structure WFI (d : IDoc) : Prop where
  inv : Inv d.toDoc
  ctl : ∀ c, d.controller = some c → OosWF c

theorem uniq_vm (d : IDoc) (h : WFI d) : Uniq Mth.id d.vm := by
  have := h.inv.uVm
  unfold Uniq at *
  simpa [IDoc.toDoc, List.map_map, Function.comp_def, Mth.toMethod] using this

theorem MR.toMRef_id (e : MR) : e.toMRef.id = e.id := by cases e <;> rfl

theorem uniq_of_toMRef (l : List MR) (h : Uniq MRef.id (l.map MR.toMRef)) : Uniq MR.id l := by
  unfold Uniq at *
  simpa [List.map_map, Function.comp_def, MR.toMRef_id] using h

theorem uniq_rels (d : IDoc) (h : WFI d) :
    Uniq MR.id d.auth ∧ Uniq MR.id d.asrt ∧ Uniq MR.id d.keyAgr ∧ Uniq MR.id d.capDel ∧ Uniq MR.id d.capInv :=
  ⟨uniq_of_toMRef _ (h.inv.uRel .auth), uniq_of_toMRef _ (h.inv.uRel .asrt), uniq_of_toMRef _ (h.inv.uRel .keyAgr),
   uniq_of_toMRef _ (h.inv.uRel .capDel), uniq_of_toMRef _ (h.inv.uRel .capInv)⟩

theorem Mth.tryMap_pure (f : Nat → Option Nat) (h : Nat → Nat) (m : Mth)
    (h1 : f m.id.did = some (h m.id.did)) (h2 : f m.controller = some (h m.controller)) :
    m.tryMap f = some (m.mapP h) := by
  simp [Mth.tryMap, mapId, h1, h2, Mth.mapP, mapIdP]

theorem MR.tryMap_pure (f : Nat → Option Nat) (h : Nat → Nat) (e : MR) (hf : ∀ x ∈ e.dids, f x = some (h x)) :
    e.tryMap f = some (e.mapP h) := by
  cases e with
  | embed m =>
    simp only [MR.tryMap, MR.mapP]
    rw [Mth.tryMap_pure f h m (hf _ (by simp [MR.dids, Mth.dids])) (hf _ (by simp [MR.dids, Mth.dids]))]
    rfl
  | refer i =>
    simp only [MR.tryMap, MR.mapP, mapId]
    rw [hf i.did (by simp [MR.dids])]
    rfl

theorem MR.mapP_id (h : Nat → Nat) (e : MR) : (e.mapP h).id = mapIdP h e.id := by cases e <;> rfl

theorem collect_rel (f : Nat → Option Nat) (h : Nat → Nat) (d : IDoc) (l : List MR) (hl : ∀ e ∈ l, e ∈ d.rels)
    (hu : Uniq MR.id l) (hf : ∀ x ∈ d.dids, f x = some (h x)) (hi : InjOn h d.dids) :
    collect MR.id (MR.tryMap f) l = some (l.map (MR.mapP h)) := by
  apply collect_pure
  · intro e he
    exact MR.tryMap_pure f h e (fun x hx => hf x (mem_dids_rel d e (hl e he) x hx))
  · refine uniq_map MR.id (MR.mapP h) h d.dids l hu (fun e _ => MR.mapP_id h e) ?_ hi
    intro e he
    apply mem_dids_rel d e (hl e he)
    cases e <;> simp [MR.dids, Mth.dids, MR.id]

/-- a rewrite that is injective on the DIDs mentioned and never fails there is the plain structural map -/
theorem dataTryMap_pure (fid fc fm fs : Nat → Option Nat) (h : Nat → Nat) (d : IDoc) (hw : WFI d)
    (hi : InjOn h d.dids) (h1 : fid d.id = some (h d.id))
    (h2 : ∀ x ∈ ctlDids d.controller, fc x = some (h x))
    (h3 : ∀ x ∈ d.dids, fm x = some (h x)) (h4 : ∀ x ∈ d.dids, fs x = some (h x)) :
    dataTryMap fid fc fm fs d = some (d.mapP h) := by
  unfold dataTryMap
  rw [h1]
  simp only
  have hctl : ctlTryMap fc d.controller = some (d.controller.map (oosMapP h)) := by
    cases hc : d.controller with
    | none => rfl
    | some c =>
      simp only [ctlTryMap, Option.map_some]
      rw [oosTryMap_pure fc h c (hw.ctl c hc) (fun x hx => h2 x (by rw [hc]; exact hx))
        (fun x hx y hy => hi x (mem_dids_ctl d x (by rw [hc]; exact hx)) y (mem_dids_ctl d y (by rw [hc]; exact hy)))]
      rfl
  rw [hctl]
  simp only
  obtain ⟨u1, u2, u3, u4, u5⟩ := uniq_rels d hw
  have cvm : collect Mth.id (Mth.tryMap fm) d.vm = some (d.vm.map (Mth.mapP h)) := by
    apply collect_pure
    · intro m hm
      exact Mth.tryMap_pure fm h m (h3 _ (mem_dids_vm d m hm).1) (h3 _ (mem_dids_vm d m hm).2)
    · exact uniq_map Mth.id (Mth.mapP h) h d.dids d.vm (uniq_vm d hw) (fun _ _ => rfl)
        (fun m hm => (mem_dids_vm d m hm).1) hi
  have csv : collect Service.id (svcTryMap fs) d.service = some (d.service.map (svcMapP h)) := by
    apply collect_pure
    · intro s hs
      simp [svcTryMap, mapId, h4 _ (mem_dids_svc d s hs), svcMapP, mapIdP]
    · exact uniq_map Service.id (svcMapP h) h d.dids d.service hw.inv.uSvc (fun _ _ => rfl)
        (fun s hs => mem_dids_svc d s hs) hi
  rw [cvm, collect_rel fm h d d.auth (fun e he => (mem_rels d e).2 (Or.inl he)) u1 h3 hi,
    collect_rel fm h d d.asrt (fun e he => (mem_rels d e).2 (Or.inr (Or.inl he))) u2 h3 hi,
    collect_rel fm h d d.keyAgr (fun e he => (mem_rels d e).2 (Or.inr (Or.inr (Or.inl he)))) u3 h3 hi,
    collect_rel fm h d d.capDel (fun e he => (mem_rels d e).2 (Or.inr (Or.inr (Or.inr (Or.inl he))))) u4 h3 hi,
    collect_rel fm h d d.capInv (fun e he => (mem_rels d e).2 (Or.inr (Or.inr (Or.inr (Or.inr he))))) u5 h3 hi, csv]
  rfl

/-! ### composition and congruence of plain maps -/

theorem mapIdP_comp (h1 h2 : Nat → Nat) (i : Id) : mapIdP h2 (mapIdP h1 i) = mapIdP (h2 ∘ h1) i := rfl
theorem Mth.mapP_comp (h1 h2 : Nat → Nat) (m : Mth) : (m.mapP h1).mapP h2 = m.mapP (h2 ∘ h1) := rfl
theorem MR.mapP_comp (h1 h2 : Nat → Nat) (e : MR) : (e.mapP h1).mapP h2 = e.mapP (h2 ∘ h1) := by cases e <;> rfl
theorem svcMapP_comp (h1 h2 : Nat → Nat) (s : Service) : svcMapP h2 (svcMapP h1 s) = svcMapP (h2 ∘ h1) s := rfl
theorem oosMapP_comp (h1 h2 : Nat → Nat) (c : OneOrSet Nat) : oosMapP h2 (oosMapP h1 c) = oosMapP (h2 ∘ h1) c := by
  cases c <;> simp [oosMapP, List.map_map]

theorem mapP_comp (h1 h2 : Nat → Nat) (d : IDoc) : (d.mapP h1).mapP h2 = d.mapP (h2 ∘ h1) := by
  cases d
  simp only [IDoc.mapP, List.map_map, Option.map_map, IDoc.mk.injEq, Function.comp_apply, true_and, and_true]
  refine ⟨?_, ?_, ?_, ?_, ?_, ?_, ?_, ?_⟩
  · congr 1; funext c; exact oosMapP_comp h1 h2 c
  · rfl
  all_goals (first | (congr 1; funext e; exact MR.mapP_comp h1 h2 e) | rfl)

theorem mapIdP_congr (h h' : Nat → Nat) (i : Id) (e : h i.did = h' i.did) : mapIdP h i = mapIdP h' i := by
  simp [mapIdP, e]

theorem MR.mapP_congr (h h' : Nat → Nat) (e : MR) (he : ∀ x ∈ e.dids, h x = h' x) : e.mapP h = e.mapP h' := by
  cases e with
  | embed m =>
    simp only [MR.mapP, Mth.mapP, MR.embed.injEq, Mth.mk.injEq, and_true]
    exact ⟨mapIdP_congr h h' _ (he _ (by simp [MR.dids, Mth.dids])), he _ (by simp [MR.dids, Mth.dids])⟩
  | refer i =>
    simp only [MR.mapP, MR.refer.injEq]
    exact mapIdP_congr h h' _ (he _ (by simp [MR.dids]))

theorem map_rel_congr (h h' : Nat → Nat) (d : IDoc) (l : List MR) (hl : ∀ e ∈ l, e ∈ d.rels)
    (he : ∀ x ∈ d.dids, h x = h' x) : l.map (MR.mapP h) = l.map (MR.mapP h') := by
  apply List.map_congr_left
  intro e hel
  exact MR.mapP_congr h h' e (fun x hx => he x (mem_dids_rel d e (hl e hel) x hx))

theorem mapP_congr (h h' : Nat → Nat) (d : IDoc) (he : ∀ x ∈ d.dids, h x = h' x) : d.mapP h = d.mapP h' := by
  have e1 : h d.id = h' d.id := he _ (mem_dids_id d)
  have e2 : d.controller.map (oosMapP h) = d.controller.map (oosMapP h') := by
    cases hc : d.controller with
    | none => rfl
    | some c =>
      simp only [Option.map_some, Option.some.injEq]
      have hx : ∀ x ∈ c.toList, h x = h' x := fun x hx => he x (mem_dids_ctl d x (by rw [hc]; exact hx))
      cases c with
      | one x => simp [oosMapP, hx x (by simp [OneOrSet.toList])]
      | set xs =>
        simp only [oosMapP, OneOrSet.set.injEq]
        exact List.map_congr_left (fun x hxs => hx x (by simpa [OneOrSet.toList] using hxs))
  have e3 : d.vm.map (Mth.mapP h) = d.vm.map (Mth.mapP h') := by
    apply List.map_congr_left
    intro m hm
    simp only [Mth.mapP, Mth.mk.injEq, and_true]
    exact ⟨mapIdP_congr h h' _ (he _ (mem_dids_vm d m hm).1), he _ (mem_dids_vm d m hm).2⟩
  have e4 : d.service.map (svcMapP h) = d.service.map (svcMapP h') := by
    apply List.map_congr_left
    intro s hs
    simp only [svcMapP, Service.mk.injEq, and_true]
    exact mapIdP_congr h h' _ (he _ (mem_dids_svc d s hs))
  unfold IDoc.mapP
  rw [e1, e2, e3, e4,
    map_rel_congr h h' d d.auth (fun e he => (mem_rels d e).2 (Or.inl he)) he,
    map_rel_congr h h' d d.asrt (fun e he => (mem_rels d e).2 (Or.inr (Or.inl he))) he,
    map_rel_congr h h' d d.keyAgr (fun e he => (mem_rels d e).2 (Or.inr (Or.inr (Or.inl he)))) he,
    map_rel_congr h h' d d.capDel (fun e he => (mem_rels d e).2 (Or.inr (Or.inr (Or.inr (Or.inl he))))) he,
    map_rel_congr h h' d d.capInv (fun e he => (mem_rels d e).2 (Or.inr (Or.inr (Or.inr (Or.inr he))))) he]

theorem mapP_id (d : IDoc) : d.mapP (fun x => x) = d := by
  cases d with
  | mk id controller vm auth asrt keyAgr capDel capInv service addrs rest =>
  have hm : ∀ m : Mth, m.mapP (fun x => x) = m := fun m => by cases m; rfl
  have hr : ∀ e : MR, e.mapP (fun x => x) = e := fun e => by
    cases e with
    | embed m => simp [MR.mapP, hm]
    | refer i => rfl
  have hs : ∀ s : Service, svcMapP (fun x => x) s = s := fun s => by cases s; rfl
  have hc : ∀ c : OneOrSet Nat, oosMapP (fun x => x) c = c := fun c => by cases c <;> simp [oosMapP]
  simp only [IDoc.mapP, IDoc.mk.injEq, true_and, and_true]
  refine ⟨?_, ?_, ?_, ?_, ?_, ?_, ?_, ?_⟩
  · cases controller <;> simp [hc]
  · exact (List.map_congr_left (fun m _ => hm m)).trans (List.map_id _)
  all_goals first
    | exact (List.map_congr_left (fun e _ => hr e)).trans (List.map_id _)
    | exact (List.map_congr_left (fun e _ => hs e)).trans (List.map_id _)

/-- the DIDs of the mapped document are the images -/
theorem mem_dids_mapP (h : Nat → Nat) (d : IDoc) (y : Nat) (hy : y ∈ (d.mapP h).dids) : ∃ x ∈ d.dids, y = h x := by
  simp only [IDoc.dids, IDoc.mapP, IDoc.rels, List.mem_cons, List.mem_append, List.mem_flatMap, List.mem_map] at hy
  rcases hy with (((hy | hy) | ⟨m', hm', hy⟩) | ⟨e', he', hy⟩) | ⟨s', hs', hy⟩
  · exact ⟨d.id, mem_dids_id d, hy⟩
  · cases hc : d.controller with
    | none => rw [hc] at hy; cases hy
    | some c =>
      rw [hc] at hy
      simp only [Option.map_some, ctlDids] at hy
      cases c with
      | one x =>
        simp only [oosMapP, OneOrSet.toList, List.mem_cons, List.not_mem_nil, or_false] at hy
        exact ⟨x, mem_dids_ctl d x (by rw [hc]; simp [ctlDids, OneOrSet.toList]), hy⟩
      | set xs =>
        simp only [oosMapP, OneOrSet.toList, List.mem_map] at hy
        obtain ⟨x, hx, hxy⟩ := hy
        exact ⟨x, mem_dids_ctl d x (by rw [hc]; simpa [ctlDids, OneOrSet.toList] using hx), hxy.symm⟩
  · obtain ⟨m, hm, rfl⟩ := hm'
    simp only [Mth.dids, Mth.mapP, mapIdP, List.mem_cons, List.not_mem_nil, or_false] at hy
    rcases hy with hy | hy
    · exact ⟨_, (mem_dids_vm d m hm).1, hy⟩
    · exact ⟨_, (mem_dids_vm d m hm).2, hy⟩
  · have hmem : ∃ e ∈ d.rels, e' = e.mapP h := by
      rcases he' with (((he' | he') | he') | he') | he' <;> obtain ⟨e, he, rfl⟩ := he'
      · exact ⟨e, (mem_rels d e).2 (Or.inl he), rfl⟩
      · exact ⟨e, (mem_rels d e).2 (Or.inr (Or.inl he)), rfl⟩
      · exact ⟨e, (mem_rels d e).2 (Or.inr (Or.inr (Or.inl he))), rfl⟩
      · exact ⟨e, (mem_rels d e).2 (Or.inr (Or.inr (Or.inr (Or.inl he)))), rfl⟩
      · exact ⟨e, (mem_rels d e).2 (Or.inr (Or.inr (Or.inr (Or.inr he)))), rfl⟩
    obtain ⟨e, he, rfl⟩ := hmem
    cases e with
    | embed m =>
      simp only [MR.mapP, MR.dids, Mth.dids, Mth.mapP, mapIdP, List.mem_cons, List.not_mem_nil, or_false] at hy
      rcases hy with hy | hy
      · exact ⟨_, mem_dids_rel d _ he _ (by simp [MR.dids, Mth.dids]), hy⟩
      · exact ⟨_, mem_dids_rel d _ he _ (by simp [MR.dids, Mth.dids]), hy⟩
    | refer i =>
      simp only [MR.mapP, MR.dids, mapIdP, List.mem_cons, List.not_mem_nil, or_false] at hy
      exact ⟨_, mem_dids_rel d _ he _ (by simp [MR.dids]), hy⟩
  · obtain ⟨s, hs, rfl⟩ := hs'
    simp only [svcMapP, mapIdP] at hy
    exact ⟨_, mem_dids_svc d s hs, hy.symm⟩

theorem ctlDids_mapP (h : Nat → Nat) (d : IDoc) : ctlDids (d.mapP h).controller = (ctlDids d.controller).map h := by
  simp only [IDoc.mapP]
  cases d.controller with
  | none => rfl
  | some c => cases c <;> simp [ctlDids, oosMapP, OneOrSet.toList]

end IdModel.Meta
