import IdModel.Vc.Model
import Driver.Util
/-! Line-protocol handler for C07 (credential / presentation <-> JWT claims). See harness/src/c07.rs. -/
namespace Driver.C07
open IdModel.Vc

def kv (t : String) : List (String × String) :=
  (t.splitOn ";").filterMap fun p => match p.splitOn "=" with
    | [k, v] => some (k, v)
    | _ => none

def get (m : List (String × String)) (k : String) : Option String := (m.find? (·.1 == k)).map (·.2)

/-- absent key or `~` = none -/
def oint (m : List (String × String)) (k : String) : Option (Option Int) :=
  match get m k with
  | none => some none
  | some "~" => some none
  | some v => v.toInt?.map some

def onat (m : List (String × String)) (k : String) : Option (Option Nat) :=
  match get m k with
  | none => some none
  | some "~" => some none
  | some v => v.toNat?.map some

def parseIssuer (t : String) : Option Issuer :=
  if t.startsWith "u" then (t.drop 1).toString.toNat?.map .url
  else if t.startsWith "o" then
    match (t.drop 1).toString.splitOn "." with
    | [n, p] => do pure (.obj (← n.toNat?) (← p.toNat?))
    | _ => none
  else none

def showIssuer : Issuer → String
  | .url u => s!"u{u}"
  | .obj u p => s!"o{u}.{p}"

def so {α : Type} [ToString α] : Option α → String
  | none => "~"
  | some x => toString x

def showCErr : CErr → String
  | .timestamp => "timestamp" | .issuer => "issuer" | .issuanceDate => "issuanceDate"
  | .expirationDate => "expirationDate" | .id => "id" | .subjectMissing => "subjectMissing"
  | .subjectMismatch => "subjectMismatch"

def showClaims (cl : Claims) : String :=
  s!"exp={so cl.exp};iss={showIssuer cl.iss};iat={so cl.iat};nbf={so cl.nbf};jti={so cl.jti};sub={so cl.sub};vid={so cl.vc.id};viss={match cl.vc.issuer with | none => "~" | some i => showIssuer i};vnbf={so cl.vc.issuanceDate};vexp={so cl.vc.expirationDate};vsub={so cl.vc.subjectId};rest={cl.vc.rest};cust={so cl.custom}"

def showCred (c : Cred) : String :=
  s!"id={so c.id};iss={showIssuer c.issuer};nbf={c.issuance};exp={so c.expiration};sub={so c.subjectId};rest={c.rest}"

def enc (t : String) : String :=
  let m := kv t
  match onat m "id", oint m "nbf", oint m "exp", onat m "sub", onat m "rest", onat m "cust", (get m "iss").bind parseIssuer with
  | some id, some (some nbf), some exp, some sub, some (some rest), some cust, some iss =>
    let c : Cred := ⟨id, iss, nbf, exp, sub, rest⟩
    let cl := toClaims c cust
    let rt := match tryIntoCredential cl with
      | .ok c' => if c' == c then "rt:ok" else "rt:differs"
      | .error e => "rt:err:" ++ showCErr e
    showClaims cl ++ " " ++ rt
  | _, _, _, _, _, _, _ => "bad-request"

def dec (t : String) : String :=
  let m := kv t
  let viss : Option (Option Issuer) := match get m "viss" with
    | none => some none
    | some "~" => some none
    | some v => (parseIssuer v).map some
  match oint m "exp", (get m "iss").bind parseIssuer, oint m "iat", oint m "nbf", onat m "jti", onat m "sub",
    onat m "vid", viss, oint m "vnbf", oint m "vexp", onat m "vsub", onat m "rest", onat m "cust" with
  | some exp, some iss, some iat, some nbf, some jti, some sub, some vid, some viss, some vnbf, some vexp, some vsub,
    some (some rest), some cust =>
    let cl : Claims := ⟨exp, iss, iat, nbf, jti, sub, ⟨vid, viss, vnbf, vexp, vsub, rest⟩, cust⟩
    match tryIntoCredential cl with
    | .ok c => s!"ok:{showCred c};cust={so cust}"
    | .error e => "err:" ++ showCErr e
  | _, _, _, _, _, _, _, _, _, _, _, _, _ => "bad-request"

def showPClaims (cl : PClaims) : String :=
  s!"exp={so cl.exp};iss={cl.iss};iat={so cl.iat};nbf={so cl.nbf};jti={so cl.jti};aud={so cl.aud};vid={so cl.vp.id};vholder={so cl.vp.holder};rest={cl.vp.rest};cust={so cl.custom}"

def showPErr : PErr → String
  | .id => "id" | .holder => "holder" | .timestamp => "timestamp"

/-- `JwtPresentationValidator::validate` after the signature: dates first, then the consistency check -/
def decodePres (cl : PClaims) : String :=
  match decodePOpts cl with
  | .error e => "err:" ++ showPErr e
  | .ok o =>
    match tryIntoPresentation cl with
    | .error e => "err:" ++ showPErr e
    | .ok p => s!"ok:id={so p.id};holder={p.holder};rest={p.rest}|exp={so o.expiration};nbf={so o.issuance};aud={so o.audience};cust={so o.custom}"

def penc (t : String) : String :=
  let m := kv t
  match onat m "id", onat m "holder", onat m "rest", oint m "exp", oint m "nbf", onat m "aud", onat m "cust" with
  | some id, some (some holder), some (some rest), some exp, some nbf, some aud, some cust =>
    let p : Pres := ⟨id, holder, rest⟩
    let o : POpts := ⟨exp, nbf, aud, cust⟩
    let cl := toPClaims p o
    let rt := match decodePOpts cl, tryIntoPresentation cl with
      | .ok o', .ok p' => if p' == p && o' == o then "rt:ok" else "rt:differs"
      | .error e, _ => "rt:err:" ++ showPErr e
      | _, .error e => "rt:err:" ++ showPErr e
    showPClaims cl ++ " " ++ rt
  | _, _, _, _, _, _, _ => "bad-request"

def pdec (t : String) : String :=
  let m := kv t
  match oint m "exp", onat m "iss", oint m "iat", oint m "nbf", onat m "jti", onat m "aud", onat m "vid",
    onat m "vholder", onat m "rest", onat m "cust" with
  | some exp, some (some iss), some iat, some nbf, some jti, some aud, some vid, some vholder, some (some rest), some cust =>
    decodePres ⟨exp, iss, iat, nbf, jti, aud, ⟨vid, vholder, rest⟩, cust⟩
  | _, _, _, _, _, _, _, _, _, _ => "bad-request"

def handle (args : List String) : String :=
  match args with
  | ["enc", t] => enc t
  | ["encm", _] => "u"  -- subject arrays: implementation-side oracle only
  | ["dec", t] => dec t
  | ["penc", t] => penc t
  | ["pdec", t] => pdec t
  | _ => "bad-request"

end Driver.C07
