import IdModel.Jwk.Thumb
/-! Helper lemmas: cutting the thumbprint text at quote characters. -/
namespace IdModel.Jwk.Thumb

theorem cut_at_quote (a b r s : List Char) (ha : q ∉ a) (hb : q ∉ b) (h : a ++ q :: r = b ++ q :: s) : a = b ∧ r = s := by
  induction a generalizing b with
  | nil =>
    cases b with
    | nil => simp at h; exact ⟨rfl, h⟩
    | cons y t =>
      simp at h
      exact absurd (h.1 ▸ List.mem_cons_self) hb
  | cons x t ih =>
    cases b with
    | nil =>
      simp at h
      exact absurd (h.1 ▸ List.mem_cons_self) ha
    | cons y u =>
      simp only [List.cons_append, List.cons.injEq] at h
      obtain ⟨e, h'⟩ := h
      have := ih u (fun m => ha (List.mem_cons_of_mem _ m)) (fun m => hb (List.mem_cons_of_mem _ m)) h'
      exact ⟨by rw [e, this.1], this.2⟩

/-- same names, quote-free values: the member text determines the value and what follows -/
theorem member_cut (n v w r s : List Char) (hv : q ∉ v) (hw : q ∉ w)
    (h : member n v ++ r = member n w ++ s) : v = w ∧ r = s := by
  unfold member at h
  simp only [List.cons_append, List.append_assoc, List.cons.injEq, true_and, List.nil_append] at h
  have h2 := List.append_cancel_left h
  simp only [List.cons.injEq, true_and] at h2
  exact cut_at_quote v w r s hv hw h2

theorem members_inj : ∀ (ps qs : List (List Char × List Char)) (r s : List Char),
    ps.map (·.1) = qs.map (·.1) → (∀ p ∈ ps, q ∉ p.2) → (∀ p ∈ qs, q ∉ p.2) →
    (r = [] ∨ ∃ r', r = '}' :: r') → (s = [] ∨ ∃ s', s = '}' :: s') →
    members ps ++ r = members qs ++ s → ps = qs ∧ r = s := by
  intro ps
  induction ps with
  | nil =>
    intro qs r s hn _ _ _ _ h
    cases qs with
    | nil => exact ⟨rfl, by simpa [members] using h⟩
    | cons _ _ => simp at hn
  | cons p t ih =>
    intro qs r s hn hp hq hr hs h
    cases qs with
    | nil => simp at hn
    | cons p' t' =>
      obtain ⟨n, v⟩ := p
      obtain ⟨n', w⟩ := p'
      simp only [List.map_cons, List.cons.injEq] at hn
      obtain ⟨rfl, hn'⟩ := hn
      have hv : q ∉ v := hp (n, v) List.mem_cons_self
      have hw : q ∉ w := hq (n, w) List.mem_cons_self
      cases t with
      | nil =>
        cases t' with
        | nil =>
          simp only [members] at h
          obtain ⟨e, f⟩ := member_cut n v w r s hv hw h
          exact ⟨by rw [e], f⟩
        | cons _ _ => simp at hn'
      | cons p2 t2 =>
        cases t' with
        | nil => simp at hn'
        | cons p2' t2' =>
          simp only [members, List.append_assoc, List.cons_append] at h
          obtain ⟨e, f⟩ := member_cut n v w _ _ hv hw h
          simp only [List.cons.injEq, true_and] at f
          have := ih (p2' :: t2') r s hn' (fun x hx => hp x (List.mem_cons_of_mem _ hx))
            (fun x hx => hq x (List.mem_cons_of_mem _ hx)) hr hs f
          exact ⟨by rw [e, this.1], this.2⟩

/-- **the thumbprint text is injective in the member values** (for one family, i.e. one list of names, and values without a
quote character — base64url values never hold one) -/
theorem text_inj (ps qs : List (List Char × List Char)) (hn : ps.map (·.1) = qs.map (·.1))
    (hp : ∀ p ∈ ps, q ∉ p.2) (hq : ∀ p ∈ qs, q ∉ p.2) (h : text ps = text qs) : ps = qs := by
  unfold text at h
  simp only [List.cons_append, List.cons.injEq, true_and] at h
  exact (members_inj ps qs ['}'] ['}'] hn hp hq (Or.inr ⟨[], rfl⟩) (Or.inr ⟨[], rfl⟩) h).1

/-- without the hypothesis the text is NOT injective: the values are pasted without JSON escaping -/
example : text [("x".toList, "a\",\"y\":\"b".toList), ("y".toList, "c".toList)] = text [("x".toList, "a".toList), ("y".toList, "b\",\"y\":\"c".toList)] := by decide

end IdModel.Jwk.Thumb
