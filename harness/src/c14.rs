//! C14 — IOTA state-metadata packing round-trips and rewrites only self-references.
//!
//! Requests:
//!   `C14 rebase <spec> <t>`   build the IotaDocument, pack it, unpack the bytes for DID <t>, print the result
//!        spec = `D<id>;ct=<~|o<d>|s<d>,<d>…>;vm=<m>,…;a0=<e>,…;…;a4=…;sv=<s>,…;ad=<0|1>`
//!        m = `<did>.<pq>.<frag>.<body>.<controller>`   e = `E<m>` | `R<did>.<pq>.<frag>`   s = `<did>.<pq>.<frag>.<body>`
//!        DIDs: 0..4 IOTA DIDs (tag bytes n*0x11), 9 = the placeholder did:0:0, others did:ex:d<n>
//!   `C14 unframe <hex bytes> P=<payload hex>=<ok|bad> …`   StateMetadataDocument::unpack on raw bytes; the P facts say
//!        whether a payload deserialises (JSON is a parameter of the model)
//!   `C14 frame <n>`   pack a document whose JSON is exactly n bytes long: header and length, or the error
//! Implementation-side oracle for `rebase`: the result equals the original with exactly id, controllers, method ids
//! and controllers, reference ids and service ids rewritten (computed on the JSON), everything else — alsoKnownAs,
//! custom properties, key material, endpoints, metadata — untouched, ledger addresses unset.
use crate::c04::{parse_id, parse_idb, pq_str, show_frag, Id};
use crate::rng::{hex, Rng};
use identity_core::convert::FromJson;
use identity_core::convert::ToJson;
use identity_did::DIDUrl;
use identity_did::DID;
use identity_iota_core::IotaDID;
use identity_iota_core::IotaDocument;
use identity_iota_core::StateMetadataDocument;
use identity_verification::MethodData;
use identity_verification::MethodRef;
use identity_verification::VerificationMethod;
use serde_json::Value;
use std::io::Write;

fn did14(n: u32) -> String {
  if n < 5 {
    format!("did:iota:0x{}", format!("{:02x}", (n * 0x11) as u8).repeat(32))
  } else if (20..25).contains(&n) {
    // the same tag as DID n-20, on another network: a different DID
    format!("did:iota:smr:0x{}", format!("{:02x}", ((n - 20) * 0x11) as u8).repeat(32))
  } else if (30..35).contains(&n) {
    // the tag of DID n-30 with the default network spelled out: a valid IOTA DID in NON-normal form, a different string
    format!("did:iota:iota:0x{}", format!("{:02x}", ((n - 30) * 0x11) as u8).repeat(32))
  } else if n == 9 {
    "did:0:0".to_string()
  } else {
    format!("did:ex:d{}", n)
  }
}
fn did14_of(s: &str) -> u32 {
  if s == "did:0:0" {
    9
  } else if let Some(h) = s.strip_prefix("did:iota:iota:0x") {
    u32::from_str_radix(&h[..2.min(h.len())], 16).map(|b| 30 + b / 0x11).unwrap_or(999)
  } else if let Some(h) = s.strip_prefix("did:iota:smr:0x") {
    u32::from_str_radix(&h[..2.min(h.len())], 16).map(|b| 20 + b / 0x11).unwrap_or(999)
  } else if let Some(h) = s.strip_prefix("did:iota:0x") {
    u32::from_str_radix(&h[..2.min(h.len())], 16).map(|b| b / 0x11).unwrap_or(999)
  } else if let Some(n) = s.strip_prefix("did:ex:d") {
    n.parse().unwrap_or(999)
  } else {
    999
  }
}
fn id14(i: Id) -> String {
  format!("{}{}{}", did14(i.did), pq_str(i.pq), i.frag.map(|f| format!("#k{}", f)).unwrap_or_default())
}
fn id14_of(u: &DIDUrl) -> Id {
  let pq = match (u.path().filter(|p| !p.is_empty()), u.query().filter(|q| !q.is_empty())) {
    (None, None) => 0,
    (Some(_), None) => 1,
    (None, Some(_)) => 2,
    (Some(_), Some(_)) => 3,
  };
  Id {
    did: did14_of(u.did().as_str()),
    pq,
    frag: u.fragment().filter(|f| !f.is_empty()).map(|f| f.trim_start_matches('k').parse().unwrap_or(999)),
  }
}
fn show_id14(i: Id) -> String {
  format!("{}.{}.{}", i.did, i.pq, show_frag(i.frag))
}

#[derive(Clone)]
struct M {
  id: Id,
  body: u32,
  ctl: u32,
}
#[derive(Clone)]
enum E {
  Embed(M),
  Refer(Id),
}
#[derive(Clone)]
enum Ctl {
  None,
  One(u32),
  Set(Vec<u32>),
}
#[derive(Clone)]
struct Spec14 {
  id: u32,
  ct: Ctl,
  vm: Vec<M>,
  rels: [Vec<E>; 5],
  sv: Vec<(Id, u32)>,
  ad: bool,
  /// metadata variant: 0 created + updated; 1 + deactivated true; 2 + deactivated false; 3 neither date
  md: u8,
}

fn parse_m(t: &str) -> Option<M> {
  let (a, c) = t.rsplit_once('.')?;
  let (i, b) = parse_idb(a)?;
  Some(M { id: i, body: b, ctl: c.parse().ok()? })
}

fn parse_spec14(t: &str) -> Option<Spec14> {
  let mut parts = t.split(';');
  let id: u32 = parts.next()?.strip_prefix('D')?.parse().ok()?;
  let mut s = Spec14 { id, ct: Ctl::None, vm: vec![], rels: Default::default(), sv: vec![], ad: false, md: 0 };
  for p in parts {
    let (k, v) = p.split_once('=')?;
    let items: Vec<&str> = if v.is_empty() { vec![] } else { v.split(',').collect() };
    match k {
      "ct" => {
        s.ct = if v == "~" {
          Ctl::None
        } else if let Some(x) = v.strip_prefix('o') {
          Ctl::One(x.parse().ok()?)
        } else {
          Ctl::Set(v.strip_prefix('s')?.split(',').map(|x| x.parse().ok()).collect::<Option<_>>()?)
        }
      }
      "vm" => s.vm = items.iter().map(|x| parse_m(x)).collect::<Option<_>>()?,
      "sv" => s.sv = items.iter().map(|x| parse_idb(x)).collect::<Option<_>>()?,
      "ad" => {
        let n: u8 = v.parse().ok()?;
        s.ad = n % 2 == 1;
        s.md = n / 2;
      }
      "a0" | "a1" | "a2" | "a3" | "a4" => {
        let n: usize = k[1..].parse().ok()?;
        s.rels[n] = items
          .iter()
          .map(|x| if let Some(m) = x.strip_prefix('E') { parse_m(m).map(E::Embed) } else { parse_id(x.strip_prefix('R')?).map(E::Refer) })
          .collect::<Option<_>>()?;
      }
      _ => return None,
    }
  }
  Some(s)
}

fn m_json(m: &M) -> String {
  format!(
    r#"{{"id":"{}","controller":"{}","type":"Ed25519VerificationKey2018","publicKeyMultibase":"z{}"}}"#,
    id14(m.id),
    did14(m.ctl),
    m.body
  )
}

/// `pad`: length of a custom property used to reach an exact JSON size
fn doc_json14(s: &Spec14, pad: usize) -> String {
  let names = ["authentication", "assertionMethod", "keyAgreement", "capabilityDelegation", "capabilityInvocation"];
  let me = did14(s.id);
  let mut j = format!("{{\"doc\":{{\"id\":\"{}\"", me);
  match &s.ct {
    Ctl::None => {}
    Ctl::One(x) => j += &format!(",\"controller\":\"{}\"", did14(*x)),
    Ctl::Set(xs) => j += &format!(",\"controller\":[{}]", xs.iter().map(|x| format!("\"{}\"", did14(*x))).collect::<Vec<_>>().join(",")),
  }
  // not rewritten by packing: alsoKnownAs and custom properties, even when they spell the document's own DID
  j += &format!(",\"alsoKnownAs\":[\"{}\",\"https://example.com/{}\"]", me, s.id);
  j += &format!(",\"verificationMethod\":[{}]", s.vm.iter().map(m_json).collect::<Vec<_>>().join(","));
  for (n, name) in names.iter().enumerate() {
    let items: Vec<String> = s.rels[n]
      .iter()
      .map(|e| match e {
        E::Embed(m) => m_json(m),
        E::Refer(i) => format!("\"{}\"", id14(*i)),
      })
      .collect();
    j += &format!(",\"{}\":[{}]", name, items.join(","));
  }
  j += &format!(
    ",\"service\":[{}]",
    s.sv
      .iter()
      .map(|(i, b)| format!(r#"{{"id":"{}","type":"T","serviceEndpoint":"https://e.x/{}"}}"#, id14(*i), b))
      .collect::<Vec<_>>()
      .join(",")
  );
  // every second document carries non-ASCII text in a custom property (the length prefix counts BYTES of the JSON)
  let text = if s.id % 2 == 1 { "\u{e9}\u{20ac}\u{1f600} na\u{ef}ve" } else { "" };
  j += &format!(",\"note\":{{\"self\":\"{}#k1\",\"pad\":\"{}{}\"}}}}", me, text, "x".repeat(pad));
  j += match s.md {
    1 => ",\"meta\":{\"created\":\"2023-01-01T00:00:00Z\",\"updated\":\"2023-02-02T00:00:00Z\",\"deactivated\":true,\"extra\":[1,2]",
    2 => ",\"meta\":{\"created\":\"2023-01-01T00:00:00Z\",\"updated\":\"2023-02-02T00:00:00Z\",\"deactivated\":false,\"extra\":[1,2]",
    3 => ",\"meta\":{\"extra\":[1,2]",
    _ => ",\"meta\":{\"created\":\"2023-01-01T00:00:00Z\",\"updated\":\"2023-02-02T00:00:00Z\",\"extra\":[1,2]",
  };
  if s.ad {
    j += ",\"governorAddress\":\"rms1qgov\",\"stateControllerAddress\":\"rms1qstate\"";
  }
  j += "}}";
  j
}

fn show_m(m: &VerificationMethod) -> String {
  let body = match m.data() {
    MethodData::PublicKeyMultibase(s) => s.trim_start_matches('z').to_string(),
    _ => "?".into(),
  };
  format!("{}.{}.{}", show_id14(id14_of(m.id())), body, did14_of(m.controller().as_str()))
}

fn show_doc14(d: &IotaDocument) -> String {
  let c = d.core_document();
  let ct = match c.controller() {
    None => "~".to_string(),
    Some(x) => match serde_json::to_value(x).unwrap_or(Value::Null) {
      Value::String(s) => format!("o{}", did14_of(&s)),
      Value::Array(a) => format!("s{}", a.iter().map(|v| did14_of(v.as_str().unwrap_or("")).to_string()).collect::<Vec<_>>().join(",")),
      _ => "?".into(),
    },
  };
  let r = |x: &identity_core::common::OrderedSet<MethodRef>| {
    x.iter()
      .map(|e| match e {
        MethodRef::Embed(m) => format!("E{}", show_m(m)),
        MethodRef::Refer(u) => format!("R{}", show_id14(id14_of(u))),
      })
      .collect::<Vec<_>>()
      .join(",")
  };
  let sv = c
    .service()
    .iter()
    .map(|s| {
      let ep = s.service_endpoint().to_string();
      format!("{}.{}", show_id14(id14_of(s.id())), ep.rsplit('/').next().unwrap_or("?").trim_matches('"'))
    })
    .collect::<Vec<_>>()
    .join(",");
  format!(
    "D{};ct={};vm={};a0={};a1={};a2={};a3={};a4={};sv={};ad={}",
    did14_of(c.id().as_str()),
    ct,
    c.verification_method().iter().map(show_m).collect::<Vec<_>>().join(","),
    r(c.authentication()),
    r(c.assertion_method()),
    r(c.key_agreement()),
    r(c.capability_delegation()),
    r(c.capability_invocation()),
    sv,
    (d.metadata.governor_address.is_some() || d.metadata.state_controller_address.is_some()) as u8
  )
}

fn mentions(s: &Spec14) -> Vec<u32> {
  let mut v = vec![s.id];
  match &s.ct {
    Ctl::None => {}
    Ctl::One(x) => v.push(*x),
    Ctl::Set(xs) => v.extend(xs),
  }
  for m in &s.vm {
    v.push(m.id.did);
    v.push(m.ctl);
  }
  for r in &s.rels {
    for e in r {
      match e {
        E::Embed(m) => {
          v.push(m.id.did);
          v.push(m.ctl)
        }
        E::Refer(i) => v.push(i.did),
      }
    }
  }
  for (i, _) in &s.sv {
    v.push(i.did);
  }
  v
}

/// the expected result, computed on the JSON: DID prefix rewritten at exactly the identifier positions
fn expected_json(orig: &Value, me: &str, target: &str) -> Value {
  let swap = |s: &str| -> String {
    if s == me {
      target.to_string()
    } else if s.starts_with(me) && matches!(s.as_bytes().get(me.len()), Some(b'/') | Some(b'?') | Some(b'#')) {
      format!("{}{}", target, &s[me.len()..])
    } else {
      s.to_string()
    }
  };
  let mut v = orig.clone();
  let swap_val = |x: &mut Value| {
    if let Value::String(s) = x {
      *s = swap(s)
    }
  };
  let method = |m: &mut Value| {
    if let Some(o) = m.as_object_mut() {
      if let Some(x) = o.get_mut("id") {
        if let Value::String(s) = x {
          *s = swap(s)
        }
      }
      if let Some(x) = o.get_mut("controller") {
        if let Value::String(s) = x {
          *s = swap(s)
        }
      }
    } else if let Value::String(s) = m {
      *s = swap(s)
    }
  };
  if let Some(doc) = v.get_mut("doc").and_then(|d| d.as_object_mut()) {
    if let Some(x) = doc.get_mut("id") {
      swap_val(x)
    }
    if let Some(c) = doc.get_mut("controller") {
      match c {
        Value::Array(a) => {
          a.iter_mut().for_each(swap_val);
          // a controller *set*: duplicates fall together, a single remaining element is written as a string
          let mut seen: Vec<Value> = vec![];
          for x in a.iter() {
            if !seen.contains(x) {
              seen.push(x.clone());
            }
          }
          *c = if seen.len() == 1 { seen.pop().unwrap() } else { Value::Array(seen) };
        }
        other => swap_val(other),
      }
    }
    for k in ["verificationMethod", "authentication", "assertionMethod", "keyAgreement", "capabilityDelegation", "capabilityInvocation"] {
      if let Some(Value::Array(a)) = doc.get_mut(k) {
        a.iter_mut().for_each(method)
      }
    }
    if let Some(Value::Array(a)) = doc.get_mut("service") {
      for s in a.iter_mut() {
        if let Some(x) = s.get_mut("id") {
          swap_val(x)
        }
      }
    }
  }
  if let Some(meta) = v.get_mut("meta").and_then(|d| d.as_object_mut()) {
    meta.remove("governorAddress");
    meta.remove("stateControllerAddress");
  }
  v
}

fn rebase(spec_s: &str, t: &str) -> String {
  let (spec, t): (Spec14, u32) = match (parse_spec14(spec_s), t.parse()) {
    (Some(a), Ok(b)) => (a, b),
    _ => return "bad-request".into(),
  };
  let doc = match IotaDocument::from_json(&doc_json14(&spec, 0)) {
    Ok(d) => d,
    Err(_) => return "start:reject".into(),
  };
  let orig: Value = serde_json::from_str(&doc.to_json().unwrap_or_default()).unwrap_or(Value::Null);
  let bytes = match doc.clone().pack() {
    Ok(b) => b,
    Err(_) => return "pack:err".into(),
  };
  let target = match IotaDID::parse(did14(t)) {
    Ok(d) => d,
    Err(_) => return "bad-request".into(),
  };
  let smd = match StateMetadataDocument::unpack(&bytes) {
    Ok(x) => x,
    Err(_) => return "err:json".into(),
  };
  match smd.into_iota_document(&target) {
    Err(e) => {
      let line = match &e {
        identity_iota_core::Error::DIDSyntaxError(_) => "err:notIota".to_string(),
        identity_iota_core::Error::InvalidDoc(_) => "err:gate".to_string(),
        other => format!("err:?{:?}", other),
      };
      // a document that was accepted and packed must unpack for its own DID and for any DID it does not mention
      let ms = mentions(&spec);
      if !ms.contains(&9) && (t == spec.id || !ms.contains(&t)) {
        return format!("{}\t#FAIL:unpack-refused:the packed document does not unpack for {}: {:?}", line, did14(t), e);
      }
      line
    }
    Ok(res) => {
      let line = format!("ok:{}", show_doc14(&res));
      let ms = mentions(&spec);
      // for every target: a successful unpack is the exact rebase (documents mentioning the placeholder excepted)
      let applies = !ms.contains(&9);
      if applies {
        let got: Value = serde_json::from_str(&res.to_json().unwrap_or_default()).unwrap_or(Value::Null);
        let want = expected_json(&orig, &did14(spec.id), &did14(t));
        if got != want {
          let key = if t == spec.id { "roundtrip-not-equal" } else { "rebase-not-exact" };
          return format!("{}\t#FAIL:{}:unpacking for {} gives {} expected {}", line, key, did14(t), got, want);
        }
        // unpacking again for the own DID after a rebase round trip must be stable as well
        if t == spec.id && res != { let mut d = doc.clone(); d.metadata.governor_address = None; d.metadata.state_controller_address = None; d } {
          return format!("{}\t#FAIL:roundtrip-not-equal:the unpacked document differs from the packed one", line);
        }
      }
      line
    }
  }
}

fn classify(e: &identity_iota_core::Error) -> String {
  let s = format!("{:?}", e);
  let k = if s.contains("missing `DID` marker") {
    "marker"
  } else if s.contains("unsupported version") {
    "version"
  } else if s.contains("unsupported encoding") {
    "encoding"
  } else if s.contains("expected DID marker") {
    "noMarker"
  } else if s.contains("expected version") {
    "noVersion"
  } else if s.contains("expected encoding") {
    "noEncoding"
  } else if s.contains("expected data length") {
    "noLength"
  } else if s.contains("shorter than length prefix") {
    "short"
  } else if s.contains("failed to deserialize JSON") {
    "json"
  } else {
    return format!("err:?{}", s);
  };
  format!("err:{}", k)
}

fn unhex(s: &str) -> Option<Vec<u8>> {
  if s == "-" {
    return Some(vec![]);
  }
  if s.len() % 2 != 0 {
    return None;
  }
  (0..s.len() / 2).map(|i| u8::from_str_radix(&s[2 * i..2 * i + 2], 16).ok()).collect()
}

fn base_spec() -> Spec14 {
  let i = |did, pq, f| Id { did, pq, frag: Some(f) };
  Spec14 {
    id: 1,
    ct: Ctl::Set(vec![1, 2]),
    vm: vec![M { id: i(1, 0, 1), body: 11, ctl: 1 }, M { id: i(3, 0, 1), body: 12, ctl: 3 }],
    rels: [vec![E::Refer(i(1, 0, 1)), E::Embed(M { id: i(1, 0, 2), body: 13, ctl: 2 })], vec![], vec![], vec![], vec![E::Refer(i(7, 0, 9))]],
    sv: vec![(i(1, 0, 5), 14)],
    ad: true,
    md: 0,
  }
}

fn frame_req(n: usize) -> String {
  let spec = base_spec();
  let mut doc0 = match IotaDocument::from_json(&doc_json14(&spec, 0)) {
    Ok(d) => d,
    Err(_) => return "bad-request".into(),
  };
  let l0 = {
    doc0.metadata.governor_address = None;
    doc0.metadata.state_controller_address = None;
    StateMetadataDocument::from(doc0).to_json_vec().map(|v| v.len()).unwrap_or(0)
  };
  if n < l0 {
    return "bad-request".into();
  }
  let doc = match IotaDocument::from_json(&doc_json14(&spec, n - l0)) {
    Ok(d) => d,
    Err(_) => return "bad-request".into(),
  };
  match doc.clone().pack() {
    Err(_) => "err:toolarge".into(),
    Ok(b) => {
      let line = format!("ok:{}:{}", hex(&b[..7.min(b.len())]), b.len().saturating_sub(7));
      // what was packed must unpack, for the own DID, to an equal document
      let own = doc.id().clone();
      let back = StateMetadataDocument::unpack(&b).and_then(|m| m.into_iota_document(&own));
      let mut want = doc.clone();
      want.metadata.governor_address = None;
      want.metadata.state_controller_address = None;
      match back {
        Ok(d) if d == want => line,
        Ok(_) => format!("{}\t#FAIL:roundtrip-not-equal:a packed document with a payload of {} bytes unpacks to a different document", line, b.len().saturating_sub(7)),
        Err(e) => format!("{}\t#FAIL:unpack-refused:a packed document with a payload of {} bytes does not unpack: {:?}", line, b.len().saturating_sub(7), e),
      }
    }
  }
}

pub fn run(args: &[&str]) -> String {
  match args {
    ["rebase", spec, t] => rebase(spec, t),
    ["unframe", bytes, ..] => match unhex(bytes) {
      None => "bad-request".into(),
      Some(b) => match StateMetadataDocument::unpack(&b) {
        Ok(_) => "ok".into(),
        Err(e) => classify(&e),
      },
    },
    ["frame", n] => match n.parse() {
      Ok(n) => frame_req(n),
      Err(_) => "bad-request".into(),
    },
    _ => "bad-request".into(),
  }
}

// ---------------------------------------------------------------------------------------------------------
fn show_spec(s: &Spec14) -> String {
  let m = |m: &M| format!("{}.{}.{}", show_id14(m.id), m.body, m.ctl);
  let e = |e: &E| match e {
    E::Embed(x) => format!("E{}", m(x)),
    E::Refer(i) => format!("R{}", show_id14(*i)),
  };
  let ct = match &s.ct {
    Ctl::None => "~".to_string(),
    Ctl::One(x) => format!("o{}", x),
    Ctl::Set(xs) => format!("s{}", xs.iter().map(|x| x.to_string()).collect::<Vec<_>>().join(",")),
  };
  format!(
    "D{};ct={};vm={};a0={};a1={};a2={};a3={};a4={};sv={};ad={}",
    s.id,
    ct,
    s.vm.iter().map(m).collect::<Vec<_>>().join(","),
    s.rels[0].iter().map(e).collect::<Vec<_>>().join(","),
    s.rels[1].iter().map(e).collect::<Vec<_>>().join(","),
    s.rels[2].iter().map(e).collect::<Vec<_>>().join(","),
    s.rels[3].iter().map(e).collect::<Vec<_>>().join(","),
    s.rels[4].iter().map(e).collect::<Vec<_>>().join(","),
    s.sv.iter().map(|(i, b)| format!("{}.{}", show_id14(*i), b)).collect::<Vec<_>>().join(","),
    s.ad as u8 + 2 * s.md
  )
}

fn rdid(r: &mut Rng, me: u32, exotic: bool) -> u32 {
  // controllers in non-normal spelling (they come from JSON; nothing normalises them)
  if exotic && r.chance(1, 6) {
    return 30 + r.below(5) as u32;
  }
  match r.below(10) {
    0..=4 => me,
    5 => (me + 1 + r.below(3) as u32) % 5,
    // the same tag on another network
    6 => if me < 5 { me + 20 } else { (me + 1) % 5 },
    7 => 7,
    8 => {
      if exotic {
        9
      } else {
        8
      }
    }
    _ => r.below(5) as u32,
  }
}

fn random_spec(r: &mut Rng, exotic: bool) -> Spec14 {
  let me = if exotic && r.chance(1, 15) { 7 } else { r.below(5) as u32 };
  // a pool of distinct ids: embedded methods and services draw from it without replacement, so that most documents
  // are accepted; the exotic half also draws with replacement
  let mut pool: Vec<Id> = vec![];
  for did in [me, (me + 1) % 5, 7, if exotic { 9 } else { (me + 2) % 5 }] {
    for frag in 1..=4 {
      pool.push(Id { did, pq: 0, frag: Some(frag) });
    }
    pool.push(Id { did, pq: 1, frag: Some(1) });
    // ids that carry a query (with and without a path): the rewriting must keep it
    pool.push(Id { did, pq: 2, frag: Some(1) });
    pool.push(Id { did, pq: 3, frag: Some(2) });
    pool.push(Id { did, pq: 2, frag: Some(3) });
  }
  // own ids are more likely
  for frag in 5..=9 {
    pool.push(Id { did: me, pq: 0, frag: Some(frag) });
  }
  let mut take = |r: &mut Rng| -> Id {
    let k = r.below(pool.len() as u64) as usize;
    if exotic && r.chance(1, 6) {
      pool[k]
    } else {
      pool.swap_remove(k)
    }
  };
  let n = |r: &mut Rng| if r.chance(1, 2) { r.below(2) as usize } else { r.below(4) as usize };
  let ct = match r.below(4) {
    0 => Ctl::None,
    1 => Ctl::One(if exotic { rdid(r, me, true) } else { r.below(5) as u32 }),
    _ => {
      if exotic {
        Ctl::Set((0..2 + r.below(2)).map(|_| rdid(r, me, true)).collect())
      } else {
        let a = r.below(5) as u32;
        Ctl::Set(vec![a, (a + 1 + r.below(4) as u32) % 5])
      }
    }
  };
  let vm: Vec<M> = (0..n(r)).map(|_| M { id: take(r), body: 11 + r.below(80) as u32, ctl: rdid(r, me, exotic) }).collect();
  let mut rels: [Vec<E>; 5] = Default::default();
  for k in 0..5 {
    let mut used: Vec<Id> = vec![];
    for _ in 0..n(r) {
      let e = if r.chance(1, 2) {
        E::Embed(M { id: take(r), body: 11 + r.below(80) as u32, ctl: rdid(r, me, exotic) })
      } else if !vm.is_empty() && r.chance(2, 3) {
        E::Refer(vm[r.below(vm.len() as u64) as usize].id)
      } else {
        E::Refer(take(r))
      };
      let id = match &e {
        E::Embed(m) => m.id,
        E::Refer(i) => *i,
      };
      if exotic || !used.contains(&id) {
        used.push(id);
        rels[k].push(e);
      }
    }
  }
  let sv = (0..n(r)).map(|_| (take(r), 11 + r.below(80) as u32)).collect();
  Spec14 { id: me, ct, vm, rels, sv, ad: r.chance(1, 2), md: *r.pick(&[0, 0, 1, 2, 3]) }
}

pub fn gen(thorough: bool, seed: u64, out: &mut impl Write) {
  let mut r = Rng::new(seed ^ 0xC14);
  // (a) rebase: fixed document onto every IOTA DID; random documents (half of them without the placeholder and
  //     without exotic DIDs) onto every IOTA DID
  let b = base_spec();
  for t in 0..5 {
    writeln!(out, "C14 rebase {} {}", show_spec(&b), t).unwrap();
  }
  let nd = if thorough { 8000 } else { 500 };
  for k in 0..nd {
    let s = random_spec(&mut r, k % 2 == 1);
    for t in 0..5 {
      writeln!(out, "C14 rebase {} {}", show_spec(&s), t).unwrap();
    }
  }
  // (b) framing: header mutations, truncations, length-prefix mutations, trailing bytes, random payloads
  let doc = IotaDocument::from_json(&doc_json14(&b, 0)).unwrap();
  let good = doc.pack().unwrap();
  let payload = good[7..].to_vec();
  let fact = |p: &[u8]| format!("P={}={}", hex(p), if StateMetadataDocument::from_json_slice(p).is_ok() { "ok" } else { "bad" });
  let emit = |out: &mut dyn Write, bytes: &[u8]| {
    // facts for the payload a correct reader would take, and for the whole rest
    let mut facts = vec![fact(&payload)];
    if bytes.len() >= 7 {
      let n = bytes[5] as usize + 256 * bytes[6] as usize;
      if 7 + n <= bytes.len() {
        facts.push(fact(&bytes[7..7 + n]));
      }
      facts.push(fact(&bytes[7..]));
    }
    facts.dedup();
    writeln!(out, "C14 unframe {} {}", hex(bytes), facts.join(" ")).unwrap();
  };
  emit(out, &good);
  for pos in 0..7 {
    // marker, version and encoding bytes: EVERY value; the two length bytes: a selection (their meaning is numeric)
    let vals: Vec<u8> = if pos < 5 { (0..=255u8).collect() } else { vec![0u8, 1, 2, 3, 0x44, 0x49, 0x64, 0xff, good[pos].wrapping_add(1), good[pos].wrapping_sub(1)] };
    for v in vals {
      if v == good[pos] {
        continue;
      }
      let mut x = good.clone();
      x[pos] = v;
      emit(out, &x);
    }
  }
  for l in (0..12).chain([good.len() - 2, good.len() - 1]) {
    emit(out, &good[..l.min(good.len())]);
  }
  for extra in [1usize, 2, 7, 100] {
    let mut x = good.clone();
    x.extend(r.bytes(extra));
    emit(out, &x);
  }
  for n in [0usize, 1, 2, payload.len() - 1, payload.len() + 1, payload.len() + 2, 65535] {
    let mut x = good.clone();
    x[5] = (n % 256) as u8;
    x[6] = (n / 256) as u8;
    emit(out, &x);
    x.extend(vec![b' '; 3]);
    emit(out, &x);
  }
  for _ in 0..(if thorough { 3000 } else { 300 }) {
    // random header bytes biased to the valid ones, random short payload
    let n = r.below(6) as usize;
    let mut x: Vec<u8> = vec![];
    for (k, g) in [b'D', b'I', b'D', 1u8, 0u8].iter().enumerate() {
      x.push(if r.chance(5, 6) { *g } else if k < 3 { *r.pick(b"DId") } else { r.below(3) as u8 });
    }
    let declared = if r.chance(2, 3) { n } else { r.below(9) as usize };
    x.push(declared as u8);
    x.push(if r.chance(9, 10) { 0 } else { 1 });
    let body: Vec<u8> = if r.chance(1, 2) { b"{}xx??".iter().take(n).cloned().collect() } else { r.bytes(n) };
    x.extend(body);
    let cut = if r.chance(1, 5) { r.below(x.len() as u64 + 1) as usize } else { x.len() };
    emit(out, &x[..cut]);
  }
  // (c) the 16-bit length bound
  for n in [1500usize, 1501, 4096, 32767, 32768, 60000, 65527, 65528, 65529, 65530, 65531, 65532, 65533, 65534, 65535, 65536, 65537, 70000, 131071, 131072, 200000] {
    writeln!(out, "C14 frame {}", n).unwrap();
  }
}
