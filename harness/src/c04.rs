//! C04 — DID document id-uniqueness and round trip across mutation histories.
//!
//! Request:  `C04 hist <J|B><doc> | <op> <op> …`
//!   doc  = `D<n>;vm=<m>,…;a0=<e>,…;a1=…;a2=…;a3=…;a4=…;sv=<s>,…`   (a0..a4 = authentication, assertionMethod,
//!          keyAgreement, capabilityDelegation, capabilityInvocation)
//!   m, s = `<did>.<pq>.<frag>.<body>`      e = `E<m>` (embedded) | `R<did>.<pq>.<frag>` (reference)    frag `~` = none
//!   `J`: the start document is deserialised from JSON; `B`: built through `DocumentBuilder`; `I`: an `IotaDocument`
//!        deserialised from JSON (ids are IOTA DIDs), driven through IotaDocument's own mutators
//!   op   = `im:<scope>:<m>` | `rm:<id>` (remove_method_and_scope) | `rM:<id>` (remove_method) | `is:<s>` | `rs:<id>` | `at:<form>:<id>:<rel>` | `dt:<form>:<id>:<rel>`
//!          | `S` (print the state) | `Q:<nd>:<np>:<nf>` (resolution battery over the id universe)
//!   form = `F` (&DIDUrl) | `S` (its string) | `H` (`#fragment`) | `B` (bare fragment)
//! Reply: `start:reject` or `start:ok <result> …` (one token per op).
//! Implementation-side oracles after every mutation: JSON round trip, the three id clauses of the property,
//! "refused ⇒ unchanged".
use crate::rng::Rng;
use identity_core::convert::FromJson;
use identity_core::convert::ToJson;
use identity_did::CoreDID;
use identity_did::DIDUrl;
use identity_did::DID;
use identity_document::document::CoreDocument;
use identity_document::document::DocumentBuilder;
use identity_document::service::Service;
use identity_document::Error as DocError;
use identity_verification::MethodData;
use identity_verification::MethodRef;
use identity_verification::MethodRelationship;
use identity_verification::MethodScope;
use identity_verification::VerificationMethod;
use std::io::Write;

#[derive(Clone, Copy, PartialEq, Eq, Debug, PartialOrd, Ord)]
pub(crate) struct Id {
  pub did: u32,
  pub pq: u32,
  pub frag: Option<u32>,
}

thread_local! {
  /// 'C': ids are did:ex:d<n>; 'I': ids are IOTA DIDs (tag bytes all n*0x11)
  pub(crate) static KIND: std::cell::Cell<char> = std::cell::Cell::new('C');
  /// fragment strings that are not of the form k<n> (JWK kids), by number
  pub(crate) static FRAGS: std::cell::RefCell<Vec<(String, u32)>> = std::cell::RefCell::new(vec![]);
  /// JWK kid -> key material number
  pub(crate) static BODIES: std::cell::RefCell<Vec<(String, u32)>> = std::cell::RefCell::new(vec![]);
}

pub(crate) fn pq_str(pq: u32) -> &'static str {
  match pq {
    0 => "",
    1 => "/p",
    2 => "?q=1",
    _ => "/p?q=1",
  }
}
pub(crate) fn did_str(d: u32) -> String {
  let kind = KIND.with(|k| k.get());
  if kind == 'I' {
    format!("did:iota:0x{}", format!("{:02x}", if d >= 50 { 0xf0 + (d - 50) as u8 } else { (d * 0x11) as u8 }).repeat(32))
  } else if kind == 'J' {
    // DIDs 50.. are of another method with the same method-specific ids: did:alt:i<n-50>
    if d >= 50 {
      format!("did:alt:i{}", d - 50)
    } else {
      format!("did:ex:i{}", d)
    }
  } else if d >= 50 {
    format!("did:alt:d{}", d - 50)
  } else {
    format!("did:ex:d{}", d)
  }
}
pub(crate) fn frag_str(f: u32) -> String {
  FRAGS.with(|t| t.borrow().iter().find(|(_, n)| *n == f).map(|(s, _)| s.clone())).unwrap_or_else(|| format!("k{}", f))
}
pub(crate) fn id_str(i: Id) -> String {
  format!("{}{}{}", did_str(i.did), pq_str(i.pq), i.frag.map(|f| format!("#{}", frag_str(f))).unwrap_or_default())
}
pub(crate) fn parse_id(t: &str) -> Option<Id> {
  let p: Vec<&str> = t.split('.').collect();
  if p.len() != 3 {
    return None;
  }
  Some(Id { did: p[0].parse().ok()?, pq: p[1].parse().ok()?, frag: if p[2] == "~" { None } else { Some(p[2].parse().ok()?) } })
}
pub(crate) fn parse_idb(t: &str) -> Option<(Id, u32)> {
  let (a, b) = t.rsplit_once('.')?;
  Some((parse_id(a)?, b.parse().ok()?))
}
pub(crate) fn id_of(u: &DIDUrl) -> Id {
  let mid = u.did().method_id();
  let did = match mid.strip_prefix("0x") {
    Some(h) if h.len() >= 2 => u32::from_str_radix(&h[..2], 16).map(|b| if b >= 0xf0 { 50 + b - 0xf0 } else { b / 0x11 }).unwrap_or(999),
    _ => mid.trim_start_matches(|c| c == 'd' || c == 'i').parse::<u32>().map(|n| if u.did().method() == "alt" { n + 50 } else { n }).unwrap_or(999),
  };
  let pq = match (u.path().filter(|p| !p.is_empty()), u.query().filter(|q| !q.is_empty())) {
    (None, None) => 0,
    (Some(_), None) => 1,
    (None, Some(_)) => 2,
    (Some(_), Some(_)) => 3,
  };
  let frag = u.fragment().filter(|f| !f.is_empty()).map(|f| {
    FRAGS
      .with(|t| t.borrow().iter().find(|(s, _)| s == f).map(|(_, n)| *n))
      .unwrap_or_else(|| f.trim_start_matches('k').parse().unwrap_or(999))
  });
  Id { did, pq, frag }
}
pub(crate) fn show_frag(f: Option<u32>) -> String {
  f.map(|x| x.to_string()).unwrap_or_else(|| "~".into())
}
pub(crate) fn show_id(i: Id) -> String {
  format!("{}.{}.{}", i.did, i.pq, show_frag(i.frag))
}
pub(crate) fn method_json(i: Id, body: u32) -> String {
  format!(
    r#"{{"id":"{}","controller":"{}","type":"Ed25519VerificationKey2018","publicKeyMultibase":"z{}"}}"#,
    id_str(i),
    did_str(i.did),
    body
  )
}
pub(crate) fn service_json(i: Id, body: u32) -> String {
  format!(r#"{{"id":"{}","type":"T","serviceEndpoint":"https://e.x/{}"}}"#, id_str(i), body)
}
pub(crate) fn show_method(m: &VerificationMethod) -> String {
  let body = match m.data() {
    MethodData::PublicKeyMultibase(s) => s.trim_start_matches('z').to_string(),
    MethodData::PublicKeyJwk(j) => BODIES
      .with(|t| t.borrow().iter().find(|(k, _)| Some(k.as_str()) == j.kid()).map(|(_, n)| n.to_string()))
      .unwrap_or_else(|| "?".into()),
    _ => "?".into(),
  };
  format!("{}.{}", show_id(id_of(m.id())), body)
}
pub(crate) fn show_service(s: &Service) -> String {
  let ep = s.service_endpoint().to_string();
  let body = ep.rsplit('/').next().unwrap_or("?").trim_matches('"').to_string();
  format!("{}.{}", show_id(id_of(s.id())), body)
}
pub(crate) fn show_ref(r: &MethodRef) -> String {
  match r {
    MethodRef::Embed(m) => format!("E{}", show_method(m)),
    MethodRef::Refer(u) => format!("R{}", show_id(id_of(u))),
  }
}
pub(crate) fn rel_of(n: u32) -> Option<MethodRelationship> {
  Some(match n {
    0 => MethodRelationship::Authentication,
    1 => MethodRelationship::AssertionMethod,
    2 => MethodRelationship::KeyAgreement,
    3 => MethodRelationship::CapabilityDelegation,
    4 => MethodRelationship::CapabilityInvocation,
    _ => return None,
  })
}
pub(crate) fn scope_of(t: &str) -> Option<MethodScope> {
  if t == "vm" {
    Some(MethodScope::VerificationMethod)
  } else {
    Some(MethodScope::VerificationRelationship(rel_of(t.parse().ok()?)?))
  }
}
pub(crate) fn show_scope(s: MethodScope) -> &'static str {
  match s {
    MethodScope::VerificationMethod => "vm",
    MethodScope::VerificationRelationship(MethodRelationship::Authentication) => "0",
    MethodScope::VerificationRelationship(MethodRelationship::AssertionMethod) => "1",
    MethodScope::VerificationRelationship(MethodRelationship::KeyAgreement) => "2",
    MethodScope::VerificationRelationship(MethodRelationship::CapabilityDelegation) => "3",
    MethodScope::VerificationRelationship(MethodRelationship::CapabilityInvocation) => "4",
  }
}

pub(crate) fn show_doc(d: &CoreDocument) -> String {
  let j = |v: Vec<String>| v.join(",");
  let mid = d.id().method_id();
  let id = match mid.strip_prefix("0x") {
    Some(h) if h.len() >= 2 => (u32::from_str_radix(&h[..2], 16).unwrap_or(0) / 0x11).to_string(),
    _ => mid.trim_start_matches('d').to_string(),
  };
  format!(
    "D{};vm={};a0={};a1={};a2={};a3={};a4={};sv={}",
    id,
    j(d.verification_method().iter().map(show_method).collect()),
    j(d.authentication().iter().map(show_ref).collect()),
    j(d.assertion_method().iter().map(show_ref).collect()),
    j(d.key_agreement().iter().map(show_ref).collect()),
    j(d.capability_delegation().iter().map(show_ref).collect()),
    j(d.capability_invocation().iter().map(show_ref).collect()),
    j(d.service().iter().map(show_service).collect()),
  )
}

pub(crate) struct Spec {
  pub id: u32,
  pub vm: Vec<(Id, u32)>,
  pub rels: [Vec<Result<(Id, u32), Id>>; 5],
  pub sv: Vec<(Id, u32)>,
}

pub(crate) fn parse_spec(t: &str) -> Option<Spec> {
  let mut parts = t.split(';');
  let id: u32 = parts.next()?.strip_prefix('D')?.parse().ok()?;
  let mut spec = Spec { id, vm: vec![], rels: Default::default(), sv: vec![] };
  for p in parts {
    let (k, v) = p.split_once('=')?;
    let items: Vec<&str> = if v.is_empty() { vec![] } else { v.split(',').collect() };
    match k {
      "vm" => spec.vm = items.iter().map(|x| parse_idb(x)).collect::<Option<_>>()?,
      "sv" => spec.sv = items.iter().map(|x| parse_idb(x)).collect::<Option<_>>()?,
      "a0" | "a1" | "a2" | "a3" | "a4" => {
        let n: usize = k[1..].parse().ok()?;
        spec.rels[n] = items
          .iter()
          .map(|x| if let Some(m) = x.strip_prefix('E') { parse_idb(m).map(Ok) } else { parse_id(x.strip_prefix('R')?).map(Err) })
          .collect::<Option<_>>()?;
      }
      _ => return None,
    }
  }
  Some(spec)
}

pub(crate) fn ref_json(e: &Result<(Id, u32), Id>) -> String {
  match e {
    Ok((i, b)) => method_json(*i, *b),
    Err(i) => format!("\"{}\"", id_str(*i)),
  }
}

pub(crate) fn doc_json(s: &Spec) -> String {
  let names = ["authentication", "assertionMethod", "keyAgreement", "capabilityDelegation", "capabilityInvocation"];
  let mut j = format!("{{\"id\":\"{}\"", did_str(s.id));
  j += &format!(",\"verificationMethod\":[{}]", s.vm.iter().map(|(i, b)| method_json(*i, *b)).collect::<Vec<_>>().join(","));
  for (n, name) in names.iter().enumerate() {
    j += &format!(",\"{}\":[{}]", name, s.rels[n].iter().map(ref_json).collect::<Vec<_>>().join(","));
  }
  j += &format!(",\"service\":[{}]}}", s.sv.iter().map(|(i, b)| service_json(*i, *b)).collect::<Vec<_>>().join(","));
  j
}

pub(crate) fn doc_from_json(s: &Spec) -> Option<CoreDocument> {
  CoreDocument::from_json(&doc_json(s)).ok()
}

pub(crate) fn mk_method(i: Id, b: u32) -> Option<VerificationMethod> {
  VerificationMethod::from_json(&method_json(i, b)).ok()
}
pub(crate) fn mk_service(i: Id, b: u32) -> Option<Service> {
  Service::from_json(&service_json(i, b)).ok()
}
pub(crate) fn mk_url(i: Id) -> Option<DIDUrl> {
  DIDUrl::parse(id_str(i)).ok()
}
fn mk_ref(e: &Result<(Id, u32), Id>) -> Option<MethodRef> {
  match e {
    Ok((i, b)) => mk_method(*i, *b).map(MethodRef::Embed),
    Err(i) => mk_url(*i).map(MethodRef::Refer),
  }
}

fn doc_from_builder(s: &Spec) -> Option<CoreDocument> {
  let mut b = DocumentBuilder::default().id(CoreDID::parse(did_str(s.id)).ok()?);
  for (i, x) in &s.vm {
    b = b.verification_method(mk_method(*i, *x)?);
  }
  for e in &s.rels[0] {
    b = b.authentication(mk_ref(e)?);
  }
  for e in &s.rels[1] {
    b = b.assertion_method(mk_ref(e)?);
  }
  for e in &s.rels[2] {
    b = b.key_agreement(mk_ref(e)?);
  }
  for e in &s.rels[3] {
    b = b.capability_delegation(mk_ref(e)?);
  }
  for e in &s.rels[4] {
    b = b.capability_invocation(mk_ref(e)?);
  }
  for (i, x) in &s.sv {
    b = b.service(mk_service(*i, *x)?);
  }
  b.build().ok()
}

/// the three id clauses of the property, computed from the accessors alone
pub(crate) fn id_clauses(d: &CoreDocument) -> Option<String> {
  let rels = [d.authentication(), d.assertion_method(), d.key_agreement(), d.capability_delegation(), d.capability_invocation()];
  let mut embedded: Vec<String> = d.verification_method().iter().map(|m| m.id().to_string()).collect();
  let mut rel_embedded: Vec<String> = vec![];
  let mut refers: Vec<String> = vec![];
  for r in rels.iter() {
    for e in r.iter() {
      match e {
        MethodRef::Embed(m) => {
          embedded.push(m.id().to_string());
          rel_embedded.push(m.id().to_string());
        }
        MethodRef::Refer(u) => refers.push(u.to_string()),
      }
    }
  }
  let mut sorted = embedded.clone();
  sorted.sort();
  for w in sorted.windows(2) {
    if w[0] == w[1] {
      return Some(format!("two embedded verification methods with id {}", w[0]));
    }
  }
  for r in &refers {
    if rel_embedded.contains(r) {
      return Some(format!("a relationship reference aliases the embedded method {}", r));
    }
  }
  for s in d.service().iter() {
    let sid = s.id().to_string();
    if embedded.contains(&sid) || refers.contains(&sid) {
      return Some(format!("service id {} equals a method id", sid));
    }
  }
  None
}

fn check_after(d: &CoreDocument, fail: &mut Option<String>, op: &str) {
  if fail.is_some() {
    return;
  }
  if let Some(why) = id_clauses(d) {
    *fail = Some(format!("id-invariant:after {}: {}", op, why));
    return;
  }
  match d.to_json().ok().and_then(|j| CoreDocument::from_json(&j).ok()) {
    Some(back) if &back == d => {}
    Some(_) => *fail = Some(format!("json-roundtrip:after {}: the re-read document differs", op)),
    None => *fail = Some(format!("json-roundtrip:after {}: the document's own JSON is refused", op)),
  }
}

pub(crate) fn query_strings(form: &str, i: Id) -> Option<String> {
  Some(match form {
    "S" => id_str(i),
    "H" => format!("#{}", i.frag.map(frag_str).unwrap_or_default()),
    "B" => i.frag.map(frag_str).unwrap_or_default(),
    _ => return None,
  })
}

fn scopes() -> Vec<Option<MethodScope>> {
  let mut v = vec![None, Some(MethodScope::VerificationMethod)];
  for n in 0..5 {
    v.push(Some(MethodScope::VerificationRelationship(rel_of(n).unwrap())));
  }
  v
}

fn battery(d: &CoreDocument, nd: u32, np: u32, nf: u32, fail: &mut Option<String>) -> String {
  let mut meth: Vec<String> = vec![];
  let mut svc: Vec<String> = vec![];
  // the DIDs 0..nd, DID 50 (another method, same method-specific id as DID 0) and DID 10 (its string form extends DID 1's)
  for did in (0..nd).chain([50, 10]) {
    for pq in 0..np {
      for f in 1..=nf {
        let i = Id { did, pq, frag: Some(f) };
        let url = mk_url(i).unwrap();
        let s = id_str(i);
        let h = format!("#k{}", f);
        let b = format!("k{}", f);
        // full id: as &DIDUrl and as &str must agree
        for sc in scopes() {
          let a1 = d.resolve_method(&url, sc).map(show_method).unwrap_or_default();
          let a2 = d.resolve_method(s.as_str(), sc).map(show_method).unwrap_or_default();
          if a1 != a2 && fail.is_none() {
            *fail = Some(format!("query-forms-disagree:{} as DIDUrl gives {:?}, as string {:?}", s, a1, a2));
          }
          meth.push(a1);
        }
        for sc in scopes() {
          let a1 = d.resolve_method(h.as_str(), sc).map(show_method).unwrap_or_default();
          let a2 = d.resolve_method(b.as_str(), sc).map(show_method).unwrap_or_default();
          if a1 != a2 && fail.is_none() {
            *fail = Some(format!("query-forms-disagree:{} gives {:?}, {} gives {:?}", h, a1, b, a2));
          }
          meth.push(a1);
        }
        svc.push(d.resolve_service(&url).map(show_service).unwrap_or_default());
        svc.push(d.resolve_service(h.as_str()).map(show_service).unwrap_or_default());
      }
    }
  }
  let ms: Vec<String> = scopes().into_iter().map(|sc| d.methods(sc).into_iter().map(show_method).collect::<Vec<_>>().join("+")).collect();
  format!("Q={};{};{}", meth.join(","), svc.join(","), ms.join(","))
}

/// the mutators and the checked state of a document type the histories run against: `CoreDocument` itself, and
/// `IotaDocument`, whose mutators are meant to be the same operations on the wrapped document
pub(crate) trait DocLike: Clone + PartialEq {
  fn core(&self) -> &CoreDocument;
  fn im(&mut self, m: VerificationMethod, s: MethodScope) -> Result<(), DocError>;
  fn rm(&mut self, u: &DIDUrl) -> Option<(VerificationMethod, MethodScope)>;
  fn rm_plain(&mut self, u: &DIDUrl) -> Option<VerificationMethod>;
  fn is(&mut self, s: Service) -> Result<(), DocError>;
  fn rs(&mut self, u: &DIDUrl) -> Option<Service>;
  fn at_url(&mut self, u: &DIDUrl, r: MethodRelationship) -> Result<bool, DocError>;
  fn at_str(&mut self, q: &str, r: MethodRelationship) -> Result<bool, DocError>;
  fn dt_url(&mut self, u: &DIDUrl, r: MethodRelationship) -> Result<bool, DocError>;
  fn dt_str(&mut self, q: &str, r: MethodRelationship) -> Result<bool, DocError>;
  /// the document's own JSON form parses back to an equal document
  fn json_roundtrip(&self) -> bool;
}
impl DocLike for CoreDocument {
  fn core(&self) -> &CoreDocument {
    self
  }
  fn im(&mut self, m: VerificationMethod, s: MethodScope) -> Result<(), DocError> {
    self.insert_method(m, s)
  }
  fn rm(&mut self, u: &DIDUrl) -> Option<(VerificationMethod, MethodScope)> {
    self.remove_method_and_scope(u)
  }
  fn rm_plain(&mut self, u: &DIDUrl) -> Option<VerificationMethod> {
    self.remove_method(u)
  }
  fn is(&mut self, s: Service) -> Result<(), DocError> {
    self.insert_service(s)
  }
  fn rs(&mut self, u: &DIDUrl) -> Option<Service> {
    self.remove_service(u)
  }
  fn at_url(&mut self, u: &DIDUrl, r: MethodRelationship) -> Result<bool, DocError> {
    self.attach_method_relationship(u, r)
  }
  fn at_str(&mut self, q: &str, r: MethodRelationship) -> Result<bool, DocError> {
    self.attach_method_relationship(q, r)
  }
  fn dt_url(&mut self, u: &DIDUrl, r: MethodRelationship) -> Result<bool, DocError> {
    self.detach_method_relationship(u, r)
  }
  fn dt_str(&mut self, q: &str, r: MethodRelationship) -> Result<bool, DocError> {
    self.detach_method_relationship(q, r)
  }
  fn json_roundtrip(&self) -> bool {
    true
  }
}
fn iota_err(e: identity_iota_core::Error) -> DocError {
  match e {
    identity_iota_core::Error::InvalidDoc(d) => d,
    _ => DocError::InvalidDocument("not a document error", None),
  }
}
impl DocLike for identity_iota_core::IotaDocument {
  fn core(&self) -> &CoreDocument {
    self.core_document()
  }
  fn im(&mut self, m: VerificationMethod, s: MethodScope) -> Result<(), DocError> {
    self.insert_method(m, s).map_err(iota_err)
  }
  fn rm(&mut self, u: &DIDUrl) -> Option<(VerificationMethod, MethodScope)> {
    self.remove_method_and_scope(u)
  }
  fn rm_plain(&mut self, u: &DIDUrl) -> Option<VerificationMethod> {
    self.remove_method(u)
  }
  fn is(&mut self, s: Service) -> Result<(), DocError> {
    self.insert_service(s).map_err(iota_err)
  }
  fn rs(&mut self, u: &DIDUrl) -> Option<Service> {
    self.remove_service(u)
  }
  fn at_url(&mut self, u: &DIDUrl, r: MethodRelationship) -> Result<bool, DocError> {
    self.attach_method_relationship(u, r).map_err(iota_err)
  }
  fn at_str(&mut self, q: &str, r: MethodRelationship) -> Result<bool, DocError> {
    self.attach_method_relationship(q, r).map_err(iota_err)
  }
  fn dt_url(&mut self, u: &DIDUrl, r: MethodRelationship) -> Result<bool, DocError> {
    self.detach_method_relationship(u, r).map_err(iota_err)
  }
  fn dt_str(&mut self, q: &str, r: MethodRelationship) -> Result<bool, DocError> {
    self.detach_method_relationship(q, r).map_err(iota_err)
  }
  fn json_roundtrip(&self) -> bool {
    match self.to_json() {
      Ok(j) => identity_iota_core::IotaDocument::from_json(&j).map(|d| d == *self).unwrap_or(false),
      Err(_) => false,
    }
  }
}

/// `qstr <hex query> <hex did> <hex fragment>`: does the query STRING select the method `<did>#<fragment>` (and the service of
/// that id)?  The identifier is given by its parts; the query is an arbitrary string.  Compared with the string-level model of
/// `DIDUrlQuery` (IdModel/Doc/QueryStr.lean).  Oracle: a bare fragment (no `#`, not starting with `did:`) equal to the
/// identifier's fragment must select it, and so must `#fragment` and the identifier's own string.
fn qstr(args: &[&str]) -> String {
  use crate::rng::unhex;
  let (Some(q), Some(d), Some(f)) = (unhex(args[0]).and_then(|b| String::from_utf8(b).ok()), unhex(args[1]).and_then(|b| String::from_utf8(b).ok()), unhex(args[2]).and_then(|b| String::from_utf8(b).ok())) else {
    return "bad-request".into();
  };
  if f.is_empty() {
    return "bad-request".into();
  }
  let id = format!("{}#{}", d, f);
  let (Ok(did), Ok(url)) = (CoreDID::parse(&d), DIDUrl::parse(&id)) else { return "bad-request".into() };
  if url.fragment() != Some(f.as_str()) || url.did().as_str() != d {
    return "bad-request".into();
  }
  let json = format!(
    r#"{{"id":"{d}","verificationMethod":[{{"id":"{id}","controller":"{d}","type":"Ed25519VerificationKey2018","publicKeyMultibase":"z7"}}]}}"#,
    d = d,
    id = id
  );
  let json_s = format!(r#"{{"id":"{d}","service":[{{"id":"{id}","type":"T","serviceEndpoint":"https://a.example"}}]}}"#, d = d, id = id);
  let (Ok(doc), Ok(doc_s)) = (CoreDocument::from_json(&json), CoreDocument::from_json(&json_s)) else { return "bad-request".into() };
  let _ = did;
  let m = doc.resolve_method(q.as_str(), None).is_some();
  let sv = doc_s.resolve_service(q.as_str()).is_some();
  let obs = if m { "match" } else { "nomatch" };
  let mut fail: Option<String> = None;
  if m != sv {
    fail = Some(format!("query-forms-disagree:the query {:?} selects the method {} but not the service of that id, or the other way round", q, id));
  }
  let must = q == id || q == format!("#{}", f) || (q == f && !f.contains('#') && !f.starts_with("did:"));
  if must && !m && fail.is_none() {
    fail = Some(format!("fragment-query-not-resolved:the query {:?} does not select the method {}", q, id));
  }
  match fail {
    Some(x) => format!("{}\t#FAIL:{}", obs, x),
    None => obs.into(),
  }
}

pub fn run(args: &[&str]) -> String {
  if args.len() == 4 && args[0] == "qstr" {
    return qstr(&args[1..]);
  }
  if args.len() < 2 || args[0] != "hist" {
    return "bad-request".into();
  }
  let (kind, spec_s) = args[1].split_at(1);
  let spec = match parse_spec(spec_s) {
    Some(s) => s,
    None => return "bad-request".into(),
  };
  let ops = if args.get(2) == Some(&"|") { &args[3..] } else { &args[2..] };
  match kind {
    "J" | "B" => {
      let doc = if kind == "J" { doc_from_json(&spec) } else { doc_from_builder(&spec) };
      match doc {
        Some(d) => run_on(d, ops),
        None => "start:reject".into(),
      }
    }
    // the same history against an IotaDocument (ids are IOTA DIDs); the start document comes from its JSON form
    "I" => {
      KIND.with(|k| k.set('I'));
      let spec = parse_spec(spec_s);
      let doc = spec.and_then(|sp| identity_iota_core::IotaDocument::from_json(&format!(r#"{{"doc":{},"meta":{{}}}}"#, doc_json(&sp))).ok());
      let r = match doc {
        Some(d) => run_on(d, ops),
        None => "start:reject".into(),
      };
      KIND.with(|k| k.set('C'));
      r
    }
    _ => "bad-request".into(),
  }
}

fn run_on<D: DocLike>(doc: D, ops: &[&str]) -> String {
  let mut doc = doc;
  let mut fail: Option<String> = None;
  check_after(doc.core(), &mut fail, "start");
  let mut out = vec!["start:ok".to_string()];
  for t in ops {
    if *t == "S" {
      out.push(show_doc(doc.core()));
      continue;
    }
    let p: Vec<&str> = t.split(':').collect();
    let before = doc.clone();
    let mut refused = false;
    let res: Option<String> = match p.as_slice() {
      ["Q", a, b, c] => match (a.parse(), b.parse(), c.parse()) {
        (Ok(nd), Ok(np), Ok(nf)) => Some(battery(doc.core(), nd, np, nf, &mut fail)),
        _ => None,
      },
      ["im", s, m] => (|| {
        let (i, b) = parse_idb(m)?;
        let sc = scope_of(s)?;
        let m = mk_method(i, b)?;
        Some(match doc.im(m, sc) {
          Ok(()) => "ok".to_string(),
          Err(_) => {
            refused = true;
            "errI".to_string()
          }
        })
      })(),
      ["rm", i] => (|| {
        let u = mk_url(parse_id(i)?)?;
        Some(match doc.rm(&u) {
          None => "none".to_string(),
          Some((m, s)) => format!("{}@{}", show_method(&m), show_scope(s)),
        })
      })(),
      ["rM", i] => (|| {
        let u = mk_url(parse_id(i)?)?;
        Some(match doc.rm_plain(&u) {
          None => "none".to_string(),
          Some(m) => show_method(&m),
        })
      })(),
      ["is", s] => (|| {
        let (i, b) = parse_idb(s)?;
        let s = mk_service(i, b)?;
        Some(match doc.is(s) {
          Ok(()) => "ok".to_string(),
          Err(_) => {
            refused = true;
            "errS".to_string()
          }
        })
      })(),
      ["rs", i] => (|| {
        let u = mk_url(parse_id(i)?)?;
        Some(match doc.rs(&u) {
          None => "none".to_string(),
          Some(s) => show_service(&s),
        })
      })(),
      [k @ ("at" | "dt"), form, i, r] => (|| {
        let i = parse_id(i)?;
        let rel = rel_of(r.parse().ok()?)?;
        let attach = *k == "at";
        let result = if *form == "F" {
          let u = mk_url(i)?;
          if attach {
            doc.at_url(&u, rel)
          } else {
            doc.dt_url(&u, rel)
          }
        } else {
          let q = query_strings(form, i)?;
          if attach {
            doc.at_str(q.as_str(), rel)
          } else {
            doc.dt_str(q.as_str(), rel)
          }
        };
        Some(match result {
          Ok(true) => "ok1".to_string(),
          Ok(false) => "ok0".to_string(),
          Err(e) => {
            refused = true;
            match e {
              DocError::InvalidMethodEmbedded => "errE".to_string(),
              DocError::MethodNotFound => "errN".to_string(),
              other => format!("err?{:?}", other),
            }
          }
        })
      })(),
      _ => None,
    };
    match res {
      None => {
        out.push("bad-op".into());
        break;
      }
      Some(r) => out.push(r),
    }
    if p[0] != "Q" {
      if refused && doc != before && fail.is_none() {
        fail = Some(format!("refused-changed:{} was refused but changed the document", t));
      }
      check_after(doc.core(), &mut fail, t);
      if fail.is_none() && !doc.json_roundtrip() {
        fail = Some(format!("roundtrip:after {} the document's own JSON form does not parse back to an equal document", t));
      }
    }
  }
  let line = out.join(" ");
  match fail {
    Some(f) => format!("{}\t#FAIL:{}", line, f),
    None => line,
  }
}

// ---------------------------------------------------------------------------------------------------------
pub(crate) fn show_idb(i: Id, b: u32) -> String {
  format!("{}.{}", show_id(i), b)
}

pub(crate) fn spec_line(id: u32, vm: &[(Id, u32)], rels: &[Vec<Result<(Id, u32), Id>>; 5], sv: &[(Id, u32)]) -> String {
  let e = |x: &Result<(Id, u32), Id>| match x {
    Ok((i, b)) => format!("E{}", show_idb(*i, *b)),
    Err(i) => format!("R{}", show_id(*i)),
  };
  format!(
    "D{};vm={};a0={};a1={};a2={};a3={};a4={};sv={}",
    id,
    vm.iter().map(|(i, b)| show_idb(*i, *b)).collect::<Vec<_>>().join(","),
    rels[0].iter().map(e).collect::<Vec<_>>().join(","),
    rels[1].iter().map(e).collect::<Vec<_>>().join(","),
    rels[2].iter().map(e).collect::<Vec<_>>().join(","),
    rels[3].iter().map(e).collect::<Vec<_>>().join(","),
    rels[4].iter().map(e).collect::<Vec<_>>().join(","),
    sv.iter().map(|(i, b)| show_idb(*i, *b)).collect::<Vec<_>>().join(","),
  )
}

fn rid(r: &mut Rng) -> Id {
  Id {
    did: if r.chance(1, 12) { 50 } else if r.chance(1, 10) { 10 } else if r.chance(1, 5) { 1 } else { 0 },
    pq: if r.chance(1, 4) { 1 + r.below(2) as u32 } else { 0 },
    frag: Some(1 + r.below(3) as u32),
  }
}

fn random_spec(r: &mut Rng) -> String {
  let n = |r: &mut Rng| if r.chance(1, 2) { 0 } else { r.below(4) as usize };
  let vm: Vec<(Id, u32)> = (0..n(r)).map(|_| (rid(r), r.below(90) as u32 + 10)).collect();
  let mut rels: [Vec<Result<(Id, u32), Id>>; 5] = Default::default();
  for k in 0..5 {
    rels[k] = (0..n(r))
      .map(|_| {
        if r.chance(1, 2) {
          Ok((rid(r), r.below(90) as u32 + 10))
        } else if r.chance(1, 10) {
          Err(Id { frag: None, ..rid(r) })
        } else if !vm.is_empty() && r.chance(1, 2) {
          Err(vm[r.below(vm.len() as u64) as usize].0)
        } else {
          Err(rid(r))
        }
      })
      .collect();
  }
  let sv: Vec<(Id, u32)> = (0..n(r)).map(|_| (rid(r), r.below(90) as u32 + 10)).collect();
  spec_line(0, &vm, &rels, &sv)
}

fn fixed_specs() -> Vec<String> {
  let i = |did, pq, f| Id { did, pq, frag: Some(f) };
  let none: [Vec<Result<(Id, u32), Id>>; 5] = Default::default();
  let mut v = vec![spec_line(0, &[], &none, &[])];
  // built: general, embedded, referenced, service
  v.push(spec_line(0, &[(i(0, 0, 1), 11)], &[vec![Err(i(0, 0, 1))], vec![], vec![Ok((i(0, 0, 2), 12))], vec![], vec![]], &[(i(0, 0, 3), 13)]));
  // dangling and foreign references
  v.push(spec_line(0, &[], &[vec![Err(i(0, 0, 1))], vec![Err(i(1, 0, 2))], vec![], vec![], vec![]], &[]));
  // ids with path/query next to plain ones; the same reference in several relationships
  v.push(spec_line(0, &[(i(0, 1, 1), 21)], &[vec![Err(i(0, 1, 1)), Err(i(0, 0, 1))], vec![Err(i(0, 1, 1))], vec![Ok((i(0, 2, 2), 22))], vec![], vec![]], &[(i(0, 1, 3), 23)]));
  // foreign embedded method and foreign general-purpose method with the fragment of a local one
  v.push(spec_line(0, &[(i(1, 0, 1), 31), (i(0, 0, 1), 32)], &[vec![Err(i(1, 0, 1))], vec![], vec![], vec![Ok((i(1, 0, 2), 33))], vec![]], &[]));
  // documents the gate must refuse
  v.push(spec_line(0, &[(i(0, 0, 1), 1), (i(0, 0, 1), 2)], &none, &[]));
  v.push(spec_line(0, &[(i(0, 0, 1), 1)], &[vec![Ok((i(0, 0, 1), 2))], vec![], vec![], vec![], vec![]], &[]));
  v.push(spec_line(0, &[], &[vec![Ok((i(0, 0, 1), 2))], vec![Err(i(0, 0, 1))], vec![], vec![], vec![]], &[]));
  v.push(spec_line(0, &[], &[vec![Err(i(0, 0, 1))], vec![], vec![], vec![], vec![Ok((i(0, 0, 1), 2))]], &[]));
  v.push(spec_line(0, &[], &[vec![Ok((i(0, 0, 1), 2))], vec![], vec![Ok((i(0, 0, 1), 2))], vec![], vec![]], &[]));
  v.push(spec_line(0, &[(i(0, 0, 1), 1)], &none, &[(i(0, 0, 1), 5)]));
  v.push(spec_line(0, &[], &[vec![Err(i(0, 0, 1))], vec![], vec![], vec![], vec![]], &[(i(0, 0, 1), 5)]));
  v.push(spec_line(0, &[], &[vec![Err(i(0, 0, 1)), Err(i(0, 0, 1))], vec![], vec![], vec![], vec![]], &[]));
  v.push(spec_line(0, &[], &none, &[(i(0, 0, 1), 5), (i(0, 0, 1), 6)]));
  v
}

fn random_op(r: &mut Rng) -> String {
  let form = |r: &mut Rng| *r.pick(&["F", "S", "H", "B"]);
  match r.below(20) {
    0..=5 => format!("im:{}:{}", r.pick(&["vm", "vm", "0", "1", "2", "3", "4"]), show_idb(rid(r), 10 + r.below(90) as u32)),
    6..=9 => format!("at:{}:{}:{}", form(r), show_id(rid(r)), r.below(5)),
    10..=11 => format!("dt:{}:{}:{}", form(r), show_id(rid(r)), r.below(5)),
    12..=13 => format!("rm:{}", show_id(rid(r))),
    14 => format!("rM:{}", show_id(rid(r))),
    15..=17 => format!("is:{}", show_idb(rid(r), 10 + r.below(90) as u32)),
    _ => format!("rs:{}", show_id(rid(r))),
  }
}

pub fn gen(thorough: bool, seed: u64, out: &mut impl Write) {
  let mut r = Rng::new(seed ^ 0xC04);
  // (q) query STRINGS against identifiers: every form of query (own string, with path / query parts, `#fragment`, the bare
  // fragment, another DID, prefixes, relative URLs, junk) x DIDs that are prefixes of one another or of another method x
  // fragments that look like DIDs, start with the letters d-i-d, differ in case
  {
    use crate::rng::hex;
    let dids = ["did:ex:d0", "did:ex:d00", "did:alt:d0", "did:ex:D0"];
    let frags = ["k1", "k2", "did", "did-key", "didk", "did:k", "did:ex:d0", "K1", "k1%41", "a.b", "k1?x", "k1/y", "d"];
    for d in dids {
      for f in frags {
        let mut qs: Vec<String> = vec![];
        for d2 in dids {
          for pq in ["", "/p", "?q=1", "/p?q=1#x", "/"] {
            for f2 in [f, "k1", ""] {
              qs.push(if f2.is_empty() { format!("{}{}", d2, pq) } else { format!("{}{}#{}", d2, pq, f2) });
            }
          }
        }
        for f2 in frags {
          qs.push(f2.to_string());
          qs.push(format!("#{}", f2));
          qs.push(format!("/p#{}", f2));
          qs.push(format!("?q#{}", f2));
          qs.push(format!("x#{}", f2));
          qs.push(format!("{}#", f2));
          qs.push(format!("{}#{}", f2, f2));
        }
        qs.extend(["", "#", "##", "did", "did:", "did:#", "did#k1", "DID:ex:d0#k1", " #k1", "#k1 "].iter().map(|s| s.to_string()));
        for (i, q) in qs.iter().enumerate() {
          if thorough || i % 2 == 0 || q.len() < 12 {
            writeln!(out, "C04 qstr {} {} {}", hex(q.as_bytes()), hex(d.as_bytes()), hex(f.as_bytes())).unwrap();
          }
        }
      }
    }
  }
  let fixed = fixed_specs();
  // (a) the gate alone, on fixed and random collections, through JSON and through the builder
  for s in &fixed {
    writeln!(out, "C04 hist J{} | S Q:2:3:3", s).unwrap();
    writeln!(out, "C04 hist B{} | S Q:2:3:3", s).unwrap();
  }
  for k in 0..(if thorough { 20000 } else { 1500 }) {
    writeln!(out, "C04 hist {}{} | S Q:2:3:3", if k % 4 == 0 { "B" } else { "J" }, random_spec(&mut r)).unwrap();
  }
  // (b) random histories from fixed and random start documents; state and battery after every step
  let nh = if thorough { 12000 } else { 600 };
  for k in 0..nh {
    let start = if k % 3 == 0 { random_spec(&mut r) } else { fixed[k % 5].clone() };
    let len = 1 + r.below(if k % 10 == 0 { 40 } else { 12 });
    let mut ops = vec![];
    for _ in 0..len {
      ops.push(random_op(&mut r));
      ops.push("S".to_string());
      ops.push("Q:2:3:3".to_string());
    }
    writeln!(out, "C04 hist {}{} | {}", if k % 5 == 0 { "B" } else { "J" }, start, ops.join(" ")).unwrap();
    // every third history also against an IotaDocument (its mutators are meant to be the same operations)
    if k % 3 == 1 {
      writeln!(out, "C04 hist I{} | {}", start, ops.join(" ")).unwrap();
    }
  }
  for s in &fixed {
    writeln!(out, "C04 hist I{} | S Q:2:3:3", s).unwrap();
  }
  // (c) exhaustive histories over a small universe chosen for collisions: same DID and fragment with and
  // without a path, and a foreign DID with the same fragment
  let ids = [
    Id { did: 0, pq: 0, frag: Some(1) },
    Id { did: 0, pq: 0, frag: Some(2) },
    Id { did: 0, pq: 1, frag: Some(1) },
    Id { did: 1, pq: 0, frag: Some(1) },
    // another DID method with the same method-specific id and fragment
    Id { did: 50, pq: 0, frag: Some(1) },
  ];
  let mut ops: Vec<String> = vec![];
  for i in ids {
    for s in ["vm", "0", "1", "2", "3", "4"] {
      ops.push(format!("im:{}:{}", s, show_idb(i, 40 + i.did * 4 + i.pq * 2 + i.frag.unwrap())));
    }
    ops.push(format!("rm:{}", show_id(i)));
    ops.push(format!("rM:{}", show_id(i)));
    ops.push(format!("is:{}", show_idb(i, 50)));
    ops.push(format!("rs:{}", show_id(i)));
    for f in ["F", "H"] {
      for rel in [0, 1] {
        ops.push(format!("at:{}:{}:{}", f, show_id(i), rel));
        ops.push(format!("dt:{}:{}:{}", f, show_id(i), rel));
      }
    }
  }
  let starts: Vec<&String> = if thorough { vec![&fixed[0], &fixed[2]] } else { vec![&fixed[0], &fixed[1], &fixed[2], &fixed[3]] };
  for s in starts {
    for a in &ops {
      for b in &ops {
        if thorough {
          for c in &ops {
            writeln!(out, "C04 hist J{} | {} S {} S {} S Q:2:2:2", s, a, b, c).unwrap();
          }
        } else {
          writeln!(out, "C04 hist J{} | {} S {} S Q:2:2:2", s, a, b).unwrap();
        }
      }
    }
  }
}
