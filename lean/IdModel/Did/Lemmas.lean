import IdModel.Did.Model
/-! Helper lemmas for C10. -/
namespace IdModel.Did
open IdModel IdModel.Gen.C10

theorem slice_ok (s : Str) (a b : Nat) (h : a ≤ b ∧ b ≤ s.length) : slice s a b = .ok (sl s a b) := by
  unfold slice sl; simp [h.1, h.2]

theorem slice_panic (s : Str) (a b : Nat) (h : ¬(a ≤ b ∧ b ≤ s.length)) :
    slice s a b = .panic "did_url_parser:core.rs:slice" := by
  unfold slice
  have : (decide (a ≤ b) && decide (b ≤ s.length)) = false := by
    by_cases h1 : a ≤ b
    · by_cases h2 : b ≤ s.length
      · exact absurd ⟨h1, h2⟩ h
      · simp [h2]
    · simp [h1]
  simp [this]

/-- what a successful run of the third-party parser establishes -/
theorem upParse_ok (s : Str) (c : Core) (h : upParse s = .ok c) :
    ∃ i p q f, c = ⟨3, i, p, q, f⟩ ∧ (trim s).take 3 = [100, 105, 100] ∧ (trim s)[3]? = some 58 ∧
      (trim s)[i]? = some 58 ∧ 4 ≤ i ∧ i ≤ s.length ∧ i + 1 ≤ p ∧ p ≤ s.length ∧
      sl s 4 i ≠ [] ∧ sl s (i + 1) p ≠ [] ∧
      scan false stopColon upCharMethod (trim s) ((trim s).length + 1) 4 = some i ∧
      (∃ j, scan true stopId upCharMethodId (trim s) ((trim s).length + 1) (i + 1) = some j ∧
        parseTail (trim s) j = some (p, q, f)) := by
  unfold upParse at h
  simp only at h
  split at h
  · cases h
  · rename_i h1
    split at h
    · cases h
    · rename_i h2
      split at h
      · cases h
      · rename_i i hi
        split at h
        · cases h
        · rename_i h3
          split at h
          · cases h
          · rename_i j hj
            split at h
            · cases h
            · rename_i p q f hpt
              by_cases hA : 4 ≤ i ∧ i ≤ s.length
              · rw [slice_ok s 4 i hA] at h
                simp only at h
                split at h
                · cases h
                · rename_i hm
                  by_cases hB : i + 1 ≤ p ∧ p ≤ s.length
                  · rw [slice_ok s (i + 1) p hB] at h
                    simp only at h
                    split at h
                    · cases h
                    · rename_i hmid
                      injection h with h
                      refine ⟨i, p, q, f, h.symm, ?_, ?_, ?_, hA.1, hA.2, hB.1, hB.2, ?_, ?_, hi, j, hj, hpt⟩
                      · simpa using h1
                      · simpa using h2
                      · simpa using h3
                      · intro he; apply hm; rw [he]; rfl
                      · intro he; apply hmid; rw [he]; rfl
                  · rw [slice_panic s (i + 1) p hB] at h
                    cases h
              · rw [slice_panic s 4 i hA] at h
                cases h

/-! ### the scanning loops -/

theorem scan_ge (pct : Bool) (stop cls : Nat → Bool) (d : Str) (fuel i j : Nat)
    (h : scan pct stop cls d fuel i = some j) : i ≤ j := by
  induction fuel generalizing i with
  | zero => simp [scan] at h; omega
  | succ n ih =>
    unfold scan at h
    split at h
    · injection h with h; omega
    · split at h
      · injection h with h; omega
      · split at h
        · split at h
          · split at h
            · have := ih _ h; omega
            · cases h
          · cases h
        · split at h
          · have := ih _ h; omega
          · cases h

theorem scan_nopct_le (stop cls : Nat → Bool) (d : Str) (fuel i j : Nat)
    (h : scan false stop cls d fuel i = some j) (hi : i ≤ d.length) : j ≤ d.length := by
  induction fuel generalizing i with
  | zero => simp [scan] at h; omega
  | succ n ih =>
    unfold scan at h
    split at h
    · injection h with h; omega
    · rename_i c hc
      have hlt : i < d.length := by
        rcases Nat.lt_or_ge i d.length with h1 | h1
        · exact h1
        · rw [List.getElem?_eq_none h1] at hc; cases hc
      split at h
      · injection h with h; omega
      · simp only [Bool.false_and, Bool.false_eq_true, ↓reduceIte] at h
        split at h
        · exact ih _ h (by omega)
        · cases h

/-- between the start and the stop position of the method scan there is no colon -/
theorem scan_colon_none_before (cls : Nat → Bool) (d : Str) (fuel i j : Nat)
    (h : scan false stopColon cls d fuel i = some j) :
    ∀ m, i ≤ m → m < j → d[m]? ≠ some 58 := by
  induction fuel generalizing i with
  | zero => simp [scan] at h; intro m h1 h2; omega
  | succ n ih =>
    unfold scan at h
    split at h
    · injection h with h; intro m h1 h2; omega
    · rename_i c hc
      split at h
      · injection h with h; intro m h1 h2; omega
      · rename_i hstop
        simp only [Bool.false_and, Bool.false_eq_true, ↓reduceIte] at h
        split at h
        · intro m h1 h2
          rcases Nat.eq_or_lt_of_le h1 with he | hl
          · subst he
            rw [hc]
            intro hh
            injection hh with hh
            apply hstop; simp [stopColon, hh]
          · exact ih _ h m (by omega) h2
        · cases h

/-- the guard's scan visits the same indices as the parser's method-id scan -/
theorem scan_guard (d : Str) (fuel i j : Nat)
    (h : scan true stopId upCharMethodId d fuel i = some j) :
    guardScan d fuel i = some j ∨ (guardScan d fuel i = none ∧ j < d.length) := by
  induction fuel generalizing i with
  | zero => simp [scan] at h; subst h; left; rfl
  | succ n ih =>
    unfold scan at h
    unfold guardScan
    cases hc : d[i]? with
    | none =>
      rw [hc] at h
      simp only at h ⊢
      left; exact h
    | some c =>
      rw [hc] at h
      simp only at h ⊢
      have hlt : i < d.length := by
        rcases Nat.lt_or_ge i d.length with h1 | h1
        · exact h1
        · rw [List.getElem?_eq_none h1] at hc; cases hc
      by_cases hs : stopId c = true
      · simp only [hs, ↓reduceIte] at h
        injection h with h; subst h
        right
        have : (c == 47 || c == 63 || c == 35) = true := by simpa [stopId] using hs
        simp [this, hlt]
      · have hs' : (c == 47 || c == 63 || c == 35) = false := by
          simpa [stopId] using hs
        simp only [hs, Bool.false_eq_true, ↓reduceIte, Bool.true_and] at h
        simp only [hs', Bool.false_eq_true, ↓reduceIte]
        by_cases hp : (c == 37) = true
        · simp only [hp, ↓reduceIte] at h ⊢
          split at h
          · split at h
            · exact ih _ h
            · cases h
          · cases h
        · simp only [hp, Bool.false_eq_true, ↓reduceIte] at h ⊢
          split at h
          · exact ih _ h
          · cases h

theorem parseTail_fst (d : Str) (j p : Nat) (q f : Option Nat) (h : parseTail d j = some (p, q, f)) :
    p = j := by
  unfold parseTail at h
  simp only at h
  repeat' split at h
  all_goals first | (cases h; rfl) | cases h

theorem getElem?_lt {α : Type} (l : List α) (i : Nat) (a : α) (h : l[i]? = some a) : i < l.length := by
  rcases Nat.lt_or_ge i l.length with h1 | h1
  · exact h1
  · rw [List.getElem?_eq_none h1] at h; cases h

/-- the guard starts its scan where the parser's method-id scan starts -/
theorem colonFrom4_eq (cls : Nat → Bool) (d : Str) (fuel i : Nat)
    (h : scan false stopColon cls d fuel 4 = some i) (hi : d[i]? = some 58) :
    colonFrom4 d = some i := by
  have hge := scan_ge _ _ _ _ _ _ _ h
  have hnone := scan_colon_none_before cls d fuel 4 i h
  have hlt := getElem?_lt d i 58 hi
  unfold colonFrom4
  have key : (d.drop 4).findIdx? (· == 58) = some (i - 4) := by
    rw [List.findIdx?_eq_some_iff_getElem]
    refine ⟨by simp; omega, ?_, ?_⟩
    · have e : 4 + (i - 4) = i := by omega
      simp only [List.getElem_drop, e]
      have := (List.getElem?_eq_some_iff.1 hi).2
      simp [this]
    · intro m hm
      simp only [List.getElem_drop]
      have h1 := hnone (4 + m) (by omega) (by omega)
      have hm' : 4 + m < d.length := by omega
      rw [List.getElem?_eq_getElem hm'] at h1
      intro hh
      apply h1
      have : d[4 + m] = 58 := by simpa using hh
      rw [this]
  rw [key]
  simp; omega

/-- **the guarded call of the third-party parser never panics** -/
theorem parseBase_no_panic (s : Str) : (parseBase s).isPanic = false := by
  unfold parseBase
  by_cases ht : (trim s != s) = true
  · simp [ht, Outcome.isPanic]
  · simp only [ht, Bool.false_eq_true, ↓reduceIte]
    have ht' : trim s = s := by simpa using ht
    by_cases ho : overruns s = true
    · simp [ho, Outcome.isPanic]
    · simp only [ho, Bool.false_eq_true, ↓reduceIte]
      unfold upParse
      simp only [ht']
      split
      · rfl
      · split
        · rfl
        · split
          · rfl
          · rename_i i hi
            split
            · rfl
            · rename_i h3
              have h3' : s[i]? = some 58 := by simpa using h3
              split
              · rfl
              · rename_i j hj
                split
                · rfl
                · rename_i p q f hpt
                  have hp := parseTail_fst s j p q f hpt
                  subst hp
                  have hge := scan_ge _ _ _ _ _ _ _ hi
                  have hlt := getElem?_lt s i 58 h3'
                  have hge2 := scan_ge _ _ _ _ _ _ _ hj
                  have hcol := colonFrom4_eq upCharMethod s _ i hi h3'
                  have hple : p ≤ s.length := by
                    have hov : overruns s = false := by simpa using ho
                    unfold overruns at hov
                    rw [hcol] at hov
                    simp only at hov
                    rcases scan_guard s _ _ _ hj with hg | ⟨_, hg⟩
                    · rw [hg] at hov
                      simp only [decide_eq_false_iff_not, Nat.not_lt] at hov
                      exact hov
                    · omega
                  rw [slice_ok s 4 i ⟨hge, by omega⟩]
                  simp only
                  split
                  · rfl
                  · rw [slice_ok s (i + 1) p ⟨hge2, hple⟩]
                    simp only
                    split <;> rfl

end IdModel.Did
