/-! Three-valued outcome of a modelled Rust operation: value, error, or panic (never totalised away). -/
namespace IdModel

inductive Outcome (ε α : Type)
  | ok (a : α)
  | err (e : ε)
  | panic (site : String)
  deriving Repr, DecidableEq

namespace Outcome
variable {ε α β : Type}

def bind (o : Outcome ε α) (f : α → Outcome ε β) : Outcome ε β :=
  match o with
  | .ok a => f a
  | .err e => .err e
  | .panic s => .panic s

def isPanic : Outcome ε α → Bool
  | .panic _ => true
  | _ => false

def isOk : Outcome ε α → Bool
  | .ok _ => true
  | _ => false

end Outcome
end IdModel
