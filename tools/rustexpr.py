"""A small reader for a narrow subset of Rust used by tools/translate.py.

* strip_comments / find_fn_body / find_const  — locate named items in a source file
* parse_expr                                    — Pratt parser for integer/boolean expressions
* to_lean                                       — print the AST as a Lean 4 term over Nat/Bool

Anything outside the subset raises Unsupported; the translator then falls back to the committed snapshot
(tie = degraded) instead of guessing.
"""
import re


class Unsupported(Exception):
    pass


def raw_string_end(src, i):
    """if a raw string literal r#*"…"#* starts at i, return the index just past it, else None"""
    if src[i] != "r" or (i > 0 and (src[i - 1].isalnum() or src[i - 1] == "_")):
        return None
    j = i + 1
    while j < len(src) and src[j] == "#":
        j += 1
    if j >= len(src) or src[j] != '"' or (j == i + 1 and False):
        return None
    hashes = j - (i + 1)
    close = '"' + "#" * hashes
    k = src.find(close, j + 1)
    return len(src) if k < 0 else k + len(close)


def strip_comments(src):
    out = []
    i = 0
    n = len(src)
    while i < n:
        c = src[i]
        if src.startswith("//", i):
            j = src.find("\n", i)
            i = n if j < 0 else j
        elif src.startswith("/*", i):
            j = src.find("*/", i + 2)
            i = n if j < 0 else j + 2
        elif c == "r" and raw_string_end(src, i) is not None and src[i + 1] in '#"':
            j = raw_string_end(src, i)
            out.append(src[i:j])
            i = j
        elif c == '"':
            j = i + 1
            while j < n and src[j] != '"':
                j += 2 if src[j] == "\\" else 1
            out.append(src[i:j + 1])
            i = j + 1
        elif c == "'" and i + 2 < n and (src[i + 2] == "'" or (src[i + 1] == "\\" and src.find("'", i + 2) > 0 and src.find("'", i + 2) - i <= 8)):
            j = src.find("'", i + 2) if src[i + 1] == "\\" else i + 2
            out.append(src[i:j + 1])
            i = j + 1
        else:
            out.append(c)
            i += 1
    return "".join(out)


def strip_tests(src):
    """drop `#[cfg(test)] mod … { … }`"""
    m = re.search(r"#\[cfg\(test\)\]\s*mod\s+\w+\s*\{", src)
    if not m:
        return src
    end = match_brace(src, m.end() - 1)
    return src[:m.start()] + src[end + 1:]


def match_brace(src, i, open_="{", close="}"):
    depth = 0
    n = len(src)
    j = i
    while j < n:
        c = src[j]
        if c == "r" and j + 1 < n and src[j + 1] in '#"' and raw_string_end(src, j) is not None:
            j = raw_string_end(src, j)
            continue
        if c == '"':
            j += 1
            while j < n and src[j] != '"':
                j += 2 if src[j] == "\\" else 1
        elif c == open_:
            depth += 1
        elif c == close:
            depth -= 1
            if depth == 0:
                return j
        j += 1
    raise Unsupported("unbalanced " + open_)


def find_fn_body(src, name, nth=0):
    """text between the braces of `fn name(...) ... { … }` (the nth such item)"""
    ms = list(re.finditer(r"\bfn\s+" + re.escape(name) + r"\s*(<[^>]*>)?\s*\(", src))
    if len(ms) <= nth:
        raise Unsupported("fn %s not found" % name)
    m = ms[nth]
    par_end = match_brace(src, m.end() - 1, "(", ")")
    # first `{` or `;` outside brackets (a return type such as `[usize; 7]` may contain a `;`)
    b, depth, j = -1, 0, par_end + 1
    while j < len(src):
        c = src[j]
        if c in "[(":
            depth += 1
        elif c in "])":
            depth -= 1
        elif c == "{" and depth == 0:
            b = j
            break
        elif c == ";" and depth == 0:
            break
        j += 1
    if b < 0:
        raise Unsupported("fn %s has no body" % name)
    e = match_brace(src, b)
    return src[b + 1:e]


def find_const(src, name):
    m = re.search(r"\bconst\s+" + re.escape(name) + r"\s*:\s*([^=]+?)\s*=\s*", src)
    if not m:
        raise Unsupported("const %s not found" % name)
    # up to the terminating `;` at depth 0
    i = m.end()
    depth = 0
    j = i
    while j < len(src):
        c = src[j]
        if c in "([{":
            depth += 1
        elif c in ")]}":
            depth -= 1
        elif c == '"':
            j += 1
            while src[j] != '"':
                j += 2 if src[j] == "\\" else 1
        elif c == ";" and depth == 0:
            return m.group(1).strip(), src[i:j].strip()
        j += 1
    raise Unsupported("const %s unterminated" % name)


TOK = re.compile(r"""\s*(?:
    (?P<num>0b[01_]+|0x[0-9a-fA-F_]+|[0-9][0-9_]*)(?P<suf>(?:u|i)(?:8|16|32|64|128|size))?
  | (?P<chr>'(?:\\.|[^'\\])')
  | (?P<str>"(?:\\.|[^"\\])*")
  | (?P<id>[A-Za-z_][A-Za-z0-9_]*(?:::[A-Za-z_][A-Za-z0-9_]*)*)
  | (?P<op>\.\.=|<<|>>|<=|>=|==|!=|&&|\|\||[-+*/%&|^!<>(),.\[\]])
)""", re.X)


def tokenize(s):
    toks = []
    i = 0
    s = s.strip()
    while i < len(s):
        m = TOK.match(s, i)
        if not m or m.end() == i:
            raise Unsupported("cannot tokenize at: " + s[i:i + 20])
        if m.group("num"):
            t = m.group("num").replace("_", "")
            v = int(t, 2) if t.startswith("0b") else int(t, 16) if t.startswith("0x") else int(t)
            toks.append(("num", v))
        elif m.group("chr"):
            toks.append(("chr", eval(m.group("chr"))))
        elif m.group("str"):
            toks.append(("str", eval(m.group("str"))))
        elif m.group("id"):
            toks.append(("id", m.group("id")))
        else:
            toks.append(("op", m.group("op")))
        i = m.end()
    return toks


BINPREC = {"||": 1, "&&": 2, "==": 3, "!=": 3, "<": 3, "<=": 3, ">": 3, ">=": 3, "|": 4, "^": 5, "&": 6,
           "<<": 7, ">>": 7, "+": 8, "-": 8, "*": 9, "/": 9, "%": 9}


class P:
    def __init__(self, toks):
        self.t = toks
        self.i = 0

    def peek(self):
        return self.t[self.i] if self.i < len(self.t) else ("eof", None)

    def eat(self, kind=None, val=None):
        k, v = self.peek()
        if (kind and k != kind) or (val is not None and v != val):
            raise Unsupported("expected %s %s got %s %s" % (kind, val, k, v))
        self.i += 1
        return v

    def expr(self, minp=0):
        lhs = self.unary()
        while True:
            k, v = self.peek()
            if k == "id" and v == "as":
                self.eat()
                ty = self.eat("id")
                lhs = ("cast", ty, lhs)
                continue
            if k == "op" and v in BINPREC and BINPREC[v] > minp:
                self.eat()
                rhs = self.expr(BINPREC[v])
                lhs = ("bin", v, lhs, rhs)
                continue
            return lhs

    def unary(self):
        k, v = self.peek()
        if k == "op" and v == "!":
            self.eat()
            return ("not", self.unary())
        if k == "op" and v == "-":
            self.eat()
            return ("neg", self.unary())
        return self.postfix(self.atom())

    def postfix(self, e):
        while True:
            k, v = self.peek()
            if k == "op" and v == ".":
                self.eat()
                name = self.eat("id")
                args = []
                if self.peek() == ("op", "("):
                    self.eat()
                    while self.peek() != ("op", ")"):
                        args.append(self.expr())
                        if self.peek() == ("op", ","):
                            self.eat()
                    self.eat("op", ")")
                e = ("method", name, e, args)
            else:
                return e

    def atom(self):
        k, v = self.peek()
        if k == "num":
            self.eat()
            return ("num", v)
        if k == "chr":
            self.eat()
            return ("chr", v)
        if k == "str":
            self.eat()
            return ("str", v)
        if k == "id":
            self.eat()
            if self.peek() == ("op", "("):
                self.eat()
                args = []
                while self.peek() != ("op", ")"):
                    args.append(self.expr())
                    if self.peek() == ("op", ","):
                        self.eat()
                self.eat("op", ")")
                return ("call", v, args)
            return ("var", v)
        if k == "op" and v == "(":
            self.eat()
            items = [self.expr()]
            while self.peek() == ("op", ","):
                self.eat()
                if self.peek() == ("op", ")"):
                    break
                items.append(self.expr())
            self.eat("op", ")")
            return items[0] if len(items) == 1 else ("tuple", items)
        raise Unsupported("unexpected token %s %s" % (k, v))


def parse_expr(s):
    p = P(tokenize(s))
    e = p.expr()
    if p.peek()[0] != "eof":
        raise Unsupported("trailing tokens in: " + s)
    return e


LEANOP = {"+": "+", "-": "-", "*": "*", "/": "/", "%": "%", "&": "&&&", "|": "|||", "^": "^^^",
          "<<": "<<<", ">>": ">>>"}
CMP = {"==": "==", "!=": "!=", "<": "<", "<=": "≤", ">": ">", ">=": "≥"}


def to_lean(e, env=None, width=None):
    """env: Rust identifier -> Lean term.  width: bit width for `!` on integers (u8 -> 8)."""
    env = env or {}
    k = e[0]
    if k == "num":
        return str(e[1])
    if k == "chr":
        return str(ord(e[1]))
    if k == "var":
        if e[1] in env:
            return env[e[1]]
        if e[1] in ("true", "false"):
            return e[1]
        raise Unsupported("unknown identifier " + e[1])
    if k == "bin":
        op = e[1]
        a, b = to_lean(e[2], env, width), to_lean(e[3], env, width)
        if op in LEANOP:
            return "(%s %s %s)" % (a, LEANOP[op], b)
        if op in CMP:
            if op in ("==", "!="):
                return "(%s %s %s)" % (a, CMP[op], b)
            return "(decide (%s %s %s))" % (a, CMP[op], b)
        if op == "&&":
            return "(%s && %s)" % (a, b)
        if op == "||":
            return "(%s || %s)" % (a, b)
    if k == "not":
        inner = e[1]
        if is_bool(inner):
            return "(!%s)" % to_lean(inner, env, width)
        if width is None:
            raise Unsupported("integer `!` without a width")
        return "(%d - %s)" % ((1 << width) - 1, to_lean(inner, env, width))
    if k == "cast":
        inner = to_lean(e[2], env, width)
        if is_bool(e[2]):
            return "(if %s then 1 else 0)" % inner
        return inner
    if k == "tuple":
        return "(" + ", ".join(to_lean(x, env, width) for x in e[1]) + ")"
    raise Unsupported("cannot translate %s" % (e,))


def is_bool(e):
    k = e[0]
    if k == "bin":
        return e[1] in CMP or e[1] in ("&&", "||")
    if k == "not":
        return is_bool(e[1])
    if k == "var":
        return e[1] in ("true", "false")
    if k == "call":
        return e[1].startswith("is_") or e[1].split("::")[-1].startswith("is_")
    if k == "method":
        return e[1].startswith("is_")
    return False
