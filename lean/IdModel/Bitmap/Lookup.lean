import IdModel.Bitmap.Model
import IdModel.Doc.Model
/-!
`JwtCredentialValidatorUtils::check_revocation_bitmap_status` resolves the bitmap service IN THE ISSUER DOCUMENT by the
full id of the credential's status entry (`issuer.resolve_service(status.id())`, a `DIDUrlQuery` built from the DID
URL: the DID must match, and the fragment) and decodes its endpoint.  This file connects the status decision of
`IdModel.Bitmap` (where the looked-up service was a parameter) to the document model of C04.
A service's `body` names its decoded content through `sets` (`none`: not a bitmap service / undecodable).
-/
namespace IdModel.Bitmap
open IdModel.Doc

/-- `resolve_revocation_bitmap(status.id().into())` on the issuer document -/
def resolveBitmapService (doc : Doc) (sets : Nat → Option (List Nat)) (statusId : Id) : Option (List Nat) :=
  match resolveService doc (Query.ofId statusId) with
  | none => none
  | some s => sets s.body

/-- `check_status` with the lookup done in the issuer document -/
def checkStatusDoc (sc : StatusCheck) (status : Option StatusView) (issuerFound : Bool) (doc : Doc)
    (sets : Nat → Option (List Nat)) (statusId : Id) : VRes :=
  checkStatus sc status issuerFound (resolveBitmapService doc sets statusId)

end IdModel.Bitmap
