import IdModel.Doc.Resolve
/-!
# C04 — DID document id-uniqueness and round trip hold across every mutation history

Property theorems only; helper lemmas are in `IdModel.Doc.{Gate,Lemmas,Resolve}`.

The model (`IdModel.Doc.Model`) transliterates `CoreDocument`'s collections, the gate
`check_id_constraints`, the checked mutators and the resolution functions.  The search orders over the five
relationship sets and the clauses of the refusal tests are regenerated from the Rust source on every run
(`IdModel.Gen.C04`); the proofs below use them through `rfl`/`decide`, so that dropping a clause or a set
breaks a theorem.
-/
namespace IdModel.Props.C04
open IdModel.Doc IdModel.OSet

/-- **what the invariant says about the contents** — the three clauses of the property statement:
no two embedded verification methods with one id; no relationship reference aliasing an embedded method;
no service id equal to a method id (or reference) -/
theorem inv_statement (d : Doc) (h : Inv d) :
    (allMethods d).Pairwise (fun a b => a.id ≠ b.id) ∧
    (∀ r r' i m, MRef.refer i ∈ d.getRel r → MRef.embed m ∈ d.getRel r' → i ≠ m.id) ∧
    (∀ s ∈ d.service, (∀ m ∈ allMethods d, m.id ≠ s.id) ∧ (∀ e ∈ relationships d, e.id ≠ s.id)) := by
  refine ⟨?_, ?_, ?_⟩
  · unfold allMethods
    rw [List.pairwise_append]
    refine ⟨?_, ?_, ?_⟩
    · have := h.uVm
      unfold Uniq List.Nodup at this
      rwa [List.pairwise_map] at this
    · rw [List.pairwise_flatMap]
      constructor
      · intro r _
        have := h.uRel r
        unfold Uniq List.Nodup at this
        rw [List.pairwise_map] at this
        refine List.Pairwise.filterMap MRef.embedded? ?_ this
        intro a a' hne b hb b' hb'
        cases a with
        | refer _ => cases hb
        | embed x =>
          cases a' with
          | refer _ => cases hb'
          | embed y =>
            simp only [MRef.embedded?, Option.some.injEq] at hb hb'
            subst hb hb'
            exact hne
      · have hnd : (relList Gen.C04.allMethodsOrder).Nodup := by decide
        refine hnd.imp ?_
        intro r r' hne x hx y hy hid
        rw [List.mem_filterMap] at hx hy
        obtain ⟨ex, hex, hx⟩ := hx
        obtain ⟨ey, hey, hy⟩ := hy
        cases ex with
        | refer _ => cases hx
        | embed x' =>
          cases ey with
          | refer _ => cases hy
          | embed y' =>
            simp only [MRef.embedded?, Option.some.injEq] at hx hy
            subst hx hy
            have := h.cross r r' hne _ hex _ hey hid
            cases this.1
    · intro v hv x hx hid
      rw [List.mem_flatMap] at hx
      obtain ⟨r, _, hx⟩ := hx
      rw [List.mem_filterMap] at hx
      obtain ⟨e, he, hx⟩ := hx
      cases e with
      | refer _ => cases hx
      | embed x' =>
        simp only [MRef.embedded?, Option.some.injEq] at hx
        subst hx
        exact h.vmEmb v hv r _ he rfl hid.symm
  · intro r r' i m hr he heq
    by_cases hrr : r = r'
    · subst hrr
      have := Doc.uniq_eq MRef.id _ (h.uRel r) _ hr _ he heq
      cases this
    · have := h.cross r r' hrr _ hr _ he heq
      cases this.2
  · intro s hs
    constructor
    · intro m hm
      rcases (mem_allMethods d m).1 hm with hv | ⟨r, hr⟩
      · exact h.svcVm s hs m hv
      · exact h.svcRel s hs r _ hr
    · intro e he
      obtain ⟨r, hr⟩ := (mem_relationships d e).1 he
      exact h.svcRel s hs r e hr

/-- **the gate**: a document is accepted from its serialised collections exactly when they already satisfy
the invariant (set-uniqueness from `OrderedSet: TryFrom<Vec>`, the rest from `check_id_constraints`,
whose `HashMap` loops are proved equivalent to the pairwise conditions in `Doc.Gate`) -/
theorem gate_exact (x : Data) (d : Doc) : fromData x = some d ↔ (d.toData = x ∧ Inv d) :=
  fromData_iff x d

/-- every checked mutation keeps the invariant -/
theorem step_preserves_inv (d : Doc) (op : Op) (hwf : op.WF) (h : Inv d) : Inv (step d op).1 :=
  step_inv d op hwf h

/-- **every reachable state**: from any accepted document (deserialised, built or empty) and any finite
sequence of checked mutations -/
theorem reachable_inv (x : Data) (d : Doc) (ops : List Op) (hd : fromData x = some d)
    (hwf : ∀ op ∈ ops, op.WF) : Inv (run d ops) :=
  run_inv ops d hwf ((fromData_iff x d).1 hd).2

/-- **round trip after every step**: the state's own serialisation is accepted again and gives the same
document (model-level content of "serialises to JSON that deserialises to an equal document") -/
theorem reachable_roundtrip (x : Data) (d : Doc) (ops : List Op) (hd : fromData x = some d)
    (hwf : ∀ op ∈ ops, op.WF) : fromData (run d ops).toData = some (run d ops) :=
  (fromData_iff _ _).2 ⟨rfl, reachable_inv x d ops hd hwf⟩

/-- the empty document is accepted -/
theorem empty_accepted (i : Nat) : fromData ⟨i, [], [], [], [], [], [], []⟩ = some ⟨i, [], [], [], [], [], [], []⟩ :=
  rfl

/-- **a refused operation leaves the document unchanged** -/
theorem refused_unchanged (d : Doc) (op : Op) (h : (step d op).2.isErr = true) : (step d op).1 = d :=
  step_refused_unchanged d op h

/-- **resolution = lookup in the set of entries** (full id, no scope): the unique embedded method with
that id, wherever it is embedded -/
theorem resolve_full_id (d : Doc) (k : Id) (hi : Inv d) (hk : k.frag ≠ none) (hd : Distinct d k) :
    resolveMethod d (Query.ofId k) none = (allMethods d).find? (fun x => decide (x.id = k)) :=
  resolve_unscoped d k hi hk hd

/-- … with scope `VerificationMethod` -/
theorem resolve_full_id_vm (d : Doc) (k : Id) (hk : k.frag ≠ none) (hd : Distinct d k) :
    resolveMethod d (Query.ofId k) (some .vm) = d.vm.find? (fun x => decide (x.id = k)) :=
  resolve_vm_scope d k hk hd

/-- … with a relationship scope: the entry of that relationship; a reference resolves to the referenced
general-purpose method -/
theorem resolve_full_id_rel (d : Doc) (k : Id) (r : Rel) (hk : k.frag ≠ none) (hd : Distinct d k) :
    resolveMethod d (Query.ofId k) (some (.rel r)) =
      match (d.getRel r).find? (fun e => decide (e.id = k)) with
      | some (.embed m) => some m
      | some (.refer _) => d.vm.find? (fun x => decide (x.id = k))
      | none => none :=
  resolve_rel_scope d k r hk hd

/-- services -/
theorem resolve_service_full_id (d : Doc) (k : Id) (hk : k.frag ≠ none) (hd : Distinct d k) :
    resolveService d (Query.ofId k) = d.service.find? (fun s => decide (s.id = k)) :=
  resolve_service_spec d k hk hd

/-- a bare fragment resolves like the full id when every method id carries the same DID -/
theorem resolve_by_fragment (d : Doc) (D f : Nat) (s : Option Scope)
    (hv : ∀ v ∈ d.vm, v.id.did = D) (hr : ∀ r, ∀ e ∈ d.getRel r, e.id.did = D) :
    resolveMethod d ⟨none, some f⟩ s = resolveMethod d ⟨some D, some f⟩ s :=
  resolve_fragment_only d D f s hv hr

/-- what was resolved is an embedded method of the document whose id matches the query (no hypotheses) -/
theorem resolve_sound (d : Doc) (q : Query) (s : Option Scope) (m : Method)
    (h : resolveMethod d q s = some m) : m ∈ allMethods d := by
  have hvm : ∀ q', query Method.id d.vm q' = some m → m ∈ allMethods d :=
    fun q' h' => (mem_allMethods d m).2 (Or.inl (query_some_mem _ _ _ _ h').1)
  cases s with
  | none =>
    simp only [resolveMethod, resolveMethodInner] at h
    cases hfr : firstRel d q (relList Gen.C04.resolveOrder) with
    | none => rw [hfr] at h; exact hvm _ h
    | some e =>
      rw [hfr] at h
      obtain ⟨r, _, hq⟩ := firstRel_some d q e _ hfr
      cases e with
      | embed x =>
        simp only [Option.some.injEq] at h
        subst h
        exact (mem_allMethods d x).2 (Or.inr ⟨r, (query_some_mem _ _ _ _ hq).1⟩)
      | refer i => exact hvm _ h
  | some sc =>
    cases sc with
    | vm => exact hvm _ h
    | rel r =>
      simp only [resolveMethod] at h
      cases hq : query MRef.id (d.getRel r) q with
      | none => rw [hq] at h; cases h
      | some e =>
        rw [hq] at h
        cases e with
        | embed x =>
          simp only [resolveMethodRef, Option.some.injEq] at h
          subst h
          exact (mem_allMethods d x).2 (Or.inr ⟨r, (query_some_mem _ _ _ _ hq).1⟩)
        | refer i => exact hvm _ h

/-! ## why the two id-equality clauses of `insert_method` are needed

With only the two lookups the code had before (`resolve_method(id)` and `service().query(id)`), a document
holding a reference that does not resolve admits an insertion whose result is refused by the gate. -/

/-- a legal document: `authentication` holds a reference `did0#1` to a method the document does not contain -/
def danglingDoc : Doc := ⟨0, [], [.refer ⟨0, 0, some 1⟩], [], [], [], [], []⟩

theorem danglingDoc_accepted : fromData danglingDoc.toData = some danglingDoc := by decide

/-- embedding a method with that id under `assertionMethod` passed the old test and yields a document whose
own serialisation is no longer accepted -/
theorem old_insert_guard_breaks_roundtrip :
    let r := insertMethodG true true false false danglingDoc ⟨⟨0, 0, some 1⟩, 7⟩ (.rel .asrt)
    r.2 = .ok ∧ fromData r.1.toData = none := by decide

/-- the current test refuses it -/
theorem insert_guard_refuses_alias :
    (insertMethod danglingDoc ⟨⟨0, 0, some 1⟩, 7⟩ (.rel .asrt)).2 = .errMethodInsertion := by decide

/-- … and still allows the method to be added as a general-purpose method, which makes the reference resolve -/
theorem insert_guard_allows_general :
    (insertMethod danglingDoc ⟨⟨0, 0, some 1⟩, 7⟩ .vm).2 = .ok ∧
    resolveMethod (insertMethod danglingDoc ⟨⟨0, 0, some 1⟩, 7⟩ .vm).1 (Query.ofId ⟨0, 0, some 1⟩) (some (.rel .auth))
      = some ⟨⟨0, 0, some 1⟩, 7⟩ := by decide

/-! ## non-vacuity: a concrete history through every operation kind -/

def m1 : Method := ⟨⟨0, 0, some 1⟩, 11⟩
def m2 : Method := ⟨⟨0, 0, some 2⟩, 12⟩
def s3 : Service := ⟨⟨0, 0, some 3⟩, 13⟩

def demoOps : List Op :=
  [.insertMethod m1 .vm, .insertMethod m2 (.rel .keyAgr), .attach ⟨none, some 1⟩ .auth, .insertService s3,
   .insertMethod ⟨⟨0, 0, some 3⟩, 14⟩ .vm, .detach (Query.ofId m1.id) .auth, .removeMethod m2.id, .removeService s3.id]

example : ∀ op ∈ demoOps, op.WF := by
  intro op hop
  simp only [demoOps, List.mem_cons, List.not_mem_nil, or_false] at hop
  rcases hop with rfl | rfl | rfl | rfl | rfl | rfl | rfl | rfl <;> simp [Op.WF, m1, m2, s3]

example : run ⟨0, [], [], [], [], [], [], []⟩ (demoOps.take 5) =
    ⟨0, [m1], [.refer m1.id], [], [.embed m2], [], [], [s3]⟩ := by decide

example : resolveMethod (run ⟨0, [], [], [], [], [], [], []⟩ (demoOps.take 5)) (Query.ofId m1.id) (some (.rel .auth))
    = some m1 := by decide

end IdModel.Props.C04
